#!/bin/sh
# Offline build of the Lean library (models, specs, proofs) and the driver executable.
set -e
HERE="$(cd "$(dirname "$0")" && pwd)"
cd "$HERE"
VERIF_REPO="${VERIF_REPO:-/repo}" /venv/bin/python harness/translate.py > /dev/null
cd lean
lake build driver
lake build DebInspector
