"""Generator of DEP-5 documents by structure (shared by C09 and C13) and observation adapters."""
import attr
from protocol import Exc
from debian_inspector import copyright as cr
from debian_inspector import debcon
import cobs

PARA_LINES = ['This program is free software', 'you can redistribute it and/or modify', 'it under the terms of the GNU GPL: v2', 'é ü non-ascii words',
              'See /usr/share/common-licenses/GPL-2', 'x', 'a  b', '(c) 2001', 'http://example.org:80/x', '-- dashes --', 'Note: see GPL-2', 'Copyright: 2001 quoted in a text', 'License : spaced colon', 'x:']
VERB_LINES = ['indented code', ' more indented', 'x = 1;', '. dot first', '.', '..', ' .', '\u00a0nbsp first', '\u3000ideographic first', '\t tab then text', '\u2003\u00a0x']
STATEMENTS = ['2001 Foo Bar', '2001-2003, 2005 Foo <f@x.org>', 'Foo Bar', '(C) 2001 X', '2001, Foo', '1999', '2001-2003 a b c d', 'Copyright Holder Inc.', '2001/2002 X',
              'Copyright (c) 2004-2006 Joe Bloggs', '(C) Copyright IBM Corp. 2001', 'copyright 2001 x', '\u00a9 2019 Y', 'Copyright: 2001 Z',
              '\uff12\uff10\uff11\uff18 \u5c71\u7530\u592a\u90ce', '\u0662\u0660\u0660\u0661 x', '2018\u20102019 X', '\u00b2 squared', '2001\uff0d2003 Y', '\u0967\u096f\u096f\u096f',
              '1991, 1992, 1993,', '1995, 1996, 1997,', '1999 FSF, Inc.', '2001,', '2002-2004,', 'Foo,']
PATTERNS = ['*', 'src/*', 'debian/*', 'a.c', 'doc/*.txt', 'x?y', 'data/table,v', 'vendor/a,b.min.js', 'win32\\', 'a\\*b', ',']
NAMES = ['GPL-2+', 'MIT', 'Apache-2.0', 'GPL-2+ with OpenSSL exception', 'public-domain', 'BSD-3-clause or GPL-2', 'GPL-2+   with   OpenSSL exception', 'GPL-2+  or  MIT', 'MIT ,', 'a\tb']
FORMATS = ['https://www.debian.org/doc/packaging-manuals/copyright-format/1.0/', 'http://www.debian.org/doc/packaging-manuals/copyright-format/1.0/']
EXTRA_LABELS = ['X-Foo', 'Origin', 'Bug-Debian', 'note', 'X-Debian--Note', 'Trailing-', 'a--b-', 'X-SHA1-sum', 'md5sum']


def case_label(rng, label):
    if label.lower() == 'license' and rng.random() < 0.3:
        label = 'Licence'
    r = rng.random()
    if r < 0.15:
        return label.upper()
    if r < 0.3:
        return label.lower()
    return label


def block(rng, n=None):
    n = rng.choice((0, 1, 2, 3, 5)) if n is None else n
    lines = []
    for i in range(n):
        r = rng.random()
        if (i == 0 and r < 0.75) or (i > 0 and r < 0.6):
            lines.append([0, rng.choice(PARA_LINES)])
        elif i == 0:
            lines.append([2, rng.choice(VERB_LINES)])    # a text that starts with a verbatim line
        elif r < 0.8:
            lines.append([1, ''])
        else:
            lines.append([2, rng.choice(VERB_LINES)])
    while lines and lines[-1][0] == 1:
        lines.pop()
    return lines


def f_single(rng, label, value):
    return [case_label(rng, label), 0, value, []]


INDENTS = ['', '', ' ', '   ', ' ' * 10]


def item_line(rng, text):
    """a continuation line of a list-valued field: paragraph-text layout (kind 0) or free layout (kind 3: any further
    indentation, a leading full stop allowed)"""
    if text.startswith('.') or rng.random() < 0.4:
        return [3, rng.choice(INDENTS) + text]
    return [0, text]


def f_list(rng, label, pool):
    pool = pool + ['.hidden', '.', '..', '.git/*']
    first = ' '.join(rng.choice(pool) for _ in range(rng.choice((1, 1, 2, 3))))
    conts = [item_line(rng, ' '.join(rng.choice(pool) for _ in range(rng.choice((1, 2))))) for _ in range(rng.choice((0, 0, 1, 2)))]
    return [case_label(rng, label), 1, first, conts]


def f_copyright(rng):
    pool = STATEMENTS + ['. dotted holder', '.']
    return [case_label(rng, 'Copyright'), 2, rng.choice(STATEMENTS), [item_line(rng, rng.choice(pool)) for _ in range(rng.choice((0, 0, 1, 3)))]]


CONTACTS = ['John Doe <john@example.org>', 'Jane Roe <jane@example.org>, J. Hacker <j@x.org>', 'http://example.org/contact', 'John Doe <john@example.org> ,',
            'a@b,,', 'Team  Name   <t@x.org>', '"Doe, John" <jd@x.org>', 'Jöhn <j@x.org> (remark)', 'unclosed <a@b', ', leading comma', 'x;y', 'mailto:a@b',
            '"Johnny \\"The Fox\\" Doe" <johnny@example.org>', '"\\"Q\\"" <q@x.org>', 'A (a \\(nested\\) c) <a@x.org>', '"a\\\\b" <c@d>', 'Build Daemon <buildd>']


def f_lines(rng, label):
    return [case_label(rng, label), 6, rng.choice(CONTACTS), [[0, rng.choice(CONTACTS)] for _ in range(rng.choice((0, 0, 1, 2)))]]


def f_license(rng, with_text):
    return [case_label(rng, 'License'), 3, rng.choice(NAMES), block(rng, rng.choice((1, 2, 4, 6))) if with_text else []]


def f_text(rng, label):
    first = rng.choice(('', '', rng.choice(PARA_LINES)))
    b = block(rng)
    if first and b and rng.random() < 0.4:
        # a text that starts on the declaration line may go on with any kind of line
        b[0] = rng.choice(([1, ''], [2, rng.choice(VERB_LINES)]))
        while b and b[-1][0] == 1:
            b.pop()
    if not first and not b:
        b = [[0, rng.choice(PARA_LINES)]]
    return [case_label(rng, label), 4, first, b]


def f_extra(rng, used):
    label = rng.choice([l for l in EXTRA_LABELS if l.lower() not in used] or ['X-Other'])
    used.add(label.lower())
    conts = [[0, rng.choice(PARA_LINES)] for _ in range(rng.choice((0, 0, 0, 1, 2)))]
    return [case_label(rng, label), 5, rng.choice(PARA_LINES), conts]


def doc(rng, allow_multiline_extra=True):
    paras = []
    used = set()
    header = [f_single(rng, 'Format', rng.choice(FORMATS))]
    if rng.random() < 0.5:
        header.append(f_single(rng, 'Upstream-Name', rng.choice(('foo', 'Foo Bar', 'lib-x'))))
    if rng.random() < 0.35:
        header.append(f_lines(rng, 'Upstream-Contact'))
    for lab in ('Source', 'Comment', 'Disclaimer'):
        if rng.random() < 0.3:
            header.append(f_text(rng, lab))
    if rng.random() < 0.2:
        header.append(f_copyright(rng))
    if rng.random() < 0.2:
        header.append(f_license(rng, rng.random() < 0.5))
    if rng.random() < 0.2:
        header.append(f_list(rng, 'Files-Excluded', PATTERNS))
    if rng.random() < 0.3:
        header.append(f_extra(rng, used))
    rest = header[1:]
    rng.shuffle(rest)
    paras.append([header[0]] + rest if rng.random() < 0.7 else rest + [header[0]])
    for _ in range(rng.choice((0, 1, 1, 2, 3, 4))):
        used = set()
        if rng.random() < 0.65:
            p = [f_list(rng, 'Files', PATTERNS), f_copyright(rng), f_license(rng, rng.random() < 0.5)]
            if rng.random() < 0.3:
                p.append(f_text(rng, 'Comment'))
        else:
            p = [f_license(rng, True)]
            if rng.random() < 0.3:
                p.append(f_text(rng, 'Comment'))
        if rng.random() < 0.25:
            p.append(f_extra(rng, used))
        rng.shuffle(p)
        paras.append(p)
        # the same paragraph again, verbatim, once or several times in a row (a license text quoted for every component)
        if rng.random() < 0.12:
            import copy
            for _k in range(rng.choice((1, 2, 2, 3))):
                paras.append(copy.deepcopy(p))
    if len(paras) >= 4 and rng.random() < 0.1:
        # ... or alternating: A B A B
        import copy
        paras.extend(copy.deepcopy(paras[-2:]))
    if not allow_multiline_extra:
        for p in paras:
            for f in p:
                if f[1] == 5:
                    f[3] = []
    seps = [rng.choice((1, 1, 2, 3)) for _ in paras]
    return [paras, seps, render(paras, seps)]


def raw_line(l):
    return {0: ' ' + l[1], 1: ' .', 2: '  ' + l[1], 3: ' ' + l[1]}[l[0]]


def render(paras, seps):
    out = ''
    for i, p in enumerate(paras):
        lines = []
        for label, kind, first, conts in p:
            lines.append(label + (': ' + first if first else ':'))
            lines.extend(raw_line(l) for l in conts)
        out += '\n'.join(lines) + '\n'
        if i < len(paras) - 1:
            out += '\n' * seps[i]
    return out


def normalize(op, inp):
    return [inp[0], inp[1], render(inp[0], inp[1])]


def valid_input(op, inp):
    try:
        paras, seps, text = inp
        assert len(seps) == len(paras)
        for p in paras:
            for label, kind, first, conts in p:
                assert isinstance(label, str) and isinstance(first, str) and kind in (0, 1, 2, 3, 4, 5, 6)
                for k, c in conts:
                    assert k in (0, 1, 2, 3) and isinstance(c, str)
        return (text == render(paras, seps) or not paras) and all(isinstance(n, int) and n >= 1 for n in seps)
    except Exception:
        return False


def enc_field(v):
    n = type(v).__name__
    if n == 'SingleLineField':
        return ['s', v.value]
    if n == 'LineSeparatedField':
        return ['l', list(v.values)]
    if n == 'AnyWhiteSpaceSeparatedField':
        return ['w', list(v.values)]
    if n == 'FormattedTextField':
        return ['f', v.text if isinstance(v.text, str) else None]
    if n == 'CopyrightField':
        return ['c', [[s.year_range, s.holder] for s in v.statements]]
    if n == 'LicenseField':
        return ['L', v.name, v.text if isinstance(v.text, str) else None]
    raise TypeError(n)


def typed_obs(c):
    out = []
    for p in c.paragraphs:
        fields = []
        for name in attr.fields_dict(type(p)):
            if name in ('extra_data', 'line_numbers_by_field'):
                continue
            fields.append([name, enc_field(getattr(p, name))])
        out.append([cobs.KINDS[type(p).__name__], fields, [[k, cobs.dv(v)] for k, v in p.extra_data.items()]])
    return out
