"""covreport.py: which executable lines of the library did the streams of the checks never execute?

    VERIF_COVER=1 ./check Cnn --tier quick      (for every property; writes evidence/coverage/Cnn.json)
    /venv/bin/python harness/covreport.py       (union over the properties, per file and per function)

The report is not part of any verdict.  It shows where the generators of the correspondence streams do not reach, i.e.
where a change to the code could not be seen by a correspondence or by the executable specification; the lines it lists
are either outside the twenty properties (I/O helpers, reprs, command-line glue) or a reason to widen a generator.
"""
import ast
import json
import os
import sys

HERE = os.path.dirname(os.path.abspath(__file__))
ROOT = os.path.dirname(HERE)
REPO = os.environ.get('VERIF_REPO', '/repo')
SRC = os.path.join(REPO, 'src')


def executable_lines(path):
    """line numbers that hold the first line of a statement (docstrings and definitions' headers excluded)"""
    tree = ast.parse(open(path, encoding='utf-8').read())
    lines = {}
    def visit(node, func):
        for child in ast.iter_child_nodes(node):
            f = func
            if isinstance(child, (ast.FunctionDef, ast.AsyncFunctionDef, ast.ClassDef)):
                f = (func + '.' if func else '') + child.name
            if isinstance(child, ast.stmt) and not isinstance(child, (ast.FunctionDef, ast.AsyncFunctionDef, ast.ClassDef)):
                is_doc = (isinstance(child, ast.Expr) and isinstance(child.value, ast.Constant) and isinstance(child.value.value, str))
                if not is_doc and func:
                    lines[child.lineno] = func
            visit(child, f)
    visit(tree, '')
    return lines


def main():
    covdir = os.path.join(ROOT, 'evidence', 'coverage')
    hit = {}
    per_prop = {}
    for fn in sorted(os.listdir(covdir)) if os.path.isdir(covdir) else []:
        if not fn.endswith('.json') or fn == 'SUMMARY.json':
            continue
        j = json.load(open(os.path.join(covdir, fn)))
        for f, ls in j['lines'].items():
            hit.setdefault(f, set()).update(ls)
            per_prop.setdefault(j['property_id'], {}).setdefault(f, 0)
            per_prop[j['property_id']][f] += len(ls)
    out = {'properties': sorted(per_prop), 'files': {}}
    for dirpath, _d, files in os.walk(os.path.join(SRC, 'debian_inspector')):
        for f in sorted(files):
            if not f.endswith('.py'):
                continue
            path = os.path.join(dirpath, f)
            rel = os.path.relpath(path, SRC)
            ex = executable_lines(path)
            h = hit.get(rel, set())
            missed = {}
            for ln, func in sorted(ex.items()):
                if ln not in h:
                    missed.setdefault(func, []).append(ln)
            out['files'][rel] = {'statements_in_functions': len(ex), 'executed': sum(1 for ln in ex if ln in h),
                                 'never_executed': missed}
    json.dump(out, open(os.path.join(covdir, 'SUMMARY.json'), 'w'), indent=1)
    for rel, r in sorted(out['files'].items()):
        print('%-40s %4d / %4d statements executed' % (rel, r['executed'], r['statements_in_functions']))
        if '-v' in sys.argv:
            for func, ls in r['never_executed'].items():
                print('      %-60s %s' % (func, ls))


if __name__ == '__main__':
    main()
