"""A result is a fresh object: ask twice, overwriting the first answer in place in between.

`twice(call, view, scramble)` returns the view of the first answer, or the marker exception `ResultAliased` when the second
answer - obtained after the first was overwritten - does not show the same view.  A function that memoises a mutable
result, or hands out a shared default object, is caught on the very input being observed, and the replay reproduces it.
"""
from protocol import Exc


def twice(call, view, scramble):
    r = call()
    v = view(r)
    try:
        scramble(r)
    except Exception:
        pass
    try:
        again = view(call())
    except Exception as e:
        again = Exc(type(e).__name__)
    if again != v:
        return Exc('ResultAliased')
    return v


def scramble_attrs(obj, **values):
    for k, val in values.items():
        try:
            setattr(obj, k, val)
        except Exception:
            pass
