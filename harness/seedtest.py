"""
Self-test of the checks against a seeded change (never run by a registered check).

  seedtest.py confirm <dir>             confirm the change: demo passes on the clean tree, the unedited test-suite passes
                                        with the change, the demo fails with the change          (scratch worktree, removed after)
  seedtest.py detect  <dir> Cnn [Cmm…]  run ./check Cnn --tier quick against a scratch worktree with the change applied
                                        (VERIF_REPO=<worktree>, in a scratch copy of /verif so that Generated/ and .lake of the
                                        real tree are left alone); prints rc and the VIOLATION line
  <dir> holds patch.diff and demo.py.
"""
import json
import os
import shutil
import subprocess
import sys
import time

HERE = os.path.dirname(os.path.abspath(__file__))
ROOT = os.path.dirname(HERE)
REPO = '/repo'
PY = '/venv/bin/python'
SCRATCH = os.environ.get('SEED_SCRATCH', '/tmp/seedtest')


def sh(cmd, cwd=None, env=None, timeout=3600):
    p = subprocess.run(cmd, cwd=cwd, env=env, stdout=subprocess.PIPE, stderr=subprocess.STDOUT, timeout=timeout)
    return p.returncode, p.stdout.decode('utf-8', 'replace')


def worktree(tag):
    wt = os.path.join(SCRATCH, 'wt-%s-%d' % (tag, os.getpid()))
    os.makedirs(SCRATCH, exist_ok=True)
    rc, out = sh(['git', '-C', REPO, 'worktree', 'add', '-q', '--detach', wt, 'HEAD'])
    if rc:
        raise SystemExit(out)
    return wt


def drop(wt):
    sh(['git', '-C', REPO, 'worktree', 'remove', '--force', wt])
    shutil.rmtree(wt, ignore_errors=True)
    sh(['git', '-C', REPO, 'worktree', 'prune'])


def confirm(d):
    d = os.path.abspath(d)
    tag = os.path.basename(d.rstrip('/')) or 'm'
    wt = worktree(tag)
    env = dict(os.environ, PYTHONPATH=os.path.join(wt, 'src'))
    res = {}
    try:
        demo = os.path.join(d, 'demo.py')
        rc, out = sh([PY, demo], cwd=wt, env=env, timeout=600)
        res['demo_clean_rc'] = rc
        rc, out = sh(['git', '-C', wt, 'apply', os.path.join(d, 'patch.diff')])
        res['apply_rc'] = rc
        if rc:
            res['apply_out'] = out[-500:]
        rc, out = sh([PY, '-m', 'pytest', '-q', '-p', 'no:cacheprovider'], cwd=wt, env=env, timeout=1800)
        res['tests_rc'] = rc
        res['tests_tail'] = out.strip().splitlines()[-1] if out.strip() else ''
        rc, out = sh([PY, demo], cwd=wt, env=env, timeout=600)
        res['demo_mutant_rc'] = rc
        res['demo_mutant_tail'] = out.strip().splitlines()[-1][:300] if out.strip() else ''
        res['confirmed'] = (res['demo_clean_rc'] == 0 and res['apply_rc'] == 0 and res['tests_rc'] == 0
                            and '138 passed' in res['tests_tail'] and res['demo_mutant_rc'] != 0)
    finally:
        drop(wt)
    return res


def verif_copy():
    """scratch copy of /verif (sources + build output), refreshed from the working tree"""
    dst = os.path.join(SCRATCH, 'verif-%d' % os.getpid())
    os.makedirs(dst, exist_ok=True)
    for _attempt in range(3):
        rc, out = sh(['rsync', '-a', '--delete', '--exclude', '.git', '--exclude', 'replays', '--exclude', 'seeded',
                      '--exclude', 'work', '--exclude', '__pycache__',
                      ROOT + '/', dst + '/'])
        if rc != 24:          # 24: a file vanished while a build was running in the source tree; copy again
            break
    if rc:
        raise SystemExit(out)
    return dst


def detect(d, pids, tier='quick', copy=None, seed=0):
    d = os.path.abspath(d)
    tag = os.path.basename(d.rstrip('/')) or 'm'
    wt = worktree(tag)
    out_all = {}
    try:
        rc, out = sh(['git', '-C', wt, 'apply', os.path.join(d, 'patch.diff')])
        if rc:
            raise SystemExit('patch does not apply: ' + out)
        vc = copy or verif_copy()
        env = dict(os.environ, VERIF_REPO=wt, VERIF_SEED=str(seed))
        for pid in pids:
            t0 = time.time()
            rc, out = sh([os.path.join(vc, 'check'), pid, '--tier', tier], cwd=vc, env=env, timeout=7200)
            lines = [l for l in out.splitlines() if l.startswith('VIOLATION') or l.startswith('KNOWN-FINDING')]
            r = {'rc': rc, 'lines': lines, 'wall_s': round(time.time() - t0, 1)}
            for l in lines:
                if l.startswith('VIOLATION') and 'replay=' in l:
                    rp = os.path.join(vc, l.split('replay=')[1].split()[0])
                    try:
                        j = json.load(open(rp))
                        r['replay_kind'] = j.get('kind')
                        r['replay_cases'] = j.get('cases', [])[:3]
                        r['undischarged'] = [u if isinstance(u, str) else u.get('theorem') for u in j.get('undischarged', [])]
                    except Exception as e:
                        r['replay_err'] = str(e)
            if rc not in (0, 1):
                r['tail'] = out[-1500:]
            out_all[pid] = r
    finally:
        drop(wt)
        if copy is None:
            shutil.rmtree(os.path.join(SCRATCH, 'verif-%d' % os.getpid()), ignore_errors=True)
    return out_all


def main(argv):
    if argv[0] == 'confirm':
        print(json.dumps(confirm(argv[1]), indent=1))
    elif argv[0] == 'detect':
        tier = os.environ.get('SEED_TIER', 'quick')
        print(json.dumps(detect(argv[1], argv[2:], tier=tier), indent=1))


if __name__ == '__main__':
    main(sys.argv[1:])
