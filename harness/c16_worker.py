"""Child process for C16: runs remove_signature on hex-encoded texts, one per line, so that a
run-away regular-expression match can be killed by the parent."""
import sys

try:  # die with the parent: a run-away match must not outlive a killed check
    import ctypes
    import signal
    ctypes.CDLL('libc.so.6').prctl(1, signal.SIGKILL)
except Exception:
    pass

sys.path.insert(0, sys.argv[1])
from debian_inspector import unsign  # noqa: E402

for line in sys.stdin:
    text = bytes.fromhex(line.strip()).decode('utf-8')
    try:
        r = unsign.remove_signature(text)
        if r is None:
            out = 'N'
        elif isinstance(r, str):
            out = 'S' + r.encode('utf-8').hex()
        else:
            out = 'ENotAString'
    except Exception as e:
        out = 'E' + type(e).__name__
    sys.stdout.write(out + '\n')
    sys.stdout.flush()
