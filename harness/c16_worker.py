"""Child process for C16: runs remove_signature on hex-encoded texts, one per line, so that a
run-away regular-expression match can be killed by the parent."""
import sys

try:  # die with the parent: a run-away match must not outlive a killed check
    import ctypes
    import signal
    ctypes.CDLL('libc.so.6').prctl(1, signal.SIGKILL)
except Exception:
    pass

sys.path.insert(0, sys.argv[1])
from debian_inspector import unsign  # noqa: E402
from debian_inspector import debcon  # noqa: E402


def routes_agree(text, r):
    """the other entry points of signature removal give what remove_signature gives: is_signed is a Boolean-like answer
    that is true whenever something was removed, and the paragraph readers that take remove_pgp_signature=True read the
    text remove_signature returns"""
    if r != text and not unsign.is_signed(text):
        return False
    if not text:
        return True
    want = debcon.get_paragraph_data(r) if r else {'unknown': r}
    got = debcon.get_paragraph_data(text, remove_pgp_signature=True)
    if list(got.items()) != list(want.items()):
        return False
    if list(debcon.Debian822(text).to_dict().items()) != list(want.items()):
        return False
    return list(debcon.get_paragraph_data(text).items()) == list(debcon.get_paragraph_data(text, remove_pgp_signature=False).items())

for line in sys.stdin:
    text = bytes.fromhex(line.strip()).decode('utf-8')
    try:
        r = unsign.remove_signature(text)
        if r is None:
            out = 'N'
        elif isinstance(r, str):
            out = 'S' + r.encode('utf-8').hex()
            if not routes_agree(text, r):
                out = 'ERoutesDisagree'
        else:
            out = 'ENotAString'
    except Exception as e:
        out = 'E' + type(e).__name__
    sys.stdout.write(out + '\n')
    sys.stdout.flush()
