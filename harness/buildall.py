"""buildall.py: `lake build` of every theorem module registered by the twenty property modules (run it after a change to
a shared lemma library: a check only builds the modules of its own property)."""
import importlib
import os
import subprocess
import sys

HERE = os.path.dirname(os.path.abspath(__file__))
sys.path.insert(0, HERE)
sys.path.insert(0, os.path.join(os.environ.get('VERIF_REPO', '/repo'), 'src'))
mods = []
for i in range(1, 21):
    for mod, _ in importlib.import_module('props.c%02d' % i).THEOREMS:
        if mod not in mods:
            mods.append(mod)
r = subprocess.run(['lake', 'build'] + mods, cwd=os.path.join(os.path.dirname(HERE), 'lean'), capture_output=True, text=True)
errs = [l for l in (r.stdout + r.stderr).splitlines() if 'error' in l.lower()]
print('%d modules, rc=%d' % (len(mods), r.returncode))
print('\n'.join(errs[:40]))
sys.exit(r.returncode)
