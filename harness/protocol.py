"""
Line protocol to the Lean driver (see lean/DebInspector/Proto.lean).

Python-side values:  str | int | list | None | bool | Exc(name)
"""
import os
import subprocess

HERE = os.path.dirname(os.path.abspath(__file__))
ROOT = os.path.dirname(HERE)
LEAN = os.path.join(ROOT, 'lean')
DRIVER = os.path.join(LEAN, '.lake', 'build', 'bin', 'driver')


class Exc(object):
    __slots__ = ('name',)

    def __init__(self, name):
        self.name = name

    def __eq__(self, other):
        return isinstance(other, Exc) and other.name == self.name

    def __hash__(self):
        return hash(('Exc', self.name))

    def __repr__(self):
        return 'Exc(%s)' % self.name


def enc(v, out=None):
    top = out is None
    if top:
        out = []
    if isinstance(v, bool):
        out.append('t' if v else 'f')
    elif isinstance(v, str):
        out.append('s' + '.'.join('%x' % ord(c) for c in v))
    elif isinstance(v, int):
        out.append('i%d' % v)
    elif v is None:
        out.append('n')
    elif isinstance(v, Exc):
        out.append('e' + v.name)
    elif isinstance(v, (list, tuple)):
        out.append('l%d' % len(v))
        for x in v:
            enc(x, out)
    else:
        raise TypeError('cannot encode %r' % (v,))
    if top:
        return ' '.join(out)


def dec_tokens(toks, pos=0):
    t = toks[pos]
    k = t[0]
    if k == 's':
        b = t[1:]
        return (''.join(chr(int(h, 16)) for h in b.split('.')) if b else ''), pos + 1
    if k == 'i':
        return int(t[1:]), pos + 1
    if k == 'l':
        n = int(t[1:])
        pos += 1
        xs = []
        for _ in range(n):
            x, pos = dec_tokens(toks, pos)
            xs.append(x)
        return xs, pos
    if t == 'n':
        return None, pos + 1
    if t == 't':
        return True, pos + 1
    if t == 'f':
        return False, pos + 1
    if k == 'e':
        return Exc(t[1:]), pos + 1
    raise ValueError('bad token %r' % t)


def dec(line):
    toks = line.split()
    v, pos = dec_tokens(toks, 0)
    if pos != len(toks):
        raise ValueError('trailing tokens')
    return v


def to_json(v):
    """JSON-friendly rendering of a protocol value (for replays and evidence)."""
    if isinstance(v, Exc):
        return {'exc': v.name}
    if isinstance(v, (list, tuple)):
        return [to_json(x) for x in v]
    return v


def from_json(v):
    if isinstance(v, dict) and set(v) == {'exc'}:
        return Exc(v['exc'])
    if isinstance(v, list):
        return [from_json(x) for x in v]
    return v


class DriverError(Exception):
    pass


def run_batch(lines):
    """lines: list of 'op <tokens>' strings. Returns list of decoded replies (or Exc on protocol error)."""
    if not lines:
        return []
    data = '\n'.join('%d %s' % (i, l) for i, l in enumerate(lines)) + '\n'
    p = subprocess.run([DRIVER], input=data.encode('ascii'), stdout=subprocess.PIPE, stderr=subprocess.PIPE)
    if p.returncode != 0:
        raise DriverError('driver exited %d: %s' % (p.returncode, p.stderr.decode('utf-8', 'replace')[-2000:]))
    out = p.stdout.decode('ascii').splitlines()
    if len(out) != len(lines):
        raise DriverError('driver returned %d lines for %d requests' % (len(out), len(lines)))
    res = []
    for i, o in enumerate(out):
        ident, _, rest = o.partition(' ')
        if ident != str(i):
            raise DriverError('driver reply out of order at %d: %r' % (i, o[:200]))
        res.append(dec(rest))
    return res


class Driver(object):
    """Interactive driver process (used while shrinking)."""

    def __init__(self):
        self.p = subprocess.Popen([DRIVER], stdin=subprocess.PIPE, stdout=subprocess.PIPE)

    def ask(self, line):
        self.p.stdin.write(('0 ' + line + '\n').encode('ascii'))
        self.p.stdin.flush()
        o = self.p.stdout.readline().decode('ascii')
        if not o:
            raise DriverError('driver died')
        return dec(o.partition(' ')[2])

    def close(self):
        try:
            self.p.stdin.close()
            self.p.wait(timeout=5)
        except Exception:
            self.p.kill()


class StopStreams(Exception):
    """raised by an observation adapter when going on is pointless (e.g. the implementation ran away on
    several inputs already): the runner keeps what was observed so far and skips the remaining cases"""
