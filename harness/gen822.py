"""Generators for deb822-like texts (shared by C05, C07, C10, C11, C12)."""
import itertools

LINE_KINDS = ['A: v', 'A:', 'Licence: x', ' c', '\tc', ' .', '', '  ', '\x0c', 'junk', 'a\x0cb: v', ' k: v', '# c', ' \xa0c', 'A:\xa0v\u3000']
TERMS = ['\n', '\r\n', '\r']


def render(lines, rng=None, term=None, final=None):
    if term is None:
        term = rng.choice(TERMS + ['mixed']) if rng else '\n'
    if final is None:
        final = rng.random() < 0.5 if rng else True
    out = []
    for i, l in enumerate(lines):
        out.append(l)
        if i < len(lines) - 1 or final:
            out.append(rng.choice(TERMS) if (term == 'mixed' and rng) else ('\n' if term == 'mixed' else term))
    return ''.join(out)


def exhaustive(max_lines, rng=None, sample=1):
    """all sequences of <= max_lines lines over LINE_KINDS, rendered with LF and a final newline;
    with rng: terminator and final newline chosen from the seed; sample=k keeps 1 in k of the longest"""
    for k in range(0, max_lines + 1):
        for i, combo in enumerate(itertools.product(LINE_KINDS, repeat=k)):
            if sample > 1 and k == max_lines and (i % sample) != (0 if rng is None else rng.randrange(sample)):
                continue
            if rng is None:
                yield render(combo, term='\n', final=True)
            else:
                yield render(combo, rng)


EDGE_CHARS = ['\ufeff', '\u200b', '\xa0', '\u2028', '\x85', '\x0c', '\x00', '\u0301', '\x1c', '\x0b', ' ', '\t', '\r', '\ufffe', '\u2060']


def edge_sweep(max_lines=2):
    """an invisible or white-space character before the first and after the last character of every short text
    (a byte-order mark, a zero-width space, a line separator...: what a reader may be tempted to drop)"""
    for t in exhaustive(max_lines):
        for ch in EDGE_CHARS:
            yield ch + t
            yield t + ch
            if t.endswith('\n'):
                yield t[:-1] + ch + '\n'


VOCAB = ['Files: *', 'Copyright: 2001 Foo', 'License: GPL-2+', 'License:', 'Licence: MIT', 'Comment: x y', 'Format: https://www.debian.org/doc/packaging-manuals/copyright-format/1.0/',
         'Source: http://x:80/y', ' text line', '  verbatim', ' .', ' .x', '', ' ', '\t', 'free text here', 'From me', 'Unknown: u', 'unknown-x: 2001 Foo Bar',
         'License-1: a', 'Files-1-1: q', 'Extra-Data: x', 'Line-Numbers-By-Field: y', 'X_Foo: bar', '2a: b', ':', 'a:b:c', 'İx: 1', 'Kelvin: k', 'a b', 'p\x0cq',
         '　 ideographic', '\x0b', 'tab\tinside', 'Upstream-Name: n', 'Upstream-Contact: a\n b', 'Files-Excluded: a b', 'Disclaimer: d', 'Format-Specification: f',
         '# package was debianized by', '#', '#x: y', ' # indented hash', 'Upstream-Contact: John Doe <john@example.org>, Jane Roe <jane@example.org>', 'Upstream-Contact: "Doe, John" <jd@x.org> (remark)',
         ' Jane <jane@x.org> ,', 'Upstream-Contact: unclosed <a@b', 'Unknown-a:x', 'Unknown-b:y z', 'unknown:w', 'Comment:nospace',
         'Licen\u017fe: MIT', '\u017fource: x', 'X-\u212a-\u0131: v', ' #!/bin/sh', ' # configure first', '\t#tab hash', 'Description: #hash first',
         'Copyright: \u00b2 Foo Inc.', ' \u2460 Baz', 'Copyright: 2\u2070\u00b9\u2079 Foo', 'Copyright: \u0662\u0660\u0662\u0660 Foo', 'Copyright: 0 Foo', ' 999 Bar', 'Copyright: \u00bd Foo',
         'Files: win32\\', 'Files: a\\*b c\\', ' trailing\\', 'Files: data/table,v doc/notes,final.txt', 'Files: *\\?']


def random_text(rng, max_lines=12):
    n = rng.randint(0, max_lines)
    lines = []
    for _ in range(n):
        r = rng.random()
        if r < 0.7:
            lines.append(rng.choice(VOCAB))
        elif r < 0.85:
            lines.append(rng.choice(LINE_KINDS))
        else:
            lines.append(''.join(rng.choice(' \t.:-aA1\x0c\xa0é') for _ in range(rng.randint(0, 8))))
    return render(lines, rng)
