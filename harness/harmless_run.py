import json, os, sys
sys.path.insert(0, os.path.dirname(os.path.abspath(__file__)))
import seedtest
MAP = {1: ['C01','C02','C03','C04','C17'], 2: ['C02','C04','C15','C14'], 3: ['C05','C06','C12','C09','C11'], 4: ['C05','C06','C07','C12','C10'],
       5: ['C20','C09','C13','C19','C08'], 6: ['C09','C07','C11','C10','C13'], 7: ['C14','C15','C19'], 8: ['C16'], 9: ['C17'], 10: ['C18']}
for i in range(1, 11):
    d = '/verif/seeded/harmless-r2h%d' % i
    res = seedtest.detect(d, MAP[i])
    out = {p: r['rc'] for p, r in res.items()}
    lines = {p: [l for l in r['lines'] if l.startswith('VIOLATION')] for p, r in res.items()}
    meta = {"kind": "harmless rewrite written by an independent sub-agent (behaviour-preserving; differential-tested on ~298k calls)",
            "expected": "no alarm", "ran": ["harness/seedtest.py detect %s %s" % (d, ' '.join(MAP[i]))], "result": out, "violation_lines": lines}
    json.dump(meta, open(d + '/meta.json', 'w'), indent=1)
    print('h%d' % i, out, flush=True)
