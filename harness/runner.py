"""
Generic check runner.

For one property:
  1. translate  (/repo/src + interpreter -> lean/DebInspector/Generated)         [under a lock]
  2. lake build driver                      (models/specs/property definitions; no proofs)
  3. lake build <theorem modules>; axiom audit of every registered theorem  -> obligations
  4. corpus, known-finding witnesses, then the property's streams:
       impl observation (real code, in-process)  vs  model observation (Lean driver)   = correspondence
       holdsOn(input, impl observation), evaluated by the Lean driver                   = property on the implementation
  5. breakage rule (DESIGN.md section 4), evidence, replay.

Exit codes: 0 held, 1 violation (a `VIOLATION property=<id> replay=<path>` line is printed), 2 infrastructure.
"""
import fcntl
import hashlib
import importlib
import itertools
import json
import os
import random
import re
import subprocess
import sys
import time
import traceback

HERE = os.path.dirname(os.path.abspath(__file__))
ROOT = os.path.dirname(HERE)
LEAN = os.path.join(ROOT, 'lean')
REPO = os.environ.get('VERIF_REPO', '/repo')
sys.path.insert(0, HERE)
sys.path.insert(0, os.path.join(REPO, 'src'))

import protocol  # noqa: E402
from protocol import Exc, enc, to_json, from_json  # noqa: E402

ALLOWED_AXIOMS = {'propext', 'Classical.choice', 'Quot.sound'}
BATCH = 20000
REPEAT_EVERY = 3


class Infra(Exception):
    pass


class LineCover:
    """VERIF_COVER=1: record which source lines of the library the streams of this run executed (sys.monitoring,
    each line reported once); written to evidence/coverage/<pid>.json and summarised by harness/covreport.py.
    Not part of a check's verdict: it shows where the generators do not reach."""

    def __init__(self):
        self.hit = set()
        self.on = False

    def start(self):
        mon = getattr(sys, 'monitoring', None)
        if mon is None:
            return
        src = os.path.realpath(os.path.join(REPO, 'src')) + os.sep
        tool = mon.COVERAGE_ID
        try:
            mon.use_tool_id(tool, 'verif-cover')
        except ValueError:
            return

        def on_line(code, line):
            fn = code.co_filename
            if fn.startswith(src) or os.path.realpath(fn).startswith(src):
                self.hit.add((os.path.relpath(os.path.realpath(fn), src), line))
            return mon.DISABLE
        mon.register_callback(tool, mon.events.LINE, on_line)
        mon.set_events(tool, mon.events.LINE)
        self.on = True

    def write(self, pid, tier):
        if not self.on:
            return
        by = {}
        for fn, ln in self.hit:
            by.setdefault(fn, []).append(ln)
        os.makedirs(os.path.join(ROOT, 'evidence', 'coverage'), exist_ok=True)
        with open(os.path.join(ROOT, 'evidence', 'coverage', pid + '.json'), 'w') as f:
            json.dump({'property_id': pid, 'tier': tier, 'lines': {k: sorted(v) for k, v in sorted(by.items())}}, f)


def log(*a):
    print(*a, file=sys.stderr, flush=True)


def sh(cmd, cwd=None, timeout=3600, env=None):
    p = subprocess.run(cmd, cwd=cwd, stdout=subprocess.PIPE, stderr=subprocess.STDOUT, timeout=timeout, env=env)
    return p.returncode, p.stdout.decode('utf-8', 'replace')


class Lock(object):
    def __init__(self):
        self.path = os.path.join(LEAN, '.lock')

    def __enter__(self):
        self.f = open(self.path, 'w')
        fcntl.flock(self.f, fcntl.LOCK_EX)
        return self

    def __exit__(self, *a):
        fcntl.flock(self.f, fcntl.LOCK_UN)
        self.f.close()


def strip_comments(src):
    """remove Lean comments (nested block comments and line comments), keeping string literals"""
    out = []
    i = 0
    n = len(src)
    depth = 0
    in_str = False
    while i < n:
        c = src[i]
        if depth == 0 and not in_str and c == '"':
            in_str = True
            out.append(c)
            i += 1
        elif in_str:
            out.append(c)
            if c == '\\' and i + 1 < n:
                out.append(src[i + 1])
                i += 1
            elif c == '"':
                in_str = False
            i += 1
        elif src.startswith('/-', i):
            depth += 1
            i += 2
        elif depth and src.startswith('-/', i):
            depth -= 1
            i += 2
        elif depth:
            i += 1
        elif src.startswith('--', i):
            while i < n and src[i] != '\n':
                i += 1
        else:
            out.append(c)
            i += 1
    return ''.join(out)


FORBIDDEN = re.compile(r'\b(sorry|admit|native_decide|bv_decide|implemented_by|unsafe)\b|^\s*axiom\s|maxHeartbeats\s+0\b', re.M)


def scan_sources():
    """grep the Lean sources (comments stripped) for forbidden constructs"""
    hits = []
    for base, _dirs, files in os.walk(LEAN):
        if '.lake' in base:
            continue
        for fn in files:
            if not fn.endswith('.lean'):
                continue
            path = os.path.join(base, fn)
            if os.path.basename(path) == 'Driver.lean':
                # glue; `partial` only
                pass
            src = strip_comments(open(path, encoding='utf-8').read())
            for m in FORBIDDEN.finditer(src):
                hits.append('%s: %s' % (os.path.relpath(path, LEAN), m.group(0).strip()))
    return hits


def prepare(prop):
    """translate + build + audit; returns dict with obligations info"""
    info = {'translate': None, 'driver_build': None, 'obligations': [], 'build_log': ''}
    with Lock():
        t0 = time.time()
        rc, out = sh([sys.executable, os.path.join(HERE, 'translate.py')],
                     env=dict(os.environ, VERIF_REPO=REPO))
        if rc != 0:
            raise Infra('translator failed:\n' + out[-3000:])
        try:
            info['translate'] = json.loads(out.strip().splitlines()[-1])
        except Exception:
            raise Infra('translator output unreadable:\n' + out[-2000:])
        rc, out = sh(['lake', 'build', 'driver'], cwd=LEAN)
        info['driver_build'] = rc
        if rc != 0:
            raise Infra('lake build driver failed:\n' + out[-4000:])
        info['t_build_driver'] = round(time.time() - t0, 2)
        # theorem modules
        t1 = time.time()
        obligations = []
        for module, theorems in prop.THEOREMS:
            rc, out = sh(['lake', 'build', module], cwd=LEAN)
            built = rc == 0
            if not built:
                info['build_log'] += out[-6000:]
            axioms = {}
            if built:
                axioms = audit(module, theorems)
            for th in theorems:
                ax = axioms.get(th)
                ok = built and ax is not None and set(ax) <= ALLOWED_AXIOMS
                obligations.append({'theorem': th, 'module': module, 'built': built,
                                    'axioms': ax, 'discharged': bool(ok)})
        info['obligations'] = obligations
        info['t_build_theorems'] = round(time.time() - t1, 2)
    info['forbidden'] = scan_sources()
    return info


def audit(module, theorems):
    """`#print axioms` for each theorem; returns {theorem: [axioms]} (missing = not found / error)"""
    tmp = os.path.join(LEAN, '.lake', 'audit_%s_%d.lean' % (module.replace('.', '_'), os.getpid()))
    with open(tmp, 'w') as f:
        f.write('import %s\n' % module)
        for th in theorems:
            f.write('#print axioms %s\n' % th)
    try:
        rc, out = sh(['lake', 'env', 'lean', tmp], cwd=LEAN)
    finally:
        try:
            os.remove(tmp)
        except OSError:
            pass
    res = {}
    # messages look like: "'Name' depends on axioms: [propext, Quot.sound]" or "'Name' does not depend on any axioms"
    for m in re.finditer(r"'([^']+)' depends on axioms: \[([^\]]*)\]", out):
        res[m.group(1)] = [a.strip() for a in m.group(2).replace('\n', ' ').split(',') if a.strip()]
    for m in re.finditer(r"'([^']+)' does not depend on any axioms", out):
        res[m.group(1)] = []
    return res


PATTERN_FILES = {'version': 'version.py', 'deb822': 'deb822.py', 'deps': 'deps.py', 'unsign': 'unsign.py'}


def changed_pins(pid, pins):
    """names of the modelled source items (functions, classes, tables, patterns) of the files this property is
    anchored in whose AST hash differs from the committed model_pins.json: an escalation trigger, never a violation"""
    try:
        stored = json.load(open(os.path.join(ROOT, 'model_pins.json'), encoding='utf-8'))
    except Exception:
        return None
    files = None
    for l in open(os.path.join(ROOT, 'properties.jsonl'), encoding='utf-8'):
        pr = json.loads(l)
        if pr['id'] == pid:
            files = [os.path.basename(f) for f in pr['anchors']['files']]
    if files is None:
        return None

    def relevant(k):
        if k.startswith('pattern:'):
            return PATTERN_FILES.get(k.split(':')[1].split('.')[0]) in files
        return k.split(':')[0] in files
    cur = {k: v for k, v in pins.items() if relevant(k)}
    old = {k: v for k, v in stored.get('pins', {}).items() if relevant(k)}
    return sorted(k for k in set(cur) | set(old) if cur.get(k) != old.get(k))


def load_known():
    path = os.path.join(ROOT, 'known_findings.json')
    if not os.path.exists(path):
        return []
    return json.load(open(path, encoding='utf-8'))['findings']


def load_corpus(pid):
    d = os.path.join(ROOT, 'corpus', pid)
    cases = []
    if os.path.isdir(d):
        for fn in sorted(os.listdir(d)):
            if fn.endswith('.json'):
                j = json.load(open(os.path.join(d, fn), encoding='utf-8'))
                for c in j['cases']:
                    cases.append((c['op'], from_json(c['input']), fn))
    return cases


class Result(object):
    def __init__(self):
        self.evaluations = 0
        self.seen = set()
        self.nontrivial = set()
        self.samples = []
        self.holds_fail = []      # (op, input, implObs, modelObs)
        self.model_fail = []      # holdsOn false on the model's own observation
        self.disagree = []        # correspondence
        self.out_of_model = 0
        self.streams = []
        self.hist = {}
        self.aborted = False


def evaluate(prop, op, inputs, res, stream_name, keep_samples=2):
    """run impl + driver on a batch of inputs; record"""
    if not inputs or res.aborted:
        return
    obs = []
    lines = []
    for inp in inputs:
        try:
            o = prop.observe(op, inp)
        except protocol.StopStreams as e:
            log('[%s] streams cut short: %s' % (getattr(prop, 'ID', '?'), e))
            res.aborted = True
            inputs = inputs[:len(obs)]
            break
        except Exception as e:  # an adapter must catch what the property observes; anything else is infra
            raise Infra('observation adapter crashed on %r: %s\n%s' % (inp, e, traceback.format_exc()))
        # an observation is a function of the input alone: every REPEAT_EVERY-th case is observed a second time, and an
        # answer that depends on how often or in which order the library was called is not an observation of the type
        if len(obs) % REPEAT_EVERY == 0:
            try:
                if enc(prop.observe(op, inp)) != enc(o):
                    o = Exc('NotRepeatable')
            except protocol.StopStreams:
                pass
            except Exception:
                o = Exc('NotRepeatable')
        obs.append(o)
        lines.append('%s l2 %s %s' % (op, enc(inp), enc(o)))
    replies = protocol.run_batch(lines)
    for inp, o, line, rep in zip(inputs, obs, lines, replies):
        res.evaluations += 1
        h = hashlib.blake2b(line.encode(), digest_size=8).digest()
        new = h not in res.seen
        res.seen.add(h)
        if isinstance(rep, Exc):
            raise Infra('driver rejected request (%s) for %s input %r obs %r' % (rep.name, op, inp, o))
        model_obs, holds_impl, holds_model = rep[0], rep[1], rep[2]
        if len(rep) > 3:
            res.hist['obs-outside-type'] = res.hist.get('obs-outside-type', 0) + 1
        try:
            nt = prop.nontrivial(op, inp, o)
        except Exception:
            nt = False
        if nt and new:
            res.nontrivial.add(h)
        try:
            for k in prop.histogram(op, inp, o):
                res.hist[k] = res.hist.get(k, 0) + 1
        except Exception:
            pass
        if len([s for s in res.samples if s['stream'] == stream_name]) < keep_samples and nt:
            res.samples.append({'stream': stream_name, 'op': op, 'input': to_json(inp), 'impl_obs': to_json(o)})
        if not holds_impl:
            res.holds_fail.append((op, inp, o, model_obs, stream_name))
        if not holds_model:
            res.model_fail.append((op, inp, o, model_obs, stream_name))
        if contains_oom(model_obs):
            res.out_of_model += 1
        if not agree_modulo_oom(model_obs, o):
            res.disagree.append((op, inp, o, model_obs, stream_name))


def agree_modulo_oom(m, o):
    """model observation vs implementation observation; a model node `OutOfModel` agrees with anything"""
    if isinstance(m, Exc) and m.name == 'OutOfModel':
        return True
    if isinstance(m, list) and isinstance(o, list):
        return len(m) == len(o) and all(agree_modulo_oom(a, b) for a, b in zip(m, o))
    return type(m) is type(o) and m == o


def contains_oom(v):
    if isinstance(v, Exc):
        return v.name == 'OutOfModel'
    if isinstance(v, list):
        return any(contains_oom(x) for x in v)
    return False


def run_stream(prop, stream, res, limit_fail=20000, deadline=None):
    name, op, cases = stream['name'], stream['op'], stream['cases']
    t0 = time.time()
    n0 = res.evaluations
    it = iter(cases)
    while True:
        batch = list(itertools.islice(it, BATCH if deadline is None else 2000))
        if not batch:
            break
        evaluate(prop, op, batch, res, name)
        if len(res.holds_fail) > limit_fail or res.aborted:
            break
        if deadline is not None and time.time() > deadline:
            break
    res.streams.append({'name': name, 'op': op, 'cases': res.evaluations - n0,
                        'exhaustive': bool(stream.get('exhaustive')), 'wall_s': round(time.time() - t0, 2)})


# ------------------------------------------------------------------ shrinking

def shrink_candidates(v):
    """smaller variants of a protocol value"""
    if isinstance(v, str):
        n = len(v)
        if n == 0:
            return
        k = n // 2
        while k >= 1:
            for i in range(0, n, k):
                yield v[:i] + v[i + k:]
            k //= 2
        for i, c in enumerate(v):
            for r in ('0', 'a', ' '):
                if c != r and (ord(c) > 127 or c.isalpha() and c != 'a' or c.isdigit() and c != '0'):
                    yield v[:i] + r + v[i + 1:]
                    break
    elif isinstance(v, bool) or v is None or isinstance(v, Exc):
        return
    elif isinstance(v, int):
        if v != 0:
            yield 0
            yield v // 2
            if v > 0:
                yield v - 1
    elif isinstance(v, list):
        n = len(v)
        k = n // 2
        while k >= 1:
            for i in range(0, n, k):
                yield v[:i] + v[i + k:]
            k //= 2
        for i, x in enumerate(v):
            for y in shrink_candidates(x):
                yield v[:i] + [y] + v[i + 1:]


def shrink(prop, op, inp, still_fails, budget=1500, seconds=60.0):
    cur = inp
    improved = True
    steps = 0
    t_end = time.time() + seconds
    while improved and steps < budget and time.time() < t_end:
        improved = False
        for cand in shrink_candidates(cur):
            steps += 1
            if steps >= budget or time.time() > t_end:
                break
            try:
                if hasattr(prop, 'normalize'):
                    cand = prop.normalize(op, cand)
                if not prop.valid_input(op, cand):
                    continue
                if still_fails(cand):
                    cur = cand
                    improved = True
                    break
            except Exception:
                continue
    return cur


def holds_on_impl(prop, driver, op, inp):
    o = prop.observe(op, inp)
    rep = driver.ask('%s l2 %s %s' % (op, enc(inp), enc(o)))
    if isinstance(rep, Exc):
        raise ValueError('driver rejected')
    return rep[1], o, rep[0]


# ------------------------------------------------------------------ main

def write_json(path, obj):
    os.makedirs(os.path.dirname(path), exist_ok=True)
    tmp = path + '.tmp.%d' % os.getpid()
    with open(tmp, 'w', encoding='utf-8') as f:
        json.dump(obj, f, indent=1, ensure_ascii=True, sort_keys=False)
        f.write('\n')
    os.replace(tmp, path)


def run_check(pid, tier, seed, replay=None):
    t_start = time.time()
    prop = importlib.import_module('props.' + pid.lower())
    rng = random.Random((seed * 1000003) ^ int(hashlib.sha256(pid.encode()).hexdigest()[:8], 16))
    info = prepare(prop)
    obligations = info['obligations']
    # thorough tier: the toolchain's independent re-checker replays the declarations of the compiled theorem modules
    # through the kernel once more; a module it rejects discharges nothing
    rechecked = None
    if tier == 'thorough' and not replay:
        mods = [m for m, _ in prop.THEOREMS if any(o['discharged'] for o in obligations if o.get('module') == m)] or \
               [m for m, _ in prop.THEOREMS]
        rc, out = sh(['lake', 'env', 'leanchecker'] + mods, cwd=LEAN, timeout=1800)
        rechecked = {'modules': mods, 'rc': rc, 'tail': out[-400:] if rc else ''}
        if rc != 0:
            for o in obligations:
                o['discharged'] = False
            log('[%s] leanchecker rejected the compiled theorem modules: %s' % (pid, out[-400:]))
    undischarged = [o for o in obligations if not o['discharged']]
    res = Result()
    known = [k for k in load_known() if k['property'] == pid]
    known_open = [k for k in known if k['kind'] == 'known']
    printed_known = []
    findings_status = []

    if replay:
        j = json.load(open(replay, encoding='utf-8'))
        cases = [(c['op'], from_json(c['input'])) for c in j.get('cases', [])]
        for op, inp in cases:
            evaluate(prop, op, [inp], res, 'replay')
        bad = len(res.holds_fail)
        for op, inp, o, m, _s in res.holds_fail:
            print('replay: holdsOn is FALSE on the implementation for %s input=%s impl_obs=%s' % (
                op, json.dumps(to_json(inp)), json.dumps(to_json(o))))
        for op, inp, o, m, _s in res.disagree:
            print('replay: model and implementation disagree for %s input=%s impl=%s model=%s' % (
                op, json.dumps(to_json(inp)), json.dumps(to_json(o)), json.dumps(to_json(m))))
        if not cases:
            print('replay: no concrete input in this replay; undischarged: %s' % json.dumps(j.get('undischarged')))
        return 1 if (bad or res.disagree or not cases) else 0

    # 1. known-finding witnesses: reproduce each and report
    driver = protocol.Driver()
    try:
        for k in known_open:
            op = k['op']
            inp = from_json(k['witness'])
            ok, o, m = holds_on_impl(prop, driver, op, inp)
            if not ok:
                line = 'KNOWN-FINDING: property=%s %s' % (pid, k['what'])
                print(line, flush=True)
                printed_known.append(k['id'])
                findings_status.append({'id': k['id'], 'reproduces': True})
            else:
                findings_status.append({'id': k['id'], 'reproduces': False})
    finally:
        driver.close()

    # 2. corpus (minimised past failures, including the inputs of every `fixed` finding)
    corpus = load_corpus(pid)
    by_op = {}
    for op, inp, _fn in corpus:
        by_op.setdefault(op, []).append(inp)
    for op, inps in by_op.items():
        n0 = res.evaluations
        evaluate(prop, op, inps, res, 'corpus')
        res.streams.append({'name': 'corpus', 'op': op, 'cases': res.evaluations - n0, 'exhaustive': False})

    # 3. streams
    escalate = bool(undischarged)
    for stream in prop.streams(tier, rng):
        run_stream(prop, stream, res)
        if res.aborted:
            break
    if (res.disagree or escalate) and tier == 'quick' and not res.holds_fail:
        # search: something no longer checks; run the thorough-size streams looking for a failing input
        log('[%s] obligation/correspondence broken: escalating to thorough streams to search for a failing input' % pid)
        rng2 = random.Random(rng.random())
        for stream in prop.streams('thorough', rng2):
            stream = dict(stream, name='search:' + stream['name'])
            run_stream(prop, stream, res)
            if res.holds_fail:
                break

    # 3a. the modelled source changed (AST pins): look deeper even in the quick tier, within a time budget
    pins_changed = changed_pins(pid, info['translate'].get('pins', {}))
    if pins_changed and tier == 'quick' and not res.holds_fail and not res.disagree and not escalate and not res.aborted:
        log('[%s] modelled source changed (%s): running thorough-size streams for up to 45 s' % (
            pid, ', '.join(pins_changed[:6])))
        deadline = time.time() + 45
        rng3 = random.Random(rng.random())
        for stream in prop.streams('thorough', rng3):
            stream = dict(stream, name='pins:' + stream['name'])
            run_stream(prop, stream, res, deadline=deadline)
            if res.holds_fail or res.aborted or time.time() > deadline:
                break

    # 3b. property-specific support checks (e.g. an external oracle)
    extra_info = {}
    extra_fails = []
    if hasattr(prop, 'extra'):
        extra_info, extra_fails = prop.extra(tier, rng)

    # 4. classify failures
    log('[%s] streams done: evaluations=%d holds_fail=%d disagree=%d t=%.1fs' % (
        pid, res.evaluations, len(res.holds_fail), len(res.disagree), time.time() - t_start))
    violations = []
    driver = protocol.Driver()

    def ask(op2, inp2, obs2):
        # evaluate another driver op's holdsOn on a given observation (used by known_match predicates)
        rep = driver.ask('%s l2 %s %s' % (op2, enc(inp2), enc(obs2)))
        if isinstance(rep, Exc):
            raise ValueError('driver rejected')
        return rep[1]
    prop.ASK = ask
    try:
        seen_min = set()
        known_hits = {}
        t_classify_end = time.time() + 300
        def match_known_op(op, i, ob):
            for k in known_open:
                try:
                    if k['op'] == op and prop.known_match(k, op, i, ob):
                        return k
                except Exception:
                    pass
            return None
        # failures outside every known class first: a new violation must not hide behind known ones
        pres = []
        for idx, (op, inp, o, m, sname) in enumerate(res.holds_fail[:5000]):
            pres.append(match_known_op(op, inp, o) if known_open else None)
        order = [i for i, p_ in enumerate(pres) if p_ is None][:200] + [i for i, p_ in enumerate(pres) if p_ is not None][:200]
        for idx in order:
            op, inp, o, m, sname = res.holds_fail[idx]

            def match_known(i, ob, op=op):
                return match_known_op(op, i, ob)
            pre = pres[idx]

            def still(c, op=op, pre=pre):
                ok_c, o_c, _m = holds_on_impl(prop, driver, op, c)
                if ok_c:
                    return False
                # never shrink a new failure into the class of a known finding
                return pre is not None or match_known(c, o_c) is None
            if pre is not None and known_hits.get(pre['id'], 0) >= 3:
                # three members of this known class were already confirmed (after shrinking) on this run
                known_hits[pre['id']] += 1
                continue
            t_s = time.time()
            small = shrink(prop, op, inp, still, budget=150 if pre is not None else 1200,
                           seconds=max(0.0, min(60.0, t_classify_end - time.time())))
            if time.time() - t_s > 2:
                log('[%s] shrunk one failing input (%s) in %.1fs' % (
                    pid, 'known class' if pre is not None else 'new', time.time() - t_s))
            ok, o2, m2 = holds_on_impl(prop, driver, op, small)
            key = enc(small)
            matched = match_known(small, o2)
            if matched:
                known_hits[matched['id']] = known_hits.get(matched['id'], 0) + 1
            if key in seen_min:
                continue
            seen_min.add(key)
            if matched:
                if matched['id'] not in printed_known:
                    print('KNOWN-FINDING: property=%s %s' % (pid, matched['what']), flush=True)
                    printed_known.append(matched['id'])
                continue
            violations.append({'kind': 'property-fails-on-implementation', 'op': op, 'stream': sname,
                               'input': to_json(small), 'impl_obs': to_json(o2), 'model_obs': to_json(m2),
                               'original_input': to_json(inp)})
            if len(violations) >= 5:
                break
    finally:
        driver.close()

    for f in extra_fails[:5]:
        violations.append({'kind': 'external-oracle-disagrees', 'op': f['op'], 'stream': 'extra',
                           'input': to_json(f['input']), 'what': f['what']})
    status = 0
    replay_path = None
    if violations:
        status = 1
        replay_path = os.path.join(ROOT, 'replays', '%s-%d.json' % (pid, seed))
        write_json(replay_path, {
            'property': pid, 'seed': seed, 'tier': tier, 'kind': 'failing-input',
            'cases': [{'op': v['op'], 'input': v['input']} for v in violations],
            'violations': violations,
            'undischarged': [o['theorem'] for o in undischarged],
        })
        print('VIOLATION property=%s replay=%s' % (pid, os.path.relpath(replay_path, ROOT)), flush=True)
    elif undischarged or res.disagree or info['forbidden']:
        status = 1
        replay_path = os.path.join(ROOT, 'replays', '%s-%d.json' % (pid, seed))
        write_json(replay_path, {
            'property': pid, 'seed': seed, 'tier': tier, 'kind': 'no-failing-input-found',
            'cases': [{'op': op, 'input': to_json(inp)} for op, inp, o, m, s in (res.disagree + res.model_fail)[:20]],
            'undischarged': [o for o in undischarged],
            'correspondence_disagreements': [
                {'op': op, 'stream': s, 'input': to_json(inp), 'impl_obs': to_json(o), 'model_obs': to_json(m)}
                for op, inp, o, m, s in res.disagree[:20]],
            'model_violates_property': [
                {'op': op, 'stream': s, 'input': to_json(inp), 'model_obs': to_json(m)}
                for op, inp, o, m, s in res.model_fail[:20]],
            'forbidden_constructs': info['forbidden'],
            'build_log_tail': info['build_log'][-4000:],
            'note': 'the property is no longer shown to hold: the named theorems or the correspondence no '
                    'longer check, and the search found no input on which the implementation violates the property',
        })
        print('VIOLATION property=%s replay=%s no-failing-input-found' % (pid, os.path.relpath(replay_path, ROOT)),
              flush=True)

    # 5. evidence
    wall = time.time() - t_start
    n_obl = len(obligations)
    n_dis = len([o for o in obligations if o['discharged']])
    checker = 'cd lean && lake build ' + ' '.join(m for m, _ in prop.THEOREMS) + \
        ' && lake env lean <#print axioms of each registered theorem>' + \
        (' && lake env leanchecker ' + ' '.join(m for m, _ in prop.THEOREMS) if tier == 'thorough' else '')
    coverage = {
        'obligations': n_obl,
        'discharged': n_dis,
        'checker_cmd': checker,
        'trusted_base': prop.TRUSTED,
        'theorems': [{'name': o['theorem'], 'axioms': o['axioms'], 'discharged': o['discharged']} for o in obligations],
        'leanchecker': rechecked,
        'evaluations': res.evaluations,
        'distinct_nontrivial': len(res.nontrivial),
        'distinct_inputs': len(res.seen),
        'rule': prop.RULE,
        'samples': res.samples[:12],
        'streams': res.streams,
        'exhaustive': any(s.get('exhaustive') for s in res.streams),
        'histogram': dict(sorted(res.hist.items())),
        'correspondence_disagreements': len(res.disagree),
        'out_of_model_inputs': res.out_of_model,
        'holdsOn_false_on_impl': len(res.holds_fail),
        'holdsOn_false_on_model': len(res.model_fail),
        'known_findings': findings_status,
        'generated_changed': info['translate']['changed'],
        'source_pins_changed': pins_changed,
        'translator_notes': {k: v for k, v in info['translate']['notes'].items() if k != 'patterns'},
        'build_s': {'driver': info.get('t_build_driver'), 'theorems': info.get('t_build_theorems')},
        'forbidden_constructs': info['forbidden'],
        'support': extra_info,
    }
    evidence = {
        'property_id': pid,
        'tier': tier,
        'seed': seed,
        'level': prop.LEVEL,
        'coverage': coverage,
        'assumptions': prop.ASSUMPTIONS,
        'wall_s': round(wall, 2),
        'violations': len(violations) if violations else (1 if status else 0),
    }
    if prop.LEVEL != 'proof':
        coverage['explanation'] = getattr(prop, 'EXPLANATION', '')
    write_json(os.path.join(ROOT, 'evidence', '%s.json' % pid), evidence)
    log('[%s] tier=%s seed=%d evaluations=%d nontrivial=%d obligations=%d/%d disagreements=%d violations=%d wall=%.1fs'
        % (pid, tier, seed, res.evaluations, len(res.nontrivial), n_dis, n_obl, len(res.disagree),
           len(violations), wall))
    return status


def main(argv):
    import argparse
    ap = argparse.ArgumentParser()
    ap.add_argument('property')
    ap.add_argument('--tier', default=os.environ.get('VERIF_TIER', 'quick'))
    ap.add_argument('--seed', type=int, default=None)
    ap.add_argument('--replay', default=None)
    a = ap.parse_args(argv)
    seed = a.seed if a.seed is not None else int(os.environ.get('VERIF_SEED', '0') or 0)
    tier = a.tier if a.tier in ('quick', 'thorough') else 'quick'
    cover = LineCover()
    if os.environ.get('VERIF_COVER'):
        cover.start()
    try:
        rc = run_check(a.property.upper(), tier, seed, a.replay)
        cover.write(a.property.upper(), tier)
        return rc
    except Infra as e:
        log('INFRASTRUCTURE ERROR: %s' % e)
        return 2
    except protocol.DriverError as e:
        log('INFRASTRUCTURE ERROR (driver): %s' % e)
        return 2
    except Exception:
        import traceback
        log('INFRASTRUCTURE ERROR (harness): ' + traceback.format_exc())
        return 2


if __name__ == '__main__':
    sys.exit(main(sys.argv[1:]))
