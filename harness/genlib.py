"""Shared generators (all randomness from the rng handed in)."""
import itertools

SPACES = [chr(c) for c in (9, 10, 11, 12, 13, 28, 29, 30, 31, 32, 133, 160, 5760, 8192, 8199, 8232, 8233, 8239, 8287, 12288)]
UP_CHARS = 'abcxyzABCXYZ0123456789.+~-'
REV_CHARS = 'abcxyzABCXYZ0123456789.+~'
ALNUM = 'abcxyzABCXYZ0123456789'


def strings_upto(alphabet, n):
    for k in range(n + 1):
        for t in itertools.product(alphabet, repeat=k):
            yield ''.join(t)


def rand_component(rng, chars, maxlen=8):
    n = rng.choice((0, 1, 1, 2, 2, 3, 4, 5, maxlen))
    out = []
    for _ in range(n):
        r = rng.random()
        if r < 0.35:
            out.append(rng.choice('0123456789'))
        elif r < 0.45:
            out.append('0' * rng.randint(1, 3) + rng.choice('0123456789'))
        elif r < 0.6:
            out.append(rng.choice('~~.+'))
        else:
            out.append(rng.choice(chars))
    return ''.join(out)


def rand_version(rng, accepted=True):
    """a version string; with accepted=True it is one `from_string` must accept"""
    epoch = ''
    r = rng.random()
    if r < 0.3:
        epoch = str(rng.choice((0, 0, 1, 2, 10, 99))) + ':'
    elif r < 0.36:
        epoch = '0' * rng.randint(1, 3) + str(rng.randint(0, 12)) + ':'
    up = rng.choice('0123456789') + rand_component(rng, UP_CHARS if rng.random() < 0.5 else REV_CHARS)
    rev = None
    if '-' in up or rng.random() < 0.45:
        rev = rand_component(rng, REV_CHARS, 5)
        if rng.random() < 0.2:
            rev = rng.choice(('0', '00', '0', '1', '0~'))
    if accepted:
        while len(up) > 1 and up[-1] not in ALNUM:
            up = up[:-1] + rng.choice(ALNUM)
        if rev is not None:
            if not rev or rev[-1] not in ALNUM:
                rev = rev + rng.choice(ALNUM)
    s = epoch + up + ('-' + rev if rev is not None else '')
    return s


def mutate_version(rng, s):
    """a near neighbour of s: one edit, a numerically-equal rewrite, an epoch or revision change"""
    r = rng.random()
    if r < 0.15:
        return s
    if r < 0.3:  # leading zeros on a digit run
        idx = [i for i, c in enumerate(s) if c.isdigit() and (i == 0 or not s[i - 1].isdigit())]
        if idx:
            i = rng.choice(idx)
            if ':' in s and i < s.index(':'):
                return '0' * rng.randint(1, 2) + s
            return s[:i] + '0' * rng.randint(1, 2) + s[i:]
    if r < 0.4:
        return ('0:' + s) if ':' not in s else s.split(':', 1)[1] if s.startswith('0:') else s
    if r < 0.5:
        return s + '-0' if '-' not in s else s
    if r < 0.6:
        return s + rng.choice(('~', '~~', 'a', '+', '.', '0', '.0', '~1', '-1', '+b1'))
    if r < 0.7 and ':' in s:
        e, rest = s.split(':', 1)
        try:
            return '%d:%s' % (max(0, int(e) + rng.choice((-1, 1))), rest)
        except ValueError:
            return s
    if len(s) > 1:
        i = rng.randrange(1, len(s))
        k = rng.random()
        c = rng.choice(UP_CHARS)
        if k < 0.4:
            return s[:i] + c + s[i + 1:]
        if k < 0.7:
            return s[:i] + c + s[i:]
        return s[:i] + s[i + 1:]
    return s


# characters that a widened character class, a case-insensitive flag, a Unicode-aware \d / \w / isalnum, or a
# str.format / % call on user text would treat differently from what Debian policy says
FOREIGN = ['\u212a', '\u017f', '\u0130', '\u0131',        # fold to k, s, i under re.IGNORECASE
           '\u0663', '\u0967', '\uff11', '\u00b2', '\u2460', '\u00bd',   # digits / numerics of other kinds
           '\u00e9', '\u00df', '\u03b1', '\u0430', '\uff41', '\u00aa',   # letters: accented, greek, cyrillic, fullwidth, ordinal
           '_', '/', '\\', '*', '?', '!', '#', '$', '%', '&', '=', '@', '^', '|', ',', ';', '"', "'", '`',
           '(', ')', '[', ']', '{', '}', '<', '>',
           '\u00a0', '\u200b', '\u2028', '\u0085', '\x0c', '\x00', '\u0301', '\ufeff', '\U0001f600']
FORMAT_HAZARDS = ['{}', '{0}', '{1}', '{x}', '{0.a}', '{!r}', '{:d}', '{{', '}}', '%s', '%d', '%(a)s', '%', '%%', '\\1', '\\g<0>', '$x', '${x}']


def foreign_sweep(contexts):
    """every foreign character / format hazard at every marked position ('@') of every context"""
    for ctx in contexts:
        for x in FOREIGN + FORMAT_HAZARDS:
            yield ctx.replace('@', x)
