"""Regenerate /verif/model_pins.json from /repo's current tree (run by hand after a `fix:` commit; never at check time)."""
import json
import os
import subprocess
import sys

HERE = os.path.dirname(os.path.abspath(__file__))
ROOT = os.path.dirname(HERE)
out = subprocess.run([sys.executable, os.path.join(HERE, 'translate.py')], stdout=subprocess.PIPE, check=True).stdout.decode()
j = json.loads(out.strip().splitlines()[-1])
head = subprocess.run(['git', '-C', os.environ.get('VERIF_REPO', '/repo'), 'rev-parse', 'HEAD'], stdout=subprocess.PIPE).stdout.decode().strip()
json.dump({'repo_head': head, 'pins': j['pins']}, open(os.path.join(ROOT, 'model_pins.json'), 'w'), indent=1, sort_keys=True)
print(len(j['pins']), 'pins at', head)
