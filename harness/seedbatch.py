"""seedbatch.py Cnn [Cnn…]: import /tmp/wt/Cnn/MUTANTS/mX into seeded/Cnn-mX, confirm, run the target check, write meta.json"""
import json, os, shutil, sys
sys.path.insert(0, os.path.dirname(os.path.abspath(__file__)))
import seedtest
ROOT = seedtest.ROOT
props = {json.loads(l)['id']: json.loads(l) for l in open(os.path.join(ROOT, 'properties.jsonl'))}
for pid in sys.argv[1:]:
    for m in ('m1', 'm2'):
        src = '%s/%s/MUTANTS/%s' % (os.environ.get('SEED_SRC', '/tmp/wt'), pid, m)
        if not os.path.exists(os.path.join(src, 'patch.diff')):
            print(pid, m, 'missing'); continue
        dst = os.path.join(ROOT, 'seeded', '%s-%s%s' % (pid, os.environ.get('SEED_TAG', ''), m))
        os.makedirs(dst, exist_ok=True)
        for fn in ('patch.diff', 'demo.py', 'notes.md'):
            if os.path.exists(os.path.join(src, fn)):
                shutil.copy(os.path.join(src, fn), os.path.join(dst, fn))
        c = seedtest.confirm(dst)
        meta = {'property': pid, 'title': props[pid]['title'], 'origin': 'independent sub-agent given only the property text and a scratch worktree',
                'confirm': c, 'ran': ['harness/seedtest.py confirm ' + os.path.relpath(dst, ROOT)]}
        if c.get('confirmed'):
            extra = os.environ.get('SEED_ALSO', '').split()
            d = seedtest.detect(dst, [pid] + extra)
            meta['detect'] = d
            meta['ran'].append('harness/seedtest.py detect %s %s' % (os.path.relpath(dst, ROOT), ' '.join([pid] + extra)))
            meta['caught_by'] = [p for p, r in d.items() if r['rc'] == 1]
        json.dump(meta, open(os.path.join(dst, 'meta.json'), 'w'), indent=1)
        print(pid, m, 'confirmed' if c.get('confirmed') else 'NOT CONFIRMED %s' % c,
              {p: (r['rc'], r.get('replay_kind'), r['lines']) for p, r in meta.get('detect', {}).items()}, flush=True)
