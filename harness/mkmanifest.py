"""Regenerate /verif/MANIFEST.json from the per-property modules (harness/props/cNN.py)."""
import importlib
import json
import os
import sys

HERE = os.path.dirname(os.path.abspath(__file__))
ROOT = os.path.dirname(HERE)
sys.path.insert(0, HERE)
sys.path.insert(0, '/repo/src')

ALL = ['C%02d' % i for i in range(1, 21)]


def main():
    checks = []
    na = []
    for pid in ALL:
        path = os.path.join(HERE, 'props', pid.lower() + '.py')
        if not os.path.exists(path):
            na.append({'property_id': pid, 'reason': 'not claimed yet: the Lean model, theorem and correspondence check '
                                                     'for this property are not built in this revision (see DESIGN.md section 7 for the plan)'})
            continue
        m = importlib.import_module('props.' + pid.lower())
        checks.append({
            'property_id': pid,
            'quick_cmd': './check %s --tier quick' % pid,
            'thorough_cmd': './check %s --tier thorough' % pid,
            'evidence_file': 'evidence/%s.json' % pid,
            'replay_cmd_template': './check %s --replay {path}' % pid,
            'engine': 'lean4-proof+correspondence',
            'level_claimed': {
                'category': m.LEVEL,
                'text': m.LEVEL_TEXT,
                'design_ref': 'DESIGN.md section 7, %s' % pid,
            },
            'level_note': m.LEVEL_NOTE,
            'technique': m.TECHNIQUE,
        })
    manifest = {
        'version': 1,
        'setup_cmd': './setup.sh',
        'hooks': {
            'guard': 'DEBIAN_INSPECTOR_VERIF',
            'enable': 'no hooks are needed: every observation is taken through the public API of /repo/src (PYTHONPATH), so nothing in /repo is guarded',
            'baseline_off_cmd': 'cd /repo && /venv/bin/python -m pytest -q -p no:cacheprovider',
            'source_commits': [],
            'add_only': True,
        },
        'engines': [{
            'name': 'lean4-proof+correspondence',
            'path': 'lean/ (Lean 4 library + driver), harness/ (translator, correspondence runner)',
            'serves_properties': [c['property_id'] for c in checks],
            'kind_free_text': 'machine-checked proof in Lean 4 of each property about a functional model of the code; '
                              'tables regenerated from the source on every run (translator) and control flow tied by '
                              'differential correspondence against the real code; the property predicate itself '
                              '(holdsOn) is evaluated by the Lean driver on every implementation observation',
        }],
        'checks': checks,
        'not_applicable': na,
        'notes': 'fix: commits in /repo repair genuine defects (known_findings.json, kind=fixed); known findings are '
                 'listed there with kind=known. Exit 2 = infrastructure error, never a violation.',
    }
    with open(os.path.join(ROOT, 'MANIFEST.json'), 'w') as f:
        json.dump(manifest, f, indent=1)
        f.write('\n')
    print('checks:', [c['property_id'] for c in checks])


if __name__ == '__main__':
    main()
