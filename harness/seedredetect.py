"""seedredetect.py [dir…]: re-run the target check against every seeded change and rewrite meta.json (detect part)"""
import json, os, sys
sys.path.insert(0, os.path.dirname(os.path.abspath(__file__)))
import seedtest
ROOT = seedtest.ROOT
dirs = sys.argv[1:] or sorted(os.path.join(ROOT, 'seeded', d) for d in os.listdir(os.path.join(ROOT, 'seeded')))
for d in dirs:
    mp = os.path.join(d, 'meta.json')
    if not os.path.exists(mp):
        continue
    meta = json.load(open(mp))
    if 'property' not in meta:
        continue          # harmless rewrites: run by their own script
    pid = meta['property']
    det = seedtest.detect(d, [pid])
    meta['detect'] = det
    meta['caught_by'] = [p for p, r in det.items() if r['rc'] == 1]
    json.dump(meta, open(mp, 'w'), indent=1)
    r = det[pid]
    print(os.path.basename(d), r['rc'], r.get('replay_kind'), r['wall_s'], json.dumps(r.get('replay_cases', [])[:1])[:160], flush=True)
