"""Shared observation adapter for copyright objects."""
from protocol import Exc
from debian_inspector import copyright as cr

KINDS = {'CopyrightHeaderParagraph': 'header', 'CopyrightFilesParagraph': 'files',
         'CopyrightLicenseParagraph': 'license', 'CatchAllParagraph': 'catchall'}


def dv(v):
    if isinstance(v, str):
        return v
    if isinstance(v, list) and not v:
        return []
    raise TypeError('value %r in dictionary form' % (v,))


def para_obs(p):
    d = p.to_dict()
    return [KINDS[type(p).__name__], [[k, dv(v)] for k, v in d.items()],
            [[k, ab[0], ab[1]] for k, ab in p.line_numbers_by_field.items()]]


def paras_obs(c):
    return [para_obs(p) for p in c.paragraphs]


# Documents that take the recovery paths (merge of free text, fold of an empty License with the text after it, renamed
# repeats).  `prelude()` parses them and throws the results away: what a later document parses to must not depend on
# what was parsed before it in the same process (no state shared between results).
SLOPPY = ['Format: U\n\nFiles: *\nCopyright: 1999 J\nLicense: GPL-2+\n\nLicense:\n\nThis program is free software\n',
          'zz-free text\n\nzz-more text\n\nLicense:\n\nzz-leftover\n\nFiles: a\nFiles: b\nCopyright:\n',
          'Files: *\nCopyright: zz-x\nComment:\n\n zz-absorbed\n\nLicense: zz-name\n\nzz-not folded\n']


def prelude():
    for t in SLOPPY:
        try:
            c = cr.DebianCopyright.from_text(t)
            c.to_dict()
            c.dumps()
        except Exception:
            pass


def scramble(c):
    """overwrite a copyright object in place (its paragraphs, their field objects, their dictionaries)"""
    for p in list(c.paragraphs):
        for name in list(getattr(p, '__dict__', {})):
            v = getattr(p, name)
            if isinstance(v, dict):
                v.clear()
                v['zz-scrambled'] = 'zz'
            elif hasattr(v, '__dict__'):
                for a in list(v.__dict__):
                    x = getattr(v, a)
                    if isinstance(x, list):
                        del x[:]
                        x.append('zz-scrambled')
                    elif isinstance(x, str):
                        try:
                            setattr(v, a, 'zz-scrambled')
                        except Exception:
                            pass
    del c.paragraphs[:]
