"""Shared observation adapter for copyright objects."""
from protocol import Exc
from debian_inspector import copyright as cr

KINDS = {'CopyrightHeaderParagraph': 'header', 'CopyrightFilesParagraph': 'files',
         'CopyrightLicenseParagraph': 'license', 'CatchAllParagraph': 'catchall'}


def dv(v):
    if isinstance(v, str):
        return v
    if isinstance(v, list) and not v:
        return []
    raise TypeError('value %r in dictionary form' % (v,))


def para_obs(p):
    d = p.to_dict()
    return [KINDS[type(p).__name__], [[k, dv(v)] for k, v in d.items()],
            [[k, ab[0], ab[1]] for k, ab in p.line_numbers_by_field.items()]]


def paras_obs(c):
    return [para_obs(p) for p in c.paragraphs]
