"""C04 - Printing a version and parsing it back gives the same version."""
import itertools
import genlib
from protocol import Exc
from debian_inspector.version import Version

ID = 'C04'
LEVEL = 'proof'
THEOREMS = [('DebInspector.Thm.C04', ['Props.C04.sound', 'Props.C04.roundtrip', 'Props.C04.idempotent',
                                      'Props.C04.printed_shape'])]
TRUSTED = [
    'Lean 4.33.0 kernel',
    'reading of the property as Props.C04.holdsOn (lean/DebInspector/Props/C04.lean)',
    'hand model of Version.__str__ / from_string (Model/Version.lean), tied by correspondence',
    'str(int) modelled as Nat.toDigits 10; int() limit from sys.get_int_max_str_digits()',
    'translator harness/translate.py and this correspondence harness',
]
ASSUMPTIONS = ['inputs are str objects without lone surrogates']
RULE = ('exhaustive family {epoch: none, 0:, 00:, 01:, 1:} x {upstream of <=3 hyphen-separated parts over 6 atoms} x '
        '{revision: none, -0, -00, -1, -0~}; C03 exhaustive strings of length <=4; random grammar versions and their mutations. '
        'non-trivial = the input is accepted')
TECHNIQUE = 'Lean 4 theorem over all strings (print/parse round trip of the model) + exhaustive family and random correspondence'
LEVEL_TEXT = ('Props.C04.sound: for every string, if the model of from_string accepts it then the model of __str__ yields a string that '
              'is accepted, parses to the same (epoch, upstream, revision), prints to itself, and differs from the trimmed input only '
              'by a normalised epoch and an omitted -0 (proved in Lean 4, no hypothesis). The model is tied to the code by '
              'correspondence on an exhaustive hyphen/epoch/revision family plus random streams; holdsOn is evaluated on every '
              'implementation observation.')
LEVEL_NOTE = ('Trusted: Lean kernel; axioms propext, Classical.choice, Quot.sound only; the model of __str__ and from_string is '
              'tied to the code by differential correspondence, not verified against CPython.')

ATOMS = ['1', '0', '2a', '1.0', '3+', '4~', '0.']
EPOCHS = ['', '0:', '00:', '01:', '1:', '10:']
REVS = ['', '-0', '-00', '-1', '-0~', '-a', '-0+']


def observe(op, s):
    try:
        v = Version.from_string(s)
    except Exception as e:
        return Exc(type(e).__name__)
    p = str(v)
    try:
        v2 = Version.from_string(p)
        inner = [[v2.epoch, v2.upstream, v2.revision], str(v2)]
    except Exception as e:
        inner = Exc(type(e).__name__)
    return [[v.epoch, v.upstream, v.revision], p, inner]


def nontrivial(op, s, obs):
    return isinstance(obs, list)


def histogram(op, s, obs):
    if isinstance(obs, list):
        t, p, inner = obs
        yield 'accepted'
        yield 'revision-elided' if (t[2] == '0' and not p.endswith('-0')) else ('zero-revision-kept' if t[2] == '0' else 'revision-kept')
        if t[0] and not s.strip().startswith(str(t[0])):
            yield 'epoch-normalised'
    else:
        yield 'rejected'


def valid_input(op, s):
    return isinstance(s, str)


def known_match(entry, op, s, obs):
    return False


def family():
    for e in EPOCHS:
        for n in (1, 2, 3):
            for parts in itertools.product(ATOMS, repeat=n):
                for r in REVS:
                    yield e + '-'.join(parts) + r


def random_cases(rng, n):
    for i in range(n):
        r = rng.random()
        if r < 0.6:
            s = genlib.rand_version(rng, accepted=rng.random() < 0.85)
        else:
            s = genlib.mutate_version(rng, genlib.rand_version(rng))
        if rng.random() < 0.25:
            s = s + rng.choice(('-0', '-00', '-0-0', '+-0', '.-0', '~-0'))
        if rng.random() < 0.1:
            s = rng.choice(genlib.SPACES) + s + rng.choice(genlib.SPACES)
        yield s


def epoch_family():
    """one body under epochs that CPython's int hash cannot tell apart (multiples of sys.hash_info.modulus apart), under
    very large epochs and under the neighbours of each: a print-back that goes through a table keyed by hash, by a
    machine word or by a float would mix them up.  Emitted in sequence, in one process."""
    import sys
    m = sys.hash_info.modulus
    for body in ('1.0', '1.0-1', '2a-0', '0'):
        for e in (0, 1, m - 1, m, m + 1, 2 * m, 2 * m + 1, 2 ** 63, 2 ** 64, 2 ** 64 + 1, 10 ** 20, 2 ** 53 + 1):
            yield '%d:%s' % (e, body)
        yield body


def streams(tier, rng):
    import props.c03 as c03
    yield {'name': 'exhaustive-family', 'op': 'C04', 'cases': family(), 'exhaustive': True}
    yield {'name': 'epoch-family', 'op': 'C04', 'cases': epoch_family(), 'exhaustive': True}
    L = 4 if tier == 'quick' else 5
    yield {'name': 'exhaustive-len<=%d' % L, 'op': 'C04', 'cases': genlib.strings_upto(c03.ALPHABET, L), 'exhaustive': True}
    yield {'name': 'random', 'op': 'C04', 'cases': random_cases(rng, 20000 if tier == 'quick' else 200000)}
