"""C12 - Blank lines inside multi-line values are recovered, not paragraph breaks."""
import cobs
import props.c05 as c05
from protocol import Exc
from debian_inspector import copyright as cr

ID = 'C12'
LEVEL = 'proof'
THEOREMS = [('DebInspector.Thm.C12', ['Props.C12.groups_sound', 'Props.C12.sim', 'Props.C12.rstripLines_blank', 'Props.C12.itemsOK_of_wf',
                                      'Props.C12.absorb_iff', 'Props.C12.cont_not_decl', 'Props.C12.cont_not_blank', 'Props.C12.blank_before_cont_absorbed']),
            ('DebInspector.Thm.C12P', ['Props.C12P.sound', 'Props.C12P.paras_sound', 'Props.C12P.sim_out', 'Props.C12P.field_rel', 'Props.C12P.addField_rel',
                                       'Props.C12P.fromFields_rel', 'Props.C12P.mergeRun_rel', 'Props.C12P.mergeUnknown_rel', 'Props.C12P.foldCond_rel',
                                       'Props.C12P.fold_rel', 'Props.C12P.foldLoop_rel', 'Props.C12P.foldLicense_rel', 'Props.C12P.sameParas_of'])]
TRUSTED = [
    'Lean 4.33.0 kernel',
    'reading of the property as Props.C12.holdsOn (groups equal up to the text of the replaced markers; same classes, keys, ranges and words)',
    'hand models of the line-tracking parser and of the copyright pipeline, tied by correspondence',
    'translator harness/translate.py and this correspondence harness',
]
ASSUMPTIONS = ['documents are lists of declaration / continuation / empty lines; replaced markers are followed by a continuation line that is not itself replaced']
RULE = ('DEP-5-like and control-like documents with " ." markers in license, comment, description and extra fields; every subset-sample of markers followed by a continuation line, '
        'replaced by empty / space / spaces / tab lines; plus the negative family (two adjacent markers both blanked) where model and implementation must agree that the paragraph splits. '
        'non-trivial = at least one marker replaced')
TECHNIQUE = ('Lean 4 theorem Props.C12P.sound (both halves, for every well-formed document and every admissible set of blanked markers): simulation of the two runs of the line-tracking loop '
             '(groups_sound) and a relational proof through from_fields, the merge of unknown paragraphs and the fold into an empty license (paras_sound) '
             '+ executable specification on every implementation observation + correspondence with the hand models')
LEVEL_TEXT = ('Props.C12P.sound: for every well-formed document (every non-empty line a declaration or a continuation line, continuation lines after non-empty lines; any number of lines, paragraphs and fields) and every set of " ." markers '
              'that are followed by a continuation line, replaced by empty or white-space-only lines: (1) Props.C12.groups_sound - the line-tracking parser reports the same paragraphs, fields and line numbers, only the text of the replaced '
              'lines differs (sim: a simulation between the two runs of the loop; rstripLines_blank: trimming trailing blank lines commutes with the replacement because every replaced line is followed by a line that is neither replaced nor blank); '
              '(2) Props.C12P.paras_sound - the copyright objects built from the two texts have the same number of paragraphs, of the same classes, with the same keys and the same words under every key. The second half is a relational proof '
              'through the whole pipeline: sim_out (in the original run a replaced line holds the marker and its field has a line that is neither replaced nor blank), field_rel (the two values of a field are empty together, and otherwise '
              'start with a non-space character and have the same words), addField_rel / fromFields_rel (the renaming loop takes the same decisions; typed values have the same words: words_dumps_fromValue; whether a license paragraph is '
              'empty depends only on which fields are present), mergeRun_rel / mergeUnknown_rel (the same runs are merged; the merged texts have the same words and are empty together), foldCond_rel / fold_rel / foldLoop_rel / foldLicense_rel '
              '(the same licenses are folded). The object is always built (Props.C07.fromText_ok).')
LEVEL_NOTE = ('Trusted: Lean kernel; axioms propext, Classical.choice, Quot.sound only for the registered theorems; the comparison clauses rest on specification evaluation + correspondence.')

REPL = ['', ' ', '   ', '\t', ' \t ', '\x0c', '\x0b', '\xa0', '\u3000', ' \x0c ', '\u2028', '\x85', '\x1c', '\u2003\u200a']


def doc(rng):
    lines = []
    for pi in range(rng.choice((1, 2, 3, 4))):
        if pi:
            lines.append('')
        kind = rng.random()
        if kind < 0.3:
            lines.append('Format: https://www.debian.org/doc/packaging-manuals/copyright-format/1.0/')
            fields = ['Comment', 'Disclaimer', 'Source', 'X-Extra']
        elif kind < 0.65:
            lines.append('Files: ' + rng.choice(('*', 'a b', 'src/*')))
            lines.append('Copyright: 2001 Foo')
            fields = ['License', 'Comment', 'X-Note']
        elif kind < 0.85:
            fields = ['License', 'Comment']
        else:
            lines.append('Package: foo')
            fields = ['Description', 'X-Long']
        for f in rng.sample(fields, rng.randint(1, len(fields))):
            lines.append('%s: %s' % (f, rng.choice(('GPL-2+', 'first line', 'x', ''))))
            for _ in range(rng.choice((0, 2, 3, 5))):
                lines.append(rng.choice((' text line', ' .', ' .', '  verbatim', ' more words here', '\tTabbed', ' ..', ' . x', ' Note: see GPL-2', ' Copyright: 2001 quoted', '  k: v', '\tName : spaced', ' # hash', '  \xa0nbsp first', ' \u3000x')))
    return lines


def marks_for(rng, lines, negative=False):
    idx = [j for j, l in enumerate(lines) if l == ' .']
    chosen = []
    for j in idx:
        if rng.random() < 0.6:
            ok = j + 1 < len(lines) and (lines[j + 1][:1] in (' ', '\t')) and lines[j + 1].strip() and (j - 1) not in [c[0] for c in chosen]
            if ok or negative:
                chosen.append([j, rng.choice(REPL)])
    return chosen


def case(rng):
    lines = doc(rng)
    return [lines, marks_for(rng, lines, negative=rng.random() < 0.1)]


def side(t):
    g = c05.observe('C05', t)
    try:
        cobs.prelude()
        p = cobs.paras_obs(cr.DebianCopyright.from_text(t))
    except Exception as e:
        p = Exc(type(e).__name__)
    return [g if not isinstance(g, Exc) else [], p]


def observe(op, inp):
    lines, marks = inp
    m = {}
    for j, r in marks:
        m.setdefault(j, r)
    blanked = [m.get(j, l) for j, l in enumerate(lines)]
    return [side(''.join(l + '\n' for l in lines)), side(''.join(l + '\n' for l in blanked))]


def nontrivial(op, inp, obs):
    return len(inp[1]) >= 1


def histogram(op, inp, obs):
    yield 'marks=%d' % min(len(inp[1]), 5)


def valid_input(op, inp):
    try:
        lines, marks = inp
        return all(isinstance(l, str) for l in lines) and all(isinstance(j, int) and j >= 0 and isinstance(r, str) for j, r in marks)
    except Exception:
        return False


def known_match(entry, op, inp, obs):
    return False


def long_case(rng, total):
    """a document of `total` lines or more: many small paragraphs, every marker blanked, behind a header whose length
    shifts every later line - a reader that works on batches of lines must not take a recovered blank for a boundary"""
    lines = ['Format: https://www.debian.org/doc/packaging-manuals/copyright-format/1.0/', 'Comment: c']
    for _ in range(rng.randint(0, 9)):
        lines.append(' shifted by one line')
    while len(lines) < total:
        lines.append('')
        lines.append('Files: ' + rng.choice(('*', 'src/*')))
        lines.append('Copyright: 2001 Foo')
        lines.append('License: ' + rng.choice(('MIT', 'GPL-2+')))
        for _ in range(rng.choice((1, 1, 2))):
            lines.append(' some text')
            lines.append(' .')
            lines.append(' more text')
    marks = [[j, rng.choice(REPL[:5])] for j, l in enumerate(lines) if l == ' .']
    return [lines, marks]


def streams(tier, rng):
    n = 5000 if tier == 'quick' else 80000
    yield {'name': 'documents-with-blanked-markers', 'op': 'C12', 'cases': (case(rng) for _ in range(n))}
    sizes = (1030, 2060, 2070, 4110) if tier == 'quick' else (520, 1030, 1040, 2060, 2070, 2080, 3000, 4110, 4120, 5000, 8200, 10010)
    yield {'name': 'long-documents', 'op': 'C12', 'cases': (long_case(rng, s) for s in sizes)}
