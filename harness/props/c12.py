"""C12 - Blank lines inside multi-line values are recovered, not paragraph breaks."""
import cobs
import props.c05 as c05
from protocol import Exc
from debian_inspector import copyright as cr

ID = 'C12'
LEVEL = 'proof'
THEOREMS = [('DebInspector.Thm.C12', ['Props.C12.absorb_iff', 'Props.C12.cont_not_decl', 'Props.C12.cont_not_blank', 'Props.C12.blank_before_cont_absorbed'])]
TRUSTED = [
    'Lean 4.33.0 kernel',
    'reading of the property as Props.C12.holdsOn (groups equal up to the text of the replaced markers; same classes, keys, ranges and words)',
    'hand models of the line-tracking parser and of the copyright pipeline, tied by correspondence',
    'translator harness/translate.py and this correspondence harness',
]
ASSUMPTIONS = ['documents are lists of declaration / continuation / empty lines; replaced markers are followed by a continuation line that is not itself replaced']
RULE = ('DEP-5-like and control-like documents with " ." markers in license, comment, description and extra fields; every subset-sample of markers followed by a continuation line, '
        'replaced by empty / space / spaces / tab lines; plus the negative family (two adjacent markers both blanked) where model and implementation must agree that the paragraph splits. '
        'non-trivial = at least one marker replaced')
TECHNIQUE = ('Lean 4 theorems about the look-ahead rule (a blank line is absorbed exactly when the next line is neither blank nor a declaration; a continuation line is neither) '
             '+ executable comparison specification on every implementation observation + correspondence in both directions')
LEVEL_TEXT = ('Proved in Lean 4: in the model of the generator loop a blank line met while a field is open is appended to that field exactly when the next line exists and is neither '
              'a declaration nor blank (absorb_iff), and every continuation line is neither (cont_not_decl, cont_not_blank) - so a blanked marker followed by a continuation line is always '
              'absorbed. That groups, classes, keys, ranges and words are then unchanged is decided by the executable specification on every implementation observation and by '
              'correspondence (including the negative family where the paragraph must split); it is not yet a theorem.')
LEVEL_NOTE = ('Trusted: Lean kernel; axioms propext, Classical.choice, Quot.sound only for the registered theorems; the comparison clauses rest on specification evaluation + correspondence.')

REPL = ['', ' ', '   ', '\t', ' \t ', '\x0c', '\x0b', '\xa0', '\u3000', ' \x0c ', '\u2028', '\x85', '\x1c', '\u2003\u200a']


def doc(rng):
    lines = []
    for pi in range(rng.choice((1, 2, 3, 4))):
        if pi:
            lines.append('')
        kind = rng.random()
        if kind < 0.3:
            lines.append('Format: https://www.debian.org/doc/packaging-manuals/copyright-format/1.0/')
            fields = ['Comment', 'Disclaimer', 'Source', 'X-Extra']
        elif kind < 0.65:
            lines.append('Files: ' + rng.choice(('*', 'a b', 'src/*')))
            lines.append('Copyright: 2001 Foo')
            fields = ['License', 'Comment', 'X-Note']
        elif kind < 0.85:
            fields = ['License', 'Comment']
        else:
            lines.append('Package: foo')
            fields = ['Description', 'X-Long']
        for f in rng.sample(fields, rng.randint(1, len(fields))):
            lines.append('%s: %s' % (f, rng.choice(('GPL-2+', 'first line', 'x', ''))))
            for _ in range(rng.choice((0, 2, 3, 5))):
                lines.append(rng.choice((' text line', ' .', ' .', '  verbatim', ' more words here', '\tTabbed', ' ..', ' . x')))
    return lines


def marks_for(rng, lines, negative=False):
    idx = [j for j, l in enumerate(lines) if l == ' .']
    chosen = []
    for j in idx:
        if rng.random() < 0.6:
            ok = j + 1 < len(lines) and (lines[j + 1][:1] in (' ', '\t')) and lines[j + 1].strip() and (j - 1) not in [c[0] for c in chosen]
            if ok or negative:
                chosen.append([j, rng.choice(REPL)])
    return chosen


def case(rng):
    lines = doc(rng)
    return [lines, marks_for(rng, lines, negative=rng.random() < 0.1)]


def side(t):
    g = c05.observe('C05', t)
    try:
        p = cobs.paras_obs(cr.DebianCopyright.from_text(t))
    except Exception as e:
        p = Exc(type(e).__name__)
    return [g if not isinstance(g, Exc) else [], p]


def observe(op, inp):
    lines, marks = inp
    m = {}
    for j, r in marks:
        m.setdefault(j, r)
    blanked = [m.get(j, l) for j, l in enumerate(lines)]
    return [side(''.join(l + '\n' for l in lines)), side(''.join(l + '\n' for l in blanked))]


def nontrivial(op, inp, obs):
    return len(inp[1]) >= 1


def histogram(op, inp, obs):
    yield 'marks=%d' % min(len(inp[1]), 5)


def valid_input(op, inp):
    try:
        lines, marks = inp
        return all(isinstance(l, str) for l in lines) and all(isinstance(j, int) and j >= 0 and isinstance(r, str) for j, r in marks)
    except Exception:
        return False


def known_match(entry, op, inp, obs):
    return False


def streams(tier, rng):
    n = 5000 if tier == 'quick' else 80000
    yield {'name': 'documents-with-blanked-markers', 'op': 'C12', 'cases': (case(rng) for _ in range(n))}
