"""C12 - Blank lines inside multi-line values are recovered, not paragraph breaks."""
import cobs
import props.c05 as c05
from protocol import Exc
from debian_inspector import copyright as cr

ID = 'C12'
LEVEL = 'proof'
THEOREMS = [('DebInspector.Thm.C12', ['Props.C12.groups_sound', 'Props.C12.sim', 'Props.C12.rstripLines_blank', 'Props.C12.itemsOK_of_wf',
                                      'Props.C12.absorb_iff', 'Props.C12.cont_not_decl', 'Props.C12.cont_not_blank', 'Props.C12.blank_before_cont_absorbed'])]
TRUSTED = [
    'Lean 4.33.0 kernel',
    'reading of the property as Props.C12.holdsOn (groups equal up to the text of the replaced markers; same classes, keys, ranges and words)',
    'hand models of the line-tracking parser and of the copyright pipeline, tied by correspondence',
    'translator harness/translate.py and this correspondence harness',
]
ASSUMPTIONS = ['documents are lists of declaration / continuation / empty lines; replaced markers are followed by a continuation line that is not itself replaced']
RULE = ('DEP-5-like and control-like documents with " ." markers in license, comment, description and extra fields; every subset-sample of markers followed by a continuation line, '
        'replaced by empty / space / spaces / tab lines; plus the negative family (two adjacent markers both blanked) where model and implementation must agree that the paragraph splits. '
        'non-trivial = at least one marker replaced')
TECHNIQUE = ('Lean 4 theorem Props.C12.groups_sound: for every well-formed document and every admissible set of blanked markers the line-tracking parser reports the same groups, fields and line numbers (simulation of the two runs of the loop) '
             '+ executable specification (groups and copyright paragraphs: classes, keys, words) on every observation + correspondence')
LEVEL_TEXT = ('Props.C12.groups_sound: for every well-formed document (every non-empty line a declaration or a continuation line, continuation lines after non-empty lines; any number of lines, paragraphs and fields) and every set of " ." markers '
              'each followed by a continuation line and replaced by an empty or white-space-only line (any Unicode white space, no two adjacent), the model of get_paragraphs_as_field_groups on the blanked text returns exactly what it returns on the original '
              'with the text of the replaced lines emptied: same paragraphs, fields, line numbers and other lines. Proved in Lean 4 by a simulation of the two runs of the loop (sim: the states stay related, a blanked line is absorbed exactly where the marker was a continuation line) '
              'and rstripLines_blank (trailing-blank trimming commutes with the blanking because every blanked line has a later non-blank line in its field). '
              'The copyright-object half (same paragraph classes, keys and words) is decided by the executable specification on every implementation observation and by correspondence, not by theorem.')
LEVEL_NOTE = ('Trusted: Lean kernel; axioms propext, Classical.choice, Quot.sound only for the registered theorems; the comparison clauses rest on specification evaluation + correspondence.')

REPL = ['', ' ', '   ', '\t', ' \t ', '\x0c', '\x0b', '\xa0', '\u3000', ' \x0c ', '\u2028', '\x85', '\x1c', '\u2003\u200a']


def doc(rng):
    lines = []
    for pi in range(rng.choice((1, 2, 3, 4))):
        if pi:
            lines.append('')
        kind = rng.random()
        if kind < 0.3:
            lines.append('Format: https://www.debian.org/doc/packaging-manuals/copyright-format/1.0/')
            fields = ['Comment', 'Disclaimer', 'Source', 'X-Extra']
        elif kind < 0.65:
            lines.append('Files: ' + rng.choice(('*', 'a b', 'src/*')))
            lines.append('Copyright: 2001 Foo')
            fields = ['License', 'Comment', 'X-Note']
        elif kind < 0.85:
            fields = ['License', 'Comment']
        else:
            lines.append('Package: foo')
            fields = ['Description', 'X-Long']
        for f in rng.sample(fields, rng.randint(1, len(fields))):
            lines.append('%s: %s' % (f, rng.choice(('GPL-2+', 'first line', 'x', ''))))
            for _ in range(rng.choice((0, 2, 3, 5))):
                lines.append(rng.choice((' text line', ' .', ' .', '  verbatim', ' more words here', '\tTabbed', ' ..', ' . x', ' Note: see GPL-2', ' Copyright: 2001 quoted', '  k: v', '\tName : spaced', ' # hash', '  \xa0nbsp first', ' \u3000x')))
    return lines


def marks_for(rng, lines, negative=False):
    idx = [j for j, l in enumerate(lines) if l == ' .']
    chosen = []
    for j in idx:
        if rng.random() < 0.6:
            ok = j + 1 < len(lines) and (lines[j + 1][:1] in (' ', '\t')) and lines[j + 1].strip() and (j - 1) not in [c[0] for c in chosen]
            if ok or negative:
                chosen.append([j, rng.choice(REPL)])
    return chosen


def case(rng):
    lines = doc(rng)
    return [lines, marks_for(rng, lines, negative=rng.random() < 0.1)]


def side(t):
    g = c05.observe('C05', t)
    try:
        p = cobs.paras_obs(cr.DebianCopyright.from_text(t))
    except Exception as e:
        p = Exc(type(e).__name__)
    return [g if not isinstance(g, Exc) else [], p]


def observe(op, inp):
    lines, marks = inp
    m = {}
    for j, r in marks:
        m.setdefault(j, r)
    blanked = [m.get(j, l) for j, l in enumerate(lines)]
    return [side(''.join(l + '\n' for l in lines)), side(''.join(l + '\n' for l in blanked))]


def nontrivial(op, inp, obs):
    return len(inp[1]) >= 1


def histogram(op, inp, obs):
    yield 'marks=%d' % min(len(inp[1]), 5)


def valid_input(op, inp):
    try:
        lines, marks = inp
        return all(isinstance(l, str) for l in lines) and all(isinstance(j, int) and j >= 0 and isinstance(r, str) for j, r in marks)
    except Exception:
        return False


def known_match(entry, op, inp, obs):
    return False


def streams(tier, rng):
    n = 5000 if tier == 'quick' else 80000
    yield {'name': 'documents-with-blanked-markers', 'op': 'C12', 'cases': (case(rng) for _ in range(n))}
