"""C03 - Version strings: accepted language and dpkg-style decomposition."""
import genlib
from protocol import Exc
import probe
from debian_inspector.version import Version

ID = 'C03'
LEVEL = 'proof'
THEOREMS = [('DebInspector.Thm.C03', ['Props.C03.sound_partial', 'Props.C03.sound_accept_reject',
                                      'Props.C03.accept_imp_valid', 'Props.C03.mustAccept_imp_ok',
                                      'Props.C03.only_valueError'])]
TRUSTED = [
    'Lean 4.33.0 kernel',
    'reading of the property as Props.C03.holdsOn against Spec.Policy (lean/DebInspector/Props/C03.lean, Spec/Dpkg.lean)',
    'hand-written recogniser Model.Version.isValidVersion for the regular expression (tied by exhaustive small-scope correspondence)',
    'str.strip / str.isspace table regenerated from the interpreter; int() limit from sys.get_int_max_str_digits()',
    'translator harness/translate.py and this correspondence harness',
]
ASSUMPTIONS = [
    'inputs are str objects without lone surrogates',
    'K2: an epoch longer than sys.get_int_max_str_digits() digits is rejected by the interpreter (hypothesis of the accept clause)',
]
RULE = ('sweep: every foreign character (case-fold look-alikes, other-script digits and letters, punctuation, separators) and every str.format/% hazard at every position of 16 contexts; exhaustive: every string up to length L over the class alphabet {0 1 a Z . + - ~ : space _ U+0663 U+00B2}; '
        'random: grammar versions with whitespace padding, long epochs, unicode junk. '
        'non-trivial = the trimmed input starts with a digit (it gets past the first character of the pattern)')

ALPHABET = ['0', '1', 'a', 'Z', '.', '+', '-', '~', ':', ' ', '_', '٣', '²']


def observe(op, s):
    try:
        return probe.twice(lambda: Version.from_string(s), lambda v: [v.epoch, v.upstream, v.revision],
                           lambda v: probe.scramble_attrs(v, epoch=987654321, upstream='zz~scrambled', revision='zz'))
    except Exception as e:
        return Exc(type(e).__name__)


def nontrivial(op, s, obs):
    t = s.strip()
    return bool(t) and t[0] in '0123456789'


def histogram(op, s, obs):
    yield 'accepted' if isinstance(obs, list) else 'rejected:' + obs.name
    yield 'len:%s' % (len(s) if len(s) < 8 else '8+')


def valid_input(op, s):
    return isinstance(s, str)


def known_match(entry, op, s, obs):
    if entry['id'] == 'K2':
        import sys
        t = s.strip()
        return ':' in t and len(t.split(':', 1)[0]) > sys.get_int_max_str_digits() > 0
    return False


def random_cases(rng, n):
    for i in range(n):
        r = rng.random()
        if r < 0.5:
            s = genlib.rand_version(rng, accepted=rng.random() < 0.7)
        elif r < 0.75:
            s = genlib.mutate_version(rng, genlib.rand_version(rng))
        elif r < 0.753:
            # epochs around the interpreter limit
            s = rng.choice('0123456789') * rng.choice((4298, 4299, 4300, 4301, 4303)) + ':1'
        elif r < 0.9:
            s = ''.join(rng.choice(ALPHABET + ['9', 'b', '\n', '\t', 'é', '१', '１'])
                        for _ in range(rng.randint(0, 9)))
        else:
            s = genlib.rand_version(rng) + rng.choice(('', '_', ':', '-', ' x', '٣', ':1', '--', '-+') + tuple(genlib.FOREIGN) + tuple(genlib.FORMAT_HAZARDS))
        if rng.random() < 0.3:
            s = ''.join(rng.choice(genlib.SPACES) for _ in range(rng.randint(0, 2))) + s + \
                ''.join(rng.choice(genlib.SPACES) for _ in range(rng.randint(0, 2)))
        yield s


SWEEP_CONTEXTS = ['@', '1@', '@1', '1.0@', '1.0@1', '1@:1.0', '@:1.0', '1:1.0@', '1:@1', '1.0-@', '1.0-1@', '1.0-@1', '1.0@-1', '1:1.0@-1', '2:1.0-1@0.5', ' 1.0@ ']


def streams(tier, rng):
    yield {'name': 'foreign-character-sweep', 'op': 'C03', 'cases': genlib.foreign_sweep(SWEEP_CONTEXTS), 'exhaustive': True}
    L = 5 if tier == 'quick' else 6
    yield {'name': 'exhaustive-len<=%d' % L, 'op': 'C03', 'cases': genlib.strings_upto(ALPHABET, L), 'exhaustive': True}
    yield {'name': 'random', 'op': 'C03', 'cases': random_cases(rng, 10000 if tier == 'quick' else 200000)}

TECHNIQUE = 'Lean 4 theorem over all Unicode strings (model of from_string vs policy grammar) + exhaustive small-scope correspondence'
LEVEL_TEXT = ('Props.C03.sound_partial: for every Unicode string (any length) the model of Version.from_string accepts only '
              'policy-valid strings, splits them at the first colon / last hyphen, rejects with ValueError only, and accepts '
              'every valid string ending in alphanumerics - proved in Lean 4, hypothesis: epoch convertible by int() (finding K2). '
              'The model is tied to the code by exhaustive correspondence on all strings of length <= 5 (quick) / <= 6 (thorough) '
              'over a 13-symbol class alphabet plus random streams; holdsOn is also evaluated on every implementation observation.')
LEVEL_NOTE = ('Trusted: Lean kernel; axioms propext, Classical.choice, Quot.sound only; the hand recogniser for the validity '
              'regex and str.strip are modelled and tied by correspondence, not verified against CPython; K2 (epoch > 4300 digits) is a known finding.')
