"""C13 - Rendering a copyright object is a faithful fixpoint."""
import gendep5
import cobs
from gendep5 import normalize, valid_input  # noqa: F401
from protocol import Exc
from debian_inspector import copyright as cr

ID = 'C13'
LEVEL = 'other'
EXPLANATION = ('executable fixpoint specification (Lean) evaluated on every implementation observation + differential correspondence of a hand model of the '
               'render/parse cycle with the real code; the only machine-checked facts are about single documents (K1 negation on its witness), so this is not claimed as proof')
THEOREMS = [('DebInspector.Thm.C13', ['Props.C13.K1_witness', 'Props.C13.K1_partial_witness', 'Props.C13.fixpoint_example'])]
TRUSTED = [
    'Lean 4.33.0 kernel',
    'reading of the property as Props.C13.holdsOn (types and dictionary form preserved by render -> parse, second rendering equal, from_dict reproduces the dictionary form, no blank line inside a paragraph of the rendering)',
    'hand model of dumps / from_text / from_dict / to_dict, tied by correspondence',
    'translator harness/translate.py and this correspondence harness',
]
ASSUMPTIONS = ['K1: an unknown (extra) field with a continuation line gains one space of indentation per render/parse cycle (known finding)',
               'document values do not end in blank-line markers (quantifier of the property)']
RULE = ('the DEP-5 documents of C09 (header, files and license paragraphs, multi-line licenses with markers and verbatim lines, multi-line copyright, comments, extra fields with and '
        'without continuation lines). non-trivial = at least two paragraphs')
TECHNIQUE = ('executable fixpoint specification evaluated on every implementation observation + correspondence with the hand model of the render/parse cycle; '
             'Lean 4 proof of the K1 negation on its witness')
LEVEL_TEXT = ('The fixpoint clauses (paragraph types and dictionary form preserved by dumps -> from_text, second rendering identical, from_dict(to_dict(p)) reproduces the dictionary form, the '
              'rendering has exactly one block per paragraph) are decided by the executable specification on every implementation observation and by correspondence with the hand model of the '
              'whole render/parse cycle. Proved in Lean 4 (by kernel evaluation, so they are facts about single documents, not the universal claim): the negation for finding K1 on its concrete witness '
              '(K1_witness), that the K1 hypothesis removes the objection there, and the fixpoint on one non-trivial document. The universal fixpoint statement is not yet a theorem.')
LEVEL_NOTE = ('Trusted: Lean kernel; axioms propext, Classical.choice, Quot.sound only for the registered theorems; the fixpoint clauses rest on specification evaluation + correspondence; K1 is a known finding.')


def kd(p):
    return [cobs.KINDS[type(p).__name__], [[k, cobs.dv(v)] for k, v in p.to_dict().items()]]


def observe(op, inp):
    try:
        c = cr.DebianCopyright.from_text(inp[2])
        d1 = c.dumps()
        c2 = cr.DebianCopyright.from_text(d1)
        d2 = c2.dumps()
        fd = []
        for p in c.paragraphs:
            q = type(p).from_dict(p.to_dict())
            fd.append([[k, cobs.dv(v)] for k, v in q.to_dict().items()])
        return [[kd(p) for p in c.paragraphs], d1, [kd(p) for p in c2.paragraphs], d2, fd]
    except Exception as e:
        return Exc(type(e).__name__)


def nontrivial(op, inp, obs):
    return len(inp[0]) >= 2


def histogram(op, inp, obs):
    yield 'paragraphs=%d' % min(len(inp[0]), 6)
    if any(f[1] == 5 and f[3] for p in inp[0] for f in p):
        yield 'has-multiline-extra'


ASK = None


def known_match(entry, op, inp, obs):
    if entry['id'] == 'K1':
        multi = any(f[1] == 5 and f[3] for p in inp[0] for f in p)
        if not multi:
            return False
        # the failure must disappear when the continuation lines of the extra fields are removed
        paras = [[[f[0], f[1], f[2], ([] if f[1] == 5 else f[3])] for f in p] for p in inp[0]]
        alt = [paras, inp[1], gendep5.render(paras, inp[1])]
        return ASK is None or ASK('C13', alt, observe('C13', alt))
    return False


def streams(tier, rng):
    n = 3000 if tier == 'quick' else 50000
    yield {'name': 'dep5-documents', 'op': 'C13', 'cases': (gendep5.doc(rng) for _ in range(n))}
