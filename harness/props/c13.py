"""C13 - Rendering a copyright object is a faithful fixpoint."""
import gendep5
import cobs
from gendep5 import normalize, valid_input  # noqa: F401
from protocol import Exc
from debian_inspector import copyright as cr

ID = 'C13'
LEVEL = 'proof'
EXPLANATION = ('Lean 4 theorem for every document of the DEP-5 grammar whose text blocks start with a paragraph line (Props.C13D.sound_partial): outside finding K1 the copyright object '
               'is a fixpoint of dumps -> from_text, from_dict(to_dict(p)) reproduces every paragraph and the rendering has one block of lines per paragraph; the hand model of '
               'parser, typed fields and renderers is tied to the code by differential correspondence, and the executable specification is evaluated on every implementation observation '
               '(which also covers text blocks that start with a verbatim line, where the theorem is silent)')
THEOREMS = [('DebInspector.Thm.C13D', ['Props.C13D.sound_partial', 'Props.C13D.cycle', 'Props.C13D.fromDict_toDict', 'Props.C13D.noBlank_canon',
                                       'Props.C13D.wf_canon', 'Props.C13D.docDumps_eq', 'Props.C13D.fromText_spells']),
            ('DebInspector.Thm.C13P', ['Props.C13P.paraDumps_eq', 'Props.C13P.paraOk_canon', 'Props.C13P.paraOf_canon', 'Props.C13P.toDict_eq']),
            ('DebInspector.Thm.C13F', ['Props.C13F.dumps_eq', 'Props.C13F.canon_fieldOk', 'Props.C13F.canon_expected', 'Props.C13F.normLabel_canon']),
            ('DebInspector.Thm.C13', ['Props.C13.K1_witness', 'Props.C13.K1_partial_witness', 'Props.C13.fixpoint_example'])]
TRUSTED = [
    'Lean 4.33.0 kernel',
    'reading of the property as Props.C13.holdsOn (types and dictionary form preserved by render -> parse, second rendering equal, from_dict reproduces the dictionary form, no blank line inside a paragraph of the rendering)',
    'the DEP-5 grammar Props.Dep5 (shared with C09) as the meaning of "well-formed machine-readable copyright document"',
    'hand model of dumps / from_text / from_dict / to_dict (Model.Copyright, Model.Debcon, Model.Deb822), tied by correspondence',
    'translator harness/translate.py (field tables, converter classes, special-cased names) and this correspondence harness',
]
ASSUMPTIONS = ['K1: an unknown (extra) field with a continuation line gains one space of indentation per render/parse cycle (known finding; the theorem is stated outside it)',
               'document values do not end in blank-line markers (quantifier of the property)',
               'the theorem covers text blocks that start with a paragraph line; blocks that start with a verbatim line are decided by specification evaluation + correspondence only']
RULE = ('the DEP-5 documents of C09 (header, files and license paragraphs, multi-line licenses with markers and verbatim lines, multi-line copyright with any indentation, comments, extra fields with and '
        'without continuation lines, names with doubled and trailing hyphens). non-trivial = at least two paragraphs')
TECHNIQUE = ('Lean 4 theorem Props.C13D.sound_partial (field level: dumps of every typed value is the raw value of a canonical field of the same grammar that spells the same value; '
             'paragraph level: the object is rendered as its canonical paragraph; document level: the C09 theorem applied to the canonical document closes the cycle) + '
             'executable specification evaluated on every implementation observation + correspondence with the hand model of the render/parse cycle')
LEVEL_TEXT = ('Proved in Lean 4 for every document of the grammar whose text blocks start with a paragraph line and that has no unknown field with a continuation line (finding K1): '
              'dumps() of the object is the text of a canonical document of the same grammar (typed fields in class order under their conventional names, one list item per line, '
              'copyright statements aligned, texts starting on the declaration line), which by the C09 theorem parses to paragraph objects with the same class and dictionary form, '
              'so the second rendering is identical (cycle); from_dict(to_dict(p)) reproduces the dictionary form (fromDict_toDict); the rendering has exactly one block of lines per '
              'paragraph (noBlank_canon). The whole statement is Props.C13D.sound_partial. Not proved: text blocks that start with a verbatim line (the first parse strips its '
              'indentation, so the C09 typed-value theorem does not apply) - there, and on every other input, the executable specification is evaluated on the implementation\'s '
              'observations and the hand model is compared with the code. The K1 negation is proved on its witness.')
LEVEL_NOTE = ('Trusted: Lean kernel; axioms propext, Classical.choice, Quot.sound only; the hand model is tied to the code by correspondence, not by translation; K1 is a known finding and the '
              'theorem is stated outside it; verbatim-first text blocks rest on specification evaluation + correspondence.')


def kd(p):
    return [cobs.KINDS[type(p).__name__], [[k, cobs.dv(v)] for k, v in p.to_dict().items()]]


def observe(op, inp):
    try:
        cobs.prelude()
        c = cr.DebianCopyright.from_text(inp[2])
        d1 = c.dumps()
        c2 = cr.DebianCopyright.from_text(d1)
        d2 = c2.dumps()
        fd = []
        for p in c.paragraphs:
            q = type(p).from_dict(p.to_dict())
            fd.append([[k, cobs.dv(v)] for k, v in q.to_dict().items()])
        return [[kd(p) for p in c.paragraphs], d1, [kd(p) for p in c2.paragraphs], d2, fd]
    except Exception as e:
        return Exc(type(e).__name__)


def nontrivial(op, inp, obs):
    return len(inp[0]) >= 2


def histogram(op, inp, obs):
    yield 'paragraphs=%d' % min(len(inp[0]), 6)
    if any(f[1] == 5 and f[3] for p in inp[0] for f in p):
        yield 'has-multiline-extra'


ASK = None


def known_match(entry, op, inp, obs):
    if entry['id'] == 'K1':
        multi = any(f[1] == 5 and f[3] for p in inp[0] for f in p)
        if not multi:
            return False
        # the failure must disappear when the continuation lines of the extra fields are removed
        paras = [[[f[0], f[1], f[2], ([] if f[1] == 5 else f[3])] for f in p] for p in inp[0]]
        alt = [paras, inp[1], gendep5.render(paras, inp[1])]
        return ASK is None or ASK('C13', alt, observe('C13', alt))
    return False


def streams(tier, rng):
    n = 3000 if tier == 'quick' else 50000
    yield {'name': 'dep5-documents', 'op': 'C13', 'cases': (gendep5.doc(rng) for _ in range(n))}
