"""C08 - Header-style control parser drops no content; duplicates merge losslessly."""
import itertools
import gen822
from protocol import Exc
from debian_inspector import debcon

ID = 'C08'
LEVEL = 'proof'
THEOREMS = [('DebInspector.Thm.C08', ['Props.C08.mergeItems_keys', 'Props.C08.mergeItems_lookup', 'Props.C08.mergeStep_keys']),
            ('DebInspector.Thm.C08M', ['Props.C08M.soundM', 'Props.C08M.getParagraphData_items']),
            ('DebInspector.Thm.C08W', ['Props.C08W.sound', 'Props.C08W.paragraph_words', 'Props.C08W.paragraphs_words', 'Props.C08W.phl_atoms',
                                       'Props.C08W.hsp_atoms', 'Props.C08W.items_sub', 'Props.C08W.splitKeepEnds_TE', 'Props.C08W.sep_line_atoms',
                                       'Props.C08W.splitParagraphsAux_atoms'])]
TRUSTED = [
    'Lean 4.33.0 kernel',
    'reading of the property as Props.C08.holdsOn (word inclusion) and holdsOnM (merge of repeated names)',
    'hand model of email.parser.HeaderParser().parsestr under compat32 (line splitting, headerRE, continuation, unix-from, four defects, header_source_parse, headers-only payload) '
    'and of get_paragraph_data / split_in_paragraphs, tied by correspondence; the standard library is modelled, not verified',
    'translator harness/translate.py and this correspondence harness',
]
ASSUMPTIONS = ['texts are str objects without lone surrogates; words are lower-cased runs of non-white-space, non-colon characters']
RULE = ('line vocabulary with repeats (a: 1, a: 2, A: 3, b:, continuations, From me at first/middle/last position, colon-first lines, blank-then-body, CRLF/CR, FF, U+0085, U+2028); '
        'the pairs family exhaustively for <= 4 pairs over 2 names x 2 casings x 3 values. non-trivial = the text has a colon')
TECHNIQUE = ('Lean 4 theorems for both clauses: Props.C08W.sound (word inclusion, for every text, through the model of the stdlib header parser, the merging loop and the paragraph splitter) and '
             'Props.C08M.soundM (the merge clause on the rendered text) + executable specification evaluated on every implementation observation + correspondence with the hand model of the stdlib header parser')
LEVEL_TEXT = ('Props.C08W.sound: for every text, every word of the text (lower-cased maximal run of characters that are neither white space nor a colon) appears in a key or a value of get_paragraph_data(text), and of '
              'one of the mappings of get_paragraphs_data(text). Steps: splitKeepEnds_TE / atoms_flatten (the words of a text are the words of its lines: every line but the last ends with a terminator), '
              'phl_atoms (the header loop of the model of the stdlib parser: when it reports no defect, the unix-from line, the headers and the pushed-back line hold every word of the lines it was given), '
              'hsp_atoms (one header: name and value hold every word of its source lines, through the trimming of header_source_parse), sep_line_atoms (the separator line that is thrown away has no words), '
              'items_sub (the merging loop keeps every name and every distinct non-empty value: mergeItems_lookup), splitParagraphsAux_atoms (the paragraph splitter removes only line breaks and blank lines); '
              'when the parser reports a defect or finds no header the whole text is kept under "unknown". '
              'Props.C08M.soundM: for every paragraph of Name: value fields whose values have any number of continuation lines, with any pattern of repeated names and values, the model of get_paragraph_data on the rendered text returns '
              'each lower-cased name once, in order of first occurrence, with its distinct values (whole, multi-line values included) in order of first appearance (mergeItems_keys, mergeItems_lookup: no hypothesis on the values since fix F14). '
              'The stdlib parser itself is modelled, not verified: the model is tied to CPython by its own correspondence stream.')
LEVEL_NOTE = ('Trusted: Lean kernel; axioms propext, Classical.choice, Quot.sound only; the stdlib email parser is modelled and tied by correspondence, not verified.')

VOCAB = ['a: 1', 'a: 2', 'A: 3', 'a: 1', 'b:', 'b: x y', ' cont', '\tcont2', ' .', 'From me', 'From: you', ':x', ': ', 'junk line', '', ' ', 'Homepage: http://x:80/y',
         'é: non-ascii', 'k\x0cl: ff', 'v: a\x0bb', 'w: c\x85d', 'x y', 'Name with space: v', '-: dash', 'a:1', 'A:  padded  ', 'From me again', 'unknown: u', 'Unknown: U2']


def texts(rng, n):
    for _ in range(n):
        k = rng.randint(0, 8)
        lines = [rng.choice(VOCAB) for _ in range(k)]
        yield gen822.render(lines, rng)


def repeats(rng, n):
    """repeated names whose multi-line values overlap: equal first lines with different continuations, different first lines
    with equal continuations, a value that is a prefix / a line subset of an earlier one"""
    for _ in range(n):
        lines = []
        for _ in range(rng.randint(2, 5)):
            lines.append('%s: %s' % (rng.choice(('a', 'a', 'A', 'b', 'Checksums')), rng.choice(('1', '1', '2', 'first', ''))))
            lines.extend(rng.choice((' cont', ' cont', ' 0 common-file', ' .', '\tcont')) for _ in range(rng.choice((0, 1, 1, 2, 3))))
        yield gen822.render(lines, rng)


def pairs_family():
    names = ['a', 'A', 'b', 'B']
    values = ['1', '2', 'x y']
    for n in (1, 2, 3, 4):
        for combo in itertools.product(itertools.product(names, values), repeat=n):
            yield [[nm, v] for nm, v in combo]


def d2l(d):
    out = []
    for k, v in d.items():
        if not isinstance(k, str) or not isinstance(v, str):
            raise TypeError('non-string in mapping')
        out.append([k, v])
    return out


def scramble(d):
    """overwrite a returned mapping in place: a later call must not see it (results are fresh objects)"""
    try:
        d.clear()
        d['zz-probe'] = 'scrambled'
    except Exception:
        pass


def pdata(text):
    """get_paragraph_data(text), asked twice with the first answer overwritten in between"""
    d = debcon.get_paragraph_data(text)
    o = d2l(d)
    if isinstance(d, dict):
        scramble(d)
        if d2l(debcon.get_paragraph_data(text)) != o:
            return Exc('ResultAliased')
    return o


def psdata(text):
    ds = list(debcon.get_paragraphs_data(text))
    o = [d2l(d) for d in ds]
    for d in ds:
        if isinstance(d, dict):
            scramble(d)
    if [d2l(d) for d in debcon.get_paragraphs_data(text)] != o:
        return Exc('ResultAliased')
    return o


def observe(op, inp):
    if op == 'C08m':
        text = ''.join('%s: %s\n' % (n, v) for n, v in inp)
        try:
            return pdata(text)
        except Exception as e:
            return Exc(type(e).__name__)
    try:
        a = pdata(inp)
    except Exception as e:
        a = Exc(type(e).__name__)
    # the third observation point: Debian822(text) reads the text after signature removal; a text that is not an
    # enveloped message (does not start with the armor header line and end with the armor tail) is read as it is
    s = inp.strip()
    if inp and not (s.startswith('-----BEGIN PGP SIGNED MESSAGE-----') and s.endswith('-----END PGP SIGNATURE-----')) and isinstance(a, list):
        try:
            d = debcon.Debian822(inp).to_dict()
            if [[k, v] for k, v in d.items()] != a or d2l(debcon.get_paragraph_data(inp, remove_pgp_signature=True)) != a:
                a = Exc('RoutesDisagree')
        except Exception as e:
            a = Exc('Route' + type(e).__name__)
    try:
        b = psdata(inp)
    except Exception as e:
        b = Exc(type(e).__name__)
    return [a, b]


def nontrivial(op, inp, obs):
    return op == 'C08m' or ':' in inp


def histogram(op, inp, obs):
    if op == 'C08':
        a = obs[0]
        yield 'pdata:' + ('exc' if isinstance(a, Exc) else 'unknown-only' if [k for k, _ in a] == ['unknown'] else 'fields')
    else:
        yield 'pairs=%d' % len(inp)


def valid_input(op, inp):
    if op == 'C08m':
        return isinstance(inp, list) and all(isinstance(x, list) and len(x) == 2 and all(isinstance(y, str) for y in x) for x in inp)
    return isinstance(inp, str)


def known_match(entry, op, inp, obs):
    return False


MV_FIRST = ['1', '2', 'first', 'x y', 'c']
MV_CONTS = [' c', ' 0 common-file', '\tc', ' .', ' 1', '  two', ' ']


def multiline_pairs(rng, n):
    """repeated names whose values have continuation lines: whole values repeat, share lines, are a line or a prefix of one another"""
    for _ in range(n):
        items = []
        for _ in range(rng.randint(1, 5)):
            v = rng.choice(MV_FIRST)
            conts = [rng.choice(MV_CONTS) for _ in range(rng.choice((0, 0, 1, 1, 2, 3)))]
            while conts and not conts[-1].strip():
                conts.pop()
            items.append([rng.choice(('a', 'a', 'A', 'b', 'Checksums-Sha256')), '\n'.join([v] + conts)])
        yield items


def multiline_family():
    vals = ['x', 'x\n c', 'c', 'x\n c\n d', 'y\n c']
    for n in (2, 3):
        for combo in itertools.product(vals, repeat=n):
            yield [['a', v] for v in combo]
            yield [['a' if i != 1 else 'B', v] for i, v in enumerate(combo)]


def armored(rng, n):
    """texts that hold a whole clear-signed block but are not enveloped messages: content after the armor tail, before
    the armor header, or both - nothing of them may be dropped by any of the three readers"""
    import props.c16 as c16
    for _ in range(n):
        msg = c16.wellformed(rng)[8].replace('\r\n', '\n')
        before = rng.choice(('', '', 'Package: a\n', 'junk\n', '\n'))
        after = rng.choice(('Checksums-Sha1: 1b7f zlib.tar.gz\nHomepage: http://zlib.net/\n', 'trailing', 'x: y', '\n\nFiles: z\n', ' ', '-----END PGP SIGNATURE-----x'))
        if not before and rng.random() < 0.15:
            after = ''
        yield before + msg + ('' if msg.endswith('\n') or not after else '\n') + after


def streams(tier, rng):
    yield {'name': 'pairs-family', 'op': 'C08m', 'cases': pairs_family(), 'exhaustive': True}
    yield {'name': 'multi-line-values-family', 'op': 'C08m', 'cases': multiline_family(), 'exhaustive': True}
    yield {'name': 'multi-line-values-random', 'op': 'C08m', 'cases': multiline_pairs(rng, 3000 if tier == 'quick' else 50000)}
    L = 3 if tier == 'quick' else 4
    yield {'name': 'exhaustive-lines<=%d' % L, 'op': 'C08', 'cases': gen822.exhaustive(L, rng), 'exhaustive': True}
    yield {'name': 'vocabulary-texts', 'op': 'C08', 'cases': texts(rng, 20000 if tier == 'quick' else 300000)}
    yield {'name': 'repeated-names-overlapping-values', 'op': 'C08', 'cases': repeats(rng, 4000 if tier == 'quick' else 60000)}
    yield {'name': 'random-822', 'op': 'C08', 'cases': (gen822.random_text(rng, 10) for _ in range(5000 if tier == 'quick' else 80000))}
    yield {'name': 'armor-lines-inside-plain-text', 'op': 'C08', 'cases': armored(rng, 1500 if tier == 'quick' else 20000)}
