"""C02 - Version comparison is one coherent total preorder."""
import itertools
import genlib
from protocol import Exc
from debian_inspector import version as V
from debian_inspector.version import Version

ID = 'C02'
LEVEL = 'proof'
THEOREMS = [
    ('DebInspector.Thm.C02', ['Props.C02.sound', 'Props.C02.holdsFull_fullOf', 'Props.C02.firstMax_extremal', 'Props.C02.sorted_adjacent', 'Props.C02.cmp_refl', 'Props.C02.cmp_swap', 'Props.C02.cmp_trans_le', 'Props.C02.cmp_trans_lt',
                              'Props.C02.cmp_values', 'Props.C02.ops_agree', 'Props.C02.eq_imp_cmp_zero',
                              'Props.C02.stableSort_perm', 'Props.C02.stableSort_sorted']),
    ('DebInspector.Tie.VersionTables', ['Tie.VersionTables.rank_iso', 'Tie.VersionTables.tableOK']),
]
TRUSTED = [
    'Lean 4.33.0 kernel',
    'reading of the property as Props.C02.holdsFull (order laws over the observed matrix, operators, sorted/max/min)',
    "CPython's sorted/max/min are correct for a strict weak order (the precondition is what is proved); hash() is an uninterpreted function of the tuple",
    'hand model of the comparison API, tied by correspondence; operator table regenerated behaviourally from eval_constraint each run',
    'translator harness/translate.py and this correspondence harness',
]
ASSUMPTIONS = ['inputs are lists of str objects; lists with a rejected string are outside the property']
RULE = ('lists of 0-6 versions built around order-equal classes (1.0, 1.00, 0:1.0, 1.0-0) and their neighbours (~, letter, + appended; '
        'epoch +-1), in random order; all triples of a fixed 14-version pool. non-trivial = list accepted, >= 2 elements, not all textually equal')
TECHNIQUE = ('Lean 4 theorem Props.C02.sound: for every list of strings the whole observation of the model (matrix, rich comparisons, seven operators, sorted twice, max, min) satisfies every clause; '
             'padded-lexicographic comparison over a total preorder is a total preorder, instantiated for the model; '
             'operator table by decide; stable sort lemmas; + correspondence on classes of order-equal versions')
LEVEL_TEXT = ('Props.C02.sound: for every list of strings (any number, any length) the observation the model makes through the whole API - the matrix of compare_versions, <, <=, >, >=, ==, != and the seven constraint operators on every ordered pair, '
              'sorted() of the objects and by key, max and min - satisfies every clause of the property as written in Props.C02.holdsFull (holdsFull_fullOf for any total-preorder table; sorted_adjacent: the stable sort is non-decreasing; firstMax_extremal: the running extremum is extremal). '
              'In detail, for all accepted version strings (any length): compare is reflexive, compare(b,a) = -compare(a,b), transitive including '
              'through order-equal versions (Props.C02.cmp_refl/cmp_swap/cmp_trans_le/cmp_trans_lt, from the generic lemma that padded '
              'lexicographic comparison over a total preorder is a total preorder); the seven constraint operators and the rich '
              'comparisons are the stated functions of the three-way result (ops_agree, by decide over the regenerated table); == implies '
              'order-equal; a stable insertion sort under the order is a non-decreasing permutation. The model is tied to the code by '
              'correspondence on the full observation (matrix, 13 operators per pair, sorted/sorted-by-key/max/min as index lists); '
              'holdsFull is evaluated on every implementation observation.')
LEVEL_NOTE = ('Trusted: Lean kernel; axioms propext, Classical.choice, Quot.sound only; CPython sorted/max/min and hash are not '
              'modelled beyond the strict-weak-order precondition (the model sorts by stable insertion and takes the first extremum, which is what correspondence compares with CPython).')

POOL = ['1.0', '1.00', '0:1.0', '1.0-0', '1.0~', '1.0~~', '1.0a', '1.0+', '1.0+b1', '1:0.5', '1.0-1', '1.0-0~', '2', '01:0.5']


def observe(op, vs):
    try:
        objs = [Version.from_string(s) for s in vs]
    except Exception as e:
        return Exc(type(e).__name__)
    n = len(vs)
    matrix = []
    pairs = []
    try:
        for i in range(n):
            row = []
            prow = []
            for j in range(n):
                r = V.compare_versions(vs[i], vs[j])
                row.append(r)
                a, b = objs[i], objs[j]
                eq = a == b
                rich = [a < b, a <= b, a > b, a >= b, eq, a != b]
                ops = [V.eval_constraint(vs[i], o, vs[j]) for o in ('<<', '<=', '<', '=', '>=', '>', '>>')]
                prow.append([[bool(x) for x in rich], (hash(a) == hash(b)) if eq else True, [bool(x) for x in ops]])
            matrix.append(row)
            pairs.append(prow)
        idx = list(range(n))
        so = sorted(idx, key=lambda i: objs[i])
        sk = sorted(idx, key=lambda i: V.compare_versions_key(vs[i]))
        # sorted() on the objects themselves must give the same order as sorting indices by object
        direct = sorted(objs)
        if [id(o) for o in direct] != [id(objs[i]) for i in so]:
            so = [objs.index(o) for o in direct]
        if n:
            mx = max(idx, key=lambda i: objs[i])
            mn = min(idx, key=lambda i: objs[i])
            if max(objs) is not objs[mx] or min(objs) is not objs[mn]:
                mx = [i for i in idx if objs[i] is max(objs)][0]
                mn = [i for i in idx if objs[i] is min(objs)][0]
        else:
            mx = mn = None
    except Exception as e:
        return Exc(type(e).__name__)
    return [matrix, pairs, so, sk, mx, mn]


def nontrivial(op, vs, obs):
    return isinstance(obs, list) and len(vs) >= 2 and len(set(vs)) >= 2


def histogram(op, vs, obs):
    yield 'n=%d' % len(vs)
    yield 'accepted' if isinstance(obs, list) else 'rejected'
    if isinstance(obs, list) and len(vs) >= 2:
        zeros = sum(1 for i, row in enumerate(obs[0]) for j, r in enumerate(row) if i < j and r == 0 and vs[i] != vs[j])
        if zeros:
            yield 'has-order-equal-but-different-pair'


def valid_input(op, vs):
    return isinstance(vs, list) and all(isinstance(x, str) for x in vs)


def known_match(entry, op, vs, obs):
    return False


def class_version(rng):
    base = rng.choice(('1.0', '1', '0.5', '2.3.4', '1.0~rc1', '3a', '10'))
    r = rng.random()
    if r < 0.15:
        base = base.replace('0', '00', 1) if '0' in base else '0' + base
    if rng.random() < 0.3:
        base = rng.choice(('0:', '00:', '1:', '2:')) + base
    if rng.random() < 0.3:
        base += rng.choice(('~', '~~', 'a', '+', '+b1', '.0', '.00', '~a'))
        if base[-1] not in genlib.ALNUM:
            base += rng.choice(('', '1', '0'))
    if rng.random() < 0.3:
        base += rng.choice(('-0', '-00', '-1', '-0~1', '-0+1'))
    return base


def dotted_numeric(rng):
    """plain dotted numbers, with the degenerate spellings a fast path would take for the same number: empty components
    (consecutive or trailing full stops), leading zeros, numeric revisions"""
    comps = [rng.choice(('1', '2', '02', '10', '0', '')) for _ in range(rng.choice((1, 2, 2, 3, 3, 4)))]
    u = rng.choice(('1', '1', '2', '01')) + ''.join('.' + c for c in comps)
    if rng.random() < 0.3:
        u = rng.choice(('0:', '1:')) + u
    if rng.random() < 0.4:
        u += '-' + rng.choice(('0', '1', '01', '2', '10'))
    return u


def letters_mixed(rng):
    """letters of both cases, digits with leading zeros and the three punctuation characters, around a common stem"""
    u = '1.0' + ''.join(rng.choice(('a', 'B', 'Z', 'b', 'alpha', 'Beta', 'rc', 'Zeta', '~', '+', '.', '-', '0', '1', '01', '10', '9')) for _ in range(rng.choice((1, 2, 2, 3))))
    return u


def hyphen_family(rng):
    """spellings around a stem that already holds a hyphen: the revision is what follows the LAST hyphen, so writing an
    implied `-0` out (or leaving it out) changes which part is the revision"""
    stem = rng.choice(('1-2', '1.0-1', '2-0', '1-2-3', '1.0-0', '1-0', '3~a-1'))
    s = stem + rng.choice(('', '', '-0', '-00', '-0-0', '-1', '-0~', '-0+'))
    if rng.random() < 0.25:
        s = rng.choice(('0:', '00:', '1:')) + s
    return s


def lists(rng, n):
    for _ in range(n):
        k = rng.choice((0, 1, 2, 2, 3, 3, 3, 4, 4, 5, 6))
        r = rng.random()
        if r < 0.32:
            vs = [class_version(rng) for _ in range(k)]
        elif r < 0.4:
            vs = [hyphen_family(rng) for _ in range(k)]
        elif r < 0.5:
            vs = [dotted_numeric(rng) for _ in range(k)]
        elif r < 0.6:
            vs = [letters_mixed(rng) for _ in range(k)]
        elif r < 0.9:
            vs = [rng.choice(POOL) for _ in range(k)]
        else:
            a = genlib.rand_version(rng)
            vs = [a] + [genlib.mutate_version(rng, a) for _ in range(max(0, k - 1))]
        rng.shuffle(vs)
        yield vs


def streams(tier, rng):
    yield {'name': 'pool-triples', 'op': 'C02', 'cases': ([a, b, c] for a in POOL for b in POOL for c in POOL), 'exhaustive': True}
    yield {'name': 'class-lists', 'op': 'C02', 'cases': lists(rng, 3000 if tier == 'quick' else 60000)}
