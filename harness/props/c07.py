"""C07 - Lenient parsing is total: no input text makes it raise."""
import itertools
import gen822
import cobs
from protocol import Exc
from debian_inspector import deb822, debcon
from debian_inspector import copyright as cr

ID = 'C07'
LEVEL = 'proof'
THEOREMS = [('DebInspector.Thm.C07', ['Props.C07.sound', 'Props.C07.fromText_ok', 'Props.C07.mergeUnknown_ok', 'Props.C07.foldLicense_ok', 'Props.C07.docDumps_cases',
                                      'Props.C07.freshName_some', 'Props.C07.addField_ok', 'Props.C07.fromFields_ok'])]
TRUSTED = [
    'Lean 4.33.0 kernel',
    'reading of the property as Props.C07.holdsOn (every entry point returns; repeated calls equal)',
    'hand model of the copyright pipeline (from_fields, classification, converters, merge, fold, to_dict, dumps, is_valid) with every raise point explicit, tied by correspondence including exception types',
    'get_paragraph_data / get_paragraphs_data are observed only (their model is the header-parser model of C08)',
    'translator harness/translate.py and this correspondence harness',
]
ASSUMPTIONS = ['texts are str objects without lone surrogates', 'the force of the totality theorem is the fidelity of the model raise points, which the exception-type correspondence measures']
RULE = ('exhaustive line-kind texts (C05 stream); field names that collide with numeric suffixes and internal attribute names '
        '(License-1, Files-1-1, Extra-Data, Line-Numbers-By-Field, Unknown, unknown-1) exhaustively for <= 4 fields over 8 names; MIME-looking headers with bodies, sequences of paragraph kinds (value-less fields, unknown names, empty licenses; all up to 3/4 paragraphs, random up to 7); every returned value is emptied before the second call; '
        'From lines, colon-only lines; raw Unicode noise. non-trivial = the text has a declaration line')
TECHNIQUE = ('Lean 4 theorem Props.C07.sound: for every text the model of every lenient entry point returns normally (every explicit raise point of the copyright pipeline is unreachable) '
             '+ exception-type correspondence of the whole pipeline + holdsOn on every observation')
LEVEL_TEXT = ('Props.C07.sound: for every Unicode text the model satisfies the property. The model of the copyright pipeline carries every raise point of the Python code explicitly '
              '(clash assertion and index errors in from_fields, AttributeError on a list value in the merge of unknown paragraphs, KeyError on a missing line range in the fold, ...) and the theorem shows none is reachable: '
              'the renaming loop always finds an unused name within |seen|+1 steps (freshName_some, the argument that is finding F4) so from_fields returns for any fields (fromFields_ok); every paragraph it builds has string-valued '
              'extra data with a line range per key, so merging any run of unknown paragraphs returns (mergeUnknown_ok) and keeps a range for every non-empty text, so the fold finds the range it reads (foldLicense_ok, fromText_ok); '
              'rendering returns (docDumps_cases; the model leaves only non-ASCII field names outside, as OutOfModel). By induction over fields, groups and paragraphs, any number of them. '
              'The two parsers are total functions in the model (the line-tracking loop has no raise point; the header-style parser rests on the modelled stdlib parser). '
              'The force of the theorem is the fidelity of the modelled raise points, which the exception-type correspondence measures on every run (exhaustive line-kind texts, name-clash families, MIME-looking paragraphs).')
LEVEL_NOTE = ('Trusted: Lean kernel; axioms propext, Classical.choice, Quot.sound only; fidelity of the raise points of the hand model; '
              'stdlib email parsing behind get_paragraph_data is observed, not modelled here.')


def scramble(x, depth=0):
    """use up a returned value the way a caller may: empty every mapping and list reachable from it. What a later call on the
    same text returns must not depend on it (a result that is shared with a cache, a default or the next result would)."""
    if depth > 6:
        return
    if isinstance(x, dict):
        vals = list(x.values())
        x.clear()
    elif isinstance(x, list):
        vals = list(x)
        del x[:]
    elif hasattr(x, '__dict__') and type(x).__module__.startswith('debian_inspector'):
        vals = list(vars(x).values())
    else:
        return
    for v in vals:
        scramble(v, depth + 1)


def observe(op, t):
    def run():
        out = []
        raw = []
        try:
            gs = list(deb822.get_paragraphs_as_field_groups(t))
            raw.append(gs)
            g = [[(f.name, [(l.number, l.value) for l in f.lines]) for f in grp] for grp in gs]
            out.append((None, g))
        except Exception as e:
            out.append((Exc(type(e).__name__), None))
        try:
            pd = list(debcon.get_paragraphs_data(t))
            raw.append(pd)
            out.append((None, [dict(d) for d in pd]))
        except Exception as e:
            out.append((Exc(type(e).__name__), None))
        try:
            d1 = debcon.get_paragraph_data(t)
            raw.append(d1)
            out.append((None, dict(d1)))
        except Exception as e:
            out.append((Exc(type(e).__name__), None))
        try:
            c = cr.DebianCopyright.from_text(t)
            raw.append(c)
            raw.append(c.to_dict())
            paras = cobs.paras_obs(c)
            d = c.dumps()
            v = bool(c.is_valid())
            vs = bool(c.is_valid(strict=True))
            out.append((None, [paras, d, v, vs]))
        except Exception as e:
            out.append((Exc(type(e).__name__), None))
        return repr(out), out, raw
    ra, a, raw = run()
    scramble(raw)
    rb, b, _ = run()
    same = ra == rb
    flags = [x[0] for x in a]
    cres = a[3][1] if a[3][0] is None else a[3][0]
    return [flags[0], flags[1], flags[2], cres, same]


def nontrivial(op, t, obs):
    return ':' in t


def histogram(op, t, obs):
    c = obs[3]
    if isinstance(c, Exc):
        yield 'copyright:' + c.name
    else:
        kinds = sorted(set(p[0] for p in c[0]))
        yield 'kinds:' + '+'.join(kinds)
    for i, n in enumerate(('groups', 'pdatas', 'pdata')):
        if obs[i] is not None:
            yield n + ':' + obs[i].name


def valid_input(op, t):
    return isinstance(t, str)


def known_match(entry, op, t, obs):
    return False


CLASH = ['License', 'License-1', 'Files', 'Files-1-1', 'Extra-Data', 'Line-Numbers-By-Field', 'Unknown', 'unknown-1']


def clash_family(maxn):
    for n in range(1, maxn + 1):
        for names in itertools.product(CLASH, repeat=n):
            yield '\n'.join('%s: v%d' % (nm, i) for i, nm in enumerate(names)) + '\n'


def malformed(rng, n):
    fixed = ['Content-Type: multipart/mixed; boundary=b\n\n--b\n\nx\n--b--\n', 'CONTENT-TYPE:message/rfc822', 'From me\na: 1\n', ':', '::\n:', 'a:\n\n\n b',
             'Foo:\n\nBar:\n', 'License:\n\njunk\n\nmore junk\n\nLicense:\n\ntext\n', 'Files: *\nLicense:\n\n some text\n more\n',
             ' .\nLicense: \n\nUnknown-x: 2001 Foo Bar', 'License: x\n .\n .j', 'Format: x\nFormat: y\nformat-specification: z\n', 'Files:\nFiles: a\n\nFiles: b\nCopyright: ٢٠٠١ x\n']
    for f in fixed:
        yield f
    for _ in range(n):
        yield gen822.random_text(rng, 14)


MIME_NAMES = ['Package', 'Maintainer', 'Description', 'Content-Type', 'Content-Transfer-Encoding', 'MIME-Version', 'Subject', 'From', 'To',
              'Date', 'Content-Disposition', 'Message-ID', 'Received', 'Resent-From', 'Content-Length', 'Lines']
MIME_VALUES = ['=?utf-8?q?Jos=C3=A9?= <j@example.org>', '=?bogus?q?Jose?= <j@example.org>', '=?utf-8?b?a?=', '=?utf-8?q?Jos=E9?=', '=?utf-8?x?abc?=',
               '=?', '=?utf-8?q?', '=?utf-8?b?////?=', '=?utf-16?b?AAA=?=', '=?iso-8859-1?q?a=ZZ?= =?utf-8?q?b?=', '=?unknown-8bit?q?=FF?=', '=??q?x?=',
               'multipart/mixed; boundary=b', 'multipart/mixed', 'message/rfc822', 'message/partial; id=1; number=1; total=2', 'text/plain; charset=bogus',
               "text/plain; name*=utf-8''%e2%82%ac", "text/plain; name*0*=bogus''%ff; name*1=x", 'text/plain; charset="unterminated', 'base64', 'quoted-printable',
               'x-uuencode', '7bit', '8bit', '1.0', 'attachment; filename="a b"', '<a@b>', 'a@b (comment (nested', '"unterminated <x@y>', 'x' * 1200,
               'Mon, 32 Foo 9999 99:99:99 +9999', '-1', '99999999999999999999', 'é ü', '\udcff'.encode('utf-8', 'surrogatepass').decode('utf-8', 'replace'), '']
MIME_BODIES = ['', '\n', '\n--b\n\nx\n--b--\n', '\nbody text\n', '\n--b\nContent-Type: message/rfc822\n\nA: b\n\n--b--\n', '\nQUJD\n', '\n=E9=\n', '\nbegin 644 x\n#86)C\n`\nend\n']


def mime_family(rng, n):
    """MIME-looking paragraphs: header names and values that an e-mail parser treats specially"""
    for v in MIME_VALUES:
        for nm in MIME_NAMES:
            yield '%s: %s\n' % (nm, v)
    for _ in range(n):
        k = rng.randint(1, 4)
        lines = ['%s: %s' % (rng.choice(MIME_NAMES), rng.choice(MIME_VALUES)) for _ in range(k)]
        if rng.random() < 0.3:
            lines.insert(rng.randrange(len(lines) + 1), ' ' + rng.choice(MIME_VALUES))
        yield '\n'.join(lines) + '\n' + rng.choice(MIME_BODIES)


PARA_KINDS = ['Format: x', 'License:', 'License: MIT', 'License:\n some text', 'Foo:', 'Bar:', 'Foo: v', 'junk', 'Files: *', 'Files:', 'Copyright:', 'Unknown:',
              'Files: *\nLicense:', 'Comment:\n .', 'unknown: u']


def paragraph_kinds(tier, rng):
    """documents as sequences of paragraphs of a few kinds (value-less fields, unknown names, junk, empty licenses): every sequence up to a length,
    then random longer ones. The merge of unknown paragraphs and the fold into an empty License need 3-4 paragraphs in a particular order."""
    L = 3 if tier == 'quick' else 4
    for n in range(1, L + 1):
        for ks in itertools.product(PARA_KINDS, repeat=n):
            yield '\n\n'.join(ks) + '\n'
    for _ in range(2500 if tier == 'quick' else 40000):
        ks = [rng.choice(PARA_KINDS) for _ in range(rng.randint(L + 1, 7))]
        yield rng.choice(('\n\n', '\n\n', '\n\n\n')).join(ks) + rng.choice(('\n', '', '\n\n'))


def streams(tier, rng):
    yield {'name': 'paragraph-kinds', 'op': 'C07', 'cases': paragraph_kinds(tier, rng)}
    yield {'name': 'mime-looking', 'op': 'C07', 'cases': mime_family(rng, 1500 if tier == 'quick' else 30000)}
    L = 3 if tier == 'quick' else 4
    yield {'name': 'exhaustive-lines<=%d' % L, 'op': 'C07', 'cases': gen822.exhaustive(L), 'exhaustive': True}
    yield {'name': 'name-clash-family', 'op': 'C07', 'cases': clash_family(3 if tier == 'quick' else 4), 'exhaustive': True}
    yield {'name': 'malformed', 'op': 'C07', 'cases': malformed(rng, 4000 if tier == 'quick' else 60000)}
    import gendep5
    # well-formed machine-readable files too: the strict validity path is only taken by them
    yield {'name': 'dep5-documents', 'op': 'C07', 'cases': (gendep5.doc(rng)[2] for _ in range(800 if tier == 'quick' else 15000))}
