"""C06 - Well-formed deb822 documents parse to exactly their paragraphs and fields."""
import os
import itertools
from protocol import Exc
from debian_inspector import deb822, debcon

ID = 'C06'
LEVEL = 'proof'
THEOREMS = [('DebInspector.Thm.C06', ['Props.C06.tracking_sound', 'Props.C06.go_doc', 'Props.C06.lines_render', 'Props.C06.fieldFacts',
                                      'Props.C06.splitKeepEnds_flatten', 'Props.C06.skipBlankLines_suffix']),
            ('DebInspector.Thm.C06H', ['Props.C06H.sound_narrow', 'Props.C06H.headers_sound', 'Props.C06H.getParagraphData_para',
                                       'Props.C06H.split_render', 'Props.C06H.mergeItems_distinct', 'Props.C06H.field_src'])]
TRUSTED = [
    'Lean 4.33.0 kernel',
    'reading of the property as Props.C06.holdsOn (document grammar with explicit layout; expected results do not mention the layout)',
    'hand models of the line-tracking parser and of the stdlib header parser + get_paragraph(s)_data, tied by correspondence',
    'reading a UTF-8 file gives the text back (io.open, universal newlines): exercised on real temporary files, not modelled',
    'translator harness/translate.py and this correspondence harness',
]
ASSUMPTIONS = ['K3: policy-legal field names outside [A-Za-z][A-Za-z0-9-]* are junk for the line-tracking parser (known finding)']
RULE = ('documents of 1-6 paragraphs x 1-8 fields from a vocabulary with colons, URLs with ports, leading dots, From, non-ASCII, punctuation-only continuations, '
        'names with digits and trailing hyphens (and policy-legal names with _ . + for K3); separators of 1-4 empty lines optionally followed by blank-only lines; '
        '1 in 25 also through real temporary files. non-trivial = at least two paragraphs or a continuation line')
TECHNIQUE = ('Lean 4 theorem Props.C06H.sound_narrow: both parsers on every well-formed document (hypothesis K3 on names); headers_sound: the header-style parser for every policy-legal name '
             '+ the full-strength executable document-grammar specification on every implementation observation + correspondence with the hand models of both parsers')
LEVEL_TEXT = ('Props.C06H.sound_narrow: for every well-formed deb822 document - any number of paragraphs and uniquely named fields, names of letters, digits and hyphens (the hypothesis of finding K3), any blanks after the colon, '
              'values and continuation lines of any characters but line terminators (colons, non-ASCII, leading dots), one empty line plus any number of white-space-only lines between paragraphs, with or without a final newline - '
              'both the model of get_paragraphs_data (header-style) and of get_paragraphs_as_field_groups (line-tracking) return the paragraphs in order, each with exactly its fields in order: names lower-cased, first-line values trimmed, continuation lines kept. '
              'headers_sound proves the header-style half for every policy-legal name (printable ASCII except colon and space), i.e. at full strength; tracking_sound the line-tracking half. '
              'Proved in Lean 4 by induction over paragraphs, fields, lines and characters: the paragraph splitter (split_render), the line splitter with terminators, the header loop on groups of source lines, '
              'header_source_parse (field_src), the merge with distinct names (mergeItems_distinct), the line-tracking loop (go_doc). '
              'The stdlib header parser is a hand model (tied by its own correspondence stream); the file routes are exercised on real files, not modelled.')
LEVEL_NOTE = ('Trusted: Lean kernel; axioms propext, Classical.choice, Quot.sound only; stdlib email parsing modelled; file I/O exercised; K3 is a known finding (names outside [A-Za-z][A-Za-z0-9-]* are junk for the line-tracking parser).')

WORK = os.path.join(os.path.dirname(os.path.dirname(os.path.dirname(os.path.abspath(__file__)))), 'work')
NAMES = ['Package', 'Version', 'Depends', 'X-Foo', 'a', 'B2', 'Build-Depends-Indep', 'x-', 'From', 'Description', 'homepage', 'SHA256', 'Files', 'License', 'Maintainer', 'q9-9', 'X-Licence', 'Licence-Text', 'Sublicence', 'Licences']
ODD_NAMES = ['X_Foo', '2a', 'a.b', 'x+y', 'Foo!', '~t']
VALUES = ['foo', '1.0-1', 'a: b', 'http://x:80/y?z', '.dot', 'From me', 'é ü 日本', 'x  y', '', '', '(>= 1.0), b | c', ':', 'a:b:c', '"quoted"', '-', 'p\x0cq', 'Jos\xe9 Garc\xeda\xa0', '\u3000misc', '\x1fx\u2003', '#hash', '# not a comment']
CONTS = [' cont', '\tcont', '  two  spaces', ' .', ' ..', ' ---', ' a: b', ' From x', '\t \t.', ' é', ' (', ' "', ' #!/bin/sh', ' # configure first', '\t#x', '  #']
SEPS = [[], [], [''], ['', ''], [' '], ['', ' \t', ''], ['\t'], ['', '', '']]


def field(rng, odd):
    name = rng.choice(ODD_NAMES) if odd and rng.random() < 0.3 else rng.choice(NAMES)
    if rng.random() < 0.4:
        name = ''.join(c.upper() if rng.random() < 0.5 else c.lower() for c in name)
    v = rng.choice(VALUES)
    conts = [rng.choice(CONTS) for _ in range(rng.choice((0, 0, 0, 1, 2, 4)))]
    sp = rng.choice((' ', ' ', '', '  ', '\t', ' \t')) if v else ''
    return [name, v, conts, sp]


def para(rng, odd):
    fields = []
    seen = set()
    for _ in range(rng.choice((1, 2, 3, 5, 8))):
        f = field(rng, odd)
        if f[0].lower() in seen or f[0].lower() == 'licence':
            continue
        seen.add(f[0].lower())
        fields.append(f)
    return [fields, list(rng.choice(SEPS))]


def render(paras, fin):
    out = ''
    for i, (fields, sep) in enumerate(paras):
        lines = []
        for name, v, conts, sp in fields:
            lines.append(name + ':' + sp + v)
            lines.extend(conts)
        out += '\n'.join(lines)
        if i < len(paras) - 1:
            out += '\n\n' + ''.join(l + '\n' for l in sep)
        elif fin:
            out += '\n'
    return out


def case(rng):
    odd = rng.random() < 0.08
    paras = [para(rng, odd) for _ in range(rng.choice((1, 1, 2, 3, 4, 6)))]
    paras = [p for p in paras if p[0]]
    if not paras:
        paras = [[[['a', 'b', [], ' ']], []]]
    fin = rng.random() < 0.6
    return [paras, fin, render(paras, fin)]


def normalize(op, inp):
    return [inp[0], inp[1], render(inp[0], inp[1])]


def groups(t):
    try:
        return [[[f.name, [l.value for l in f.lines]] for f in g] for g in deb822.get_paragraphs_as_field_groups(t)]
    except Exception as e:
        return Exc(type(e).__name__)


def dicts(t):
    try:
        return [[[k, v] for k, v in d.items()] for d in debcon.get_paragraphs_data(t)]
    except Exception as e:
        return Exc(type(e).__name__)


def observe(op, inp):
    return [groups(inp[2]), dicts(inp[2])]


def nontrivial(op, inp, obs):
    return len(inp[0]) >= 2 or any(f[2] for p in inp[0] for f in p[0])


def histogram(op, inp, obs):
    yield 'paragraphs=%d' % min(len(inp[0]), 6)


def valid_input(op, inp):
    try:
        paras, fin, text = inp
        for fields, sep in paras:
            assert all(isinstance(s, str) for s in sep)
            for name, v, conts, sp in fields:
                assert isinstance(name, str) and isinstance(v, str) and isinstance(sp, str) and all(isinstance(c, str) for c in conts)
        return isinstance(fin, bool) and text == render(paras, fin)
    except Exception:
        return False


ASK = None


def known_match(entry, op, inp, obs):
    if entry['id'] == 'K3':
        import re
        odd = any(not re.match(r'^[A-Za-z][A-Za-z0-9-]*$', f[0]) for p in inp[0] for f in p[0])
        return odd and (ASK is None or ASK('C06n', inp, obs))
    return False


def extra(tier, rng):
    """support: the _from_file variants on real UTF-8 files give what the text variants give"""
    os.makedirs(WORK, exist_ok=True)
    path = os.path.join(WORK, 'c06-%d.txt' % os.getpid())
    fails = []
    done = 0
    def big_cases():
        """files longer than any read-ahead or detection window, with a multi-byte character across each power-of-two byte offset"""
        for B in (1024, 4096, 8192, 16384, 65536) + ((32768, 131072, 1 << 20) if tier != 'quick' else ()):
            for ch in ('\u00e9', '\u65e5', '\U0001f600'):
                head = 'Package: foo\nMaintainer: '
                for k in range(B - len(head) - 3, B - len(head)):      # the character starts 1-3 bytes before offset B
                    one = [[[['Package', 'foo', [], ' '], ['Maintainer', 'x' * k + ch + ' tail', [], ' ']], ['']], [[['Source', 'bar ' + ch, [], ' ']], []]]
                    yield [one, True, render(one, True)]
                    # the same offset reached through many continuation lines of 100 bytes
                    n, r = divmod(k, 100)
                    if n >= 1 and r >= 1:
                        many = [[[['Package', 'foo', [], ' '], ['Maintainer', 'x' * (r - 1), [' ' + 'y' * 98] * (n - 1) + [' ' + 'y' * 98 + ch + ' tail'], ' ']], ['']],
                                [[['Source', 'bar ' + ch, [], ' ']], []]]
                        yield [many, True, render(many, True)]
            # a paragraph separator (one empty line, then any white-space-only lines) lying across offset B: a reader that
            # works on blocks of B characters must not see two separators, or none
            head = 'Package: foo\nMaintainer: '
            for sep in ([], [''], ['', ''], [' \t', ''], ['', '', '', '']):
                for delta in range(-4, 2):
                    k = B + delta - len(head)
                    if k < 1:
                        continue
                    doc = [[[['Package', 'foo', [], ' '], ['Maintainer', 'x' * k, [], ' ']], sep],
                           [[['Source', 'bar', [], ' '], ['Version', '1.0', [' more'], ' ']], ['']], [[['Package', 'baz', [], ' ']], []]]
                    yield [doc, True, render(doc, True)]
    try:
        small = (case(rng) for _ in range(200 if tier == 'quick' else 3000))
        for paras, fin, text in itertools.chain(big_cases(), small):
            with open(path, 'w', encoding='utf-8', newline='') as f:
                f.write(text)
            try:
                a = [[[fl.name, [l.value for l in fl.lines]] for fl in g] for g in deb822.get_paragraphs_as_field_groups_from_file(path)]
            except Exception as e:
                a = Exc(type(e).__name__)
            try:
                b = [[[k, v] for k, v in d.items()] for d in debcon.get_paragraphs_data_from_file(path)]
            except Exception as e:
                b = Exc(type(e).__name__)
            done += 1
            if a != groups(text) or b != dicts(text):
                fails.append({'op': 'C06', 'input': [paras, fin, text], 'what': 'reading the document from a UTF-8 file differs from passing it as text'})
    finally:
        try:
            os.remove(path)
        except OSError:
            pass
    return {'from_file_variants': 'compared %d documents through real temporary files' % done}, fails


def streams(tier, rng):
    n = 5000 if tier == 'quick' else 100000
    yield {'name': 'documents-with-layout', 'op': 'C06', 'cases': (case(rng) for _ in range(n))}
