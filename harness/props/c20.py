"""C20 - Continuation-line encoding of multi-line text is safe and invertible."""
import itertools
from protocol import Exc
from debian_inspector import debcon
from debian_inspector import copyright as cr

ID = 'C20'
LEVEL = 'proof'
THEOREMS = [('DebInspector.Thm.C20', ['Props.C20.sound_partial', 'Props.C20.safe_enc', 'Props.C20.safe_ft', 'Props.C20.safe_desc', 'Props.C20.safe_lic', 'Props.C20.inverse_core', 'Props.C20.inverse_partial', 'Props.C20.fixpoint_core', 'Props.C20.fixpoint_partial', 'Props.C20.first_line'])]
TRUSTED = [
    'Lean 4.33.0 kernel',
    'reading of the property as Props.C20.holdsOn (safety at every Python line boundary; inverse, fixpoint and first-line clauses with the stated preconditions)',
    'hand model of as_formatted_text / from_formatted_text / the three field classes, tied by exhaustive small-scope correspondence',
    'str.splitlines / strip / isspace tables regenerated from the interpreter',
    'translator harness/translate.py and this correspondence harness',
]
ASSUMPTIONS = ['K4: a blank first line does not round-trip (known finding); K5: values ending in two or more marker lines lose one per pass (known finding)']
RULE = ('exhaustive: all texts of <= L lines over 14 line kinds (x, "x  ", empty, "  ", " v", "  v", tab-v, ".", ".x", "a b", " .", "  .", '
        'NBSP-indented, a line containing FF) joined by LF, with and without a final newline; random printable texts with punctuation-only lines. '
        'non-trivial = at least two lines')
TECHNIQUE = ('Lean 4 theorem Props.C20.sound_partial: every clause of the property (safety, inverse, fixpoint, first line) for every Unicode text, '
             'under the hypotheses of known findings K4/K5 + the full-strength executable spec evaluated on every observation + exhaustive small-scope correspondence')
LEVEL_TEXT = ('Props.C20.sound_partial: for every Unicode text t (any number and length of lines) the model satisfies every clause of the property, with the hypotheses of the two '
              'known findings added: (safety) every line after the first of as_formatted_text(t) and of the dumps of FormattedTextField, DescriptionField and LicenseField '
              'built from t - lines taken at every Python line boundary - starts with a space and is not blank (safe_enc, safe_ft, safe_desc, safe_lic); '
              '(inverse) if no line starts with a full stop, no later line starts with non-U+0020 white space and the first line is not blank (K4) then '
              'from_formatted_text(as_formatted_text(t)) = t with the first line trimmed and trailing blanks removed from the others, verbatim lines keeping their indentation (inverse_partial); '
              '(fixpoint) for policy-conformant values ending in at most one marker (K5) enc(dec(enc(dec v))) = enc(dec v) (fixpoint_partial); '
              '(first line) description and license renderings keep the trimmed first line (first_line). Proved in Lean 4 by induction over lines and characters. '
              'The full-strength statement (without the K4/K5 hypotheses) is holdsOn, evaluated on every implementation observation; the model is tied to the code by exhaustive '
              'correspondence over all texts of <= 4/5 lines over 14 line kinds.')
LEVEL_NOTE = ('Trusted: Lean kernel; axioms propext, Classical.choice, Quot.sound only; model tied to the code by exhaustive '
              'small-scope correspondence; K4 and K5 are known findings.')

KINDS = ['x', 'x  ', '', '  ', ' v', '  v', '\tv', '.', '.x', 'a b', ' .', '  .', '\xa0v', 'p\x0cq']


def observe(op, t):
    enc = debcon.as_formatted_text(t)
    dec_enc = debcon.from_formatted_text(enc)
    e1 = debcon.as_formatted_text(debcon.from_formatted_text(t))
    e2 = debcon.as_formatted_text(debcon.from_formatted_text(e1))
    ft = debcon.FormattedTextField.from_value(t).dumps()
    desc = debcon.DescriptionField.from_value(t).dumps()
    lic = cr.LicenseField.from_value(t).dumps()
    out = [enc, dec_enc, e1, e2, ft, desc, lic]
    for x in out:
        if not isinstance(x, str):
            return Exc('NotAString')
    return out


def nontrivial(op, t, obs):
    return len(t.splitlines()) >= 2


def histogram(op, t, obs):
    yield 'lines=%d' % min(len(t.splitlines()), 6)


def valid_input(op, t):
    return isinstance(t, str)


ASK = None   # set by the runner: ASK(op, input, obs) -> holdsOn verdict of another driver op


def known_match(entry, op, t, obs):
    """a failure belongs to K4 / K5 when the text is in the finding's class AND the property with the
    finding's hypothesis added (driver op C20p) holds on this observation, i.e. nothing else is wrong"""
    lines = t.splitlines()
    if entry['id'] == 'K4':
        in_class = bool(lines) and not lines[0].strip()
    elif entry['id'] == 'K5':
        n = 0
        for l in reversed(lines[1:]):
            if l.rstrip() == ' .':
                n += 1
            else:
                break
        in_class = n >= 2
    else:
        return False
    return in_class and (ASK is None or ASK('C20p', t, obs))


def texts(L):
    for k in range(0, L + 1):
        for combo in itertools.product(KINDS, repeat=k):
            s = '\n'.join(combo)
            yield s
            if k:
                yield s + '\n'


def random_texts(rng, n):
    alphabet = ['a', 'b', ' ', ' ', '.', '\t', '\n', '\n', '-', '*', '\r', '\x0b', '\x0c', '\x1c', '\x85', ' ', '\xa0', '　', 'é', '\x1f', '~', ':']
    for _ in range(n):
        if rng.random() < 0.5:
            k = rng.randint(1, 7)
            lines = []
            for _ in range(k):
                r = rng.random()
                if r < 0.3:
                    lines.append(rng.choice(KINDS))
                elif r < 0.92:
                    lines.append(''.join(rng.choice(alphabet[:6] + alphabet[8:10] + alphabet[16:]) for _ in range(rng.randint(0, 6))))
                else:
                    # a long line (sentences of words, past any wrapping width), plain or indented: it stays one line
                    words = [rng.choice(('the', 'quick', 'brown', 'fox', 'x' * rng.randint(1, 30), 'a.', '-', 'http://example.org/' + 'p' * rng.randint(1, 90)))
                             for _ in range(rng.randint(8, 60))]
                    lines.append(rng.choice(('', '', ' ', '  ', '\t')) + rng.choice((' ', ' ', '  ')).join(words))
            yield rng.choice(('\n', '\n', '\r\n', '\r')).join(lines) + rng.choice(('', '\n'))
        else:
            yield ''.join(rng.choice(alphabet) for _ in range(rng.randint(0, 12)))


def streams(tier, rng):
    L = 3 if tier == 'quick' else 4
    yield {'name': 'exhaustive-lines<=%d' % L, 'op': 'C20', 'cases': texts(L), 'exhaustive': True}
    yield {'name': 'random', 'op': 'C20', 'cases': random_texts(rng, 10000 if tier == 'quick' else 100000)}
