"""C10 - Copyright field line ranges locate exactly the field's content."""
import gen822
import cobs
from protocol import Exc
from debian_inspector import copyright as cr

ID = 'C10'
LEVEL = 'proof'
THEOREMS = [('DebInspector.Thm.C10', ['Props.C10.numberFrom_shift', 'Props.C10.linesFromText_shift']),
            ('DebInspector.Thm.C10S', ['Props.C10S.shift_sound', 'Props.C10S.shift_clause', 'Props.C10S.go_shift', 'Props.C10S.fromFieldsGroups_shift',
                                       'Props.C10S.mergeRun_shift', 'Props.C10S.foldLoop_shift']),
            ('DebInspector.Thm.C10R', ['Props.C10R.sound', 'Props.C10R.fromText_V', 'Props.C10R.parse_fldR', 'Props.C10R.field_range', 'Props.C10R.addField_R',
                                       'Props.C10R.fromFields_V', 'Props.C10R.groups_V', 'Props.C10R.mergeRun_V', 'Props.C10R.mergeUnknown_V',
                                       'Props.C10R.fold_V', 'Props.C10R.foldLoop_V', 'Props.C10R.foldLicense_V', 'Props.C10R.valued_sorted', 'Props.C10R.chain_words'])]
TRUSTED = [
    'Lean 4.33.0 kernel',
    'reading of the property as Props.C10.holdsOn (range exists, inside the file, first/last line hold content, words of the value occur in the range, ranges disjoint and increasing, shift by k)',
    'hand model of the copyright pipeline with line_numbers_by_field, tied by correspondence',
    'translator harness/translate.py and this correspondence harness',
]
ASSUMPTIONS = ['texts are str objects; words are white-space separated tokens, dot-only lines carry none']
RULE = ('C05/C07 texts plus recovery-path families at random offsets: value-less declaration + blank lines + continuation; runs of junk lines anywhere; '
        'empty License: followed by free text with >= 3 paragraphs; k in {0,1,3}. non-trivial = some field has a non-empty value')
TECHNIQUE = ('Lean 4 theorem Props.C10R.sound (every clause, for every text and every k, through the merge and fold recovery paths) + executable range specification evaluated on every '
             'implementation observation + correspondence with the hand model of the pipeline')
LEVEL_TEXT = ('Props.C10R.sound: for every text and every k the whole property holds on the model - every field with a non-empty value of every paragraph carries a range inside the file '
              'whose first line holds content (for a declaration line: after its "Name:"), whose last line is not blank and whose lines contain every word of the value; the ranges of the fields with '
              'a value are disjoint and increasing in source order within and across paragraphs; k blank lines on top shift every range by k and change nothing else. The proof follows the pipeline: '
              'parse_fldR (every tracked field: consecutive true line numbers, own text, later lines are not declarations, no trailing blank line - from the C05 theorem and one more invariant of the loop), '
              'field_range (the range from_fields records starts at the first line of the field that is not blank and its lines spell exactly the words of the value), addField_R / fromFields_V / groups_V '
              '(an accumulator invariant through the renaming loop: names fresh, ranges recorded in source order), mergeRun_V / mergeUnknown_V (a merged run of free-text paragraphs gets the hull of its '
              'ranges, which contains the words of all its values: chain_words), fold_V / foldLoop_V / foldLicense_V (a folded license takes over the one range of the paragraph folded into it; the list of '
              'ranges is conserved), valued_sorted (sorting the valued ranges of a paragraph gives them in source order), and Props.C10S.shift_sound for the shift clause. '
              'While planning the proof one false alarm of the specification was found and removed (interior declaration lines of a merged block, see DESIGN 0.4).')
LEVEL_NOTE = ('Trusted: Lean kernel; axioms propext, Classical.choice, Quot.sound only for the registered theorems; the range clauses rest on specification evaluation + correspondence.')


def accessors_agree(c):
    """the three observation points of the property give the same ranges: to_dict(with_lines=True), the per-field
    accessor, and the first/last accessor (the hull of the ranges, when the paragraph has any)"""
    full = c.to_dict(with_lines=True)['paragraphs']
    plain = c.to_dict()['paragraphs']
    if len(full) != len(c.paragraphs) or len(plain) != len(full):
        return False
    for p, d, d0 in zip(c.paragraphs, full, plain):
        ranges = p.line_numbers_by_field
        got = d.get('line_numbers_by_field')
        if got is None or [(k, tuple(v)) for k, v in got.items()] != [(k, tuple(v)) for k, v in ranges.items()]:
            return False
        # (an extra field that is itself called Line-Numbers-By-Field shares the key: it is left out of this comparison)
        if ({k: v for k, v in d.items() if k != 'line_numbers_by_field'} != {k: v for k, v in d0.items() if k != 'line_numbers_by_field'}
                or list(d0.items()) != list(p.to_dict().items())):
            return False
        for k, v in ranges.items():
            if tuple(p.get_field_line_numbers(k)) != tuple(v):
                return False
        if ranges:
            first_last = tuple(p.get_first_last_line_numbers())
            if first_last != (min(a for a, _b in ranges.values()), max(b for _a, b in ranges.values())):
                return False
    return True


def paras(t):
    try:
        c = cr.DebianCopyright.from_text(t)
        obs = cobs.paras_obs(c)
        if not accessors_agree(c):
            return Exc('RangeAccessorsDiffer')
        return obs
    except Exception as e:
        return Exc(type(e).__name__)


def observe(op, inp):
    t, k = inp
    return [paras(t), paras('\n' * k + t)]


def nontrivial(op, inp, obs):
    return isinstance(obs[0], list) and any(isinstance(v, str) and v for p in obs[0] for _k, v in p[1])


def histogram(op, inp, obs):
    if isinstance(obs[0], Exc):
        yield 'exc:' + obs[0].name
    else:
        yield 'paragraphs=%d' % min(len(obs[0]), 6)
        for p in obs[0]:
            if p[0] == 'catchall' and any(k == 'unknown' for k, _v in p[1]) and len(p[2]) == 1 and p[2][0][2] > p[2][0][1]:
                yield 'merged-unknown-block'
            if p[0] == 'license' and any(k == 'license' and v.startswith('\n') is False and '\n' in v for k, v in p[1] if isinstance(v, str)):
                yield 'multi-line-license'


def valid_input(op, inp):
    return isinstance(inp, list) and len(inp) == 2 and isinstance(inp[0], str) and isinstance(inp[1], int) and 0 <= inp[1] <= 5


def known_match(entry, op, inp, obs):
    return False


def recovery(rng):
    blocks = []
    for _ in range(rng.choice((1, 2, 3, 4, 5))):
        r = rng.random()
        if r < 0.2:
            blocks.append('Files: *\nCopyright: 2001 Foo\nLicense: GPL\n text\n .\n more')
        elif r < 0.35:
            blocks.append('License:' + '\n' * rng.choice((1, 2, 3)) + ' some text\n more')
        elif r < 0.5:
            blocks.append('License: ' + rng.choice(('', ' ')))
        elif r < 0.75:
            blocks.append('\n'.join(rng.choice(('free text here', 'junk line', 'another one', ' indented junk', 'x: y z'.replace(':', ''))) for _ in range(rng.choice((1, 2, 3)))))
        elif r < 0.85:
            blocks.append('Comment:\n\n\n late content\n .\n end')
        else:
            blocks.append(rng.choice(('Format: x\nSource: s', 'Unknown: u v', 'Files: a b\nFiles: c', 'License-1: z')))
    sep = ['\n\n', '\n\n\n', '\n \n', '\n']
    t = blocks[0]
    for b in blocks[1:]:
        t += rng.choice(sep) + b
    return '\n' * rng.choice((0, 0, 1, 2)) + t + rng.choice(('', '\n', '\n\n'))


def cases(rng, n):
    for _ in range(n):
        r = rng.random()
        t = recovery(rng) if r < 0.6 else gen822.random_text(rng, 14)
        yield [t, rng.choice((0, 1, 3))]


def streams(tier, rng):
    L = 3 if tier == 'quick' else 4
    yield {'name': 'exhaustive-lines<=%d' % L, 'op': 'C10', 'cases': ([t, 1] for t in gen822.exhaustive(L)), 'exhaustive': True}
    yield {'name': 'recovery-paths', 'op': 'C10', 'cases': cases(rng, 6000 if tier == 'quick' else 100000)}
