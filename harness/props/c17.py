"""C17 - Package file names round-trip; latest-version selection is a maximum."""
import itertools
import genlib
from protocol import Exc
import probe
from debian_inspector import package

ID = 'C17'
LEVEL = 'proof'
THEOREMS = [('DebInspector.Thm.C17', ['Props.C17.roundtrip', 'Props.C17.known_ending', 'Props.C17.accepted_fromString',
                                      'Props.C17.sortA_perm', 'Props.C17.last_is_max', 'Props.C17.insertA_sorted',
                                      'Props.C17.soundB', 'Props.C17.known_decomp', 'Props.C17.stem_of', 'Props.C17.endings_apart']),
            ('DebInspector.Thm.C17C', ['Props.C17C.soundC', 'Props.C17C.soundC_short', 'Props.C17C.soundC_weak', 'Props.C17C.sortPy_ok',
                                       'Props.C17C.binSort_facts', 'Props.C17C.binSort_some', 'Props.C17C.bsearch_facts', 'Props.C17C.countRun_facts',
                                       'Props.C17C.parseBinary_archive', 'Props.C17C.sortA_sorted2', 'Props.C17C.groupRuns_runs',
                                       'Props.C17C.sortA_some', 'Props.C17C.strLt_trans', 'Props.C17C.strLt_total'])]
TRUSTED = [
    'Lean 4.33.0 kernel',
    'reading of the property as Props.C17.holdsOnA/B/C (spec-side file-name grammar written from the sentence, independent of the code tables)',
    'hand model of get_nva / from_filename / find_latest_version(s), tied by correspondence; suffix tuples regenerated from the source each run',
    "CPython 3.12's sorted (Objects/listobject.c) is modelled, not verified: below 64 elements exactly (count_run, reverse of a descending run, binary insertion - the comparisons in the "
    "interpreter's order, whatever tuple < answers); from 64 elements on only for lists on which tuple < is a strict weak order (there every stable sort gives the same list); itertools.groupby as maximal runs. "
    'Tied by correspondence on lists of up to 70 archives with and without order-equal versions',
    'os.path.basename / splitext modelled (posix)',
    'translator harness/translate.py and this correspondence harness',
]
ASSUMPTIONS = ['file names are str; binary package lists are lists of name_version_arch.deb/.udeb names']
RULE = ('C17a: all endings x names with dots/plus x accepted versions (epochs, hyphens, tildes) x directory prefixes; '
        'C17b: malformed shapes (wrong ending, 1 or 4+ parts, invalid versions, dots-only stems) and mutations of well-formed names; '
        'C17c: lists of 1-70 binary names with order-equal versions and epochs (most short, some of 9-63, a few of 64-70), all permutations for length <= 4. '
        'non-trivial = accepted file name / list with >= 2 distinct versions')
TECHNIQUE = ('Lean 4 theorems: rejection of every name the property says must be rejected (soundB); file-name round trip for every (directory, name, accepted version, architecture, ending) (roundtrip; the suffix tuples of get_nva are regenerated and re-checked by decide per ending); '
             'selection for every list of binary package file names (soundC): the names parse to the archives they spell, sorting never raises, the sorted list is ordered by name then version, '
             'the runs of equal names are the groups, each result is a maximum of its name, mixed names raise ValueError + executable spec on every implementation observation + correspondence with the hand model')
LEVEL_TEXT = ('Props.C17.roundtrip: for every directory prefix, package name without underscore or slash, version that C03 says must be accepted (any epoch, hyphenated upstream, tildes, dots - including ".tar." inside the version), '
              'architecture (binary packages) and each of the thirteen endings, the model of DebArchive.from_filename returns exactly that name, dpkg\'s decomposition of that version, that architecture and the original path '
              '(known_ending: each ending is recognised and peeled off exactly - last dot, last underscore, last ".tar." then ".orig"/".debian" - proved per ending by decide against the regenerated tuples of get_nva; accepted_fromString from the C03 theorems). '
              'Selection - Props.C17C.soundC_short: for EVERY list of fewer than 64 binary package file names - order-equal versions spelled differently included, where tuple < is not a strict weak order - and '
              'Props.C17C.soundC_weak: for lists of any length without such pairs, find_latest_version returns one of the inputs that no input of its name exceeds under dpkg order, or raises ValueError when names are mixed, and find_latest_versions maps '
              'exactly the names present, each once, each to such a maximum (parseBinary_archive: a name the specification reads as binary parses to that archive, via roundtrip; sortA_some: tuple comparison never raises on '
              'binary packages; sortA_sorted2: the sorted list is ordered by name, then version - strLt is a strict total order; groupRuns_runs: the runs of equal names partition it, keys strictly increasing; '
              'sortPy_ok: the model of sorted() - count_run, reversal of a strictly descending run, binary insertion with the comparisons in CPython\'s order - returns a permutation ordered by name and version class: '
              'countRun_facts, bsearch_facts (the binary search splits the sorted prefix around the pivot using only what each single comparison says), binSort_facts; none of them asks < to be a strict weak order). '
              'Lists of 64 or more names with order-equal different versions (merges of runs are not modelled) are decided by the executable specification on the implementation\'s observations. '
              'Props.C17.soundB: every file name with no recognised extension or suffix, with a stem that is not two or three underscore-separated parts, or whose version part is not a valid version raises ValueError '
              '(known_decomp: whenever get_nva recognises a base name with an underscore, the name is that stem plus exactly one of the thirteen endings - the last dot, the last underscore, the last ".tar." being the ones of the ending; '
              'stem_of / endings_apart: no ending is a suffix of another, so the specification reads the same stem; an accepted version part is valid by the C03 theorems). '
              'The grouping by name of find_latest_versions is decided by the executable specification on every implementation observation and by correspondence.')
LEVEL_NOTE = ('Trusted: Lean kernel; axioms propext, Classical.choice, Quot.sound only; os.path.basename/splitext modelled; Timsort and groupby are trusted.')

ENDINGS_BIN = ['.deb', '.udeb']
ENDINGS_SRC = ['.dsc', '.orig.tar.gz', '.orig.tar.xz', '.orig.tar.bz2', '.orig.tar.lzma',
               '.debian.tar.gz', '.debian.tar.xz', '.debian.tar.bz2', '.debian.tar.lzma', '_copyright', '_changelog']
NAMES = ['a', 'lib-x', 'libc++', 'x.y', 'python3.11', 'a.tar.b', '0ad', '.hidden', 'g++-12']
VERSIONS = ['1.0', '1:2.3-4', '0.5~rc1-1', '1-2-3', '2.0+dfsg-1~bpo11+1', '0', '1.tar.2', '01:1.00-0', '3a.orig']
ARCHS = ['amd64', 'all', 'i386', 'arm64-x']
DIRS = ['', 'pool/main/a/', './', '/', 'a_b/c_d/', '../x.deb/']


def atup(a):
    return [a.name, [a.version.epoch, a.version.upstream, a.version.revision], a.architecture, a.original_filename]


def observe(op, inp):
    if op == 'C17c':
        def one(f):
            try:
                r = f(inp)
            except Exception as e:
                return Exc(type(e).__name__)
            return r
        l = one(package.find_latest_version)
        if not isinstance(l, Exc) and l is not None:
            l = atup(l)
        ls = one(package.find_latest_versions)
        if not isinstance(ls, Exc) and ls is not None:
            ls = [[k, atup(v)] for k, v in ls.items()]
        return [l, ls]
    fn = inp[5] if op == 'C17a' else inp
    try:
        res = probe.twice(lambda: package.DebArchive.from_filename(fn), atup,
                          lambda a: (probe.scramble_attrs(a.version, epoch=987654321, upstream='zz', revision='zz'),
                                     probe.scramble_attrs(a, name='zz-scrambled', architecture='zz', original_filename='zz')))
    except Exception as e:
        res = Exc(type(e).__name__)
    # the three archive classes read a file name the same way (CodeArchive / CodeMetadata have no architecture)
    for cls in (package.CodeArchive, package.CodeMetadata):
        try:
            a = cls.from_filename(fn)
            other = [a.name, [a.version.epoch, a.version.upstream, a.version.revision], a.original_filename]
            if type(a) is not cls or cls.from_filename(a) is not a:
                return Exc('ArchiveClassesDiffer')
        except Exception as e:
            other = Exc(type(e).__name__)
        mine = res if isinstance(res, Exc) else [res[0], res[1], res[3]]
        if other != mine:
            return Exc('ArchiveClassesDiffer')
    return res


def nontrivial(op, inp, obs):
    if op == 'C17c':
        return isinstance(obs[0], list) or isinstance(obs[1], list) and len(inp) >= 2
    return isinstance(obs, list) or (isinstance(inp, str) and '_' in inp)


def histogram(op, inp, obs):
    if op == 'C17c':
        yield 'C17c:latest=%s' % ('ok' if isinstance(obs[0], list) else obs[0].name if isinstance(obs[0], Exc) else 'None')
        yield 'C17c:n=%d' % len(inp)
    else:
        yield '%s:%s' % (op, 'ok' if isinstance(obs, list) else obs.name)


def valid_input(op, inp):
    if op == 'C17a':
        return isinstance(inp, list) and len(inp) == 6 and all(isinstance(x, str) for i, x in enumerate(inp) if i != 3) \
            and (inp[3] is None or isinstance(inp[3], str)) \
            and inp[5] == inp[0] + inp[1] + '_' + inp[2] + ('_' + inp[3] if inp[3] is not None else '') + inp[4]
    if op == 'C17b':
        return isinstance(inp, str)
    return isinstance(inp, list) and all(isinstance(x, str) for x in inp)


def known_match(entry, op, inp, obs):
    return False


def mk(d, n, v, a, e):
    return [d, n, v, a, e, d + n + '_' + v + ('_' + a if a is not None else '') + e]


def grid():
    for n in NAMES:
        for v in VERSIONS:
            for d in DIRS[:3]:
                for e in ENDINGS_BIN:
                    for a in ARCHS[:2]:
                        yield mk(d, n, v, a, e)
                for e in ENDINGS_SRC:
                    yield mk(d, n, v, None, e)


def random_a(rng, n):
    for _ in range(n):
        name = rng.choice(NAMES) if rng.random() < 0.7 else ''.join(rng.choice('ab+.-09') for _ in range(rng.randint(1, 6)))
        v = genlib.rand_version(rng) if rng.random() < 0.8 else rng.choice(VERSIONS)
        d = rng.choice(DIRS)
        if rng.random() < 0.5:
            yield mk(d, name, v, rng.choice(ARCHS), rng.choice(ENDINGS_BIN))
        else:
            yield mk(d, name, v, None, rng.choice(ENDINGS_SRC))


def malformed(rng, n):
    fixed = ['', '.deb', '..deb', '_.deb', 'a.deb', 'a_1', 'a_1.txt', 'a_1_b_c.deb', 'a_1.orig.tar', 'a_1.tar.gz', 'a_1.orig.tar.zip',
             'a_x.deb', 'a__b.deb', 'a_1.0+_amd64.deb', 'a_1:_amd64.deb', 'x/a_1.0_amd64.deb/', 'a_1.0_amd64.DEB', '_copyright',
             'a_copyright', 'a_1_copyright', 'a_1_b_copyright', 'a_1.0.orig.tar.tar.gz', 'a_٣_amd64.deb', 'a_1.0_amd64.deb ',
             'a_1.debian.tar.lzma', 'a_1.orig.x.tar.gz', 'tar_1%3a1.34+dfsg-1_amd64.deb', 'tar_1.34%7Erc1-1.dsc', '.orig.tar.gz', 'a_1_2_3.dsc', 'a.b_1.dsc', '..._1_a.deb']
    for f in fixed:
        yield f
    for case in random_a(rng, n):
        fn = case[5]
        r = rng.random()
        if r < 0.3 and fn:
            i = rng.randrange(len(fn))
            fn = fn[:i] + rng.choice('_./ x-') + fn[i + (rng.random() < 0.5):]
        elif r < 0.5:
            fn = fn.replace('_', rng.choice(('', '__', '-', '_x_')), 1)
        elif r < 0.7:
            fn = fn[:-rng.randint(1, 4)]
        elif r < 0.74:
            fn = fn + rng.choice(('.gz', '.bak', '_copyright', '.deb', '/'))
        elif r < 0.8:
            # the ending replaced by one the property does not list (other Debian artefacts, other compressions)
            stem = '_'.join(x for x in (case[1], case[2], case[3]) if x is not None)
            fn = case[0] + stem + rng.choice(('.ddeb', '.buildinfo', '.changes', '.tar.zst', '.orig.tar.zst', '.debian.tar.zstd', '.diff.gz', '.tar.Z',
                                               '.orig.tar', '_NEWS', '_readme', '.deb.asc', '.dsc.asc', '.orig.tar.gz.asc', '.DEB', '.Dsc', '.tar.GZ'))
        elif r < 0.92:
            # an escape sequence of another layer inside the version part: it is not a version character, so the
            # name must be rejected - a parser that decodes it first would accept
            parts = fn.split('_')
            if len(parts) >= 2:
                v = parts[1]
                esc = rng.choice(('%3a', '%3A', '%7E', '%2B', '%41', '%', '&#58;', '\\x3a', '%253a', '\\u003a', '=3A'))
                if rng.random() < 0.5 and any(c in v for c in ':~+'):
                    for c, e in ((':', '%3a'), ('~', '%7E'), ('+', '%2B')):
                        v = v.replace(c, e)
                else:
                    pos = rng.randrange(len(v) + 1)
                    v = v[:pos] + esc + v[pos:]
                parts[1] = v
                fn = '_'.join(parts)
        yield fn


LATEST_VERSIONS = ['1.0', '1.00', '0:1.0', '1.0-0', '1.9', '1.10', '1.0~rc1', '1:0.1', '2:0', '1.0-1', '1.0+b1']


def lists(rng, n):
    for _ in range(n):
        k = rng.choice((1, 2, 2, 3, 3, 4, 5, 6, 6, 9, 14, 23, 40, 63, 64, 70))
        names = ['a'] if rng.random() < 0.6 else ['a', 'b', 'lib-x']
        fns = []
        for _ in range(k):
            fns.append('%s%s_%s_%s%s' % (rng.choice(('', 'pool/')), rng.choice(names), rng.choice(LATEST_VERSIONS),
                                        rng.choice(ARCHS[:3]), rng.choice(ENDINGS_BIN)))
        if rng.random() < 0.05:
            fns.append(rng.choice(('a_1.0.deb', 'junk', 'a_1.0_amd64.dsc')))
        yield fns


def perms():
    base = ['a_1.9_amd64.deb', 'a_1.10_amd64.deb', 'a_1:0.1_i386.deb', 'b_2_all.deb']
    for k in (1, 2, 3, 4):
        for sub in itertools.permutations(base, k):
            yield list(sub)
    base2 = ['a_1.0_amd64.deb', 'a_1.00_i386.deb', 'a_1.0_i386.deb', 'a_0.9_all.deb']
    for k in (2, 3, 4):
        for sub in itertools.permutations(base2, k):
            yield list(sub)


def streams(tier, rng):
    yield {'name': 'roundtrip-grid', 'op': 'C17a', 'cases': grid(), 'exhaustive': True}
    yield {'name': 'roundtrip-random', 'op': 'C17a', 'cases': random_a(rng, 5000 if tier == 'quick' else 80000)}
    yield {'name': 'reject-malformed', 'op': 'C17b', 'cases': malformed(rng, 5000 if tier == 'quick' else 80000)}
    yield {'name': 'latest-permutations', 'op': 'C17c', 'cases': perms(), 'exhaustive': True}
    yield {'name': 'latest-lists', 'op': 'C17c', 'cases': lists(rng, 3000 if tier == 'quick' else 40000)}


def normalize(op, inp):
    if op == 'C17a':
        return mk(*inp[:5])
    return inp
