"""C05 - Line-tracking deb822 parser accounts for every source line exactly."""
import os
import gen822
from protocol import Exc
import probe
from debian_inspector import deb822

ID = 'C05'
LEVEL = 'proof'
THEOREMS = [('DebInspector.Thm.C05', ['Props.C05.sound', 'Props.C05.go_final', 'Props.C05.numbers_sublist', 'Props.C05.numbers_increasing']),
            ('DebInspector.Tie.Unicode', ['Tie.Unicode.reSpace_eq'])]
TRUSTED = [
    'Lean 4.33.0 kernel',
    'reading of the property as Props.C05.holdsOn (five clauses over the source lines split at LF, CRLF, CR)',
    'hand model of the generator loop (state machine with one-line look-ahead) and of the two regular expressions, tied by exhaustive small-scope correspondence',
    'str.strip/rstrip/lower and the [a-z]/IGNORECASE table regenerated from the interpreter',
    'translator harness/translate.py and this correspondence harness',
]
ASSUMPTIONS = ['texts are str objects without lone surrogates']
RULE = ('exhaustive: all sequences of <= L lines over 11 line kinds (A: v, A:, Licence: x, space-c, tab-c, space-dot, empty, two spaces, FF, junk, '
        'a-FF-b: v), LF-terminated, plus the same with terminators LF/CRLF/CR/mixed and optional final newline from the seed; random texts; '
        'the stored copyright/control data files. non-trivial = at least two different line kinds')
TECHNIQUE = ('Lean 4 theorem Props.C05.sound: all five clauses for every text, by an invariant over the generator loop (accumulated output + abstract open paragraph) '
             'and a sublist argument for the numbers + the same executable spec on every observation + exhaustive small-scope correspondence')
LEVEL_TEXT = ('Props.C05.sound: for every text (any number of lines, any line kinds and terminators) the model of get_paragraphs_as_field_groups satisfies the whole property: '
              'every source line is reported at most once under its true 1-based number with numbers strictly increasing over the whole result (numbers_sublist: the reported numbers are a sublist of 1..n), '
              'numbers are contiguous inside a field, every reported line carries its own text (declaration minus "Name:" and surrounding blanks under the lower-cased name with licence -> license; '
              'continuation minus trailing blanks; an unparsable line verbatim as a one-line unknown paragraph), the only unreported lines are blank lines and value-less declarations, '
              'and consecutive paragraphs are separated by an unreported blank line or one of them is an unparsable line. Proved in Lean 4 by induction over the line list (go_final) with the invariant '
              '"the output so far satisfies every clause up to the current line, and the open paragraph is a run of fields covering a contiguous interval of lines, each starting at a declaration line". '
              'The model (loop, look-ahead, trailing-blank trimming, the two line classifiers) is tied to the code by exhaustive correspondence over all sequences of <= 4/5 lines over 11 line kinds, '
              'random texts and the stored data files; holdsOn is evaluated on every implementation observation.')
LEVEL_NOTE = ('Trusted: Lean kernel; axioms propext, Classical.choice, Quot.sound only; model tied to the code by exhaustive small-scope '
              'correspondence; the hand recognisers stand for the two regular expressions.')

DATA = os.path.join(os.environ.get('VERIF_REPO', '/repo'), 'tests', 'data')


def observe(op, t):
    def scramble(groups):
        for g in groups:
            for f in g:
                for l in f.lines:
                    probe.scramble_attrs(l, number=-1, value='zz-scrambled')
                del f.lines[:]
                probe.scramble_attrs(f, name='zz-scrambled')
            del g[:]
    try:
        return probe.twice(lambda: list(deb822.get_paragraphs_as_field_groups(t)),
                           lambda groups: [[[f.name, [[l.number, l.value] for l in f.lines]] for f in g] for g in groups], scramble)
    except Exception as e:
        return Exc(type(e).__name__)


def nontrivial(op, t, obs):
    return len(set(t.replace('\r', '\n').split('\n'))) >= 2


def histogram(op, t, obs):
    if isinstance(obs, Exc):
        yield 'exc:' + obs.name
    else:
        yield 'paragraphs=%d' % min(len(obs), 5)
        if any(f[0] == 'unknown' for g in obs for f in g):
            yield 'has-unknown'
        if any(l[1] == '' and i > 0 for g in obs for f in g for i, l in enumerate(f[1])):
            yield 'has-absorbed-blank'


def valid_input(op, t):
    return isinstance(t, str)


def known_match(entry, op, t, obs):
    return False


def data_files():
    out = []
    for base, _d, files in os.walk(DATA):
        for fn in sorted(files):
            p = os.path.join(base, fn)
            if any(k in p for k in ('copyright', 'control', 'deb822', 'status')) and os.path.getsize(p) < 60000:
                try:
                    out.append(open(p, encoding='utf-8').read())
                except Exception:
                    pass
    return out[:60]


def streams(tier, rng):
    L = 4 if tier == 'quick' else 5
    yield {'name': 'exhaustive-lines<=%d-LF' % L, 'op': 'C05', 'cases': gen822.exhaustive(L), 'exhaustive': True}
    yield {'name': 'exhaustive-lines<=%d-terminators' % (L - 1), 'op': 'C05', 'cases': gen822.exhaustive(L - 1, rng)}
    yield {'name': 'edge-characters', 'op': 'C05', 'cases': gen822.edge_sweep(2 if tier == 'quick' else 3), 'exhaustive': True}
    n = 5000 if tier == 'quick' else 80000
    yield {'name': 'random', 'op': 'C05', 'cases': (gen822.random_text(rng, 14) for _ in range(n))}
    yield {'name': 'stored-data-files', 'op': 'C05', 'cases': data_files()}
