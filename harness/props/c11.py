"""C11 - Building a copyright object loses no content and invents none."""
import gen822
import cobs
import props.c05 as c05
import props.c10 as c10
from protocol import Exc
from debian_inspector import copyright as cr

ID = 'C11'
LEVEL = 'proof'
THEOREMS = [('DebInspector.Thm.C11', ['Props.C11.sameMultiset_refl', 'Props.C11.removeAll_perm'])]
TRUSTED = [
    'Lean 4.33.0 kernel',
    'reading of the property as Props.C11.holdsOn (multiset of words of all tracked field lines = multiset of words of all values of the dictionary form)',
    'hand model of the copyright pipeline, tied by correspondence',
    'translator harness/translate.py and this correspondence harness',
]
ASSUMPTIONS = ['the input side is the field groups of the line-tracking parser (that they account for the text is C05)']
RULE = ('C07 streams enriched with reserved " .x" lines, dot-only lines in every position, Unknown-x fields next to empty licenses, duplicated fields, '
        'runs of junk paragraphs (merge) and empty License followed by free text (fold). non-trivial = the object has at least two paragraphs or a renamed field')
TECHNIQUE = ('executable word-multiset specification evaluated on every implementation observation + correspondence with the hand model of the pipeline; '
             'Lean 4 lemmas that the multiset comparison used is sound (permutation-invariant)')
LEVEL_TEXT = ('Proved in Lean 4: the multiset comparison of the specification is exact - removeAll a b = some [] holds iff a is a permutation of b (removeAll_perm), '
              'so the check cannot miss a lost or invented word. Conservation itself, over renaming, merging and folding alone and in combination, is decided '
              'by that executable specification on every implementation observation and by correspondence with the hand model; it is not yet a theorem.')
LEVEL_NOTE = ('Trusted: Lean kernel; axioms propext, Classical.choice, Quot.sound only for the registered lemmas; conservation rests on specification evaluation + correspondence.')


def observe(op, t):
    g = c05.observe('C05', t)
    try:
        p = cobs.paras_obs(cr.DebianCopyright.from_text(t))
    except Exception as e:
        p = Exc(type(e).__name__)
    if isinstance(g, Exc):
        g = []
    return [g, p]


def nontrivial(op, t, obs):
    return isinstance(obs[1], list) and (len(obs[1]) >= 2 or any(k[-1:].isdigit() for p in obs[1] for k, _v in p[1]))


def histogram(op, t, obs):
    if isinstance(obs[1], Exc):
        yield 'exc:' + obs[1].name
    else:
        yield 'paragraphs=%d' % min(len(obs[1]), 6)


def valid_input(op, t):
    return isinstance(t, str)


def known_match(entry, op, t, obs):
    return False


def enriched(rng, n):
    extra = [' .x', ' .', '.', ' . ', 'Unknown-x: 2001 Foo Bar', 'License: ', 'License:', 'Files: *', 'Files: b', 'Comment: c\n .j', 'free . text', ' .\n .']
    for _ in range(n):
        r = rng.random()
        if r < 0.45:
            yield c10.recovery(rng)
        elif r < 0.75:
            lines = [rng.choice(gen822.VOCAB + extra) for _ in range(rng.randint(1, 12))]
            yield gen822.render(lines, rng)
        else:
            yield gen822.random_text(rng, 12)


def streams(tier, rng):
    L = 3 if tier == 'quick' else 4
    yield {'name': 'exhaustive-lines<=%d' % L, 'op': 'C11', 'cases': gen822.exhaustive(L), 'exhaustive': True}
    yield {'name': 'enriched', 'op': 'C11', 'cases': enriched(rng, 8000 if tier == 'quick' else 120000)}
