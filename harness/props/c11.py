"""C11 - Building a copyright object loses no content and invents none."""
import gen822
import cobs
import props.c05 as c05
import props.c10 as c10
from protocol import Exc
import probe
from debian_inspector import copyright as cr

ID = 'C11'
LEVEL = 'proof'
THEOREMS = [('DebInspector.Thm.C11', ['Props.C11.sameMultiset_refl', 'Props.C11.removeAll_perm']),
            ('DebInspector.Thm.C11W', ['Props.C11W.sound', 'Props.C11W.fromFieldsGroups_words', 'Props.C11W.fromFields_words', 'Props.C11W.mergeUnknown_words',
                                       'Props.C11W.foldLicense_words', 'Props.C11W.fold_words']),
            ('DebInspector.Proofs.WordsConv', ['Proofs.WordsConv.words_dumps_fromValue', 'Proofs.WordsConv.words_dumps_absent']),
            ('DebInspector.Proofs.Words', ['Proofs.Words.words_splitlines'])]
TRUSTED = [
    'Lean 4.33.0 kernel',
    'reading of the property as Props.C11.holdsOn (multiset of words of all tracked field lines = multiset of words of all values of the dictionary form)',
    'hand model of the copyright pipeline, tied by correspondence',
    'translator harness/translate.py and this correspondence harness',
]
ASSUMPTIONS = ['the input side is the field groups of the line-tracking parser (that they account for the text is C05)']
RULE = ('C07 streams enriched with reserved " .x" lines, dot-only lines in every position, Unknown-x fields next to empty licenses, duplicated fields, '
        'runs of junk paragraphs (merge) and empty License followed by free text (fold). non-trivial = the object has at least two paragraphs or a renamed field')
TECHNIQUE = ('Lean 4 theorem Props.C11W.sound: for every text the words of the tracked field lines and the words of the values of the dictionary form are the same multiset, through every recovery path '
             '+ the same executable word-multiset specification evaluated on every implementation observation (against the text itself and against the reported groups) + correspondence with the hand model of the pipeline')
LEVEL_TEXT = ('Props.C11W.sound: for every text, the multiset of words of the field values and free-text lines (as the line-tracking parser reads the text: the reading Props.C05.sound proves correct) equals the multiset of words of the values of the '
              'dictionary form of the model of DebianCopyright.from_text - no word lost, none invented, each equally often. Steps, each a theorem for every input: the words of a text are the words of its lines and survive strip, joins and the '
              'continuation-line codec (Proofs.Words); rendering the typed value of a field keeps the words of its text for every converter class and every value, an absent field renders to no words (words_dumps_fromValue, words_dumps_absent: '
              'single line, line list, white-space list, formatted text, copyright statements with year ranges, license name + text); from_fields keeps the words of all fields under renamed duplicates, unknown names and empty values '
              '(fromFields_words, by an invariant over the loop: stored names are distinct, known names are typed fields of the class, unknown names are not); merging runs of unknown paragraphs keeps them (mergeUnknown_words); '
              'folding free text into an empty license paragraph keeps them (foldLicense_words / fold_words: the empty license paragraph has no words, the folded one has the words of the text). '
              'removeAll_perm: the multiset comparison of the specification holds iff the two lists are permutations of each other. A full stop standing alone is not a word (Spec/Words).')
LEVEL_NOTE = ('Trusted: Lean kernel; axioms propext, Classical.choice, Quot.sound only for the registered lemmas; conservation rests on specification evaluation + correspondence.')


def observe(op, t):
    g = c05.observe('C05', t)
    try:
        cobs.prelude()
        p = probe.twice(lambda: cr.DebianCopyright.from_text(t), cobs.paras_obs, cobs.scramble)
    except Exception as e:
        p = Exc(type(e).__name__)
    if isinstance(g, Exc):
        g = []
    return [g, p]


def nontrivial(op, t, obs):
    return isinstance(obs[1], list) and (len(obs[1]) >= 2 or any(k[-1:].isdigit() for p in obs[1] for k, _v in p[1]))


def histogram(op, t, obs):
    if isinstance(obs[1], Exc):
        yield 'exc:' + obs[1].name
    else:
        yield 'paragraphs=%d' % min(len(obs[1]), 6)


def valid_input(op, t):
    return isinstance(t, str)


def known_match(entry, op, t, obs):
    return False


def enriched(rng, n):
    extra = [' .x', ' .', '.', ' . ', 'Unknown-x: 2001 Foo Bar', 'License: ', 'License:', 'Files: *', 'Files: b', 'Comment: c\n .j', 'free . text', ' .\n .']
    for _ in range(n):
        r = rng.random()
        if r < 0.45:
            yield c10.recovery(rng)
        elif r < 0.75:
            lines = [rng.choice(gen822.VOCAB + extra) for _ in range(rng.randint(1, 12))]
            yield gen822.render(lines, rng)
        else:
            yield gen822.random_text(rng, 12)


def streams(tier, rng):
    L = 3 if tier == 'quick' else 4
    yield {'name': 'exhaustive-lines<=%d' % L, 'op': 'C11', 'cases': gen822.exhaustive(L), 'exhaustive': True}
    yield {'name': 'enriched', 'op': 'C11', 'cases': enriched(rng, 8000 if tier == 'quick' else 120000)}
