"""C15 - Relationship matching is three-valued, compositional and follows dpkg order."""
import genlib
from protocol import Exc
from debian_inspector import deps, package
from debian_inspector.version import Version

ID = 'C15'
LEVEL = 'proof'
THEOREMS = [('DebInspector.Thm.C15', ['Props.C15.sound', 'Props.C15.soundM', 'Props.C15.evalConstraint_spec',
                                      'Props.C15.evalOp_eq_opHolds', 'Props.C15.unknown_operator_raises'])]
TRUSTED = [
    'Lean 4.33.0 kernel',
    'reading of the property as Props.C15.spec (three-valued table stated outright over the declarative dpkg order, candidate left / required right)',
    'hand model of Relationship/VersionedRelationship/OrRelationships/AndRelationships.matches and match_relationships, tied by correspondence',
    'operator table regenerated behaviourally from eval_constraint each run',
    'translator harness/translate.py and this correspondence harness',
]
ASSUMPTIONS = ['relationship trees without architecture restrictions are the quantifier of the property (trees with architectures are '
               'generated too and must agree with the model: NotImplementedError)',
               'version strings whose acceptance C03 leaves open (valid but ending in . + ~) are outside holdsOn']
RULE = ('trees to depth 3 over names {a,b,c}; for each required version the candidates just below, order-equal-but-different and just '
        'above it, and absent/empty; all seven operators plus unknown ones; match_relationships over 0-4 sets. '
        'non-trivial = the candidate name occurs in the tree')
TECHNIQUE = 'Lean 4 theorem by mutual structural induction over relationship trees of any depth (model = three-valued spec over dpkg order) + correspondence'
LEVEL_TEXT = ('Props.C15.sound: for relationship trees of any depth and width, any candidate name and any candidate version whose '
              'acceptance is determined, the model of matches() equals the three-valued specification (None / True / False table, '
              'any / all combinators, candidate-left required-right under the dpkg order proved in C01, operator meanings proved from the '
              'regenerated table, unknown operator -> ValueError), by mutual structural induction in Lean 4. soundM does the same for '
              'match_relationships. Model tied to the code by correspondence on generated trees around boundary versions.')
LEVEL_NOTE = ('Trusted: Lean kernel; axioms propext, Classical.choice, Quot.sound only; model of the matches methods tied by '
              'differential correspondence; relies on C01/C02 theorems for the order and the operator table.')

OPS = ['<<', '<=', '<', '=', '>=', '>', '>>']
BAD_OPS = ['~', '!=', '==', '', '<>', '=<']
NAMES = ['a', 'b', 'c', 'lib-x', 'a:any']


def build(t):
    k = t[0]
    if k == 's':
        return deps.Relationship(name=t[1], architectures=tuple(t[2]))
    if k == 'v':
        return deps.VersionedRelationship(name=t[1], operator=t[2], version=t[3], architectures=tuple(t[4]))
    if k == 'o':
        return deps.OrRelationships.from_relationships(*[build(x) for x in t[1]])
    if k == 'a':
        return deps.AndRelationships.from_relationships(*[build(x) for x in t[1]])
    raise ValueError(k)


def tri(r):
    if r is True or r is False or r is None:
        return r
    raise TypeError('matches returned %r' % (r,))


def observe(op, inp):
    try:
        if op == 'C15':
            tree, name, version = inp
            return tri(build(tree).matches(name, version))
        name, version, sets = inp

        class A(object):
            pass
        a = A()
        a.name = name
        a.version = version
        return tri(package.match_relationships(a, [build(t) for t in sets]))
    except Exception as e:
        return Exc(type(e).__name__)


def names_in(t):
    if t[0] in 'sv':
        return {t[1]}
    s = set()
    for x in t[1]:
        s |= names_in(x)
    return s


def nontrivial(op, inp, obs):
    if op == 'C15':
        return inp[1] in names_in(inp[0])
    return any(inp[0] in names_in(t) for t in inp[2])


def histogram(op, inp, obs):
    yield '%s:%s' % (op, obs.name if isinstance(obs, Exc) else obs)


def valid_input(op, inp):
    def ok(t):
        if not isinstance(t, list) or not t:
            return False
        if t[0] == 's':
            return len(t) == 3 and isinstance(t[1], str) and isinstance(t[2], list) and all(isinstance(x, str) for x in t[2])
        if t[0] == 'v':
            return len(t) == 5 and all(isinstance(x, str) for x in t[1:4]) and isinstance(t[4], list) and all(isinstance(x, str) for x in t[4])
        if t[0] in 'oa':
            return len(t) == 2 and isinstance(t[1], list) and all(ok(x) for x in t[1])
        return False
    if op == 'C15':
        return isinstance(inp, list) and len(inp) == 3 and ok(inp[0]) and isinstance(inp[1], str) and (inp[2] is None or isinstance(inp[2], str))
    return isinstance(inp, list) and len(inp) == 3 and isinstance(inp[0], str) and (inp[1] is None or isinstance(inp[1], str)) \
        and isinstance(inp[2], list) and all(ok(t) for t in inp[2])


def known_match(entry, op, inp, obs):
    return False


BASES = ['1.0', '2', '1:0.5', '1.0-1', '1.0~rc1', '3.2.1+b1', '1.0RC1', '1.0a', '2.0Beta-1', '1.0Z']


def around(rng, v):
    """a candidate just below, order-equal-but-different, just above, equal, or unrelated"""
    r = rng.random()
    if r < 0.2:
        return v
    if r < 0.4:   # order-equal, textually different
        return rng.choice((v + '-0' if '-' not in v else v, '0:' + v if ':' not in v else v, v.replace('0', '00', 1)))
    if r < 0.6:   # just below
        return v + '~' + rng.choice(('1', 'a', '~1'))
    if r < 0.7:   # just above
        return v + rng.choice(('a', '+1', '.0.1', '.1'))
    if r < 0.8:   # the other letter case, a letter against a digit or punctuation at the same place (dpkg: upper < lower)
        sw = ''.join(c.lower() if c.isupper() else c.upper() if c.islower() else c for c in v)
        return rng.choice((sw, v + 'A', v + 'z', v + 'Z1', v + 'a1'))
    if r < 0.88:
        return rng.choice(BASES)
    if r < 0.93:
        # a digit run past the interpreter's limit for str -> int conversion (4300 digits): still an ordinary number
        return rng.choice((v + '9' * 4400, '1.' + '9' * 5000, '9' * 4301 + ':' + v if ':' not in v else v + '.' + '0' * 4400 + '1'))
    return rng.choice(('1.0+', 'x', '1:', '', '1_0'))   # open / invalid / empty


def rel(rng, depth, archs_ok=True):
    r = rng.random()
    if depth <= 0 or r < 0.45:
        name = rng.choice(NAMES)
        archs = [rng.choice(('amd64', '!i386', 'any'))] if (archs_ok and rng.random() < 0.04) else []
        if rng.random() < 0.35:
            return ['s', name, archs]
        op = rng.choice(OPS) if rng.random() < 0.92 else rng.choice(BAD_OPS)
        v = rng.choice(BASES) if rng.random() < 0.93 else rng.choice(('x', '1.0+', '', ' 1.0 '))
        return ['v', name, op, v, archs]
    k = 'o' if r < 0.75 else 'a'
    return [k, [rel(rng, depth - 1, archs_ok) for _ in range(rng.choice((0, 1, 2, 2, 3, 4)))]]


def versions_in(t):
    if t[0] == 'v':
        return [t[3]]
    if t[0] == 's':
        return []
    out = []
    for x in t[1]:
        out += versions_in(x)
    return out


def cases(rng, n):
    for _ in range(n):
        t = rel(rng, rng.choice((0, 1, 2, 3)))
        vs = [v for v in versions_in(t) if v.strip() and v[0].isdigit()]
        name = rng.choice(NAMES[:4])
        if rng.random() < 0.1:
            # a name that is almost one of the names mentioned: not mentioned, so the answer is None
            name = rng.choice((name + ' ', ' ' + name, name.upper(), name + '\n', name + ':any', name.split(':')[0], name[:-1], '\t' + name + ' ', name + '\xa0'))
        r = rng.random()
        if r < 0.12:
            cand = None
        elif r < 0.17:
            cand = ''
        elif vs:
            cand = around(rng, rng.choice(vs))
        else:
            cand = rng.choice(BASES)
        yield [t, name, cand]


def cases_m(rng, n):
    for _ in range(n):
        sets = [rel(rng, rng.choice((0, 1, 2))) for _ in range(rng.choice((0, 1, 2, 3, 4)))]
        vs = [v for t in sets for v in versions_in(t) if v.strip() and v[0].isdigit()]
        cand = around(rng, rng.choice(vs)) if vs and rng.random() < 0.9 else rng.choice((None, '1.0'))
        yield [rng.choice(NAMES[:3]), cand, sets]


def boundary():
    """every operator x {below, order-equal, equal, above, absent} for one required version"""
    for op in OPS + BAD_OPS:
        for cand in ('1.0~1', '1.00', '1.0', '0:1.0-0', '1.0a', None, ''):
            for name in ('a', 'b', 'a ', ' a', 'A', ''):
                yield [['v', 'a', op, '1.0', []], name, cand]
                yield [['s', 'a', []], name, cand]


def streams(tier, rng):
    yield {'name': 'operator-boundary-table', 'op': 'C15', 'cases': boundary(), 'exhaustive': True}
    yield {'name': 'trees', 'op': 'C15', 'cases': cases(rng, 20000 if tier == 'quick' else 200000)}
    yield {'name': 'match_relationships', 'op': 'C15m', 'cases': cases_m(rng, 5000 if tier == 'quick' else 60000)}
