"""C14 - Dependency fields parse to exactly the structure they spell."""
import os
import genlib
from protocol import Exc
from debian_inspector import deps

ID = 'C14'
LEVEL = 'proof'
THEOREMS = [('DebInspector.Thm.C14', ['Props.C14.opTokens_good', 'Props.C14.opRuns_prefix', 'Props.C14.strip_padded'])]
TRUSTED = [
    'Lean 4.33.0 kernel',
    'reading of the property as Props.C14.holdsOn / holdsOnE (grammar with explicit layout; canonical spelling; malformed clauses)',
    'hand model of parse_depends / parse_alternatives / parse_relationship (prefix scanner for the VERBOSE regex, split_on_ops) and the __str__ methods, tied by correspondence',
    'translator harness/translate.py and this correspondence harness',
]
ASSUMPTIONS = ['"arbitrary spacing" between a name and its clauses is U+0020 (a tab or newline there is swallowed by the name class of the regex); '
               'any Python white space is allowed after commas and around whole alternatives']
RULE = ('trees with 0-5 groups x 1-4 alternatives, all seven operators, names with + . - and :qualifier, versions with epochs, tildes, hyphens, '
        'negated / wildcard architectures, all layouts (no space / many spaces / glued operator / newlines after commas); the stored real-world lines; '
        'malformed clauses (no operator, operator only, several operators). non-trivial = at least one versioned or architecture-restricted alternative')
TECHNIQUE = ('executable grammar-with-layout specification evaluated on every implementation observation + correspondence with a hand model of the parser; '
             'Lean 4 theorems for the version-clause tokeniser')
LEVEL_TEXT = ('Proved in Lean 4: the version-clause tokeniser of the model returns exactly [operator, version] for "spaces operator spaces version spaces" '
              'with any amount of U+0020 (including none: glued) (opTokens_good). The malformed-clause ValueError clause and the whole-field clauses (structure, canonical str, reparse, names) are decided by the executable '
              'grammar-with-layout specification holdsOn on every implementation observation and by correspondence with the hand model; they are not yet theorems.')
LEVEL_NOTE = ('Trusted: Lean kernel; axioms propext, Classical.choice, Quot.sound only for the registered theorems; the whole-field clauses '
              'rest on specification evaluation + correspondence.')

OPS = ['<<', '<=', '<', '=', '>=', '>', '>>']
NAMES = ['python3', 'libc6', 'g++', 'lib.x-y', 'python:any', 'a', 'foo+bar', '0ad', 'x)y', 'a]b']
VERSIONS = ['1.0', '2:1.2-3', '1.0~rc1', '1-2-3', '0', '2.6', '1.0+b1']
ARCHS = ['amd64', '!i386', 'linux-any', 'any', '!hurd-any']
WS = ['', ' ', '  ', '\n', '\n ', '\t', ' \n\t ', '\xa0', '\x0c']
SP = ['', '', ' ', ' ', '   ']


def alt(rng):
    name = rng.choice(NAMES)
    clause = [rng.choice(OPS), rng.choice(VERSIONS)] if rng.random() < 0.6 else None
    archs = [rng.choice(ARCHS) for _ in range(rng.choice((1, 2, 3)))] if rng.random() < 0.3 else []
    return [name, clause, archs, rng.choice(WS), rng.choice(SP), rng.choice(SP), rng.choice(SP), rng.choice(SP), rng.choice(SP), rng.choice(WS)]


def render_alt(x):
    name, clause, archs, lead, a, b, c, d, e, trail = x
    s = lead + name
    if clause is not None:
        s += a + '(' + b + clause[0] + c + clause[1] + d + ')'
    if archs:
        s += e + '[' + ' '.join(archs) + ']'
    return s + trail


def render(groups):
    return ','.join('|'.join(render_alt(x) for x in g) for g in groups)


def case(rng):
    groups = [[alt(rng) for _ in range(rng.choice((1, 1, 1, 2, 2, 3, 4)))] for _ in range(rng.choice((0, 1, 1, 2, 3, 4, 5)))]
    return [groups, render(groups)]


def tree(r):
    if isinstance(r, deps.VersionedRelationship):
        return ['v', r.name, r.operator, r.version, list(r.architectures)]
    if isinstance(r, deps.Relationship):
        return ['s', r.name, list(r.architectures)]
    if isinstance(r, deps.OrRelationships):
        return ['o', [tree(x) for x in r.relationships]]
    if isinstance(r, deps.AndRelationships):
        return ['a', [tree(x) for x in r.relationships]]
    raise TypeError(type(r))


def observe(op, inp):
    if op == 'C14e':
        try:
            deps.parse_depends('%s (%s)' % (inp[0], inp[1]))
            return None
        except Exception as e:
            return Exc(type(e).__name__)
    text = inp[1]
    try:
        import io
        import contextlib
        with contextlib.redirect_stdout(io.StringIO()):
            t = deps.parse_depends(text)
    except Exception as e:
        return Exc(type(e).__name__)
    s = str(t)
    try:
        r = tree(deps.parse_depends(s))
    except Exception as e:
        r = Exc(type(e).__name__)
    return [tree(t), s, r, sorted(t.names)]


def nontrivial(op, inp, obs):
    if op == 'C14e':
        return True
    return any(x[1] is not None or x[2] for g in inp[0] for x in g)


def histogram(op, inp, obs):
    if op == 'C14e':
        yield 'C14e:' + ('ok' if obs is None else obs.name)
    else:
        yield 'groups=%d' % len(inp[0])
        yield 'ok' if isinstance(obs, list) else obs.name


def valid_input(op, inp):
    if op == 'C14e':
        return isinstance(inp, list) and len(inp) == 2 and all(isinstance(x, str) for x in inp)
    try:
        groups, text = inp
        for g in groups:
            for x in g:
                if len(x) != 10 or not isinstance(x[0], str) or not isinstance(x[2], list):
                    return False
                if x[1] is not None and (len(x[1]) != 2 or not all(isinstance(y, str) for y in x[1])):
                    return False
                if not all(isinstance(y, str) for y in x[3:]) or not all(isinstance(y, str) for y in x[2]):
                    return False
        return isinstance(text, str) and text == render(groups)
    except Exception:
        return False


def known_match(entry, op, inp, obs):
    return False


def stored_lines():
    """the real-world lines of tests/test_deps.py, already canonical: each becomes one case"""
    path = os.path.join(os.environ.get('VERIF_REPO', '/repo'), 'tests', 'test_deps.py')
    out = []
    try:
        import re
        for m in re.finditer(r"'([a-z0-9][^'\n]{3,200})'", open(path, encoding='utf-8').read()):
            s = m.group(1)
            try:
                groups = []
                for g in s.split(','):
                    alts = []
                    for a in g.split('|'):
                        mm = re.match(r'^\s*([^\s(\[]+)\s*(?:\(\s*([<>=]+)\s*([^)\s]+)\s*\))?\s*(?:\[([^\]]+)\])?\s*$', a)
                        if not mm:
                            raise ValueError
                        alts.append([mm.group(1), [mm.group(2), mm.group(3)] if mm.group(2) else None,
                                     (mm.group(4) or '').split(), '' if not alts else ' ', ' ', '', ' ', '', ' ', ' ' if len(g.split('|')) > 1 and a is not g.split('|')[-1] else ''])
                    groups.append(alts)
                for gi, g in enumerate(groups):
                    if gi:
                        g[0][3] = ' '
                out.append([groups, render(groups)])
            except Exception:
                continue
    except Exception:
        pass
    return out[:40]


def bad_clauses(rng, n):
    fixed = ['1.0', '>=', '>= 1 <= 2', '<< >>', '>= <=', '< >', '= =', '1.0 2.0', ' 1.0 ', '>=1<=2', '=', '<', '1 >= 2 <=', '>=\t<=']
    for c in fixed:
        yield ['a', c]
    for _ in range(n):
        k = rng.random()
        if k < 0.34:
            c = rng.choice(VERSIONS) + rng.choice(('', ' ', ' x'))
        elif k < 0.67:
            c = rng.choice(SP) + rng.choice(OPS) + rng.choice(SP) + (rng.choice(OPS) if rng.random() < 0.4 else '')
        else:
            c = rng.choice(OPS) + rng.choice(SP) + rng.choice(VERSIONS) + rng.choice(SP) + rng.choice(OPS) + rng.choice(SP) + rng.choice(('', rng.choice(VERSIONS)))
        yield [rng.choice(NAMES[:8]), c]


def streams(tier, rng):
    n = 10000 if tier == 'quick' else 150000
    yield {'name': 'grammar-with-layout', 'op': 'C14', 'cases': (case(rng) for _ in range(n))}
    yield {'name': 'stored-lines', 'op': 'C14', 'cases': stored_lines()}
    yield {'name': 'malformed-clauses', 'op': 'C14e', 'cases': bad_clauses(rng, 2000 if tier == 'quick' else 30000)}


def normalize(op, inp):
    if op == 'C14e':
        return inp
    return [inp[0], render(inp[0])]
