"""C09 - Machine-readable copyright files are recognised paragraph by paragraph."""
import os
import gendep5
from gendep5 import normalize, valid_input  # noqa: F401
from protocol import Exc
from debian_inspector import copyright as cr

ID = 'C09'
LEVEL = 'proof'
THEOREMS = [('DebInspector.Thm.C09', ['Props.C09.classify_header', 'Props.C09.classify_files', 'Props.C09.classify_license', 'Props.C09.yearSpec_isYearRange'])]
TRUSTED = [
    'Lean 4.33.0 kernel',
    'reading of the property as Props.C09.holdsOn over the document grammar of Props/Dep5.lean (typed values written from the copyright-format specification)',
    'hand model of the copyright pipeline and of the field converters, tied by correspondence; per-class field names and converter classes regenerated from the source each run',
    'translator harness/translate.py and this correspondence harness',
]
ASSUMPTIONS = ['text blocks start with a paragraph line (a verbatim or marker first line is re-indented / kept as "." by the converters on purpose) and do not end in a marker']
RULE = ('documents with a header paragraph and 0-4 files / stand-alone license paragraphs, shuffled field order, either spelling of licence and any label case, multi-line copyright and '
        'license values with blank-line markers and verbatim lines, extra fields in any paragraph, year ranges with punctuation and statements without years; the stored copyright files '
        'through the correspondence only. non-trivial = at least two paragraphs')
TECHNIQUE = ('executable typed-value specification over the document grammar evaluated on every implementation observation + correspondence with the hand model; '
             'Lean 4 theorems for classification and for the year-range test')
LEVEL_TEXT = ('Proved in Lean 4: the model classifies a group of fields as header whenever it has a Format field, as files when it has Files and no Format, as stand-alone license when it has '
              'License and neither (classify_*), whatever the other fields and their order; and the year-range test of the model accepts every token of digits and punctuation with at least one '
              'digit (yearSpec_isYearRange). That every paragraph of every grammar document carries exactly the typed values the document spells, keeps unknown fields as extra data, and that '
              'validity is equivalent to having a files paragraph is decided by the executable specification on every implementation observation and by correspondence; not yet a theorem.')
LEVEL_NOTE = ('Trusted: Lean kernel; axioms propext, Classical.choice, Quot.sound only for the registered theorems; the typed-value clauses rest on specification evaluation + correspondence.')

DATA = os.path.join(os.environ.get('VERIF_REPO', '/repo'), 'tests', 'data')


def observe(op, inp):
    try:
        c = cr.DebianCopyright.from_text(inp[2])
        return [gendep5.typed_obs(c), bool(c.is_valid())]
    except Exception as e:
        return Exc(type(e).__name__)


def nontrivial(op, inp, obs):
    return len(inp[0]) >= 2


def histogram(op, inp, obs):
    yield 'paragraphs=%d' % min(len(inp[0]), 6)
    if isinstance(obs, list):
        yield 'valid=%s' % obs[1]


def known_match(entry, op, inp, obs):
    return False


def stored(rng):
    out = []
    for base, _d, files in os.walk(DATA):
        for fn in sorted(files):
            p = os.path.join(base, fn)
            if 'copyright' in p and not fn.endswith('.json') and os.path.getsize(p) < 40000:
                try:
                    t = open(p, encoding='utf-8').read()
                    out.append([[], [], t])      # not a grammar document: correspondence only (wf is false)
                except Exception:
                    pass
    return out[:40]


def streams(tier, rng):
    n = 4000 if tier == 'quick' else 60000
    yield {'name': 'dep5-documents', 'op': 'C09', 'cases': (gendep5.doc(rng) for _ in range(n))}
    yield {'name': 'stored-copyright-files (correspondence only)', 'op': 'C09', 'cases': stored(rng)}
