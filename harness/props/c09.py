"""C09 - Machine-readable copyright files are recognised paragraph by paragraph."""
import os
import gendep5
import cobs
from gendep5 import normalize, valid_input  # noqa: F401
from protocol import Exc
from debian_inspector import copyright as cr

ID = 'C09'
LEVEL = 'proof'
THEOREMS = [('DebInspector.Thm.C09', ['Props.C09.license_typed', 'Props.C09.formatted_typed', 'Props.C09.copyright_typed', 'Props.C09.wsSep_typed',
                                      'Props.C09.single_typed', 'Props.C09.extra_typed', 'Props.C09.statement_eq', 'Props.C09.isYearRange_eq_spec',
                                      'Props.C09.classify_header', 'Props.C09.classify_files', 'Props.C09.classify_license', 'Props.C09.yearSpec_isYearRange']),
            ('DebInspector.Thm.C09G', ['Props.C09G.sound_from_groups', 'Props.C09G.typed_value', 'Props.C09G.para_typed', 'Props.C09G.para_matches',
                                       'Props.C09G.files_valid', 'Props.C09G.mergeUnknown_id', 'Props.C09G.foldLicense_id', 'Props.C09G.lineSep_typed']),
            ('DebInspector.Thm.C09D', ['Props.C09D.sound', 'Props.C09D.parse_spells'])]
TRUSTED = [
    'Lean 4.33.0 kernel',
    'reading of the property as Props.C09.holdsOn over the document grammar of Props/Dep5.lean (typed values written from the copyright-format specification)',
    'hand model of the copyright pipeline and of the field converters, tied by correspondence; per-class field names and converter classes regenerated from the source each run',
    'translator harness/translate.py and this correspondence harness',
]
ASSUMPTIONS = ['text blocks start with a paragraph line (a verbatim or marker first line is re-indented / kept as "." by the converters on purpose) and do not end in a marker']
RULE = ('documents with a header paragraph and 0-4 files / stand-alone license paragraphs, shuffled field order, either spelling of licence and any label case, multi-line copyright and '
        'license values with blank-line markers and verbatim lines, extra fields in any paragraph, year ranges with punctuation and statements without years; the stored copyright files '
        'through the correspondence only. non-trivial = at least two paragraphs')
TECHNIQUE = ('Lean 4 theorem Props.C09D.sound: for every well-formed DEP-5 document the model of the whole pipeline (text -> tracked field groups -> typed paragraphs -> recovery rewrites -> validity) satisfies the property '
             '+ the same executable specification evaluated on every implementation observation + correspondence with the hand model')
LEVEL_TEXT = ('Props.C09D.sound: for every well-formed machine-readable copyright document of the grammar (any number of paragraphs, fields in any order, any case of the names, Licence or License, any number of empty lines between paragraphs; '
              'single-line, white-space-list, copyright, license, formatted-text, line-list and unknown fields with any number of continuation lines) the model of DebianCopyright.from_text returns one paragraph per document paragraph, in order, of the class the document gives it, '
              'whose typed fields are exactly the document\'s and whose unknown fields are kept as extra data in order; the object is valid exactly when the document has a files paragraph. '
              'Steps, each a theorem: the line-tracking parser returns field groups that spell the paragraphs (parse_spells, through the loop theorem of C06 with licence respelled); from_fields keeps every field under its own name without renaming (addFields_para), '
              'every known field gets the converter of its class and the converter gives the typed value the document spells (typed_value: single_typed, wsSep_typed, copyright_typed with statement_eq and isYearRange_eq_spec for Unicode digits, license_typed, formatted_typed, lineSep_typed), '
              'absent fields hold the value of an absent field (para_matches), the two recovery rewrites leave a document without catch-all paragraphs alone (mergeUnknown_id, foldLicense_id), a files paragraph of the grammar is valid (files_valid). '
              'Two defects of the code were found by the excluded points of these proofs (F15: continuation lines starting with a non-ASCII white space; a files paragraph with a Format-Specification field is classified as a header: left outside the grammar).')
LEVEL_NOTE = ('Trusted: Lean kernel; axioms propext, Classical.choice, Quot.sound only; the whole-document plumbing rests on specification evaluation + correspondence.')

DATA = os.path.join(os.environ.get('VERIF_REPO', '/repo'), 'tests', 'data')


def observe(op, inp):
    try:
        cobs.prelude()
        c = cr.DebianCopyright.from_text(inp[2])
        return [gendep5.typed_obs(c), bool(c.is_valid())]
    except Exception as e:
        return Exc(type(e).__name__)


def nontrivial(op, inp, obs):
    return len(inp[0]) >= 2


def histogram(op, inp, obs):
    yield 'paragraphs=%d' % min(len(inp[0]), 6)
    if isinstance(obs, list):
        yield 'valid=%s' % obs[1]


def known_match(entry, op, inp, obs):
    return False


def stored(rng):
    out = []
    for base, _d, files in os.walk(DATA):
        for fn in sorted(files):
            p = os.path.join(base, fn)
            if 'copyright' in p and not fn.endswith('.json') and os.path.getsize(p) < 40000:
                try:
                    t = open(p, encoding='utf-8').read()
                    out.append([[], [], t])      # not a grammar document: correspondence only (wf is false)
                except Exception:
                    pass
    return out[:40]


def streams(tier, rng):
    n = 4000 if tier == 'quick' else 60000
    yield {'name': 'dep5-documents', 'op': 'C09', 'cases': (gendep5.doc(rng) for _ in range(n))}
    yield {'name': 'stored-copyright-files (correspondence only)', 'op': 'C09', 'cases': stored(rng)}
