"""C09 - Machine-readable copyright files are recognised paragraph by paragraph."""
import os
import gendep5
from gendep5 import normalize, valid_input  # noqa: F401
from protocol import Exc
from debian_inspector import copyright as cr

ID = 'C09'
LEVEL = 'proof'
THEOREMS = [('DebInspector.Thm.C09', ['Props.C09.license_typed', 'Props.C09.formatted_typed', 'Props.C09.copyright_typed', 'Props.C09.wsSep_typed',
                                      'Props.C09.single_typed', 'Props.C09.extra_typed', 'Props.C09.statement_eq', 'Props.C09.isYearRange_eq_spec',
                                      'Props.C09.classify_header', 'Props.C09.classify_files', 'Props.C09.classify_license', 'Props.C09.yearSpec_isYearRange'])]
TRUSTED = [
    'Lean 4.33.0 kernel',
    'reading of the property as Props.C09.holdsOn over the document grammar of Props/Dep5.lean (typed values written from the copyright-format specification)',
    'hand model of the copyright pipeline and of the field converters, tied by correspondence; per-class field names and converter classes regenerated from the source each run',
    'translator harness/translate.py and this correspondence harness',
]
ASSUMPTIONS = ['text blocks start with a paragraph line (a verbatim or marker first line is re-indented / kept as "." by the converters on purpose) and do not end in a marker']
RULE = ('documents with a header paragraph and 0-4 files / stand-alone license paragraphs, shuffled field order, either spelling of licence and any label case, multi-line copyright and '
        'license values with blank-line markers and verbatim lines, extra fields in any paragraph, year ranges with punctuation and statements without years; the stored copyright files '
        'through the correspondence only. non-trivial = at least two paragraphs')
TECHNIQUE = ('Lean 4 theorems: for every field of the DEP-5 grammar the converter of its kind gives exactly the typed value the document spells (six kinds), classification by field names, year-range test = specification '
             '+ executable typed-value specification over whole documents evaluated on every implementation observation + correspondence with the hand model')
LEVEL_TEXT = ('Proved in Lean 4, for every field of the grammar (any number and content of continuation lines): the converter of its kind applied to the field text as written gives exactly the typed value the document spells - '
              'license: short name = first line, text = decoded continuation lines (markers -> blank lines, verbatim lines keep their indentation) (license_typed); formatted text, whether it starts on the declaration line or on the first continuation line (formatted_typed); '
              'copyright: one statement per line, split into a leading year range and the holder exactly as the specification splits it (copyright_typed, statement_eq, isYearRange_eq_spec on ASCII words); white-space lists (wsSep_typed); single lines (single_typed); '
              'unknown fields kept verbatim (extra_typed). And: a group with a Format field is a header, with Files and no Format a files paragraph, with License and neither a license paragraph (classify_*). '
              'That a whole document goes through the pipeline paragraph by paragraph (parse, from_fields, lookup of each field, no merge or fold on well-formed documents) and the validity clause are decided by the executable specification on every implementation observation and by correspondence, not by theorem.')
LEVEL_NOTE = ('Trusted: Lean kernel; axioms propext, Classical.choice, Quot.sound only; the whole-document plumbing rests on specification evaluation + correspondence.')

DATA = os.path.join(os.environ.get('VERIF_REPO', '/repo'), 'tests', 'data')


def observe(op, inp):
    try:
        c = cr.DebianCopyright.from_text(inp[2])
        return [gendep5.typed_obs(c), bool(c.is_valid())]
    except Exception as e:
        return Exc(type(e).__name__)


def nontrivial(op, inp, obs):
    return len(inp[0]) >= 2


def histogram(op, inp, obs):
    yield 'paragraphs=%d' % min(len(inp[0]), 6)
    if isinstance(obs, list):
        yield 'valid=%s' % obs[1]


def known_match(entry, op, inp, obs):
    return False


def stored(rng):
    out = []
    for base, _d, files in os.walk(DATA):
        for fn in sorted(files):
            p = os.path.join(base, fn)
            if 'copyright' in p and not fn.endswith('.json') and os.path.getsize(p) < 40000:
                try:
                    t = open(p, encoding='utf-8').read()
                    out.append([[], [], t])      # not a grammar document: correspondence only (wf is false)
                except Exception:
                    pass
    return out[:40]


def streams(tier, rng):
    n = 4000 if tier == 'quick' else 60000
    yield {'name': 'dep5-documents', 'op': 'C09', 'cases': (gendep5.doc(rng) for _ in range(n))}
    yield {'name': 'stored-copyright-files (correspondence only)', 'op': 'C09', 'cases': stored(rng)}
