"""C16 - PGP clear-sign removal returns the signed body or the input, and quickly."""
import os
import subprocess
import sys
import time
from protocol import Exc, StopStreams
from debian_inspector import unsign

ID = 'C16'
LEVEL = 'proof'
THEOREMS = [('DebInspector.Thm.C16', ['Props.C16.result_is_part_of_input', 'Props.C16.unsigned_identity', 'Props.C16.removeSignature_cases', 'Props.C16.joinNl_take_infix']),
            ('DebInspector.Thm.C16W', ['Props.C16W.soundWK6', 'Props.C16W.wellformed_body', 'Props.C16W.matchAt_form0', 'Props.C16W.matchAt_form1',
                                       'Props.C16W.armor_ok', 'Props.C16W.longestClear_eq', 'Props.C16W.afterSig_dead'])]
TRUSTED = [
    'Lean 4.33.0 kernel',
    'reading of the property as Props.C16.holdsOn (a string, a contiguous part of the input, the input itself without an envelope) and holdsOnW (exactly the body for well-formed messages)',
    'line-level hand model of the verbose regular expression pgp_signed (leftmost start line; signed group first; Hash group first then without; longest clear text; END line as a prefix), tied by correspondence',
    "the running-time clause is MEASURED (scaling of six adversarial families with kill time-outs), not proved: no theorem can be stated about CPython's re engine",
    'translator harness/translate.py and this correspondence harness',
]
ASSUMPTIONS = ['K6: header blocks RFC 4880 allows but that are not exactly one Hash line + one empty line are returned as part of the body (known finding)']
RULE = ('well-formed messages (with / without Hash header, armor headers, 1-30 body lines incl. empty, dash-escaped and field-syntax lines, LF / CRLF, final newline or not; one in three preceded by blank lines and followed by white space of 0-5000 characters); '
        'malformed variants (damaged CRC / base64 / END line, missing blank line, nested blocks, garbage before / after, mixed terminators, body lines that look like armor lines); arbitrary texts. '
        'non-trivial = the text is enveloped')
TECHNIQUE = ('Lean 4 theorems about the model: for every text the result is a contiguous part of the input, the input itself without an envelope; Props.C16W.wellformed_body: for every well-formed message (K6 forms) it is exactly the signed body + executable spec on every observation + '
             'correspondence with the line-level model of the regex + measured running-time scaling')
LEVEL_TEXT = ('Proved in Lean 4 about the line-level model of remove_signature, for every text (enveloped or not, well-formed or malformed, LF or CRLF): the result is a contiguous part of '
              'the input (result_is_part_of_input); without a clear-sign envelope it is the input itself (unsigned_identity); it is always the input or the clear-text lines of a successful '
              'match, never None (removeSignature_cases). Props.C16W.wellformed_body / soundWK6: for every well-formed clear-signed message - header block absent or exactly one Hash line (the hypothesis of finding K6), any number of body lines '
              '(none starting with five dashes), any armor headers, base64 lines and checksum, LF or CRLF, with or without a final line ending, preceded by blank lines and followed by any white space - the model returns exactly the signed body, with the final carriage return for CRLF input: '
              'the armor block matches at the BEGIN PGP SIGNATURE line (armor_ok), no later line can start a match (afterSig_dead), so the longest clear text ends right before it (longestClear_eq, matchAt_form0/1), and the text splits into exactly those lines. '
              'The line-level model stands for the real regular expression and is tied to it by correspondence on well-formed, damaged and nested envelopes; the forms K6 excludes are decided by the executable specification. The running-time clause is measured (six adversarial families, sizes 250-2000 lines, 20 s kill, growth factor per doubling <= 6), not proved.')
LEVEL_NOTE = ('Trusted: Lean kernel; axioms propext, Classical.choice, Quot.sound only; the model of the regular expression is tied by correspondence, not derived; the time clause is a measurement.')

B64 = 'ABCDEFGHIJKLMNOPQRSTUVWXYZabcdefghijklmnopqrstuvwxyz0123456789+/'
BODY_LINES = ['Format: 1.0', 'Source: foo', '', ' continuation', '- -----BEGIN PGP dash escaped', 'Files:', ' abc 12 foo.tar.gz', 'Hash: SHA1', 'a: b: c', '   ', '=abcd', 'iQEzBAEBCAAdFiEE', '--', '-', 'x' * 80]
ARMOR_HEADERS = ['Version: GnuPG v1', 'Comment: a: b', 'Charset: x ']


def rand_b64(rng, n):
    return ''.join(rng.choice(B64) for _ in range(n))


def wellformed(rng):
    form = rng.choice((0, 0, 1, 1, 1, 1, 2, 3, 4))
    hashes = None if form in (0, 2) else rng.choice(('SHA256', 'SHA1,SHA512', 'sha-1'))
    body = [rng.choice(BODY_LINES) for _ in range(rng.choice((1, 2, 3, 5, 10, 30)))]
    if form == 0 and len(body) >= 3 and body[0].startswith('Hash: ') and body[1] == '':
        body[0] = 'Format: 1.0'
    ah = [rng.choice(ARMOR_HEADERS) for _ in range(rng.choice((0, 0, 1, 2)))]
    b64 = [rand_b64(rng, rng.choice((64, 64, 76, 10, 1))) + rng.choice(('', '', '=', '==')) for _ in range(rng.choice((1, 2, 5)))]
    crc = rand_b64(rng, 4)
    crlf = rng.random() < 0.4
    fin = rng.random() < 0.7
    m = mk(form, hashes, body, ah, b64, crc, crlf, fin)
    if rng.random() < 0.3:
        pre, post = pad(rng, True), pad(rng, False)
        if pre or post:
            m[8] = pre + m[8].rstrip() + post
    return m


WS = ' \t\n\r\x0b\x0c\x1c\x85\xa0\u2028\u3000'


def pad(rng, before):
    """white space around the message: blank lines before it, anything after it; now and then longer than any window a shortcut would look at"""
    n = rng.choice((0, 1, 2, 5, 40, 200, 255, 256, 257, 300, 1000, 5000))
    kind = rng.random()
    if kind < 0.4:
        s = rng.choice((' ', '\n', ' \n', '\t')) * n
    else:
        s = ''.join(rng.choice(WS) for _ in range(n))
    if before and s:
        s = s + '\n'
    return s


def mk(form, hashes, body, ah, b64, crc, crlf, fin):
    nl = '\r\n' if crlf else '\n'
    hdr = {0: [], 1: ['Hash: %s' % hashes, ''], 2: [''], 3: ['Hash: %s' % hashes, 'Hash: %s' % hashes, ''], 4: ['Hash: %s, %s' % (hashes, hashes), '']}[form]
    lines = ['-----BEGIN PGP SIGNED MESSAGE-----'] + hdr + body + \
        ['-----BEGIN PGP SIGNATURE-----'] + ah + [''] + b64 + ['=' + crc, '-----END PGP SIGNATURE-----']
    return [form, hashes, body, ah, b64, crc, crlf, fin, nl.join(lines) + (nl if fin else '')]


def normalize(op, inp):
    if op == 'C16w':
        base = mk(*inp[:8])
        old = inp[8] if isinstance(inp[8], str) else ''
        pre = old[:len(old) - len(old.lstrip())]
        post = old[len(old.rstrip()):]
        if pre or post not in ('', '\n', '\r\n'):
            base[8] = pre + base[8].rstrip() + post
        return base
    return inp


def damaged(rng):
    m = wellformed(rng)
    if rng.random() < 0.12:
        # a checksum of the wrong length, or white space inside the armor: everything before it matches, so a
        # pattern with an ambiguous repetition over the armor lines tries every way of splitting them
        form, hashes, body, ah, b64, crc, crlf, fin, _t = m
        b64 = [rand_b64(rng, rng.choice((24, 32, 48, 64, 76))) for _ in range(rng.choice((1, 1, 2, 3)))]
        kind = rng.randrange(4)
        if kind == 0:
            crc = crc[:3]
        elif kind == 1:
            crc = crc + 'A'
        elif kind == 2:
            b64[-1] = b64[-1] + rng.choice((' ', '\t', ' x'))
        else:
            crc = crc[:2] + ' ' + crc[2:]
        return mk(form, hashes, body, ah, b64, crc, crlf, fin)[8]
    t = m[8]
    k = rng.random()
    lines = t.split('\n')
    if k < 0.15:   # damage the crc / base64
        i = rng.randrange(len(lines))
        lines[i] = lines[i].replace('=', '!', 1) if '=' in lines[i] else lines[i] + '!'
    elif k < 0.3:  # drop a line
        del lines[rng.randrange(len(lines))]
    elif k < 0.4:  # duplicate a block line
        i = rng.randrange(len(lines))
        lines.insert(i, lines[i])
    elif k < 0.5:  # nested: a whole message inside the body
        inner = wellformed(rng)[8].split('\n')
        i = rng.randrange(1, max(2, len(lines) - 3))
        lines[i:i] = inner
    elif k < 0.6:  # garbage around
        lines = [rng.choice(('', ' ', 'junk', '\t'))] * rng.choice((0, 1, 2)) + lines + [rng.choice(('', 'trailing', ' '))] * rng.choice((0, 1, 2))
    elif k < 0.7:  # mixed terminators
        lines = [l + ('\r' if rng.random() < 0.3 else '') for l in lines]
    elif k < 0.8:  # no signed part: armor only
        i = [j for j, l in enumerate(lines) if l.startswith('-----BEGIN PGP SIGNATURE')]
        if i:
            lines = [lines[0]] + lines[i[0]:]
    elif k < 0.9:  # header block variants (K6 family)
        lines[1:1] = rng.choice((['', 'x'], ['Hash: SHA1', 'Hash: SHA256', ''], ['Hash: SHA256, SHA1', ''], ['NotDashEscaped: yes', '']))
    else:
        lines[-1] = lines[-1] + rng.choice(('x', ' ', '-----'))
    return '\n'.join(lines)


def arbitrary(rng):
    pieces = ['-----BEGIN PGP SIGNED MESSAGE-----', '-----END PGP SIGNATURE-----', '-----BEGIN PGP SIGNATURE-----', 'Hash: SHA1', '', 'abcd', '=abcd', 'a: b', ' ', '-----', 'x']
    return rng.choice(('\n', '\r\n')).join(rng.choice(pieces) for _ in range(rng.randint(0, 10)))


OBS_TIMEOUT = 10.0


class Worker(object):
    """remove_signature runs in a child process so that a run-away regular-expression match can be
    killed: the observation is then the pseudo-exception Timeout (a violation of the time clause)"""

    def __init__(self):
        self.p = None
        self.timeouts = 0
        self.stopped = False

    def start(self):
        src = os.path.join(os.environ.get('VERIF_REPO', '/repo'), 'src')
        self.p = subprocess.Popen([sys.executable, os.path.join(os.path.dirname(os.path.dirname(os.path.abspath(__file__))), 'c16_worker.py'), src],
                                  stdin=subprocess.PIPE, stdout=subprocess.PIPE)

    def ask(self, text):
        import select
        if self.p is None or self.p.poll() is not None:
            self.start()
        self.p.stdin.write((text.encode('utf-8').hex() + '\n').encode('ascii'))
        self.p.stdin.flush()
        # after three run-away matches the time clause is already violated: wait less for the rest
        r, _, _ = select.select([self.p.stdout], [], [], OBS_TIMEOUT if self.timeouts < 3 else 1.5)
        if not r:
            self.timeouts += 1
            if self.timeouts > 12 and not self.stopped:
                self.stopped = True
                self.p.kill()
                self.p.wait()
                self.p = None
                raise StopStreams('remove_signature did not return within the time limit on %d inputs' % self.timeouts)
            self.p.kill()
            self.p.wait()
            self.p = None
            return Exc('Timeout')
        line = self.p.stdout.readline().decode('ascii').strip()
        if line == 'N':
            return None
        if line.startswith('S'):
            return bytes.fromhex(line[1:]).decode('utf-8')
        return Exc(line[1:] or 'WorkerDied')


WORKER = Worker()


def observe(op, inp):
    text = inp[8] if op == 'C16w' else inp
    return WORKER.ask(text)


def nontrivial(op, inp, obs):
    text = inp[8] if op == 'C16w' else inp
    return bool(unsign.is_signed(text))


def histogram(op, inp, obs):
    text = inp[8] if op == 'C16w' else inp
    if isinstance(obs, str):
        yield op + (':identity' if obs == text else ':extracted')
    else:
        yield op + ':' + ('None' if obs is None else obs.name)


def valid_input(op, inp):
    if op == 'C16w':
        try:
            return inp == normalize(op, inp) and inp[0] in (0, 1, 2, 3, 4) and (inp[1] is not None or inp[0] in (0, 2))
        except Exception:
            return False
    return isinstance(inp, str)


ASK = None


def known_match(entry, op, inp, obs):
    if entry['id'] == 'K6' and op == 'C16w':
        # the failure is entirely "the header block was returned as part of the body"
        form, hashes, body, ah, b64, crc, crlf, fin, text = inp
        if form not in (2, 3, 4) or not isinstance(obs, str):
            return False
        nl = '\r\n' if crlf else '\n'
        hdr = {2: [''], 3: ['Hash: %s' % hashes, 'Hash: %s' % hashes, ''], 4: ['Hash: %s, %s' % (hashes, hashes), '']}[form]
        return obs == nl.join(hdr + body) + ('\r' if crlf else '')
    return False


TIMING_SCRIPT = r'''
import sys, time
sys.path.insert(0, sys.argv[1])
from debian_inspector import unsign
t = bytes.fromhex(sys.stdin.read().strip()).decode('utf-8')
t0 = time.perf_counter(); unsign.remove_signature(t); print(time.perf_counter() - t0)
'''


def timing_msg(fam, n):
    """the message of size n of an adversarial family (the replay of a timing failure is this text)"""
    def msg(n, nl, hdrs=0, damage='sig', armor=None):
        body = nl.join('line %d: x' % i for i in range(n if armor is None else 3))
        sig = ['-----BEGIN PGP SIGNATURE-----'] + ['a: b: c'] * hdrs + ['', 'iQEzBAEBCAAdFiEE', '=abcd', '-----END PGP SIGNATURE-----']
        if armor is not None:
            sig[-3:-2] = [('iQEzBAEBCAAdFiEE' * 5)[:min(armor, 76)]] * max(1, armor // 76)
        if damage == 'crc3':
            sig[-2] = '=abc'
        if damage == 'sig':
            sig[-2] = '=abc!'
        if damage == 'body':
            sig[-3] = 'iQEz!AEB'
        return '-----BEGIN PGP SIGNED MESSAGE-----' + nl + 'Hash: SHA256' + nl + nl + body + nl + nl.join(sig)
    return {'crlf-damaged-signature': lambda: msg(n, '\r\n'), 'lf-many-multicolon-headers-damaged-body': lambda: msg(n, '\n', hdrs=n, damage='body'),
            'lf-damaged-signature': lambda: msg(n, '\n'), 'crlf-wellformed': lambda: msg(n, '\r\n', damage='no'),
            'lf-long-armor-short-crc': lambda: msg(n, '\n', damage='crc3', armor=n),
            'crlf-long-armor-short-crc': lambda: msg(n, '\r\n', damage='crc3', armor=n)}[fam]()


def extra(tier, rng):
    """measured, not proved: running time grows polynomially (here: at most ~ x6 per doubling) on adversarial families"""
    src = os.path.join(os.environ.get('VERIF_REPO', '/repo'), 'src')
    fams = ['crlf-damaged-signature', 'lf-many-multicolon-headers-damaged-body', 'lf-damaged-signature', 'crlf-wellformed',
            'lf-long-armor-short-crc', 'crlf-long-armor-short-crc']
    sizes = (16, 32, 250, 500) if tier == 'quick' else (16, 32, 250, 500, 1000, 2000)
    times = {}
    fails = []
    for fam in fams:
        prev = None
        for n in sizes:
            try:
                text = timing_msg(fam, n)
                p = subprocess.run([sys.executable, '-c', TIMING_SCRIPT, src], input=text.encode('utf-8').hex().encode('ascii'),
                                   stdout=subprocess.PIPE, stderr=subprocess.PIPE, timeout=20)
                t = float(p.stdout.decode().strip() or 'nan')
            except subprocess.TimeoutExpired:
                t = None
            times['%s@%d' % (fam, n)] = t
            if t is None:
                fails.append({'op': 'C16', 'input': timing_msg(fam, n), 'what': 'remove_signature did not finish in 20 s on family %s with %d body lines' % (fam, n)})
                break
            if prev is not None and t > 0.05 and prev[0] * 2 == n and t / max(prev[1], 1e-6) > 6:
                fails.append({'op': 'C16', 'input': timing_msg(fam, n), 'what': 'time grows by more than x6 per doubling on family %s: %.3fs -> %.3fs' % (fam, prev[1], t)})
            prev = (n, t)
    return {'timing_seconds': times, 'timing_note': 'measured, not proved'}, fails


def streams(tier, rng):
    n = 4000 if tier == 'quick' else 60000
    yield {'name': 'well-formed-messages', 'op': 'C16w', 'cases': (wellformed(rng) for _ in range(n))}
    yield {'name': 'well-formed-as-text', 'op': 'C16', 'cases': (wellformed(rng)[8] for _ in range(n // 2))}
    yield {'name': 'damaged-envelopes', 'op': 'C16', 'cases': (damaged(rng) for _ in range(n * 2))}
    yield {'name': 'arbitrary-texts', 'op': 'C16', 'cases': (arbitrary(rng) for _ in range(n))}
