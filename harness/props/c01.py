"""C01 - Version ordering is exactly dpkg's ordering."""
import itertools
import os
import subprocess
import genlib
from protocol import Exc
from debian_inspector import version as V

ID = 'C01'
LEVEL = 'proof'
THEOREMS = [
    ('DebInspector.Thm.C01', ['Props.C01.sound', 'Props.C01.soundS', 'Props.C01.soundC', 'Props.C01.compareVersions_eq_dpkg',
                              'Props.C01.compareVersions_eq_dpkgC', 'Props.C01.verrevcmp_eq_declarative',
                              'Props.C01.compareStrings_eq_dpkg', 'Props.C01.empty_eq_zero']),
    ('DebInspector.Tie.VersionTables', ['Tie.VersionTables.rank_iso', 'Tie.VersionTables.tableOK',
                                        'Tie.VersionTables.table_keys', 'Tie.VersionTables.cmpStr_iso']),
]
TRUSTED = [
    'Lean 4.33.0 kernel',
    'Spec.Dpkg (a functional transliteration of lib/dpkg/version.c: order, verrevcmp, dpkg_version_compare, and the epoch / last-hyphen split of parseversion) '
    'as the statement of "dpkg order"; proved equal, for all strings, to the declarative order Spec.VerOrder.cmpVer (alternating runs, tilde < end < letters < others, '
    'digit runs by value); the transliteration itself is validated against /usr/bin/dpkg --compare-versions when present (support, not proof)',
    'hand model of compare_strings / compare_version_objects / from_string, tied by correspondence',
    'characters_order regenerated from the source each run (Generated/VersionTables.lean); str.isdigit table from the interpreter',
    'translator harness/translate.py and this correspondence harness',
]
ASSUMPTIONS = ['inputs are str objects; property quantifies over pairs of valid version strings']
RULE = ('cascade: order-equal-but-different upstreams/epochs x all revision pairs of a small set; C01s: every ordered pair of component strings of length <= L over {0 1 9 a Z ~ + - .} through compare_strings; '
        'C01: 57x57 single-symbol sweep in a valid context, near-pairs of grammar versions (one edit, numerically equal '
        'rewrites, epoch/revision changes); C01c: same pairs against the C transliteration. '
        'non-trivial = both sides accepted and textually different')
TECHNIQUE = ('Lean 4 theorem: model of compare_versions = declarative dpkg order for all accepted pairs (induction over the loop, '
             'table tie by decide over 57x57) + exhaustive small-scope and random correspondence + dpkg binary oracle')
LEVEL_TEXT = ('Props.C01.soundC / compareVersions_eq_dpkgC: for every pair of accepted strings of any length, digit-run size and '
              'number of leading zeros the model of compare_versions returns the sign of the transliterated C dpkg_version_compare on the parseversion decompositions; '
              'proved in Lean 4 in two steps, both by induction over the comparison loops: model = declarative order (epoch, upstream, revision; alternating '
              'runs; tilde < end < letters < others; digit runs by value; missing revision = 0) and transliterated verrevcmp = declarative order '
              '(verrevcmp_eq_declarative: skip zeros / longer run wins / first difference is numeric comparison). The rank table is regenerated from characters_order on every run and '
              'Tie.VersionTables.rank_iso re-proves by decide that it is order-isomorphic to dpkg order() on all 57x57 symbol pairs. '
              'The control flow is tied to the code by exhaustive correspondence on all component pairs of length <= 2/3 over a '
              '9-symbol alphabet and random near-pairs; holdsOn is evaluated on every implementation observation.')
LEVEL_NOTE = ('Trusted: Lean kernel; axioms propext, Classical.choice, Quot.sound only; that Spec.Dpkg is a faithful transliteration of '
              "dpkg's C source (read against lib/dpkg/version.c; validated against the dpkg binary).")

SYMS = '~ABCDEFGHIJKLMNOPQRSTUVWXYZabcdefghijklmnopqrstuvwxyz+-.'
COMP_ALPHABET = '019aZ~+-.'


def observe(op, pair):
    a, b = pair
    try:
        if op == 'C01s':
            r = V.compare_strings(a, b)
            # the sort key built on it orders the two components the same way
            ka, kb = V.compare_strings_key(a), V.compare_strings_key(b)
            if [ka < kb, ka == kb, ka > kb] != [r < 0, r == 0, r > 0]:
                return Exc('KeyDisagrees')
            return r
        r = V.compare_versions(a, b)
        # the other two entry points of the same comparison: the method and the sort key
        va, vb = V.Version.from_string(a), V.Version.from_string(b)
        ka, kb = V.compare_versions_key(a), V.compare_versions_key(b)
        if va.compare(vb) != r or V.compare_versions(va, vb) != r or [ka < kb, ka == kb, ka > kb] != [r < 0, r == 0, r > 0]:
            return Exc('EntryPointsDisagree')
        return r
    except Exception as e:
        return Exc(type(e).__name__)


def nontrivial(op, pair, obs):
    return isinstance(obs, int) and pair[0] != pair[1]


def histogram(op, pair, obs):
    yield '%s:%s' % (op, obs if isinstance(obs, int) else obs.name)


def valid_input(op, pair):
    return isinstance(pair, list) and len(pair) == 2 and all(isinstance(x, str) for x in pair)


def known_match(entry, op, pair, obs):
    return False


def comp_pairs(L):
    strs = list(genlib.strings_upto(COMP_ALPHABET, L))
    for a in strs:
        for b in strs:
            yield [a, b]


def sweep():
    syms = [''] + list(SYMS)
    for x in syms:
        for y in syms:
            yield ['1' + x + '1-1', '1' + y + '1-1']
            yield ['1-1' + (x if x != '-' else '') + '1', '1-1' + (y if y != '-' else '') + '1']


def near_pairs(rng, n):
    for _ in range(n):
        a = genlib.rand_version(rng)
        r = rng.random()
        if r < 0.75:
            b = genlib.mutate_version(rng, a)
            while rng.random() < 0.4:      # several edits: a tie in one part combined with a difference in another
                b = genlib.mutate_version(rng, b)
        else:
            b = genlib.rand_version(rng)
        if rng.random() < 0.5:
            a, b = b, a
        yield [a, b]


def zero_variants(u):
    """spellings of u that differ only by leading zeros of digit runs (order-equal by construction)"""
    out = [u]
    idx = [i for i, c in enumerate(u) if c.isdigit() and (i == 0 or not u[i - 1].isdigit())]
    for i in idx:
        out.append(u[:i] + '0' + u[i:])
    if len(idx) > 1:
        v = u
        for i in reversed(idx):
            v = v[:i] + '00' + v[i:]
        out.append(v)
    return out


def cascade(tier):
    """the epoch / upstream / revision cascade around ties: upstreams (resp. epochs) that are order-equal but
    textually different, combined with every pair of revisions from a small set (and the other way round)"""
    tails = ['', '.1', '.10', 'a', '~', '~1', '.0a', '+', '-1', '-1.2', '.01~'] if tier != 'quick' else ['', '.1', 'a', '~1', '.0a', '-1']
    heads = ['1', '0', '12'] if tier != 'quick' else ['1', '0']
    revs = [None, '0', '00', '1', '01', 'a', '~', '1~', '2', '1.0', '1.00']
    epochs = [('', ''), ('', '0:'), ('0:', '00:'), ('1:', '01:'), ('', '1:'), ('1:', '2:')]
    for h in heads:
        for t in tails:
            u = h + t
            for u2 in zero_variants(u):
                for r1 in revs:
                    for r2 in revs:
                        if '-' in u and (r1 is None or r2 is None):
                            continue
                        for e1, e2 in epochs:
                            a = e1 + u + ('' if r1 is None else '-' + r1)
                            b = e2 + u2 + ('' if r2 is None else '-' + r2)
                            yield [a, b]
                            yield [b, a]


def long_pairs(rng, tier):
    """sizes no ordinary test reaches: digit runs of thousands of digits (compared by value, not converted), and
    versions that tie on more than a thousand run pairs before they differ or end"""
    out = []
    for nd in (4299, 4300, 4301, 5000) + ((9000, 20000) if tier != 'quick' else ()):
        big = ''.join(rng.choice('0123456789') for _ in range(nd - 1))
        for lead in ('9', '1'):
            x = lead + big
            y = x[:-1] + ('8' if x[-1] != '8' else '7')
            out += [['1.' + x, '1.' + y], ['1.' + x, '1.' + x], ['1.' + x, '1.0' + x], ['2-' + x, '2-' + y], [x + ':1', y + ':1'],
                    ['1.' + x + 'a', '1.' + x + '~'], ['1.' + x[1:], '1.' + x]]
    for nc in (400, 990, 1100, 1500) + ((3000,) if tier != 'quick' else ()):
        for comp in ('.1', 'a1', '.0', '+12'):
            x = '1' + comp * nc
            out += [[x, x], [x, x + comp], [x, '1' + comp * (nc - 1) + comp[0] + '2'], [x + '~', x], ['1-' + x, '1-' + x + 'a'],
                    [x + '-1', x + '-2']]
    return out + [[b, a] for a, b in out]


def streams(tier, rng):
    yield {'name': 'long-runs-and-many-components', 'op': 'C01', 'cases': long_pairs(rng, tier)}
    L = 2 if tier == 'quick' else 3
    yield {'name': 'cascade-around-ties', 'op': 'C01', 'cases': cascade(tier), 'exhaustive': True}
    yield {'name': 'components-exhaustive-len<=%d' % L, 'op': 'C01s', 'cases': comp_pairs(L), 'exhaustive': True}
    yield {'name': 'symbol-sweep-57x57', 'op': 'C01', 'cases': sweep(), 'exhaustive': True}
    n = 20000 if tier == 'quick' else 300000
    pairs = list(near_pairs(rng, n))
    yield {'name': 'near-pairs', 'op': 'C01', 'cases': pairs}
    yield {'name': 'near-pairs-vs-C-transliteration', 'op': 'C01c', 'cases': pairs[: n // 2]}
    yield {'name': 'sweep-vs-C-transliteration', 'op': 'C01c', 'cases': sweep()}


def extra(tier, rng):
    """support: the implementation against the real dpkg binary. Returns (info, failures)."""
    dpkg = '/usr/bin/dpkg'
    if not os.path.exists(dpkg):
        return {'dpkg_oracle': 'skipped: /usr/bin/dpkg not present'}, []
    n = 300 if tier == 'quick' else 10000
    fails = []
    done = 0
    for a, b in itertools.islice(near_pairs(rng, n * 2), n):
        try:
            r = V.compare_versions(a, b)
        except ValueError:
            continue
        op = {-1: 'lt', 0: 'eq', 1: 'gt'}[r]
        p = subprocess.run([dpkg, '--compare-versions', a, op, b], stdout=subprocess.PIPE, stderr=subprocess.PIPE)
        done += 1
        if p.returncode != 0 and not p.stderr:
            fails.append({'op': 'C01', 'input': [a, b], 'what': 'dpkg --compare-versions disagrees: implementation says %s' % op})
    return {'dpkg_oracle': 'compared %d pairs against %s --compare-versions' % (done, dpkg)}, fails
