"""C18 - Contents index: the two returned mappings are complete and mutually inverse."""
import gzip
import os
from protocol import Exc
import probe
from debian_inspector import contents

ID = 'C18'
LEVEL = 'proof'
THEOREMS = [('DebInspector.Thm.C18', ['Props.C18.sound', 'Props.C18.inverse_complete', 'Props.C18.splitLine_row', 'Props.C18.names_row',
                                      'Props.C18.header_isHeaderRow', 'Props.C18.pairs_appendTo', 'Props.C18.addRow_pairs'])]
TRUSTED = [
    'Lean 4.33.0 kernel',
    'reading of the property as Props.C18.holdsOn (expected mappings built from the table; header clauses)',
    'hand model of the per-line body of parse_contents as a fold over the lines, tied by correspondence on real files',
    'file reading (text mode, utf-8 locale, universal newlines), gzip and line iteration are exercised on real temporary files, not modelled',
    'translator harness/translate.py and this correspondence harness',
]
ASSUMPTIONS = ['tables contain no carriage returns; the process locale decodes UTF-8 text files']
RULE = ('tables of 0-40 rows, paths with embedded spaces and non-ASCII, 1-5 qualified package names per row with 0-2 qualifiers, duplicate paths, '
        'any column padding; with / without narrative and FILE LOCATION row x has_header True/False; each table is written to a real file, plain and gzip. '
        'non-trivial = at least two rows')
TECHNIQUE = ('Lean 4 theorem Props.C18.sound: for every table of the grammar the model of parse_contents returns exactly the expected mappings and the header clauses hold; '
             'inverse_complete: the two mappings are permutations of the same pair list + the same executable specification on observations from real plain and gzip files + correspondence')
LEVEL_TEXT = ('Props.C18.sound: for every table of the grammar - any number of rows, paths with embedded spaces (no leading/trailing white space, no line break), one to many qualified package names with zero to two qualifiers, '
              'any column padding, with or without header narrative - the model of parse_contents (from the lines of the file on) returns exactly the expected mappings: each row splits at its last space into its path and '
              'the comma-separated names, qualifiers stripped at the last slash (splitLine_row, names_row), free text before a declared FILE/LOCATION row is ignored, a declared header that is missing or an undeclared header that is present '
              'raises (header_isHeaderRow). Props.C18.inverse_complete: for every list of parsed rows the two mappings hold exactly the same (path, package) pairs with multiplicity (mutually inverse and complete). '
              'Proved in Lean 4 by induction over rows and characters. Reading the file (plain or gzip, decoding, line iteration) is outside the model: the gzip = plain clause and the tie of the model to the code are decided on real files by correspondence.')
LEVEL_NOTE = ('Trusted: Lean kernel; axioms propext, Classical.choice, Quot.sound only; I/O, gzip and codecs are exercised, not modelled.')

WORK = os.path.join(os.path.dirname(os.path.dirname(os.path.dirname(os.path.abspath(__file__)))), 'work')
PATHS = ['usr/bin/foo', 'usr/share/doc/a b/c', 'etc/x.conf', 'usr/lib/libé.so', 'a', 'usr/bin/foo', 'opt/with  two', 'FILE', 'x/LOCATION y', 'tab\tin',
         './usr/bin/x', '.disk/info', '..data/link', '/etc/absolute path', '.', './', '/', 'usr/./x/', 'usr/share/notes/copied\u2028from web.txt', 'ff\x0cin path', 'nel\x85x', 'vt\x0bx', 'fs\x1cx', 'nb\xa0sp y', 'ideo\u3000graphic']
PKGS = ['foo', 'libc6', 'python3-x', 'g++', 'x.y']
QUALS = [[], [], ['utils'], ['net'], ['main', 'net'], ['non-free', 'x11']]


def render(narr, header, rows):
    lines = list(narr)
    if header is not None:
        lines.append(header)
    for path, pkgs, pad in rows:
        lines.append(path + pad + ','.join('/'.join(q + [n]) for q, n in pkgs))
    return '\n'.join(lines) + '\n' if lines else ''


def case(rng):
    rows = []
    for _ in range(rng.choice((0, 1, 2, 3, 5, 8, 15, 40, 40, 120, 400))):
        pkgs = [[list(rng.choice(QUALS)), rng.choice(PKGS)] for _ in range(rng.choice((1, 1, 2, 3, 5)))]
        rows.append([rng.choice(PATHS), pkgs, ' ' * rng.choice((1, 1, 2, 8, 40))])
    r = rng.random()
    has_header = rng.random() < 0.5
    header = None
    narr = []
    if r < 0.5:
        header = rng.choice(('FILE  LOCATION', 'FILE LOCATION', 'FILE' + ' ' * 50 + 'LOCATION', '  FILE   LOCATION  '))
        if has_header and rng.random() < 0.7:
            narr = [rng.choice(('This file maps each file available in the Debian system to', 'the package from which it originates.', '', 'a b', 'FILE', 'x  y,z'))
                    for _ in range(rng.choice((1, 2, 4, 4, 30, 99, 100, 101, 150, 300)))]
    return [narr, header, rows, has_header, render(narr, header, rows)]


def dicts(res):
    a, b = res
    return [[[k, list(v)] for k, v in a.items()], [[k, list(v)] for k, v in b.items()]]


def observe(op, inp):
    narr, header, rows, has_header, text = inp
    os.makedirs(WORK, exist_ok=True)
    base = os.path.join(WORK, 'contents-%d' % os.getpid())
    out = []
    try:
        with open(base, 'w', encoding='utf-8', newline='') as f:
            f.write(text)
        with gzip.open(base + '.gz', 'wb') as f:
            f.write(text.encode('utf-8'))
        for loc in (base, base + '.gz'):
            try:
                out.append(probe.twice(lambda: contents.parse_contents(loc, has_header=has_header), dicts,
                                       lambda r: [(m.clear(), m.__setitem__('zz-scrambled', ['zz'])) for m in r]))
            except Exception as e:
                out.append(Exc(type(e).__name__))
    finally:
        for loc in (base, base + '.gz'):
            try:
                os.remove(loc)
            except OSError:
                pass
    return out


def nontrivial(op, inp, obs):
    return len(inp[2]) >= 2


def histogram(op, inp, obs):
    yield 'header=%s,has_header=%s' % (inp[1] is not None, inp[3])
    yield 'plain:' + ('ok' if isinstance(obs[0], list) else obs[0].name)


def valid_input(op, inp):
    try:
        narr, header, rows, has_header, text = inp
        return text == render(narr, header, rows) and isinstance(has_header, bool)
    except Exception:
        return False


def known_match(entry, op, inp, obs):
    return False


BAD_BYTES = [b'\xe9', b'\xff', b'\x80', b'\xc0\x80', b'\xed\xa0\x80', b'\xe2\x82', b'\xf0\x9f\x98', b'\xfe\xff', b'caf\xe9']


def extra(tier, rng):
    """support: the clause "a gzip-compressed file gives the same result as the same file uncompressed" on files as bytes,
    including bytes that are not UTF-8 (a Latin-1 name in a path). Both readings reject, or both return the same mappings."""
    os.makedirs(WORK, exist_ok=True)
    base = os.path.join(WORK, 'contents-b-%d' % os.getpid())
    fails = []
    done = bad = 0
    try:
        for i in range(150 if tier == 'quick' else 3000):
            narr, header, rows, has_header, text = case(rng)
            data = text.encode('utf-8')
            if i % 4 != 3 and data:
                # damage: a byte sequence that is not UTF-8, somewhere (mostly inside a line, sometimes at a line or file end)
                for _ in range(rng.choice((1, 1, 2))):
                    k = rng.choice((rng.randrange(len(data) + 1), len(data), max(0, len(data) - 1)))
                    data = data[:k] + rng.choice(BAD_BYTES) + data[k:]
                bad += 1
            with open(base, 'wb') as f:
                f.write(data)
            with gzip.open(base + '.gz', 'wb') as f:
                f.write(data)
            out = []
            for loc in (base, base + '.gz'):
                try:
                    out.append(probe.twice(lambda: contents.parse_contents(loc, has_header=has_header), dicts,
                                       lambda r: [(m.clear(), m.__setitem__('zz-scrambled', ['zz'])) for m in r]))
                except Exception as e:
                    out.append(Exc(type(e).__name__))
            done += 1
            both_raise = isinstance(out[0], Exc) and isinstance(out[1], Exc)
            if not both_raise and out[0] != out[1]:
                fails.append({'op': 'C18', 'input': [narr, header, rows, has_header, text],
                              'what': 'the file as bytes %r: plain reading gives %s, gzip reading gives %s'
                                      % (data[:300], repr(out[0])[:200], repr(out[1])[:200])})
    finally:
        for loc in (base, base + '.gz'):
            try:
                os.remove(loc)
            except OSError:
                pass
    return {'gzip_vs_plain_on_bytes': 'compared %d files written as bytes (%d with sequences that are not UTF-8)' % (done, bad)}, fails


def streams(tier, rng):
    n = 1500 if tier == 'quick' else 20000
    yield {'name': 'tables-through-real-files', 'op': 'C18', 'cases': (case(rng) for _ in range(n))}


def normalize(op, inp):
    """recompute the rendered text of a (shrunk) table"""
    narr, header, rows, has_header, _text = inp
    return [narr, header, rows, has_header, render(narr, header, rows)]
