"""C19 - Control paragraph is a case-insensitive mapping; typed fields are faithful."""
import io
import itertools
from protocol import Exc
from debian_inspector import debcon, deps
import props.c14 as c14

ID = 'C19'
LEVEL = 'proof'
THEOREMS = [('DebInspector.Thm.C19', ['Props.C19.refines_dict', 'Props.C19.conventional_idem_table', 'Props.C19.depsFields_eq_policy',
                                      'Props.C19.specialCases_eq', 'Props.C19.normalize_eq_conventional', 'Props.C19.sound', 'Props.C19.soundT',
                                      'Props.C19.conventional_idem', 'Props.C19.conventional_lower', 'Props.C19.conventional_upper', 'Props.C19.parseControlItems_ok']),
            ('DebInspector.Thm.C19M', ['Props.C19M.soundM', 'Props.C19M.first_addr', 'Props.C19M.first_addr_local', 'Props.C19M.first_addr_of', 'Props.C19M.maintainer_of', 'Props.C19M.addrspec_full', 'Props.C19M.addrspec_local', 'Props.C19M.phrase_words', 'Props.C19M.local_loop',
                                       'Props.C19M.domain_run', 'Props.C19M.wf_parts']),
            ('DebInspector.Thm.C19R', ['Props.C19R.soundR', 'Props.C19R.dumps_eq', 'Props.C19R.field_facts', 'Props.C19R.lowerAscii_conventional',
                                       'Props.C19R.construct_distinct', 'Props.C19R.not_signed'])]
TRUSTED = [
    'Lean 4.33.0 kernel',
    'reading of the property as Props.C19.holdsOn / holdsOnT / holdsOnM (plain insertion-ordered dict keyed by lower-cased names; policy field list; conventional capitalisation)',
    'hand model of Debian822 / normalize_control_field_name / parse_control_fields, tied by correspondence; DEPS_FIELDS and special_cases regenerated from the source each run',
    'str.lower / capitalize are ASCII in the model (field names are ASCII by policy); email.utils.parseaddr (standard library, not part of /repo) is modelled by hand in Model/Addr.lean for the first address of a header (phrases, comments, quoted strings, routes, domain literals; address groups are outside the model) and tied to CPython by an adversarial correspondence stream - modelled, not verified',
    'the text / file-object construction routes are modelled (Route.text / Route.file: the paragraph data of the text after signature removal, through the models of C08 and C16) and tied by correspondence on histories; they are also compared with get_paragraph_data on the implementation',
    'translator harness/translate.py and this correspondence harness',
]
ASSUMPTIONS = ['keys are ASCII strings', 'maintainer: single-spaced atoms-and-dots name; address a dot-atom, with or without @ and a dot-atom domain']
RULE = ('histories of <= 12 operations over 3 keys x 4 casings (all histories of <= 3 operations exhaustively) from every construction route; '
        'control paragraphs mixing relationship fields, Installed-Size and others in any ASCII case; maintainer names/addresses inside and outside the grammar; paragraphs as (name, value) pairs rendered and read back, about a third with one injected defect. '
        'non-trivial = the history uses two casings of one key')
TECHNIQUE = ('Lean 4 theorems: refinement of the mapping to a plain dict for an arbitrary lower function; typed fields of every paragraph with distinct names (soundT); DEPS_FIELDS = policy list and '
             'normalisation tables by decide; render/read-back proved through the C06 header-parser theorem (soundR); maintainer split proved through a model of email.utils.parseaddr (soundM) + executable spec on every observation + correspondence on operation histories and on adversarial maintainer strings')
LEVEL_TEXT = ('Props.C19.refines_dict: for every construction route (mapping, pairs, "Name: value" strings, nothing, a text, a file object), every finite history of set/get/del/in/len/iter/to_dict and every lower function, '
              'the model of Debian822 returns exactly what a plain insertion-ordered dictionary driven by the same history with lower-cased keys returns '
              '(Lean 4, induction over the history). Tie theorems by decide over the regenerated tables: DEPS_FIELDS equals the policy relationship-field '
              'list, special_cases equals {md5sum, sha1, sha256}, and the model of normalize_control_field_name equals the conventional capitalisation. '
              'Props.C19.soundT: for every control paragraph whose normalised names are distinct, whenever the model of parse_control_fields returns it returns one entry per field, in order, under the conventional capitalisation of its name - '
              'idempotent and independent of the case of the input for every name, not only the policy names (conventional_idem, conventional_lower, conventional_upper: by the ASCII case-map table and induction over the hyphen-separated words) - '
              'holding the parsed relationship for the policy relationship fields, the integer for Installed-Size and the raw string for every other field (parseControlItems_ok). '
              'Props.C19M.soundM: for every name of single-spaced words of atom characters and dots and every address that is a dot-atom or two dot-atoms around one @, the model of MaintainerField.from_value("name <address>") - strip, the model of email.utils.parseaddr '
              '(phrase list, route address, addr-spec loop, domain), then dumps() - returns exactly that name, that address and the unchanged text (first_addr: the address parser returns (name, address) on that grammar, by induction over the words, the local atoms and the domain atoms). '
              'The model of parseaddr is tied to CPython by correspondence on adversarial strings over the parser\'s special characters (comments, quotes, routes, domain literals, stray @ and dots); address groups are outside the model. '
              'Props.C19R.soundR: for every paragraph of uniquely named fields (policy-legal names - printable ASCII without colon or space, not starting with # or - - in any case; values without carriage returns, trimmed, later lines indented) the model of '
              'Debian822(Debian822(pairs).dumps()).to_dict() - the mapping built from the pairs, its rendering under the conventional capitalisation, signature removal, the model of the header parser - is the paragraph itself under '
              'lower-cased names: the rendering is a one-paragraph document of the C06 grammar (dumps_eq, field_facts), the conventional capitalisation of a name lower-cases back to it (lowerAscii_conventional), the text is not taken for a '
              'signed message (not_signed), and the header-parser theorem of C06 (getParagraphData_para) does the rest. '
              'For a text or a file object the dictionary the history starts from is the paragraph data of the text (what its keys and values are is C08).')
LEVEL_NOTE = ('Trusted: Lean kernel; axioms propext, Classical.choice, Quot.sound only; ASCII restriction of lower/capitalize; email.utils.parseaddr is standard-library code modelled by hand (Model/Addr.lean) and tied by correspondence, groups outside the model.')

KEYS = ['depends', 'Depends', 'DEPENDS', 'dePends', 'x-y', 'X-Y', 'X-y', 'md5SUM', 'MD5sum', 'a', 'A']
VALUES = ['1', 'two', '', 'a: b']


def route(rng):
    k = rng.random()
    n = rng.choice((0, 1, 2, 3, 4))
    items = [[rng.choice(KEYS), rng.choice(VALUES)] for _ in range(n)]
    if k < 0.3:
        return ['m', items]
    if k < 0.6:
        return ['p', items]
    if k < 0.8:
        return ['s', [rng.choice((kv[0] + ': ' + kv[1], kv[0] + ':' + kv[1], kv[0], kv[0] + ': ' + kv[1] + ': x')) for kv in items]]
    if k < 0.95:
        # a text or a file object: mostly a paragraph spelling the items (any case, repeated names, continuation lines),
        # sometimes an arbitrary deb822-looking text
        if rng.random() < 0.7:
            text = ''.join('%s:%s%s\n' % (kv[0], rng.choice((' ', '', '  ')), kv[1].replace('\n', '\n ')) for kv in items)
            if rng.random() < 0.2:
                text += rng.choice(('\n', ' cont\n', 'junk\n', '\nBody: x\n'))
        else:
            import gen822
            text = gen822.random_text(rng, 5)
        return [rng.choice('tf'), text]
    return ['e']


def op(rng):
    k = rng.random()
    key = rng.choice(KEYS)
    if k < 0.3:
        return ['s', key, rng.choice(VALUES)]
    if k < 0.45:
        return ['g', key]
    if k < 0.65:
        return ['d', key]
    if k < 0.75:
        return ['c', key]
    if k < 0.82:
        return ['l']
    if k < 0.9:
        return ['i']
    return ['t']


def build(r):
    if r[0] == 'm':
        d = {}
        for k, v in r[1]:
            d[k] = v
        return debcon.Debian822(d)
    if r[0] == 'p':
        return debcon.Debian822([tuple(x) for x in r[1]])
    if r[0] == 's':
        return debcon.Debian822(list(r[1]))
    if r[0] == 't':
        return debcon.Debian822(r[1])
    if r[0] == 'f':
        return debcon.Debian822(io.StringIO(r[1]))
    return debcon.Debian822()


def run_history(d, ops):
    out = []
    for o in ops:
        try:
            if o[0] == 's':
                d[o[1]] = o[2]
                out.append(None)
            elif o[0] == 'g':
                out.append(d[o[1]])
            elif o[0] == 'd':
                del d[o[1]]
                out.append(None)
            elif o[0] == 'c':
                out.append(o[1] in d)
            elif o[0] == 'l':
                out.append(len(d))
            elif o[0] == 'i':
                out.append(list(iter(d)))
            else:
                out.append([[k, v] for k, v in d.to_dict().items()])
        except KeyError:
            out.append(Exc('KeyError'))
    return out


def observe(opname, inp):
    if opname == 'C19':
        r, ops = inp
        try:
            d = build(r)
        except Exception as e:
            return [Exc(type(e).__name__)] * len(ops)
        out = run_history(d, ops)
        # "however it was built": the same history on a paragraph built from a mapping that is itself a
        # paragraph answers the same, and a plain dictionary is a copy: the
        # construction argument and the new object never share state
        try:
            if r[0] == 'm' and r[1]:
                plain = {}
                for k, v in r[1]:
                    plain[k] = v
                src = debcon.Debian822(dict(plain))
                before = list(src.to_dict().items())
                d2 = debcon.Debian822(src)
                if run_history(d2, ops) != out:
                    out.append(Exc('MappingRoutesDiffer'))
                if list(src.to_dict().items()) != before:
                    out.append(Exc('SourceMutated'))
                snap = list(d2.to_dict().items())
                src['zz-probe'] = '1'
                for k in list(src.to_dict()):
                    if k != 'zz-probe':
                        del src[k]
                if list(d2.to_dict().items()) != snap:
                    out.append(Exc('AliasedToSource'))
                src3 = dict(plain)
                d3 = debcon.Debian822(src3)
                run_history(d3, ops)
                if src3 != plain:
                    out.append(Exc('SourceMutated'))
        except Exception as e:
            out.append(Exc('Route' + type(e).__name__))
        return out
    if opname == 'C19t':
        d = {}
        for k, v in inp:
            d[k] = v
        try:
            res = debcon.parse_control_fields(d)
        except Exception as e:
            return Exc(type(e).__name__)
        out = []
        raws = list(d.values())
        for (name, val), raw in zip(res.items(), raws):
            if isinstance(val, deps.AbstractRelationship):
                out.append([name, ['d', c14.tree(val), c14.tree(deps.parse_depends(raw))]])
            elif isinstance(val, int) and not isinstance(val, bool):
                out.append([name, ['i', val]])
            else:
                out.append([name, ['r', val]])
        return out
    if opname == 'C19r':
        try:
            d = debcon.Debian822([(k, v) for k, v in inp])
            text = d.dumps()
            if repr(d) != text:
                return Exc('ReprDiffersFromDumps')
            back = debcon.Debian822(text).to_dict()
            if not all(isinstance(k, str) and isinstance(v, str) for k, v in back.items()):
                return Exc('NotAString')
            return [[k, v] for k, v in back.items()]
        except Exception as e:
            return Exc(type(e).__name__)
    name, addr = inp
    m = debcon.MaintainerField.from_value('%s <%s>' % (name, addr))
    if m is None:
        return None
    return [m.name, m.email_address, m.dumps()]


def wf_r(inp):
    """Python mirror of Props.C19.wfR (used only to count non-vacuous cases)"""
    import re
    if not inp:
        return False
    for k, v in inp:
        if not re.fullmatch(r'[!-9;-~]+', k) or k[0] in '-#':
            return False
        if '\r' in v or v != v.strip() or any(not l[:1] in (' ', '\t') for l in v.split('\n')[1:]):
            return False
    return len(set(k.lower() for k, _ in inp)) == len(inp)


def nontrivial(opname, inp, obs):
    if opname == 'C19r':
        return wf_r(inp)
    if opname == 'C19':
        ks = [o[1] for o in inp[1] if len(o) > 1]
        return len(set(ks)) > len(set(k.lower() for k in ks))
    return True


def histogram(opname, inp, obs):
    if opname == 'C19':
        yield 'route:' + inp[0][0]
        yield 'ops=%d' % min(len(inp[1]), 12)
    elif opname == 'C19r':
        yield 'C19r:' + ('in-class' if wf_r(inp) else 'outside')
        if wf_r(inp) and any('\n' in v for _k, v in inp):
            yield 'C19r:multi-line-value'
    else:
        yield opname


def valid_input(opname, inp):
    try:
        if opname == 'C19':
            r, ops = inp
            if r[0] in 'mp':
                assert all(len(x) == 2 and all(isinstance(y, str) for y in x) for x in r[1])
                if r[0] == 'm':
                    assert len(set(x[0] for x in r[1])) == len(r[1]) or True
            elif r[0] == 's':
                assert all(isinstance(x, str) for x in r[1])
            elif r[0] in 'tf':
                assert len(r) == 2 and isinstance(r[1], str)
            else:
                assert r == ['e']
            for o in ops:
                assert o[0] in 'sgdclit' and all(isinstance(y, str) for y in o)
                assert len(o) == {'s': 3, 'g': 2, 'd': 2, 'c': 2, 'l': 1, 'i': 1, 't': 1}[o[0]]
            return True
        if opname == 'C19r':
            return all(len(x) == 2 and all(isinstance(y, str) for y in x) and x[0].isascii() for x in inp)
        if opname == 'C19t':
            return all(len(x) == 2 and all(isinstance(y, str) for y in x) for x in inp) and len(set(x[0].lower() for x in inp)) == len(inp)
        return len(inp) == 2 and all(isinstance(y, str) for y in inp)
    except Exception:
        return False


def known_match(entry, opname, inp, obs):
    return False


def exhaustive_histories():
    small_ops = [['s', 'A', '1'], ['s', 'a', '2'], ['g', 'A'], ['d', 'a'], ['d', 'A'], ['c', 'a'], ['l'], ['i'], ['t'], ['s', 'b', '3']]
    routes = [['e'], ['m', [['A', '0']]], ['p', [['a', '0'], ['A', '9']]], ['s', ['A: 0', 'b']]]
    for r in routes:
        for n in (1, 2, 3):
            for combo in itertools.product(small_ops, repeat=n):
                yield [r, [list(o) for o in combo]]


FIELDS = ['depends', 'Pre-Depends', 'BUILD-DEPENDS-INDEP', 'built-using', 'breaks', 'installed-size', 'description',
          'MD5SUM', 'checksums-sha256', 'x-sha1-y', 'package', 'Provides', 'suggests', 'files', 'maintainer', 'build-conflicts-arch', 'depend', 'depends-x',
          'x-upstream-sha256sum', 'sha1sum', 'sha12', 'md5sums', 'xmd5sum', 'sha1-sha256', 'x-sha1x', 'checksums-sha512', 'sha256-md5sum', 'mD5sUM-x', 'sha', 'x--y', '-a', 'a-',
          'X-Build_Id', 'Installed_Size', 'Pre_Depends', 'x_y-z', 'md5sum_x', '_a', 'a_']


def control(rng):
    n = rng.choice((1, 2, 3, 5, 8))
    names = rng.sample(FIELDS, n)
    items = []
    for nm in names:
        low = nm.lower()
        if low in ('installed-size',):
            v = rng.choice(('12', ' 120 ', '1_000', '0', '+5', '007', 'x', '', '1__0', '١٢'))
        elif low.split('-')[0] in ('depends', 'pre', 'build', 'built', 'breaks', 'provides', 'suggests'):
            v = rng.choice(('a (>= 1), b | c', 'libc6', '', 'a (1.0)', 'x [amd64]', ' p ,, q '))
        else:
            v = rng.choice(('text', 'a (>= 1)', '12', ''))
        if rng.random() < 0.3:
            nm = ''.join(c.upper() if rng.random() < 0.5 else c.lower() for c in nm)
        items.append([nm, v])
    return items


ADDR_ALPHABET = ['a', 'B', '1', ' ', ' ', '.', '@', '<', '>', '(', ')', '"', ',', ';', ':', '[', ']', '\\', '\t', "'", '-', '_', '\xe9', '\n', '\r']


def maint(rng):
    names = ['John Doe', 'J. R. Hacker', 'a', 'Debian QA Group', "O'Neil", 'x_y z', 'John  Doe', 'John (c)', 'J, D', 'Jöhn', '', ' a', 'a ',
             '"Doe, John"', 'a (c) b', '(c)', 'x@y', 'a.b', 'a:b;', 'Group: a@b;', '\\"q', 'a\\(b']
    addrs = ['j@x.org', 'a.b@c.d.e', 'buildd', 'root.admin', 'lp+bugs', 'packages@qa.debian.org', 'a@b', 'a', 'a b@c', 'a@b@c', '.a@b', 'a@b.', '@r:a@b', '"q"@x', 'a@[1.2]', '', '(c)a@b', 'a@b(c)',
             'a@b>x', 'a(b(c)d)@e', '"a\\"b"@c']
    r = rng.random()
    if r < 0.5:
        return [rng.choice(names), rng.choice(addrs)]
    # adversarial: random strings over the characters the address parser looks at
    n = ''.join(rng.choice(ADDR_ALPHABET) for _ in range(rng.randint(0, 10)))
    a = ''.join(rng.choice(ADDR_ALPHABET) for _ in range(rng.randint(0, 10)))
    if r < 0.75:
        return [n, a]
    return [rng.choice(names), a] if r < 0.88 else [n, rng.choice(addrs)]


R_NAMES = ['Package', 'version', 'X-Build-Id', 'DEPENDS', 'x-foo', 'Checksums-Sha256', 'md5sum', 'X-SHA1-sum', 'Description', 'a', 'B2', 'unknown', 'From', 'Installed-Size', 'a-', 'x--y', 'Licence']
R_ODD_NAMES = ['X_Foo', 'a b', '', ':', '-a', '2a', 'a:b', 'From ', '#c', 'a\tb', 'a.b+c/d', '_', '~x', 'a#b', 'caf\xe9', '>From', 'A=B', '(c)']
R_FIRST = ['foo', '1.0-1', 'a: b', 'http://x:80/y?z', '.dot', 'From me', 'x  y', '(>= 1.0), b | c', ':', '"q"', '-', 'p\x0cq', '\xe9t\xe9', '#hash', '-----BEGIN PGP SIGNED MESSAGE-----']
R_CONTS = [' cont', '\tcont', '  two', ' .', ' a: b', ' From x', ' #', ' \xe9', '  -----END PGP SIGNATURE-----']


def rpairs(rng):
    """paragraphs as (name, value) pairs: mostly inside the class of the clause (unique names, trimmed values whose later
    lines are indented), with one defect injected in about a third"""
    n = rng.choice((1, 1, 2, 3, 5))
    names = rng.sample(R_NAMES, n)
    pairs = []
    for nm in names:
        if rng.random() < 0.4:
            nm = ''.join(c.upper() if rng.random() < 0.5 else c.lower() for c in nm)
        v = rng.choice(R_FIRST)
        for _ in range(rng.choice((0, 0, 0, 1, 2, 3))):
            v += '\n' + rng.choice(R_CONTS)
        if rng.random() < 0.08:
            v = ''
        pairs.append([nm, v])
    r = rng.random()
    if r < 0.33 and pairs:
        i = rng.randrange(len(pairs))
        k = rng.random()
        if k < 0.2:
            pairs[i][0] = rng.choice(R_ODD_NAMES)
        elif k < 0.35:
            pairs.append([pairs[i][0].swapcase(), rng.choice(R_FIRST)])
        elif k < 0.5:
            pairs[i][1] += rng.choice((' ', '\n', '\t', '\n ', '\r', '\n .\n'))
        elif k < 0.65:
            pairs[i][1] = rng.choice((' ', '\n', '\t')) + pairs[i][1]
        elif k < 0.8:
            pairs[i][1] += '\n' + rng.choice(('unindented', '', 'Name: x', ' ', '\x0cff'))
        else:
            pairs[i][1] = pairs[i][1].replace(' ', rng.choice(('\r', '\r\n', '\x0b', '\u2028')), 1)
    return pairs


def text_routes(rng, n):
    """support: the text and file-object routes give the mapping get_paragraph_data(remove_signature) gives"""
    import gen822
    fails = []
    done = 0
    for _ in range(n):
        t = gen822.random_text(rng, 6)
        try:
            a = debcon.Debian822(t).data
            b = debcon.Debian822(io.StringIO(t)).data
            expect = debcon.get_paragraph_data(t, remove_pgp_signature=True) if t else {}
            done += 1
            if list(a.items()) != list(expect.items()) or list(b.items()) != list(expect.items()):
                fails.append({'op': 'C19', 'input': [['e'], []], 'what': 'text/file route differs from get_paragraph_data on %r' % t})
        except Exception as e:
            fails.append({'op': 'C19', 'input': [['e'], []], 'what': 'text/file route raised %s on %r' % (type(e).__name__, t)})
    return done, fails


def extra(tier, rng):
    done, fails = text_routes(rng, 500 if tier == 'quick' else 10000)
    return {'text_and_file_routes': 'compared %d texts through Debian822(text) / Debian822(file) against get_paragraph_data' % done}, fails


def streams(tier, rng):
    yield {'name': 'histories-exhaustive<=3', 'op': 'C19', 'cases': exhaustive_histories(), 'exhaustive': True}
    n = 5000 if tier == 'quick' else 100000
    yield {'name': 'histories-random', 'op': 'C19', 'cases': ([route(rng), [op(rng) for _ in range(rng.randint(0, 12))]] for _ in range(n))}
    yield {'name': 'control-paragraphs', 'op': 'C19t', 'cases': (control(rng) for _ in range(n // 2))}
    yield {'name': 'maintainers', 'op': 'C19m', 'cases': (maint(rng) for _ in range(n))}
    yield {'name': 'render-and-read-back', 'op': 'C19r', 'cases': (rpairs(rng) for _ in range(n))}
