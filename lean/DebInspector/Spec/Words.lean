/-
Words of a text, as the copyright properties count them: the text is cut into lines at every Python
line boundary, each line into white-space separated tokens; a line whose only token is a full stop
(a blank-line marker) contributes nothing.
-/
import DebInspector.Py.Str

namespace Spec.Words
open Py

def lineWords (l : Str) : List Str :=
  let ws := splitWs l
  if ws = [['.']] then [] else ws

def words (v : Str) : List Str := (splitlines v).flatMap lineWords

/-- remove one occurrence of each element of `a` from `b`; `none` if some element is missing -/
def removeAll : List Str → List Str → Option (List Str)
  | [], b => some b
  | x :: xs, b => if b.contains x then removeAll xs (b.erase x) else none

/-- multiset inclusion -/
def subMultiset (a b : List Str) : Bool := (removeAll a b).isSome

/-- multiset equality -/
def sameMultiset (a b : List Str) : Bool := removeAll a b == some []

end Spec.Words
