/-
Words of a text, as the copyright properties count them: the white-space separated tokens of the
text, a full stop standing alone not being a word (it is the blank-line marker of the format, and a
list field such as `Files` re-renders a lone `.` item on a line of its own, where it is
indistinguishable from a marker).
-/
import DebInspector.Py.Str

namespace Spec.Words
open Py

def words (v : Str) : List Str := (splitWs v).filter (· ≠ ['.'])

/-- remove one occurrence of each element of `a` from `b`; `none` if some element is missing -/
def removeAll : List Str → List Str → Option (List Str)
  | [], b => some b
  | x :: xs, b => if b.contains x then removeAll xs (b.erase x) else none

/-- multiset inclusion -/
def subMultiset (a b : List Str) : Bool := (removeAll a b).isSome

/-- multiset equality -/
def sameMultiset (a b : List Str) : Bool := removeAll a b == some []

end Spec.Words
