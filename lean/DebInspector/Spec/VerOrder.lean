/-
Declarative form of the Debian version order on one component (upstream or revision), stated as
the property states it: the string is cut into alternating non-digit runs and digit runs; runs are
compared pairwise, non-digit runs character by character under a rank `rk` with "end of run"
as padding, digit runs by numeric value, a missing run counting as empty / zero.

`rk` is a parameter: with dpkg's `order` it is dpkg's order (proved equal to the transliterated
`verrevcmp` in `Proofs/Verrevcmp.lean`); with the implementation's table it is what the
implementation computes (`Proofs/VersionCompare.lean`).
-/
import DebInspector.Py.Str
import DebInspector.Proofs.PadLex

namespace Spec.VerOrder
open Py PadLex

def spanNonDigit : Str → Str × Str
  | [] => ([], [])
  | c :: cs => if c.isDigit then ([], c :: cs) else let r := spanNonDigit cs; (c :: r.1, r.2)

def spanDigits : Str → Str × Str
  | [] => ([], [])
  | c :: cs => if c.isDigit then let r := spanDigits cs; (c :: r.1, r.2) else ([], c :: cs)

theorem spanNonDigit_len (s : Str) : (spanNonDigit s).2.length ≤ s.length := by
  induction s with
  | nil => simp [spanNonDigit]
  | cons c cs ih => simp only [spanNonDigit]; split <;> simp <;> omega

theorem spanDigits_len (s : Str) : (spanDigits s).2.length ≤ s.length := by
  induction s with
  | nil => simp [spanDigits]
  | cons c cs ih => simp only [spanDigits]; split <;> simp <;> omega

/-- one token: a (possibly empty) non-digit run followed by a (possibly empty) digit run -/
abbrev Tok := Str × Nat

/-- what remains after the first token -/
def afterTok (s : Str) : Str := (spanDigits (spanNonDigit s).2).2

def firstTok (s : Str) : Tok := ((spanNonDigit s).1, digitsVal (spanDigits (spanNonDigit s).2).1)

theorem afterTok_lt (s : Str) (h : s ≠ []) : (afterTok s).length < s.length := by
  cases s with
  | nil => exact absurd rfl h
  | cons c cs =>
    unfold afterTok
    by_cases hd : c.isDigit = true
    · simp only [spanNonDigit, hd, if_true, spanDigits]
      have := spanDigits_len cs
      simp; omega
    · simp only [spanNonDigit, hd, Bool.false_eq_true, if_false]
      have h1 := spanNonDigit_len cs
      have h2 := spanDigits_len (spanNonDigit cs).2
      simp; omega

/-- the alternating runs of a component string -/
def tokens (s : Str) : List Tok :=
  if h : s = [] then [] else firstTok s :: tokens (afterTok s)
termination_by s.length
decreasing_by exact afterTok_lt s h

theorem tokens_nil : tokens [] = [] := by rw [tokens]; simp
theorem tokens_cons (s : Str) (h : s ≠ []) : tokens s = firstTok s :: tokens (afterTok s) := by
  rw [tokens]; simp [h]

/-- compare two characters (or "end of run" = `none`) by rank -/
def cmpRk (rk : Option Char → Int) (a b : Option Char) : Ordering := compare (rk a) (rk b)

/-- non-digit runs: character by character, the shorter run padded with "end of run" -/
def cmpRun (rk : Option Char → Int) (p q : Str) : Ordering :=
  cmpPad (cmpRk rk) none (p.map some) (q.map some)

def cmpNat (a b : Nat) : Ordering := compare (a : Int) (b : Int)

def cmpTok (rk : Option Char → Int) : Tok → Tok → Ordering := cmpProd (cmpRun rk) cmpNat

/-- the order on component strings: token by token, a missing token counting as (empty run, 0) -/
def cmpStr (rk : Option Char → Int) (a b : Str) : Ordering :=
  cmpPad (cmpTok rk) ([], 0) (tokens a) (tokens b)

def ordInt : Ordering → Int
  | .lt => -1
  | .eq => 0
  | .gt => 1

/-- the order on whole versions: epoch, then upstream, then revision -/
def cmpVer (rk : Option Char → Int) (a b : Nat × Str × Str) : Ordering :=
  (cmpNat a.1 b.1).then ((cmpStr rk a.2.1 b.2.1).then (cmpStr rk a.2.2 b.2.2))

/-! ### it is a total preorder, for every rank function -/

theorem cmpRk_pre (rk : Option Char → Int) : IsPre (cmpRk rk) := isPre_of_key rk

theorem isPre_comap {α β} {c : β → β → Ordering} (h : IsPre c) (f : α → β) :
    IsPre (fun a b => c (f a) (f b)) :=
  ⟨fun a => h.refl _, fun a b => h.swap _ _, fun a b c => h.trans_lt _ _ _, fun a b c => h.eq_left _ _ _⟩

theorem cmpRun_pre (rk : Option Char → Int) : IsPre (cmpRun rk) :=
  isPre_comap (cmpPad_pre (cmpRk_pre rk) none) (fun (p : Str) => p.map some)

theorem cmpNat_pre : IsPre cmpNat := isPre_of_key (fun n : Nat => (n : Int))

theorem cmpTok_pre (rk : Option Char → Int) : IsPre (cmpTok rk) := cmpProd_pre (cmpRun_pre rk) cmpNat_pre

theorem cmpStr_pre (rk : Option Char → Int) : IsPre (cmpStr rk) :=
  isPre_comap (cmpPad_pre (cmpTok_pre rk) ([], 0)) tokens

theorem cmpVer_pre (rk : Option Char → Int) : IsPre (cmpVer rk) := by
  have h2 : IsPre (cmpProd (cmpStr rk) (cmpStr rk)) := cmpProd_pre (cmpStr_pre rk) (cmpStr_pre rk)
  exact cmpProd_pre cmpNat_pre h2

end Spec.VerOrder
