/-
Specification side of the version properties.  Nothing here looks at the implementation or at
`Generated/`.

* `Spec.Policy`  : Debian policy's version syntax, written from the sentence in property C03.
* `Spec.Dpkg`    : a functional transliteration of dpkg's `lib/dpkg/version.c`
                   (`order`, `verrevcmp`, `dpkg_version_compare`) and of the epoch / last-hyphen
                   split of `lib/dpkg/parsehelp.c:parseversion`.
-/
import DebInspector.Py.Str

namespace Spec
open Py

namespace Policy

/-- characters allowed in a revision: ASCII alphanumerics and `. + ~` -/
def revChar (c : Char) : Bool := isAsciiAlnum c || c = '.' || c = '+' || c = '~'
/-- characters allowed in an upstream version: the above and `-` -/
def upChar (c : Char) : Bool := revChar c || c = '-'

/-- the part before the first colon, if the string has a colon: `(epoch?, rest)` -/
def splitEpoch (s : Str) : Option Str × Str :=
  let p := partitionChar ':' s
  if p.2.1 then (some p.1, p.2.2) else (none, s)

/-- the part after the last hyphen, if any: `(upstream, revision?)` -/
def splitRevision (s : Str) : Str × Option Str :=
  let p := rpartitionChar '-' s
  if p.2.1 then (p.1, some p.2.2) else (s, none)

def validEpoch : Option Str → Bool
  | none => true
  | some e => !e.isEmpty && e.all isAsciiDigit

/-- what follows the epoch: an upstream part starting with an ASCII digit and made of ASCII
alphanumerics and `. + - ~`; a hyphen only when a non-empty revision of alphanumerics and `. + ~`
follows the last hyphen -/
def validRest (rest : Str) : Bool :=
  let ur := splitRevision rest
  headP isAsciiDigit ur.1 &&
  ur.1.all upChar &&
  (match ur.2 with | none => true | some r => !r.isEmpty && r.all revChar)

/-- A version string valid under Debian policy (C03): an optional epoch of ASCII digits followed by
a colon, then `validRest`. -/
def valid (s : Str) : Bool :=
  let er := splitEpoch s
  validEpoch er.1 && validRest er.2

def endsAlnum (s : Str) : Bool := lastP isAsciiAlnum s

/-- the strings C03 says *must* be accepted: valid, upstream and revision both ending in an
alphanumeric (and, K2, an epoch the interpreter can convert: at most `maxDigits` digits, 0 = no limit) -/
def mustAccept (maxDigits : Nat) (s : Str) : Bool :=
  let er := splitEpoch s
  let ur := splitRevision er.2
  valid s && endsAlnum ur.1 &&
  (match ur.2 with | none => true | some r => endsAlnum r) &&
  (match er.1 with | none => true | some e => maxDigits = 0 || e.length ≤ maxDigits)

/-- number of characters before the first colon (0 if there is none) -/
def epochLen (s : Str) : Nat := match (splitEpoch s).1 with | none => 0 | some e => e.length

/-- dpkg's decomposition: epoch = integer before the first colon (0 if absent), revision = text
after the last hyphen ("0" if absent), upstream = everything in between -/
def split (s : Str) : Nat × Str × Str :=
  let er := splitEpoch s
  let ur := splitRevision er.2
  ((match er.1 with | none => 0 | some e => digitsVal e), ur.1, (match ur.2 with | none => ['0'] | some r => r))

end Policy

namespace Dpkg

/-- dpkg `order()`; `none` is the terminating NUL -/
def order : Option Char → Int
  | none => 0
  | some c =>
    if isAsciiDigit c then 0
    else if isAsciiAlpha c then c.toNat
    else if c = '~' then -1
    else c.toNat + 256

def isNonDigit : Option Char → Bool
  | none => false
  | some c => !isAsciiDigit c

/-- the inner loop `while ((*a && !c_isdigit(*a)) || (*b && !c_isdigit(*b)))`:
`inl d` = `return ac - bc`, `inr (a, b)` = fell out of the loop. Fuel = |a| + |b|. -/
def nonDigitLoop : Nat → Str → Str → Int ⊕ (Str × Str)
  | 0, a, b => .inr (a, b)
  | n + 1, a, b =>
    if isNonDigit a.head? || isNonDigit b.head? then
      let ac := order a.head?
      let bc := order b.head?
      if ac ≠ bc then .inl (ac - bc) else nonDigitLoop n a.tail b.tail
    else .inr (a, b)

/-- `while (*a == '0') a++;` -/
def skipZeros : Str → Str
  | '0' :: s => skipZeros s
  | s => s

/-- `while (c_isdigit(*a) && c_isdigit(*b)) { if (!first_diff) first_diff = *a - *b; a++; b++; }`
followed by the three `if`s: `some r` = return r, `none` = continue the outer loop (first_diff = 0) -/
def digitLoop : Str → Str → Int → Option Int × Str × Str
  | a :: as, b :: bs, fd =>
    if isAsciiDigit a && isAsciiDigit b then
      digitLoop as bs (if fd = 0 then (a.toNat : Int) - b.toNat else fd)
    else digitEnd (a :: as) (b :: bs) fd
  | a, b, fd => digitEnd a b fd
where
  digitEnd (a b : Str) (fd : Int) : Option Int × Str × Str :=
    if headP isAsciiDigit a then (some 1, a, b)
    else if headP isAsciiDigit b then (some (-1), a, b)
    else if fd ≠ 0 then (some fd, a, b)
    else (none, a, b)

/-- `verrevcmp`, outer loop with fuel (|a| + |b| + 1 always suffices) -/
def verrevcmpFuel : Nat → Str → Str → Int
  | 0, _, _ => 0
  | n + 1, a, b =>
    if a.isEmpty && b.isEmpty then 0
    else
      match nonDigitLoop (a.length + b.length) a b with
      | .inl d => d
      | .inr (a, b) =>
        match digitLoop (skipZeros a) (skipZeros b) 0 with
        | (some r, _, _) => r
        | (none, a, b) => verrevcmpFuel n a b

def verrevcmp (a b : Str) : Int := verrevcmpFuel (a.length + b.length + 1) a b

structure DpkgVersion where
  epoch : Nat
  version : Str
  revision : Str
deriving Repr, DecidableEq

/-- `parseversion`: epoch before the first colon, revision after the last hyphen (empty when
there is none) — only called on policy-valid strings here -/
def parse (s : Str) : DpkgVersion :=
  let er := Policy.splitEpoch s
  let ur := Policy.splitRevision er.2
  ⟨(match er.1 with | none => 0 | some e => digitsVal e), ur.1, (match ur.2 with | none => [] | some r => r)⟩

/-- `dpkg_version_compare` -/
def compare (a b : DpkgVersion) : Int :=
  if a.epoch > b.epoch then 1
  else if a.epoch < b.epoch then -1
  else
    let rc := verrevcmp a.version b.version
    if rc ≠ 0 then rc else verrevcmp a.revision b.revision

def sign (i : Int) : Int := if i < 0 then -1 else if i = 0 then 0 else 1

/-- the three-way result dpkg gives for two policy-valid version strings -/
def compareStr (a b : Str) : Int := sign (compare (parse a) (parse b))

end Dpkg
end Spec
