/-
The Debian version order, declaratively, with dpkg's character ranks.
-/
import DebInspector.Spec.Dpkg
import DebInspector.Spec.VerOrder

namespace Spec.VerOrder
open Py

/-- dpkg's rank of a character, or of the end of the run (`none`): tilde before end of run before
letters before everything else (`lib/dpkg/version.c: order()`) -/
def dpkgRk (c : Option Char) : Int := Spec.Dpkg.order c

/-- dpkg's order on one component, as -1 / 0 / 1 -/
def dpkgCmpStr (a b : Str) : Int := ordInt (cmpStr dpkgRk a b)

/-- dpkg's order on two policy-valid version strings, as -1 / 0 / 1: epochs numerically, then
upstream, then revision; a missing epoch counts as 0 and a missing revision as "0" -/
def dpkgCmpVersions (a b : Str) : Int :=
  ordInt (cmpVer dpkgRk (Spec.Policy.split a) (Spec.Policy.split b))

end Spec.VerOrder
