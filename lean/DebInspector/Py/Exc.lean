/-
Python exceptions as values.  Only the *type* of an exception is ever observed or compared.
`outOfModel` marks inputs on which the hand model deliberately says nothing (the harness then
checks only the implementation-side `holdsOn`, never the correspondence).
-/
namespace Py

inductive PyExc where
  | valueError | typeError | assertionError | keyError | indexError | attributeError
  | notImplementedError | exception | outOfModel
deriving Repr, DecidableEq, Inhabited

def PyExc.name : PyExc → String
  | .valueError => "ValueError"
  | .typeError => "TypeError"
  | .assertionError => "AssertionError"
  | .keyError => "KeyError"
  | .indexError => "IndexError"
  | .attributeError => "AttributeError"
  | .notImplementedError => "NotImplementedError"
  | .exception => "Exception"
  | .outOfModel => "OutOfModel"

end Py

deriving instance DecidableEq for Except
