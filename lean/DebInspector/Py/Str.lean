/-
Python `str` primitives on `List Char`.

A Python `str` without lone surrogates is exactly a `List Char` (`Char` = Unicode scalar
value).  Every function here is total and structurally recursive so that it can be used in
proofs and compiled into the driver.  The Unicode class tables come from
`Generated/Unicode.lean`, which the translator regenerates from the running interpreter.
-/
import DebInspector.Generated.Unicode

namespace Py

abbrev Str := List Char

/-- `str.isspace` on one character (and `\s` of `re`, same 29 code points on CPython 3.12). -/
def isSpace (c : Char) : Bool := Generated.spaceCodes.contains c.toNat

/-- a `str.splitlines` line boundary -/
def isBoundary (c : Char) : Bool := Generated.boundaryCodes.contains c.toNat

def inRanges (rs : List (Nat × Nat)) (n : Nat) : Bool := rs.any fun r => r.1 ≤ n && n ≤ r.2

/-- `str.isdigit` on one character -/
def isDigitU (c : Char) : Bool := inRanges Generated.isdigitRanges c.toNat

abbrev isAsciiDigit (c : Char) : Bool := c.isDigit
abbrev isAsciiUpper (c : Char) : Bool := c.isUpper
abbrev isAsciiLower (c : Char) : Bool := c.isLower
abbrev isAsciiAlpha (c : Char) : Bool := c.isAlpha
abbrev isAsciiAlnum (c : Char) : Bool := c.isAlphanum

def lowerAsciiChar (c : Char) : Char := if isAsciiUpper c then Char.ofNat (c.toNat + 32) else c
def upperAsciiChar (c : Char) : Char := if isAsciiLower c then Char.ofNat (c.toNat - 32) else c
def lowerAscii (s : Str) : Str := s.map lowerAsciiChar

/-- `str.lstrip()` -/
def lstrip : Str → Str
  | [] => []
  | c :: cs => if isSpace c then lstrip cs else c :: cs

/-- `str.rstrip()` -/
def rstrip : Str → Str
  | [] => []
  | c :: cs =>
    match rstrip cs with
    | [] => if isSpace c then [] else [c]
    | r => c :: r

/-- `str.strip()` -/
def strip (s : Str) : Str := rstrip (lstrip s)

/-- `not s.strip()` -/
def isBlank (s : Str) : Bool := s.all isSpace

/-- `s.startswith(p)` -/
def startsWith : Str → Str → Bool
  | _, [] => true
  | [], _ :: _ => false
  | c :: cs, p :: ps => c == p && startsWith cs ps

def endsWith (s p : Str) : Bool := startsWith s.reverse p.reverse

/-- `s.partition(c)` for a one-character separator: `(before, found, after)` -/
def partitionChar (sep : Char) : Str → Str × Bool × Str
  | [] => ([], false, [])
  | c :: cs =>
    if c = sep then ([], true, cs)
    else
      let r := partitionChar sep cs
      (c :: r.1, r.2.1, r.2.2)

/-- `s.rpartition(c)` for a one-character separator; when not found `([], false, s)` as Python -/
def rpartitionChar (sep : Char) (s : Str) : Str × Bool × Str :=
  let r := partitionChar sep s.reverse
  if r.2.1 then (r.2.2.reverse, true, r.1.reverse) else ([], false, s)

/-- `s.split(c)` for a one-character separator (never empty) -/
def splitChar (sep : Char) : Str → List Str
  | [] => [[]]
  | c :: cs =>
    if c = sep then [] :: splitChar sep cs
    else
      match splitChar sep cs with
      | [] => [[c]]
      | w :: ws => (c :: w) :: ws

/-- `s.split()` : maximal runs of non-space characters -/
def splitWsAux : Str → Str → List Str
  | [], cur => if cur.isEmpty then [] else [cur.reverse]
  | c :: cs, cur =>
    if isSpace c then
      (if cur.isEmpty then splitWsAux cs [] else cur.reverse :: splitWsAux cs [])
    else splitWsAux cs (c :: cur)

def splitWs (s : Str) : List Str := splitWsAux s []

/-- `sep.join(xs)` -/
def join (sep : Str) : List Str → Str
  | [] => []
  | [x] => x
  | x :: xs => x ++ sep ++ join sep xs

/-- `str.splitlines()` (keepends = False). `cur`: current line, reversed; `cr`: the previous
character was a line-ending `\r` (so a following `\n` belongs to it). -/
def splitlinesAux : Str → Str → Bool → List Str
  | [], cur, _ => if cur.isEmpty then [] else [cur.reverse]
  | c :: rest, cur, cr =>
    if c = '\n' ∧ cr then splitlinesAux rest cur false
    else if c = '\r' then cur.reverse :: splitlinesAux rest [] true
    else if isBoundary c then cur.reverse :: splitlinesAux rest [] false
    else splitlinesAux rest (c :: cur) false

def splitlines (t : Str) : List Str := splitlinesAux t [] false

/-- lines at LF, CRLF and CR only (`re.split(r'\r\n|\r|\n', text)` minus one trailing empty
piece): the line splitting of `deb822.split_lines`. -/
def splitLinesAsciiAux : Str → Str → Bool → List Str
  | [], cur, _ => if cur.isEmpty then [] else [cur.reverse]
  | c :: rest, cur, cr =>
    if c = '\n' ∧ cr then splitLinesAsciiAux rest cur false
    else if c = '\r' then cur.reverse :: splitLinesAsciiAux rest [] true
    else if c = '\n' then cur.reverse :: splitLinesAsciiAux rest [] false
    else splitLinesAsciiAux rest (c :: cur) false

def splitLinesAscii (t : Str) : List Str := splitLinesAsciiAux t [] false

/-- `s.replace(a, b)` for single characters -/
def replaceChar (a b : Char) (s : Str) : Str := s.map fun c => if c = a then b else c

/-- decimal digits of a natural number, most significant first (`str(n)`) -/
def natToStr (n : Nat) : Str := (Nat.toDigits 10 n)

/-- value of a string of ASCII digits (`int(s)` on `[0-9]*`, empty ↦ 0) -/
def digitsVal (s : Str) : Nat := Nat.ofDigitChars 10 s 0

def str (s : String) : Str := s.toList

/-- Python `a < b` on strings: lexicographic by code point -/
def strLt : Str → Str → Bool
  | [], [] => false
  | [], _ :: _ => true
  | _ :: _, [] => false
  | a :: as, b :: bs => if a.toNat < b.toNat then true else if a.toNat > b.toNat then false else strLt as bs

/-- the first character exists and satisfies `p` -/
def headP (p : Char → Bool) : Str → Bool
  | [] => false
  | c :: _ => p c

/-- the last character exists and satisfies `p` -/
def lastP (p : Char → Bool) : Str → Bool
  | [] => false
  | [c] => p c
  | _ :: c :: cs => lastP p (c :: cs)

end Py
