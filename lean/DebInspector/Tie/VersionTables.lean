/-
Obligations over the generated version tables (`Generated/VersionTables.lean`,
`Generated/Unicode.lean`), re-checked whenever the translator regenerates them.
-/
import DebInspector.Proofs.VersionCompare
import DebInspector.Spec.DpkgOrder

namespace Tie.VersionTables
open Py Spec Spec.VerOrder Model.Version Proofs.VersionCompare

theorem upChar_lt_128 {c : Char} (h : Policy.upChar c = true) : c.toNat < 128 := by
  have hn : c.toNat = c.val.toNat := rfl
  simp only [Policy.upChar, Policy.revChar, Char.isAlphanum, Char.isAlpha, Char.isUpper, Char.isLower,
    Char.isDigit, Bool.or_eq_true, Bool.and_eq_true, decide_eq_true_eq] at h
  rcases h with (((((⟨_, h⟩ | ⟨_, h⟩) | ⟨_, h⟩) | h) | h) | h) | h
  · have := UInt32.le_iff_toNat_le.mp h; simp at this; omega
  · have := UInt32.le_iff_toNat_le.mp h; simp at this; omega
  · have := UInt32.le_iff_toNat_le.mp h; simp at this; omega
  all_goals (subst h; decide)

/-- every allowed non-digit character has a rank in `characters_order` -/
theorem charRank_table : ∀ n, n < 128 → Policy.upChar (Char.ofNat n) = true → (Char.ofNat n).isDigit = false →
    (rankOf (some (Char.ofNat n))).isSome = true := by decide +kernel

/-- `str.isdigit` agrees with the ASCII digit test on ASCII -/
theorem digitU_table : ∀ n, n < 128 → isDigitU (Char.ofNat n) = (Char.ofNat n).isDigit := by decide +kernel

theorem endRank_table : (rankOf none).isSome = true := by decide +kernel

theorem tableOK : TableOK where
  endRank := endRank_table
  charRank := by
    intro c hu hd
    have := charRank_table c.toNat (upChar_lt_128 hu)
    rw [Char.ofNat_toNat] at this
    exact this hu hd
  digitU := by
    intro c hu
    have := digitU_table c.toNat (upChar_lt_128 hu)
    rw [Char.ofNat_toNat] at this
    exact this


/-! ### the table is order-isomorphic to dpkg's `order()` on the allowed symbols -/

/-- end of run, and the 56 non-digit characters a component may contain -/
def syms : List (Option Char) :=
  none :: ("~ABCDEFGHIJKLMNOPQRSTUVWXYZabcdefghijklmnopqrstuvwxyz+-.".toList.map some)

theorem syms_complete : ∀ n, n < 128 → Policy.upChar (Char.ofNat n) = true → (Char.ofNat n).isDigit = false →
    some (Char.ofNat n) ∈ syms := by decide +kernel

theorem mem_syms {c : Char} (hu : Policy.upChar c = true) (hd : c.isDigit = false) : some c ∈ syms := by
  have := syms_complete c.toNat (upChar_lt_128 hu)
  rw [Char.ofNat_toNat] at this
  exact this hu hd

/-- **Tie**: on all 57 × 57 pairs of symbols the implementation's ranks compare as dpkg's do
(an order-isomorphism, so a harmless renumbering of the table still proves) -/
theorem rank_iso : ∀ a ∈ syms, ∀ b ∈ syms,
    compare (modelRk a) (modelRk b) = compare (dpkgRk a) (dpkgRk b) := by decide +kernel

/-- the table has exactly the 57 keys -/
theorem table_keys : Generated.charOrder.length = syms.length := by decide

def SymRun (p : Str) : Prop := ∀ c ∈ p, some c ∈ syms

theorem cmpRun_iso (p q : Str) (hp : SymRun p) (hq : SymRun q) : cmpRun modelRk p q = cmpRun dpkgRk p q := by
  unfold cmpRun
  apply PadLex.cmpPad_congr (cmpRk modelRk) (cmpRk dpkgRk) none (fun x => x ∈ syms) (by decide)
  · intro a b ha hb; exact rank_iso a ha b hb
  · intro a ha
    simp only [List.mem_map] at ha
    obtain ⟨c, hc, rfl⟩ := ha
    exact hp c hc
  · intro a ha
    simp only [List.mem_map] at ha
    obtain ⟨c, hc, rfl⟩ := ha
    exact hq c hc

theorem firstTok_symRun (s : Str) (h : s.all Policy.upChar = true) : SymRun (firstTok s).1 := by
  intro c hc
  have h1 := List.all_eq_true.mp (spanNonDigit_all s _ h).1 c hc
  have h2 := List.all_eq_true.mp (spanNonDigit_nondigit s) c hc
  exact mem_syms h1 (by simpa using h2)

theorem tokens_symRun (n : Nat) (s : Str) (hn : s.length ≤ n) (h : s.all Policy.upChar = true) :
    ∀ t ∈ tokens s, SymRun t.1 := by
  induction n generalizing s with
  | zero =>
    have : s = [] := by cases s <;> simp_all
    subst this; simp [tokens_nil]
  | succ n ih =>
    by_cases e : s = []
    · subst e; simp [tokens_nil]
    · rw [tokens_cons s e]
      intro t ht
      simp only [List.mem_cons] at ht
      rcases ht with rfl | ht
      · exact firstTok_symRun s h
      · have := afterTok_lt s e
        exact ih (afterTok s) (by omega) (afterTok_all s h) t ht

/-- on component strings the implementation's table and dpkg's `order` induce the same order -/
theorem cmpStr_iso (a b : Str) (ha : a.all Policy.upChar = true) (hb : b.all Policy.upChar = true) :
    cmpStr modelRk a b = cmpStr dpkgRk a b := by
  unfold cmpStr
  apply PadLex.cmpPad_congr (cmpTok modelRk) (cmpTok dpkgRk) ([], 0) (fun t => SymRun t.1)
  · intro c hc; cases hc
  · intro x y hx hy
    simp only [cmpTok, PadLex.cmpProd, cmpRun_iso x.1 y.1 hx hy]
  · exact tokens_symRun _ a (Nat.le_refl _) ha
  · exact tokens_symRun _ b (Nat.le_refl _) hb

end Tie.VersionTables
