/-
Tie obligations about the Unicode tables regenerated from the running interpreter.
-/
import DebInspector.Generated.Unicode

namespace Tie.Unicode

/-- `\s` of `re` (str patterns) matches exactly the characters with `str.isspace()`: the model reads `\S` as "not isspace" -/
theorem reSpace_eq : Generated.reSpaceCodes = Generated.spaceCodes := by decide

end Tie.Unicode
