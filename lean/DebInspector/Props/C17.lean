/-
C17 — Package file names round-trip; latest-version selection is a maximum.
Three checks:
  C17a  input (dir, name, version, arch?, ending, filename) ; obs `DebArchive.from_filename(filename)`
  C17b  input any file name                                  ; obs the same
  C17c  input a list of file names                            ; obs `find_latest_version`, `find_latest_versions`
-/
import DebInspector.Props.Common
import DebInspector.Model.Package
import DebInspector.Spec.DpkgOrder

namespace Props.C17
open Proto Py Spec Model.Package

abbrev Tup := Nat × Str × Str
/-- name, version tuple, architecture, original file name -/
abbrev ATup := Str × Tup × Option Str × Str

def aTup (a : Archive) : ATup := (a.name, (a.version.epoch, a.version.upstream, a.version.revision), a.arch, a.original)

/-! ### specification side (from the sentence of the property; independent of `Generated/`) -/

def binaryEndings : List String := [".deb", ".udeb"]
def sourceEndings : List String :=
  [".dsc", ".orig.tar.gz", ".orig.tar.xz", ".orig.tar.bz2", ".orig.tar.lzma",
   ".debian.tar.gz", ".debian.tar.xz", ".debian.tar.bz2", ".debian.tar.lzma", "_copyright", "_changelog"]

def accepted (v : Str) : Bool := Policy.mustAccept Generated.intMaxStrDigits v

structure InputA where
  dir : Str
  name : Str
  version : Str
  arch : Option Str
  ending : Str
  filename : Str

def render (i : InputA) : Str :=
  i.dir ++ i.name ++ '_' :: i.version ++ (match i.arch with | some a => '_' :: a | none => []) ++ i.ending

def wfA (i : InputA) : Bool :=
  (i.dir.isEmpty || lastP (· = '/') i.dir) &&
  !i.name.isEmpty && !i.name.contains '_' && !i.name.contains '/' &&
  accepted i.version &&
  (match i.arch with
   | some a => !a.isEmpty && !a.contains '_' && !a.contains '.' && !a.contains '/' &&
               binaryEndings.contains (String.ofList i.ending)
   | none => sourceEndings.contains (String.ofList i.ending)) &&
  i.filename == render i

abbrev ObsA := Except PyExc ATup

def modelA (fn : Str) : ObsA := (debFromFilename fn).map aTup

/-- a file name built from a name, a valid version and (binary packages) an architecture parses to
exactly those and keeps the original path -/
def holdsOnA (i : InputA) (obs : ObsA) : Bool :=
  !wfA i || decide (obs = .ok (i.name, Policy.split i.version, i.arch, i.filename))

/-- the base name of `fn` minus its recognised extension or suffix, if it has one -/
def stem (fn : Str) : Option Str :=
  let b := (rpartitionChar '/' fn).2.2
  (binaryEndings ++ sourceEndings).findSome? fun e =>
    if endsWith b e.toList then some (b.take (b.length - e.length)) else none

/-- file names that must be rejected: no recognised extension or suffix, not two or three
underscore-separated parts, or a version part that is not a valid version -/
def mustReject (fn : Str) : Bool :=
  match stem fn with
  | none => true
  | some s =>
    match splitChar '_' s with
    | [_, v] => !Policy.valid (strip v)
    | [_, v, _] => !Policy.valid (strip v)
    | _ => true

def holdsOnB (fn : Str) (obs : ObsA) : Bool :=
  !mustReject fn || decide (obs = .error .valueError)

/-! ### latest-version selection -/

/-- spec-level reading of a binary package file name: (name, version, architecture) -/
def parseBinary (fn : Str) : Option (Str × Str × Str) :=
  let b := (rpartitionChar '/' fn).2.2
  binaryEndings.findSome? fun e =>
    if endsWith b e.toList then
      match splitChar '_' (b.take (b.length - e.length)) with
      | [n, v, a] => if !n.isEmpty && accepted v && !a.isEmpty && !a.contains '.' then some (n, v, a) else none
      | _ => none
    else none

structure ObsC where
  latest : Except PyExc (Option ATup)
  latests : Except PyExc (Option (List (Str × ATup)))

def modelC (fns : List Str) : ObsC :=
  { latest := (findLatestVersion fns).map (·.map aTup),
    latests := (findLatestVersions fns).map (·.map (·.map fun (n, a) => (n, aTup a))) }

def verLe (a b : Tup) : Bool := VerOrder.cmpVer VerOrder.dpkgRk a b != .gt

/-- `t` is one of the inputs and no input of its name has a later version -/
def isMaxOf (inputs : List ATup) (t : ATup) : Bool :=
  inputs.contains t && inputs.all fun i => i.1 != t.1 || verLe i.2.1 t.2.1

/-- the archive tuple a binary package file name spells -/
def toTup (fn : Str) : Option ATup := (parseBinary fn).map fun nva => ((nva.1, Policy.split nva.2.1, some nva.2.2, fn) : ATup)

def holdsOnC (fns : List Str) (obs : ObsC) : Bool :=
  match fns.mapM toTup with
  | none => true                      -- not a list of binary package file names
  | some inputs =>
    if inputs.isEmpty then true else
    let names := dedupNames (inputs.map (·.1))
    (if names.length = 1 then
       (match obs.latest with | .ok (some t) => isMaxOf inputs t | _ => false)
     else (match obs.latest with | .error e => e == .valueError | .ok _ => false)) &&
    (match obs.latests with
     | .ok (some m) =>
       -- exactly the names present, each once, each mapped to a maximum of its group
       (m.map (·.1)).all (names.contains ·) && names.all ((m.map (·.1)).contains ·) &&
       m.length == names.length &&
       m.all fun (n, t) => t.1 == n && isMaxOf inputs t
     | _ => false)

/-! ### wire format -/

def decOptStr : Val → Option (Option Str)
  | .none => some none
  | .str s => some (some s)
  | _ => none

def decIA : Val → Option InputA
  | .list [.str d, .str n, .str v, a, .str e, .str f] => do let a ← decOptStr a; pure ⟨d, n, v, a, e, f⟩
  | _ => none

def encOptStr : Option Str → Val | none => .none | some s => .str s
def encATup (t : ATup) : Val :=
  .list [.str t.1, .list [.int t.2.1.1, .str t.2.1.2.1, .str t.2.1.2.2], encOptStr t.2.2.1, .str t.2.2.2]
def decATup : Val → Option ATup
  | .list [.str n, .list [.int e, .str u, .str r], a, .str f] => do
    let a ← decOptStr a
    if e ≥ 0 then pure (n, (e.toNat, u, r), a, f) else none
  | _ => none

def decOptATup : Val → Option (Option ATup)
  | .none => some none
  | v => (decATup v).map some

def checkA : Props.Check InputA ObsA :=
  { decI := decIA, decO := Props.decExcept decATup, encO := Props.encExcept encATup,
    model := fun i => modelA i.filename, holdsOn := holdsOnA }

def checkB : Props.Check Str ObsA :=
  { decI := Val.asStr?, decO := Props.decExcept decATup, encO := Props.encExcept encATup,
    model := modelA, holdsOn := holdsOnB }

def decNamed : Val → Option (Str × ATup)
  | .list [.str n, t] => (decATup t).map fun a => (n, a)
  | _ => none

def decLatests : Val → Option (Option (List (Str × ATup)))
  | .none => some none
  | .list xs => (xs.mapM decNamed).map some
  | _ => none

def decObsC : Val → Option ObsC
  | .list [l, ls] => do
    let l ← Props.decExcept decOptATup l
    let ls ← Props.decExcept decLatests ls
    pure ⟨l, ls⟩
  | _ => none

def encObsC (o : ObsC) : Val :=
  .list [Props.encExcept (fun (x : Option ATup) => match x with | none => Val.none | some t => encATup t) o.latest,
         Props.encExcept (fun (x : Option (List (Str × ATup))) => match x with
           | none => Val.none
           | some m => Val.list (m.map fun (n, t) => Val.list [.str n, encATup t])) o.latests]

def decStrs : Val → Option (List Str)
  | .list xs => xs.mapM Val.asStr?
  | _ => none

def checkC : Props.Check (List Str) ObsC :=
  { decI := decStrs, decO := decObsC, encO := encObsC, model := modelC, holdsOn := holdsOnC }

end Props.C17
