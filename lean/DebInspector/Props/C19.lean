/-
C19 — Control paragraph is a case-insensitive mapping; typed fields are faithful.
  C19   input: a construction route and a history of mapping operations; obs: the result of each
  C19t  input: control fields (name, value) in any ASCII case;           obs: parse_control_fields
  C19m  input: a maintainer name and address;                            obs: MaintainerField split / print
  C19r  input: the (name, value) pairs of a paragraph;                    obs: Debian822(Debian822(pairs).dumps()).to_dict()
-/
import DebInspector.Props.Common
import DebInspector.Model.Control
import DebInspector.Model.Addr
import DebInspector.Model.Email
import DebInspector.Model.Unsign

namespace Props.C19
open Proto Py Model.Control

/-! ### A: mapping behaviour -/

structure Input where
  route : Route
  ops : List Op

abbrev Obs := List Out

def model (i : Input) : Obs := runOps lowerAscii (construct lowerAscii i.route) i.ops

/-- the plain dictionary the paragraph must be indistinguishable from: every key is lower-cased on the
way in, nothing else -/
def specItems : Route → List (Str × Str)
  | .mapping items => if items.isEmpty then [] else dictOf id items
  | .pairs items => items
  | .strings ls => ls.map partitionColonSpace
  | .empty => []
  | .text _ => []
  | .file _ => []

def specStep (lower : Str → Str) (d : PyDict) : Op → PyDict × Out
  | .set k v => (dset d (lower k) v, .none)
  | .get k => (d, match dget d (lower k) with | some v => .str v | none => .keyError)
  | .del k => match ddel d (lower k) with | some d' => (d', .none) | none => (d, .keyError)
  | .mem k => (d, .bool (dget d (lower k)).isSome)
  | .len => (d, .int d.length)
  | .iter => (d, .keys (d.map (·.1)))
  | .toDict => (d, .items d)

def specRun (lower : Str → Str) : PyDict → List Op → List Out
  | _, [] => []
  | d, op :: ops => let r := specStep lower d op; r.2 :: specRun lower r.1 ops

/-- the dictionary the history starts from: the items under lower-cased keys; for a text or a file object, the
paragraph data of the text (whose keys the parser has already lower-cased: C08 says what they are) -/
def specInit (lower : Str → Str) : Route → PyDict
  | .text t => fromText822 t
  | .file t => fromText822 t
  | r => (specItems r).foldl (fun d kv => dset d (lower kv.1) kv.2) []

def spec (lower : Str → Str) (i : Input) : Obs := specRun lower (specInit lower i.route) i.ops

def holdsOn (i : Input) (o : Obs) : Bool := decide (o = spec lowerAscii i)

/-! ### B: typed fields -/

abbrev InputT := List (Str × Str)

inductive TObs where
  | deps (tree rawTree : Val)     -- the parsed value and `parse_depends(raw)` as wire trees
  | int (n : Int)
  | raw (s : Str)

abbrev ObsT := Except PyExc (List (Str × TObs))

/-- policy's relationship fields (binary and source control files) -/
def relationshipFields : List String :=
  ["Depends", "Pre-Depends", "Recommends", "Suggests", "Enhances", "Breaks", "Conflicts", "Provides", "Replaces",
   "Build-Depends", "Build-Depends-Indep", "Build-Depends-Arch", "Build-Conflicts", "Build-Conflicts-Indep",
   "Build-Conflicts-Arch", "Built-Using"]

/-- conventional capitalisation: each hyphen-separated word capitalised, except MD5sum, SHA1, SHA256 -/
def conventional (name : Str) : Str :=
  join ['-'] ((splitChar '-' name).map fun w =>
    let l := lowerAscii w
    if l = "md5sum".toList then "MD5sum".toList
    else if l = "sha1".toList then "SHA1".toList
    else if l = "sha256".toList then "SHA256".toList
    else capitalizeAscii w)

def asciiName (n : Str) : Bool := n.all fun c => c.toNat < 128

def distinctNorm (i : InputT) : Bool :=
  let ns := i.map fun kv => conventional kv.1
  ns.length == (ns.foldl (fun acc n => if acc.contains n then acc else acc ++ [n]) []).length

def holdsOnT (i : InputT) (o : ObsT) : Bool :=
  !(i.all (fun kv => asciiName kv.1) && distinctNorm i) ||
  (match o with
   | .error _ => true          -- a value that does not parse (int, relationship syntax): outside the clause
   | .ok out =>
     out.length == i.length &&
     (i.zip out).all fun (kv, nt) =>
       let n := conventional kv.1
       nt.1 == n &&
       -- normalisation is idempotent and independent of the input case
       conventional n == n && conventional (lowerAscii kv.1) == n && conventional (kv.1.map upperAsciiChar) == n &&
       (match nt.2 with
        | .deps t raw => relationshipFields.contains (String.ofList n) && Val.eqb t raw
        | .int k => n == "Installed-Size".toList &&
                    (match pyInt kv.2 with | .ok m => m == k | .error e => e == .outOfModel)
        | .raw s => !relationshipFields.contains (String.ofList n) && n != "Installed-Size".toList && s == kv.2))

mutual
def encRel : Model.Deps.Rel → Val
  | .simple n a => .list [.str ['s'], .str n, .list (a.map .str)]
  | .versioned n o v a => .list [.str ['v'], .str n, .str o, .str v, .list (a.map .str)]
  | .or rs => .list [.str ['o'], .list (encRels rs)]
  | .and rs => .list [.str ['a'], .list (encRels rs)]
def encRels : List Model.Deps.Rel → List Val
  | [] => []
  | r :: rs => encRel r :: encRels rs
end

def modelT (i : InputT) : ObsT :=
  match parseControlFields i with
  | .error e => .error e
  | .ok ts => .ok (ts.map fun (n, t) =>
      (n, match t with
          | .deps r => .deps (encRel r) (encRel r)
          | .int k => .int k
          | .raw s => .raw s))

/-! ### D: maintainer -/

structure InputM where
  name : Str
  address : Str

/-- name: single-spaced words of atom characters and dots; address: a dot-atom, or two dot-atoms around one `@` -/
def atomChar (c : Char) : Bool :=
  c.toNat < 128 && (isAsciiAlnum c || "!#$%&'*+-/=?^_`{|}~".toList.contains c)

def wfM (i : InputM) : Bool :=
  let words := splitChar ' ' i.name
  !i.name.isEmpty && words.all (fun w => !w.isEmpty && w.all (fun c => atomChar c || c == '.')) &&
  (let parts := splitChar '@' i.address
   (parts.length == 1 || parts.length == 2) && parts.all fun p =>
     !p.isEmpty && (splitChar '.' p).all fun a => !a.isEmpty && a.all atomChar)

abbrev ObsM := Option (Str × Option Str × Str)   -- name, email_address, dumps()

/-- `MaintainerField.from_value("name <address>")` through the model of `email.utils.parseaddr`; `none` = outside
the model (an address group) -/
def modelM (i : InputM) : ObsM :=
  match Model.Addr.maintainer (i.name ++ " <".toList ++ i.address ++ ['>']) with
  | .ok r => some r
  | .error _ => none

def holdsOnM (i : InputM) (o : ObsM) : Bool :=
  !wfM i || o == some (i.name, some i.address, i.name ++ " <".toList ++ i.address ++ ['>'])

/-! ### R: render a paragraph and read the rendering back -/

abbrev InputR := List (Str × Str)
abbrev ObsR := Except PyExc (List (Str × Str))

/-- `Debian822.dumps()`: one `Name: value` per item, names in their conventional capitalisation -/
def dumps822 (d : PyDict) : Str :=
  join ['\n'] (d.map fun kv => normalizeName kv.1 ++ ':' :: ' ' :: kv.2) ++ ['\n']

def modelR (i : InputR) : ObsR :=
  .ok (fromText822 (dumps822 (construct lowerAscii (.pairs i))))

/-- a policy-legal field name: printable ASCII except colon and space, not starting with `#` or `-` -/
def nameOkR (n : Str) : Bool :=
  headP (fun c => !(c == '-' || c == '#')) n && n.all fun c => 0x21 ≤ c.toNat && c.toNat ≤ 0x7e && c != ':'

/-- a value as the mapping holds it after parsing: no carriage return, no white space at either end, every line after the
first indented with a space or a tab -/
def valueOkR (v : Str) : Bool :=
  !v.contains '\r' && !headP isSpace v && !lastP isSpace v &&
  (splitChar '\n' v).tail.all fun l => headP (fun c => c == ' ' || c == '\t') l

def distinctLower (i : InputR) : Bool :=
  let ns := i.map fun kv => lowerAscii kv.1
  ns.length == (ns.foldl (fun acc n => if acc.contains n then acc else acc ++ [n]) []).length

def wfR (i : InputR) : Bool :=
  !i.isEmpty && i.all (fun kv => nameOkR kv.1 && valueOkR kv.2) && distinctLower i

def holdsOnR (i : InputR) (o : ObsR) : Bool :=
  !wfR i || decide (o = .ok (i.map fun kv => (lowerAscii kv.1, kv.2)))

/-! ### wire format -/

def decPairs : Val → Option (List (Str × Str))
  | .list xs => xs.mapM fun | .list [.str k, .str v] => some (k, v) | _ => none
  | _ => none

def decRoute : Val → Option Route
  | .list [.str ['m'], p] => (decPairs p).map .mapping
  | .list [.str ['p'], p] => (decPairs p).map .pairs
  | .list [.str ['s'], .list ls] => (ls.mapM Val.asStr?).map .strings
  | .list [.str ['e']] => some .empty
  | .list [.str ['t'], .str t] => some (.text t)
  | .list [.str ['f'], .str t] => some (.file t)
  | _ => none

def decOp : Val → Option Op
  | .list [.str ['s'], .str k, .str v] => some (.set k v)
  | .list [.str ['g'], .str k] => some (.get k)
  | .list [.str ['d'], .str k] => some (.del k)
  | .list [.str ['c'], .str k] => some (.mem k)
  | .list [.str ['l']] => some .len
  | .list [.str ['i']] => some .iter
  | .list [.str ['t']] => some .toDict
  | _ => none

def decI : Val → Option Input
  | .list [r, .list ops] => do let r ← decRoute r; let ops ← ops.mapM decOp; pure ⟨r, ops⟩
  | _ => none

def encOut : Out → Val
  | .none => .none
  | .str s => .str s
  | .bool b => .bool b
  | .int n => .int n
  | .keys ks => .list (ks.map .str)
  | .items kvs => .list (kvs.map fun (k, v) => .list [.str k, .str v])
  | .keyError => .exc "KeyError"

/-- decoding needs the operation to tell an empty key list from an empty item list -/
def decOut (op : Op) (v : Val) : Option Out :=
  match op, v with
  | _, .exc _ => some .keyError
  | .iter, .list ks => (ks.mapM Val.asStr?).map .keys
  | .toDict, .list kvs => (decPairs (.list kvs)).map .items
  | .len, .int n => if n ≥ 0 then some (.int n.toNat) else none
  | .mem _, .bool b => some (.bool b)
  | .get _, .str s => some (.str s)
  | .set _ _, .none => some .none
  | .del _, .none => some .none
  | _, _ => none

def check : Props.Check Input Obs :=
  { decI, decO := fun _ => none, encO := fun o => .list (o.map encOut), model, holdsOn }

/-- `Check.run` with an observation decoder that depends on the input -/
def run (v : Val) : Option Val :=
  match v with
  | .list [i, .list os] => do
    let i ← decI i
    let m := model i
    -- an observation of the wrong length or with an answer of the wrong kind is outside the
    -- observation type: the property cannot hold on it
    let bad := some (.list [.list (m.map encOut), .bool false, .bool (holdsOn i m), .exc "ObsOutsideType"])
    if os.length ≠ i.ops.length then bad else
    match (i.ops.zip os).mapM fun (op, x) => decOut op x with
    | some o => some (.list [.list (m.map encOut), .bool (holdsOn i o), .bool (holdsOn i m)])
    | none => bad
  | _ => none

def decTObs : Val → Option TObs
  | .list [.str ['d'], t, r] => some (.deps t r)
  | .list [.str ['i'], .int n] => some (.int n)
  | .list [.str ['r'], .str s] => some (.raw s)
  | _ => none

def encTObs : TObs → Val
  | .deps t r => .list [.str ['d'], t, r]
  | .int n => .list [.str ['i'], .int n]
  | .raw s => .list [.str ['r'], .str s]

def checkT : Props.Check InputT ObsT :=
  { decI := decPairs,
    decO := Props.decExcept fun
      | .list xs => xs.mapM fun | .list [.str n, t] => (decTObs t).map (n, ·) | _ => none
      | _ => none,
    encO := Props.encExcept fun out => .list (out.map fun (n, t) => .list [.str n, encTObs t]),
    model := modelT, holdsOn := holdsOnT }

def checkM : Props.Check InputM ObsM :=
  { decI := fun | .list [.str n, .str a] => some ⟨n, a⟩ | _ => none,
    decO := fun
      | .none => some none
      | .list [.str n, e, .str d] => (match e with | .none => some none | .str s => some (some s) | _ => none).map fun e => some (n, e, d)
      | _ => none,
    encO := fun
      | none => .exc "OutOfModel"
      | some (n, e, d) => .list [.str n, (match e with | none => .none | some s => .str s), .str d],
    model := modelM, holdsOn := holdsOnM }

def checkR : Props.Check InputR ObsR :=
  { decI := decPairs,
    decO := Props.decExcept decPairs,
    encO := Props.encExcept fun kvs => .list (kvs.map fun kv => .list [.str kv.1, .str kv.2]),
    model := modelR, holdsOn := holdsOnR }

end Props.C19
