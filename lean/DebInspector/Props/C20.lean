/-
C20 — Continuation-line encoding of multi-line text is safe and invertible.
Input: any text `t`.  Observation (all strings):
  enc = as_formatted_text(t), dec(enc), e1 = enc(dec(t)), e2 = enc(dec(e1)),
  and dumps(from_value(t)) for FormattedTextField, DescriptionField, LicenseField.
-/
import DebInspector.Props.Common
import DebInspector.Model.Debcon

namespace Props.C20
open Proto Py Model.Debcon

abbrev Input := Str

structure Obs where
  enc : Str
  decEnc : Str
  e1 : Str
  e2 : Str
  ft : Str
  desc : Str
  lic : Str
deriving DecidableEq, Repr

def model (t : Input) : Obs :=
  let enc := asFormattedText t
  let e1 := asFormattedText (fromFormattedText t)
  { enc, decEnc := fromFormattedText enc, e1, e2 := asFormattedText (fromFormattedText e1),
    ft := formattedTextRoundtrip t, desc := descriptionRoundtrip t, lic := licenseRoundtrip t }

/-! ### the specification -/

/-- every line after the first — lines taken at every Python line boundary — starts with a space and
is not blank: the value can never split the paragraph that contains it -/
def safe (v : Str) : Bool :=
  (splitlines v).tail.all fun l => startsWith l [' '] && !isBlank l

/-- precondition of the inverse clause, as the property states it: no line starts with a full stop,
no later line starts with a tab or another non-U+0020 white space, no trailing blank line -/
def invertible (t : Str) : Bool :=
  match splitlines t with
  | [] => false
  | l0 :: ls =>
    !startsWith l0 ['.'] &&
    ls.all (fun l => !startsWith l ['.'] && !(headP (fun c => isSpace c && c != ' ') l)) &&
    !(match (l0 :: ls).getLast? with | some l => isBlank l | none => true) &&
    !lastP isBoundary t

/-- `t` with the first line trimmed and trailing blanks removed from the others -/
def trimmed (t : Str) : Str :=
  match splitlines t with
  | [] => []
  | l0 :: ls => joinNl (strip l0 :: ls.map rstrip)

def isMarker (l : Str) : Bool := rstrip l == [' ', '.']

def trailingMarkers : List Str → Nat
  | [] => 0
  | l :: ls =>
    let n := trailingMarkers ls
    if n == ls.length then (if isMarker l then n + 1 else n) else n

/-- a policy-conformant field value: first line not blank, every later line a space followed by a
non-blank rest; a full stop alone on a line only as the marker ` .`; no reserved ` .x` lines -/
def conformant (v : Str) : Bool :=
  match splitlines v with
  | [] => false
  | l0 :: ls =>
    !isBlank l0 &&
    ls.all (fun l => startsWith l [' '] && !isBlank l &&
      (isMarker l || (!startsWith l [' ', '.'] && strip l != ['.'])))

/-- hypothesis of the partial inverse theorem (K4): the first line is not blank -/
def firstNotBlank (t : Str) : Bool := match splitlines t with | l0 :: _ => !isBlank l0 | [] => false

/-- hypothesis of the partial fixpoint theorem (K5): the value ends in at most one marker line -/
def atMostOneTrailingMarker (v : Str) : Bool := trailingMarkers (splitlines v).tail ≤ 1

def firstLine (v : Str) : Str := (splitlines v).headD []

def holdsOn (t : Input) (o : Obs) : Bool :=
  -- safety, for the encoder and the three field classes built on it
  safe o.enc && safe o.ft && safe o.desc && safe o.lic &&
  -- inverse
  (!invertible t || o.decEnc == trimmed t) &&
  -- fixpoint after one pass
  (!conformant t || o.e2 == o.e1) &&
  -- synopsis / short name stay on the first line
  (!(match splitlines t with | l0 :: _ => !isBlank l0 | [] => false) ||
    (firstLine o.desc == strip (firstLine t) && firstLine o.lic == strip (firstLine t)))

/-- the property with the hypotheses of the two known findings added (K4: first line not blank in
the inverse clause; K5: at most one trailing marker in the fixpoint clause): what the partial
theorems are about, and what decides whether a failure is *entirely* explained by K4 / K5 -/
def holdsOnPartial (t : Input) (o : Obs) : Bool :=
  safe o.enc && safe o.ft && safe o.desc && safe o.lic &&
  (!(invertible t && firstNotBlank t) || o.decEnc == trimmed t) &&
  (!(conformant t && atMostOneTrailingMarker t) || o.e2 == o.e1) &&
  (!(match splitlines t with | l0 :: _ => !isBlank l0 | [] => false) ||
    (firstLine o.desc == strip (firstLine t) && firstLine o.lic == strip (firstLine t)))

def decO : Val → Option Obs
  | .list [.str a, .str b, .str c, .str d, .str e, .str f, .str g] => some ⟨a, b, c, d, e, f, g⟩
  | _ => none

def encO (o : Obs) : Val := .list [.str o.enc, .str o.decEnc, .str o.e1, .str o.e2, .str o.ft, .str o.desc, .str o.lic]

def check : Props.Check Input Obs :=
  { decI := Val.asStr?, decO, encO, model, holdsOn }

def checkPartial : Props.Check Input Obs :=
  { decI := Val.asStr?, decO, encO, model, holdsOn := holdsOnPartial }

end Props.C20
