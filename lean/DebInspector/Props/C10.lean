/-
C10 — Copyright field line ranges locate exactly the field's content.
Input: a text and `k ≥ 0`.  Observation: the paragraphs (class, dictionary form, line ranges) of the
copyright object built from the text, and of the one built from the text with `k` blank lines on top.
-/
import DebInspector.Props.CopyrightObs
import DebInspector.Spec.Words

namespace Props.C10
open Proto Py Model.Deb822 Model.Copyright Props.CopyrightObs Spec.Words

structure Input where
  text : Str
  k : Nat

structure Obs where
  base : Except PyExc (List ParaObs)
  shifted : Except PyExc (List ParaObs)

def parasOf (t : Str) : Except PyExc (List ParaObs) :=
  match fromText t with
  | .error e => .error e
  | .ok ps => .ok (ps.map ofPara)

def model (i : Input) : Obs :=
  { base := parasOf i.text, shifted := parasOf (List.replicate i.k '\n' ++ i.text) }

/-! ### specification -/

def srcLines (t : Str) : List Str := splitLinesAscii t
def lineAt (src : List Str) (n : Nat) : Str := src.getD (n - 1) []

/-- the content of source line `n`: for a declaration line, what follows `Name:` -/
def content (src : List Str) (n : Nat) : Str :=
  let l := lineAt src n
  if isDecl l then (partitionChar ':' l).2.2 else l

/-- the words of the lines `s..e`; a declaration line contributes what follows its `Name:` (inside a merged block of
free text there are declaration lines after the first line too) -/
def rangeWords (src : List Str) (s e : Nat) : List Str :=
  words (content src s) ++ ((List.range (e - s)).flatMap fun i => words (content src (s + 1 + i)))

/-- one field with a non-empty value: it has a range, inside the file, whose first and last lines
hold content and whose lines contain every word of the value -/
def fieldOk (src : List Str) (p : ParaObs) (key : Str) (v : Str) : Bool :=
  match p.lines.lookup key with
  | none => false
  | some (s, e) =>
    decide (1 ≤ s) && decide (s ≤ e) && decide (e ≤ src.length) &&
    !isBlank (content src s) && !isBlank (lineAt src e) &&
    subMultiset (words v) (rangeWords src s e)

def paraOk (src : List Str) (p : ParaObs) : Bool :=
  p.dict.all fun kv => match kv.2 with
    | .s v => v.isEmpty || fieldOk src p kv.1 v
    | .emptyList => true

/-- the ranges of the fields with a value, in paragraph order -/
def valuedRanges (p : ParaObs) : List (Nat × Nat) :=
  p.dict.filterMap fun kv => match kv.2 with
    | .s v => if v.isEmpty then none else p.lines.lookup kv.1
    | .emptyList => none

def insertRange (r : Nat × Nat) : List (Nat × Nat) → List (Nat × Nat)
  | [] => [r]
  | x :: xs => if r.1 < x.1 then r :: x :: xs else x :: insertRange r xs

def sortRanges (l : List (Nat × Nat)) : List (Nat × Nat) := l.foldl (fun acc r => insertRange r acc) []

def disjointIncreasing : List (Nat × Nat) → Bool
  | a :: b :: rest => decide (a.2 < b.1) && disjointIncreasing (b :: rest)
  | _ => true

/-- ranges are disjoint and increasing in source order, within and across paragraphs -/
def rangesOk (ps : List ParaObs) : Bool :=
  disjointIncreasing (ps.flatMap fun p => sortRanges (valuedRanges p))

def shiftPara (k : Nat) (p : ParaObs) : ParaObs :=
  { p with lines := p.lines.map fun kv => (kv.1, (kv.2.1 + k, kv.2.2 + k)) }

def holdsOn (i : Input) (o : Obs) : Bool :=
  match o.base, o.shifted with
  | .ok ps, .ok qs =>
    let src := srcLines i.text
    ps.all (paraOk src) && rangesOk ps &&
    -- inserting k blank lines at the top shifts every range by exactly k and changes nothing else
    decide (qs = ps.map (shiftPara i.k))
  | _, _ => true     -- raising is C07's concern

def decI : Val → Option Input
  | .list [.str t, .int k] => if k ≥ 0 then some ⟨t, k.toNat⟩ else none
  | _ => none

def decO : Val → Option Obs
  | .list [a, b] => do
    let a ← Props.decExcept decParas a
    let b ← Props.decExcept decParas b
    pure ⟨a, b⟩
  | _ => none

def encO (o : Obs) : Val := .list [Props.encExcept encParas o.base, Props.encExcept encParas o.shifted]

def check : Props.Check Input Obs := { decI, decO, encO, model, holdsOn }

end Props.C10
