/-
C14 — Dependency fields parse to exactly the structure they spell.
  C14   input: groups of alternatives with an explicit whitespace layout, and the rendered text;
        obs: parse_depends(text) as a tree, its str(), the re-parse of the str(), the sorted names
  C14e  input: a package name and a malformed version clause; obs: parse_depends("name (clause)")
-/
import DebInspector.Props.Common
import DebInspector.Model.DepsParse

namespace Props.C14
open Proto Py Model.Deps Model.DepsParse

structure Alt where
  name : Str
  clause : Option (Str × Str)      -- operator, version
  archs : List Str
  lead : Str                       -- any white space before the alternative
  a : Str                          -- spaces between name and "("
  b : Str                          -- spaces after "("
  c : Str                          -- spaces between operator and version (may be empty: glued)
  d : Str                          -- spaces before ")"
  e : Str                          -- spaces before "["
  trail : Str                      -- any white space after the alternative

structure Input where
  groups : List (List Alt)
  text : Str

structure Parsed where
  tree : Rel
  str : Str
  reparse : Except PyExc Rel
  names : List Str

abbrev Obs := Except PyExc Parsed

/-! ### equality of trees -/
mutual
def relBeq : Rel → Rel → Bool
  | .simple n a, .simple n' a' => n == n' && a == a'
  | .versioned n o v a, .versioned n' o' v' a' => n == n' && o == o' && v == v' && a == a'
  | .or rs, .or rs' => relsBeq rs rs'
  | .and rs, .and rs' => relsBeq rs rs'
  | _, _ => false
def relsBeq : List Rel → List Rel → Bool
  | [], [] => true
  | r :: rs, r' :: rs' => relBeq r r' && relsBeq rs rs'
  | _, _ => false
end

def exceptRelBeq : Except PyExc Rel → Except PyExc Rel → Bool
  | .ok a, .ok b => relBeq a b
  | .error a, .error b => a == b
  | _, _ => false

/-! ### model -/

def dedup : List Str → List Str
  | [] => []
  | x :: xs => if xs.contains x then dedup xs else x :: dedup xs

def insertSorted (x : Str) : List Str → List Str
  | [] => [x]
  | y :: ys => if strLt x y then x :: y :: ys else y :: insertSorted x ys

def sortStrs (l : List Str) : List Str := l.foldl (fun acc x => insertSorted x acc) []

def model (i : Input) : Obs :=
  match parseDepends i.text with
  | .error e => .error e
  | .ok t =>
    let s := relStr t
    .ok { tree := t, str := s, reparse := parseDepends s, names := sortStrs (dedup (relNames t)) }

/-! ### specification -/

def ops7 : List Str := ["<<", "<=", "<", "=", ">=", ">", ">>"].map String.toList

def nameOk (n : Str) : Bool :=
  !n.isEmpty && n.all fun c => !isSpace c && c != '(' && c != '[' && c != ',' && c != '|'
def versionOk (v : Str) : Bool :=
  !v.isEmpty && v.all fun c => !isSpace c && c != ')' && c != ',' && c != '|' && c != '<' && c != '>' && c != '='
def archOk (a : Str) : Bool :=
  !a.isEmpty && a.all fun c => !isSpace c && c != ']' && c != ',' && c != '|'
def spaces (s : Str) : Bool := s.all (· == ' ')
def white (s : Str) : Bool := s.all isSpace

def renderAlt (x : Alt) : Str :=
  x.lead ++ x.name ++
  (match x.clause with
   | some (op, v) => x.a ++ '(' :: x.b ++ op ++ x.c ++ v ++ x.d ++ [')']
   | none => []) ++
  (if x.archs.isEmpty then [] else x.e ++ '[' :: join [' '] x.archs ++ [']']) ++
  x.trail

def render (gs : List (List Alt)) : Str :=
  join [','] (gs.map fun g => join ['|'] (g.map renderAlt))

def wfAlt (x : Alt) : Bool :=
  nameOk x.name &&
  (match x.clause with | some (op, v) => ops7.contains op && versionOk v | none => true) &&
  x.archs.all archOk && white x.lead && white x.trail &&
  spaces x.a && spaces x.b && spaces x.c && spaces x.d && spaces x.e

def wf (i : Input) : Bool :=
  i.groups.all (fun g => !g.isEmpty && g.all wfAlt) && i.text == render i.groups

def expectedAlt (x : Alt) : Rel :=
  match x.clause with
  | some (op, v) => .versioned x.name op v x.archs
  | none => .simple x.name x.archs

def expectedGroup : List Alt → Rel
  | [x] => expectedAlt x
  | g => .or (g.map expectedAlt)

def expected (gs : List (List Alt)) : Rel := .and (gs.map expectedGroup)

/-- the canonical single-spaced spelling -/
def canonAlt (x : Alt) : Str :=
  x.name ++
  (match x.clause with | some (op, v) => " (".toList ++ op ++ [' '] ++ v ++ [')'] | none => []) ++
  (if x.archs.isEmpty then [] else " [".toList ++ join [' '] x.archs ++ [']'])

def canon (gs : List (List Alt)) : Str :=
  join ", ".toList (gs.map fun g => join " | ".toList (g.map canonAlt))

def mentioned (gs : List (List Alt)) : List Str := gs.flatMap fun g => g.map (·.name)

def holdsOn (i : Input) (obs : Obs) : Bool :=
  !wf i ||
  (match obs with
   | .error _ => false
   | .ok p =>
     relBeq p.tree (expected i.groups) && p.str == canon i.groups &&
     exceptRelBeq p.reparse (.ok (expected i.groups)) &&
     p.names.all ((mentioned i.groups).contains ·) && (mentioned i.groups).all (p.names.contains ·) &&
     p.names == dedup p.names)

/-! ### malformed version clauses -/

structure InputE where
  name : Str
  clause : Str

def countRuns (p : Char → Bool) : Str → Bool → Nat
  | [], _ => 0
  | c :: cs, inRun => if p c then (if inRun then 0 else 1) + countRuns p cs true else countRuns p cs false

/-- number of operators (maximal runs of `< > =`) in a clause -/
def nOperators (cl : Str) : Nat := countRuns isOpChar cl false
/-- is there anything but operators and white space in the clause -/
def hasOperand (cl : Str) : Bool := cl.any fun c => !isOpChar c && !isSpace c

/-- no comparison operator, nothing but an operator, or more than one operator -/
def badClause (cl : Str) : Bool := nOperators cl = 0 || !hasOperand cl || nOperators cl ≥ 2

def wfE (i : InputE) : Bool :=
  nameOk i.name && !i.clause.isEmpty && !isBlank i.clause &&
  i.clause.all (fun c => c != ')' && c != ',' && c != '|') && badClause i.clause

abbrev ObsE := Except PyExc Unit

def modelE (i : InputE) : ObsE :=
  match parseDepends (i.name ++ " (".toList ++ i.clause ++ [')']) with
  | .ok _ => .ok ()
  | .error e => .error e

def holdsOnE (i : InputE) (obs : ObsE) : Bool :=
  !wfE i || (match obs with | .error e => e == .valueError | .ok _ => false)

/-! ### wire format -/

def decStrs : Val → Option (List Str)
  | .list xs => xs.mapM Val.asStr?
  | _ => none

def decAlt : Val → Option Alt
  | .list [.str n, cl, ar, .str lead, .str a, .str b, .str c, .str d, .str e, .str trail] => do
    let cl ← match cl with
      | .none => some none
      | .list [.str op, .str v] => some (some (op, v))
      | _ => none
    let ar ← decStrs ar
    pure ⟨n, cl, ar, lead, a, b, c, d, e, trail⟩
  | _ => none

def decI : Val → Option Input
  | .list [.list gs, .str text] => do
    let gs ← gs.mapM fun | .list as => as.mapM decAlt | _ => none
    pure ⟨gs, text⟩
  | _ => none

mutual
def encRel : Rel → Val
  | .simple n a => .list [.str ['s'], .str n, .list (a.map .str)]
  | .versioned n o v a => .list [.str ['v'], .str n, .str o, .str v, .list (a.map .str)]
  | .or rs => .list [.str ['o'], .list (encRels rs)]
  | .and rs => .list [.str ['a'], .list (encRels rs)]
def encRels : List Rel → List Val
  | [] => []
  | r :: rs => encRel r :: encRels rs
end

partial def decRel : Val → Option Rel
  | .list [.str ['s'], .str n, a] => do let a ← decStrs a; pure (.simple n a)
  | .list [.str ['v'], .str n, .str op, .str v, a] => do let a ← decStrs a; pure (.versioned n op v a)
  | .list [.str ['o'], .list rs] => do let rs ← rs.mapM decRel; pure (.or rs)
  | .list [.str ['a'], .list rs] => do let rs ← rs.mapM decRel; pure (.and rs)
  | _ => none

def decParsed : Val → Option Parsed
  | .list [t, .str s, r, ns] => do
    let t ← decRel t
    let r ← Props.decExcept decRel r
    let ns ← decStrs ns
    pure ⟨t, s, r, ns⟩
  | _ => none

def encParsed (p : Parsed) : Val :=
  .list [encRel p.tree, .str p.str, Props.encExcept encRel p.reparse, .list (p.names.map .str)]

def check : Props.Check Input Obs :=
  { decI, decO := Props.decExcept decParsed, encO := Props.encExcept encParsed, model, holdsOn }

def decIE : Val → Option InputE
  | .list [.str n, .str c] => some ⟨n, c⟩
  | _ => none

def checkE : Props.Check InputE ObsE :=
  { decI := decIE, decO := Props.decExcept (fun | .none => some () | _ => none),
    encO := Props.encExcept (fun _ => .none), model := modelE, holdsOn := holdsOnE }

end Props.C14
