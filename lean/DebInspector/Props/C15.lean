/-
C15 — Relationship matching is three-valued, compositional and follows dpkg order.
Input: a relationship tree, a candidate name, an optional candidate version.
Observation: `tree.matches(name, version)` ∈ {True, False, None} or the exception type.
A second check (`C15m`) observes `package.match_relationships`.
-/
import DebInspector.Props.Common
import DebInspector.Model.Deps
import DebInspector.Spec.DpkgOrder

namespace Props.C15
open Proto Py Spec Model.Deps

structure Input where
  tree : Rel
  name : Str
  version : Option Str

abbrev Obs := Except PyExc Tri

def model (i : Input) : Obs := relMatches i.name i.version i.tree

/-! ### the specification, in the words of the property -/

/-- the relation each operator states, as a function of dpkg's three-way result
(candidate on the left, required version on the right) -/
def opHolds (op : String) (r : Int) : Option Bool :=
  if op = "<<" then some (decide (r < 0))
  else if op = "<=" then some (decide (r ≤ 0))
  else if op = "<" then some (decide (r ≤ 0))
  else if op = "=" then some (decide (r = 0))
  else if op = ">=" then some (decide (r ≥ 0))
  else if op = ">" then some (decide (r ≥ 0))
  else if op = ">>" then some (decide (r > 0))
  else none

/-- is a version string one that must be accepted (`some true`), one that is not policy-valid and so
must be rejected with ValueError (`some false`), or one on which C03 leaves the choice (`none`) -/
def acceptance (s : Str) : Option Bool :=
  let t := strip s
  if Policy.mustAccept Generated.intMaxStrDigits t then some true
  else if !Policy.valid t then some false
  else none

mutual
def spec (name : Str) (version : Option Str) : Rel → Except PyExc Tri
  | .simple n archs =>
    -- None when the name is not mentioned; True for an unversioned relationship with that name
    if n = name then (if !archs.isEmpty then .error .notImplementedError else .ok .t) else .ok .n
  | .versioned n op v archs =>
    if n = name then
      match version with
      | none => .ok .f            -- versioned, no candidate version given
      | some cand =>
        if !archs.isEmpty then .error .notImplementedError
        else if acceptance cand = some true && acceptance v = some true then
          match opHolds (String.ofList op) (VerOrder.dpkgCmpVersions (strip cand) (strip v)) with
          | some b => .ok (Tri.ofBool b)
          | none => .error .valueError      -- unknown operator
        else .error .valueError             -- an invalid version
    else .ok .n
  | .or rs => specOr name version rs .n
  | .and rs =>
    match specAll name version rs with
    | .error e => .error e
    | .ok results =>
      -- None if every member answers None, else whether every non-None member is True
      if results.all (· = .n) then .ok .n
      else .ok (Tri.ofBool ((results.filter (· ≠ .n)).all (· = .t)))

/-- True if any member does, else False if any does, else None (members are asked left to right) -/
def specOr (name : Str) (version : Option Str) : List Rel → Tri → Except PyExc Tri
  | [], acc => .ok acc
  | r :: rs, acc =>
    match spec name version r with
    | .error e => .error e
    | .ok .t => .ok .t
    | .ok .f => specOr name version rs .f
    | .ok .n => specOr name version rs acc

def specAll (name : Str) (version : Option Str) : List Rel → Except PyExc (List Tri)
  | [] => .ok []
  | r :: rs =>
    match spec name version r with
    | .error e => .error e
    | .ok x =>
      match specAll name version rs with
      | .error e => .error e
      | .ok xs => .ok (x :: xs)
end

mutual
/-- every version string in the tree is one whose acceptance C03 determines -/
def determined : Rel → Bool
  | .simple _ _ => true
  | .versioned _ _ v _ => (acceptance v).isSome
  | .or rs => determinedList rs
  | .and rs => determinedList rs
def determinedList : List Rel → Bool
  | [] => true
  | r :: rs => determined r && determinedList rs
end

/-- the candidate version, if given, is one whose acceptance C03 determines -/
def candOk : Option Str → Bool
  | none => true
  | some c => (acceptance c).isSome

def holdsOn (i : Input) (obs : Obs) : Bool :=
  !(determined i.tree && candOk i.version) || decide (obs = spec i.name i.version i.tree)

/-! ### `match_relationships` -/

structure InputM where
  name : Str
  version : Option Str
  sets : List Rel

def modelM (i : InputM) : Obs := matchRelationships i.name i.version i.sets .n

/-- the sets are asked in order up to the first one answering False: then False; otherwise True if
some set answered True, else None -/
def specM (name : Str) (version : Option Str) : List Rel → Tri → Except PyExc Tri
  | [], acc => .ok acc
  | r :: rs, acc =>
    match spec name version r with
    | .error e => .error e
    | .ok .f => .ok .f
    | .ok .t => specM name version rs .t
    | .ok .n => specM name version rs acc

def holdsOnM (i : InputM) (obs : Obs) : Bool :=
  !(determinedList i.sets && candOk i.version) || decide (obs = specM i.name i.version i.sets .n)

/-! ### wire format -/

def decStrs : Val → Option (List Str)
  | .list xs => xs.mapM Val.asStr?
  | _ => none

partial def decRel : Val → Option Rel
  | .list [.str ['s'], .str n, a] => do let a ← decStrs a; pure (.simple n a)
  | .list [.str ['v'], .str n, .str op, .str v, a] => do let a ← decStrs a; pure (.versioned n op v a)
  | .list [.str ['o'], .list rs] => do let rs ← rs.mapM decRel; pure (.or rs)
  | .list [.str ['a'], .list rs] => do let rs ← rs.mapM decRel; pure (.and rs)
  | _ => none

def decVer : Val → Option (Option Str)
  | .none => some none
  | .str s => if s.isEmpty then some none else some (some s)
  | _ => none

def decI : Val → Option Input
  | .list [t, .str n, v] => do let t ← decRel t; let v ← decVer v; pure ⟨t, n, v⟩
  | _ => none

def decIM : Val → Option InputM
  | .list [.str n, v, .list sets] => do
    let v ← decVer v; let sets ← sets.mapM decRel; pure ⟨n, v, sets⟩
  | _ => none

def encTri : Tri → Val
  | .t => .bool true
  | .f => .bool false
  | .n => .none

def decTri : Val → Option Tri
  | .bool true => some .t
  | .bool false => some .f
  | .none => some .n
  | _ => none

def check : Props.Check Input Obs :=
  { decI, decO := Props.decExcept decTri, encO := Props.encExcept encTri, model, holdsOn }

def checkM : Props.Check InputM Obs :=
  { decI := decIM, decO := Props.decExcept decTri, encO := Props.encExcept encTri, model := modelM, holdsOn := holdsOnM }

end Props.C15
