/-
C12 — Blank lines inside multi-line values are recovered, not paragraph breaks.
Input: the lines of a well-formed document, a set of positions of ` .` marker lines, and for each a
blank replacement.  Observation: field groups and copyright paragraphs for the original text and for
the text with those markers blanked.
-/
import DebInspector.Props.C11

namespace Props.C12
open Proto Py Model.Deb822 Model.Copyright Props.CopyrightObs Spec.Words

structure Input where
  lines : List Str
  marks : List (Nat × Str)          -- 0-based line index, replacement

structure Side where
  groups : Props.C05.Obs
  paras : Except PyExc (List ParaObs)

structure Obs where
  orig : Side
  blanked : Side

def render (ls : List Str) : Str := (ls.flatMap fun l => l ++ ['\n'])

def blankedLines (i : Input) : List Str :=
  (List.range i.lines.length).map fun j =>
    match i.marks.lookup j with
    | some r => r
    | none => i.lines.getD j []

def side (t : Str) : Side :=
  { groups := Props.C05.model t,
    paras := match fromText t with
      | .error e => .error e
      | .ok ps => .ok (ps.map ofPara) }

def model (i : Input) : Obs := { orig := side (render i.lines), blanked := side (render (blankedLines i)) }

/-! ### specification -/

def noTerminator (l : Str) : Bool := !l.contains '\n' && !l.contains '\r'

/-- a well-formed document: every non-empty line is a declaration or a continuation line, and every
continuation line follows a non-empty line (so it belongs to a field) -/
def wfDoc (ls : List Str) : Bool :=
  ls.all (fun l => noTerminator l && (l.isEmpty || isDecl l || isCont l)) &&
  (List.range ls.length).all fun j =>
    !isCont (ls.getD j []) || (j > 0 && !(ls.getD (j - 1) []).isEmpty)

def marker : Str := [' ', '.']

/-- every chosen position holds a ` .` marker, is replaced by an empty or white-space-only line, and
is followed — after the replacement — by a continuation line of the same field -/
def wfMarks (i : Input) : Bool :=
  i.marks.all fun (j, r) =>
    i.lines.getD j [] == marker && isBlank r && noTerminator r &&
    j + 1 < i.lines.length && isCont (i.lines.getD (j + 1) []) && (i.marks.lookup (j + 1)).isNone &&
    (i.marks.filter (·.1 == j)).length == 1

def wf (i : Input) : Bool := wfDoc i.lines && wfMarks i

/-- the expected groups: only the line text of the replaced markers differs -/
def expectedGroups (i : Input) (g : Props.C05.Obs) : Props.C05.Obs :=
  g.map fun grp => grp.map fun f =>
    (f.1, f.2.map fun lv => if (i.marks.lookup (lv.1 - 1)).isSome && lv.1 > 0 then (lv.1, []) else lv)

def sameWords (a b : DV) : Bool :=
  match a, b with
  | .s x, .s y => sameMultiset (words x) (words y)
  | .emptyList, .emptyList => true
  | _, _ => false

def sameParas (ps qs : List ParaObs) : Bool :=
  ps.length == qs.length &&
  (ps.zip qs).all fun (p, q) =>
    p.kind == q.kind && p.dict.map (·.1) == q.dict.map (·.1) &&
    (p.dict.zip q.dict).all fun (a, b) => sameWords a.2 b.2

def holdsOn (i : Input) (o : Obs) : Bool :=
  !wf i ||
  (decide (o.blanked.groups = expectedGroups i o.orig.groups) &&
   (match o.orig.paras, o.blanked.paras with
    | .ok ps, .ok qs => sameParas ps qs
    | _, _ => false))


def decI : Val → Option Input
  | .list [.list ls, .list ms] => do
    let ls ← ls.mapM Val.asStr?
    let ms ← ms.mapM fun
      | .list [.int j, .str r] => if j ≥ 0 then some (j.toNat, r) else none
      | _ => none
    pure ⟨ls, ms⟩
  | _ => none

def decSide : Val → Option Side
  | .list [g, p] => do
    let g ← Props.C05.decO g
    let p ← Props.decExcept decParas p
    pure ⟨g, p⟩
  | _ => none

def encSide (s : Side) : Val := .list [Props.C05.encO s.groups, Props.encExcept encParas s.paras]

def decO : Val → Option Obs
  | .list [a, b] => do let a ← decSide a; let b ← decSide b; pure ⟨a, b⟩
  | _ => none

def encO (o : Obs) : Val := .list [encSide o.orig, encSide o.blanked]

def check : Props.Check Input Obs := { decI, decO, encO, model, holdsOn }

end Props.C12
