/-
C06 — Well-formed deb822 documents parse to exactly their paragraphs and fields.
Input: a document (paragraphs of fields: name, first-line value, continuation lines), a layout
(blanks after each colon, the separator after each paragraph, final newline or not) and the text.
Observation: the line-tracking parser (names and line values) and the header-style parser.
-/
import DebInspector.Props.Common
import DebInspector.Model.Deb822
import DebInspector.Model.Email

namespace Props.C06
open Proto Py

structure Field where
  name : Str
  value : Str
  conts : List Str
  sp : Str               -- blanks between the colon and the value

structure Para where
  fields : List Field
  sep : List Str         -- after the paragraph: white-space-only lines following the first empty line

structure Input where
  paras : List Para
  finalNl : Bool
  text : Str

abbrev Groups := List (List (Str × List Str))
abbrev Dicts := List (List (Str × Str))

structure Obs where
  tracking : Except PyExc Groups
  headers : Except PyExc Dicts

def model (i : Input) : Obs :=
  { tracking := .ok ((Model.Deb822.parse i.text).map fun g => g.map fun f => (f.name, f.lines.map (·.val))),
    headers := .ok (Model.Email.getParagraphsData i.text) }

/-! ### specification -/

def joinNl : List Str → Str
  | [] => []
  | [l] => l
  | l :: ls => l ++ '\n' :: joinNl ls

def fieldLines (f : Field) : List Str := (f.name ++ ':' :: f.sp ++ f.value) :: f.conts

def renderPara (p : Para) : Str := joinNl (p.fields.flatMap fieldLines)

/-- paragraphs separated by one empty line plus any number of white-space-only lines -/
def render : List Para → Bool → Str
  | [], _ => []
  | [p], fin => renderPara p ++ (if fin then ['\n'] else [])
  | p :: q :: rest, fin => renderPara p ++ '\n' :: '\n' :: (p.sep.flatMap fun l => l ++ ['\n']) ++ render (q :: rest) fin

/-- a policy-legal field name: printable ASCII except colon and space, not starting with `#` or `-` -/
def policyName (n : Str) : Bool :=
  !n.isEmpty && n.all (fun c => 0x21 ≤ c.toNat && c.toNat ≤ 0x7e && c != ':') && !headP (fun c => c == '#' || c == '-') n

/-- the names both parsers read: a letter, then letters, digits and hyphens (finding K3 is about the rest) -/
def narrowName (n : Str) : Bool := headP isAsciiAlpha n && n.all fun c => isAsciiAlnum c || c == '-'

def lineOk (l : Str) : Bool := !l.contains '\n' && !l.contains '\r' && !lastP isSpace l

def fieldOk (nameOk : Str → Bool) (f : Field) : Bool :=
  nameOk f.name && lowerAscii f.name != "licence".toList &&
  lineOk f.value && !headP isSpace f.value &&
  f.conts.all (fun c => lineOk c && Model.Deb822.isCont c) &&
  f.sp.all (fun c => c == ' ' || c == '\t') &&
  -- a value-less first line has no blanks after the colon ("no line ends in blanks")
  (!f.value.isEmpty || f.sp.isEmpty)

def distinctNames (p : Para) : Bool :=
  let ns := p.fields.map fun f => lowerAscii f.name
  ns.length == (ns.foldl (fun acc n => if acc.contains n then acc else acc ++ [n]) []).length

def wfWith (nameOk : Str → Bool) (i : Input) : Bool :=
  !i.paras.isEmpty &&
  i.paras.all (fun p => !p.fields.isEmpty && p.fields.all (fieldOk nameOk) && distinctNames p &&
    p.sep.all fun l => l.all (fun c => c == ' ' || c == '\t')) &&
  i.text == render i.paras i.finalNl

def expectedTracking (i : Input) : Groups :=
  i.paras.map fun p => p.fields.map fun f =>
    (lowerAscii f.name, if f.value.isEmpty && f.conts.isEmpty then [] else f.value :: f.conts)

def expectedHeaders (i : Input) : Dicts :=
  i.paras.map fun p => p.fields.map fun f =>
    (lowerAscii f.name, strip (if f.conts.isEmpty then f.value else f.value ++ '\n' :: joinNl f.conts))

def holdsWith (nameOk : Str → Bool) (i : Input) (o : Obs) : Bool :=
  !wfWith nameOk i ||
  (decide (o.tracking = .ok (expectedTracking i)) && decide (o.headers = .ok (expectedHeaders i)))

/-- the property at full strength: any policy-legal field name -/
def holdsOn (i : Input) (o : Obs) : Bool := holdsWith policyName i o

/-- with the hypothesis of finding K3 added -/
def holdsOnNarrow (i : Input) (o : Obs) : Bool := holdsWith narrowName i o

/-! ### wire format -/

def decStrs : Val → Option (List Str)
  | .list xs => xs.mapM Val.asStr?
  | _ => none

def decField : Val → Option Field
  | .list [.str n, .str v, cs, .str sp] => do let cs ← decStrs cs; pure ⟨n, v, cs, sp⟩
  | _ => none

def decPara : Val → Option Para
  | .list [.list fs, sep] => do let fs ← fs.mapM decField; let sep ← decStrs sep; pure ⟨fs, sep⟩
  | _ => none

def decI : Val → Option Input
  | .list [.list ps, .bool fin, .str text] => do let ps ← ps.mapM decPara; pure ⟨ps, fin, text⟩
  | _ => none

def decGroups : Val → Option Groups
  | .list gs => gs.mapM fun
    | .list fs => fs.mapM fun | .list [.str n, ls] => (decStrs ls).map (n, ·) | _ => none
    | _ => none
  | _ => none

def decDicts : Val → Option Dicts
  | .list ds => ds.mapM fun
    | .list kvs => kvs.mapM fun | .list [.str k, .str v] => some (k, v) | _ => none
    | _ => none
  | _ => none

def encGroups (g : Groups) : Val := .list (g.map fun fs => .list (fs.map fun f => .list [.str f.1, .list (f.2.map .str)]))
def encDicts (d : Dicts) : Val := .list (d.map fun kvs => .list (kvs.map fun kv => .list [.str kv.1, .str kv.2]))

def decO : Val → Option Obs
  | .list [a, b] => do
    let a ← Props.decExcept decGroups a
    let b ← Props.decExcept decDicts b
    pure ⟨a, b⟩
  | _ => none

def encO (o : Obs) : Val := .list [Props.encExcept encGroups o.tracking, Props.encExcept encDicts o.headers]

def check : Props.Check Input Obs := { decI, decO, encO, model, holdsOn }
def checkNarrow : Props.Check Input Obs := { decI, decO, encO, model, holdsOn := holdsOnNarrow }

end Props.C06
