/-
C09 — Machine-readable copyright files are recognised paragraph by paragraph.
Input: a DEP-5 document by its structure, and its text.  Observation: per paragraph its class, its
typed fields, its extra data (raw), and `is_valid()` of the whole object.
-/
import DebInspector.Props.Dep5

namespace Props.C09
open Proto Py Model.Copyright Props.Dep5 Props.CopyrightObs

structure PObs where
  kind : Kind
  fields : List (Str × FV)
  extra : List (Str × DV)
deriving DecidableEq

structure Full where
  paras : List PObs
  valid : Bool

abbrev Obs := Except PyExc Full

def model (d : Doc) : Obs :=
  match fromText d.text with
  | .error e => .error e
  | .ok ps => .ok { paras := ps.map fun p => ⟨p.kind, p.fields, p.extra⟩, valid := docIsValid ps false }

/-- the typed fields and extra data one paragraph of the document spells -/
def paraMatches (p : Dep5.Para) (o : PObs) : Bool :=
  some o.kind == paraKind p &&
  -- every known field of the document has its typed value; every other declared field is absent/empty
  (p.filter (·.kind != 5)).all (fun f => o.fields.lookup (fieldKey f) == some (expectedFV f)) &&
  o.fields.all (fun nf =>
    (p.any fun f => f.kind != 5 && fieldKey f == nf.1) ||
      nf.2 == fromValue ((typedFields o.kind).lookup nf.1 |>.getD "") none) &&
  -- unknown fields are kept as extra data, in order, verbatim
  o.extra == (p.filter (·.kind == 5)).map fun f => (fieldKey f, .s (expectedExtra f))

def holdsOn (d : Doc) (o : Obs) : Bool :=
  !wf d ||
  (match o with
   | .error _ => false
   | .ok full =>
     full.paras.length == d.paras.length &&
     (d.paras.zip full.paras).all (fun (p, q) => paraMatches p q) &&
     -- valid exactly when the document has a files paragraph (a header is always there)
     full.valid == d.paras.any fun p => paraKind p == some .files)

def decP : Val → Option PObs
  | .list [k, .list fs, .list ex] => do
    let k ← decKind k
    let fs ← fs.mapM fun | .list [.str n, v] => (decFV v).map (n, ·) | _ => none
    let ex ← ex.mapM fun | .list [.str n, v] => (decDV v).map (n, ·) | _ => none
    pure ⟨k, fs, ex⟩
  | _ => none

def encP (p : PObs) : Val :=
  .list [encKind p.kind, .list (p.fields.map fun nf => .list [.str nf.1, encFV nf.2]),
         .list (p.extra.map fun nv => .list [.str nv.1, encDV nv.2])]

def decO : Val → Option Obs := Props.decExcept fun
  | .list [.list ps, .bool v] => do let ps ← ps.mapM decP; pure ⟨ps, v⟩
  | _ => none

def encO : Obs → Val := Props.encExcept fun f => .list [.list (f.paras.map encP), .bool f.valid]

def check : Props.Check Doc Obs := { decI := decDoc, decO, encO, model, holdsOn }

end Props.C09
