/-
C13 — Rendering a copyright object is a faithful fixpoint.
Input: a DEP-5 document (structure + text).  Observation: for `c = from_text(text)`:
  the class and dictionary form of each paragraph of `c`, `c.dumps()`,
  the same for `c2 = from_text(c.dumps())` and `c2.dumps()`,
  and for each paragraph `p` of `c` the dictionary form of `from_dict(to_dict(p))`.
-/
import DebInspector.Props.Dep5

namespace Props.C13
open Proto Py Model.Copyright Props.Dep5 Props.CopyrightObs

abbrev KD := Kind × List (Str × DV)

structure Full where
  first : List KD
  dumps1 : Str
  second : List KD
  dumps2 : Str
  fromDict : List (List (Str × DV))
deriving DecidableEq

abbrev Obs := Except PyExc Full

/-- `cls.from_dict(data)` -/
def dictItem (kv : Str × DV) : Option (Str × Str) :=
  match kv.2 with
  | .s v => if v.isEmpty then none else some (replaceChar '-' '_' kv.1, v)
  | .emptyList => none

def fromDict (k : Kind) (data : List (Str × DV)) : Model.Copyright.Para :=
  let tf := typedFields k
  let items := data.filterMap dictItem
  let known := items.filter fun kv => (tf.map (·.1)).contains kv.1
  let extra := items.filter fun kv => !(tf.map (·.1)).contains kv.1
  { kind := k,
    fields := tf.map fun nc => (nc.1, fromValue nc.2 ((known.reverse.lookup nc.1))),
    extra := extra.foldl (fun d kv => lset d kv.1 (.s kv.2)) [],
    lines := [] }

def kd (p : Model.Copyright.Para) : KD := (p.kind, toDict p)

def model (d : Doc) : Obs :=
  match fromText d.text with
  | .error e => .error e
  | .ok ps =>
    match docDumps ps with
    | .error e => .error e
    | .ok d1 =>
      match fromText d1 with
      | .error e => .error e
      | .ok qs =>
        match docDumps qs with
        | .error e => .error e
        | .ok d2 =>
          .ok { first := ps.map kd, dumps1 := d1, second := qs.map kd, dumps2 := d2,
                fromDict := ps.map fun p => toDict (fromDict p.kind (toDict p)) }

/-- no line of the rendering inside a paragraph is blank: it has exactly one block per paragraph,
blocks separated by exactly one empty line -/
def blocks (t : Str) : List (List Str) :=
  let ls := splitLinesAscii t
  ls.foldr (fun l acc => if isBlank l then [] :: acc else
    match acc with
    | b :: rest => (l :: b) :: rest
    | [] => [[l]]) [[]]

def noBlankInside (t : Str) (n : Nat) : Bool :=
  let bs := blocks t
  (bs.filter (!·.isEmpty)).length == n && bs.length == (if n == 0 then 1 else n)

/-- does the document have an unknown field with a continuation line (finding K1) -/
def hasMultilineExtra (d : Doc) : Bool := d.paras.any fun p => p.any fun f => f.kind == 5 && !f.conts.isEmpty

def holdsWith (excludeK1 : Bool) (d : Doc) (o : Obs) : Bool :=
  !wf d true || (excludeK1 && hasMultilineExtra d) ||
  (match o with
   | .error _ => false
   | .ok f =>
     -- same paragraph types and dictionary form after render → parse; rendering again gives the same text
     f.second == f.first && f.dumps2 == f.dumps1 &&
     -- rebuilding any paragraph from its own dictionary form reproduces it
     f.fromDict == f.first.map (·.2) &&
     -- the rendering splits back into the same number of paragraphs
     noBlankInside f.dumps1 f.first.length)

def holdsOn (d : Doc) (o : Obs) : Bool := holdsWith false d o
def holdsOnK1 (d : Doc) (o : Obs) : Bool := holdsWith true d o

def decDict : Val → Option (List (Str × DV))
  | .list kvs => kvs.mapM fun | .list [.str k, v] => (decDV v).map (k, ·) | _ => none
  | _ => none
def encDict (d : List (Str × DV)) : Val := .list (d.map fun kv => .list [.str kv.1, encDV kv.2])

def decKD : Val → Option KD
  | .list [k, d] => do let k ← decKind k; let d ← decDict d; pure (k, d)
  | _ => none
def encKD (x : KD) : Val := .list [encKind x.1, encDict x.2]

def decO : Val → Option Obs := Props.decExcept fun
  | .list [.list a, .str d1, .list b, .str d2, .list fd] => do
    let a ← a.mapM decKD; let b ← b.mapM decKD; let fd ← fd.mapM decDict
    pure ⟨a, d1, b, d2, fd⟩
  | _ => none

def encO : Obs → Val := Props.encExcept fun f =>
  .list [.list (f.first.map encKD), .str f.dumps1, .list (f.second.map encKD), .str f.dumps2, .list (f.fromDict.map encDict)]

def check : Props.Check Doc Obs := { decI := decDoc, decO, encO, model, holdsOn }
def checkK1 : Props.Check Doc Obs := { decI := decDoc, decO, encO, model, holdsOn := holdsOnK1 }

end Props.C13
