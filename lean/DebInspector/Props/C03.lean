/-
C03 — Version strings: accepted language and dpkg-style decomposition.
Input: any string.  Observation: `Version.from_string(s).tuple()` or the exception type.
-/
import DebInspector.Props.Common
import DebInspector.Model.Version
import DebInspector.Spec.Dpkg

namespace Props.C03
open Proto Py Spec

abbrev Input := Str
abbrev Obs := Except PyExc (Nat × Str × Str)

def model (s : Input) : Obs :=
  (Model.Version.fromString s).map fun v => (v.epoch, v.upstream, v.revision)

/-- (1) accepted ⇒ the trimmed string is policy-valid and is split as dpkg splits it;
    (2) rejected ⇒ with `ValueError`;
    (3) every policy-valid string whose upstream and revision end in an alphanumeric is accepted.
    Stated at full strength: clause (3) has no exception for long epochs (finding K2). -/
def holdsOn (s : Input) (obs : Obs) : Bool :=
  let t := strip s
  (match obs with
   | .ok r => Policy.valid t && r == Policy.split t
   | .error k => k == .valueError) &&
  (!Policy.mustAccept 0 t || Props.isOk obs)

/-- hypothesis of the partial theorem (K2): the interpreter can convert the epoch -/
def epochConvertible (s : Input) : Bool :=
  Generated.intMaxStrDigits = 0 || Policy.epochLen (strip s) ≤ Generated.intMaxStrDigits

def decO : Val → Option Obs := Props.decExcept fun
  | .list [.int e, .str u, .str r] => if e ≥ 0 then some (e.toNat, u, r) else none
  | _ => none

def encO : Obs → Val := Props.encExcept fun (e, u, r) => .list [.int e, .str u, .str r]

def check : Props.Check Input Obs :=
  { decI := Val.asStr?, decO, encO, model, holdsOn }

end Props.C03
