/-
Shared shape of a property: the quantified input, the observation the property talks about, the
model that produces the observation, and the property itself as an executable predicate
`holdsOn : Input → Obs → Bool`.  The same `holdsOn` is (a) what the theorem `∀ i, holdsOn i (model i)`
is about and (b) what the driver evaluates on the implementation's observations.
-/
import DebInspector.Proto
import DebInspector.Py.Exc

namespace Props
open Proto Py

structure Check (I O : Type) where
  decI : Val → Option I
  decO : Val → Option O
  encO : O → Val
  model : I → O
  holdsOn : I → O → Bool

/-- request `[input, implObs]` ↦ reply `[modelObs, holdsOn input implObs, holdsOn input modelObs]`;
an observation that is not of the observation type counts as `holdsOn = false` (fourth element `ObsOutsideType`);
request `[input]` ↦ reply `[modelObs, holdsOn input modelObs]` -/
def Check.run {I O} (p : Check I O) : Val → Option Val
  | .list [i, o] => do
    let i ← p.decI i
    let m := p.model i
    match p.decO o with
    | some o => some (.list [p.encO m, .bool (p.holdsOn i o), .bool (p.holdsOn i m)])
    | none =>
      -- the implementation's observation is outside the observation type the property is stated
      -- over (a negative line number, a value of the wrong kind): the property cannot hold on it
      some (.list [p.encO m, .bool false, .bool (p.holdsOn i m), .exc "ObsOutsideType"])
  | .list [i] => do
    let i ← p.decI i
    let m := p.model i
    some (.list [p.encO m, .bool (p.holdsOn i m)])
  | _ => none

def encExc (e : PyExc) : Val := .exc e.name

def decExc (s : String) : PyExc :=
  if s = "ValueError" then .valueError
  else if s = "TypeError" then .typeError
  else if s = "AssertionError" then .assertionError
  else if s = "KeyError" then .keyError
  else if s = "IndexError" then .indexError
  else if s = "AttributeError" then .attributeError
  else if s = "NotImplementedError" then .notImplementedError
  else if s = "OutOfModel" then .outOfModel
  else .exception

def encExcept {α} (f : α → Val) : Except PyExc α → Val
  | .ok a => f a
  | .error e => encExc e

def decExcept {α} (f : Val → Option α) : Val → Option (Except PyExc α)
  | .exc k => some (.error (decExc k))
  | v => (f v).map .ok

def decPairStr : Val → Option (Str × Str)
  | .list [.str a, .str b] => some (a, b)
  | _ => none

def isOk {ε α} : Except ε α → Bool | .ok _ => true | .error _ => false

end Props
