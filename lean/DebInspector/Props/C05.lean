/-
C05 — Line-tracking deb822 parser accounts for every source line exactly.
Input: any text.  Observation: `get_paragraphs_as_field_groups(text)` as
`[[ (name, [(number, value)]) ]]`.
-/
import DebInspector.Props.Common
import DebInspector.Model.Deb822

namespace Props.C05
open Proto Py Model.Deb822

abbrev Input := Str
abbrev FieldObs := Str × List (Nat × Str)
abbrev Obs := List (List FieldObs)

def obsOf (ps : List (List Fld)) : Obs :=
  ps.map fun g => g.map fun f => (f.name, f.lines.map fun l => (l.num, l.val))

def model (t : Input) : Obs := obsOf (parse t)

/-! ### specification -/

/-- the source lines: lines end at LF, CRLF or CR (form feeds and other separators do not end a line) -/
def srcLines (t : Str) : List Str := splitLinesAscii t

/-- a declaration line: a name of ASCII letters, digits and hyphens starting with a letter, then a colon
(the four non-ASCII code points that case-fold to ASCII letters are admitted by the implementation's
case-insensitive pattern and are part of the specification of "declaration" here) -/
def declaration (l : Str) : Bool := isDecl l

/-- normalised field name of a declaration line: lower-cased, "licence" spelled "license" -/
def normName (l : Str) : Str :=
  let n := lowerName (strip (partitionChar ':' l).1)
  if n = licence then license else n

def declValue (l : Str) : Str := strip (partitionChar ':' l).2.2

def allNums (o : Obs) : List Nat := o.flatMap fun g => g.flatMap fun f => f.2.map (·.1)

def strictlyIncreasing : List Nat → Bool
  | a :: b :: rest => decide (a < b) && strictlyIncreasing (b :: rest)
  | _ => true

def consecutive : List Nat → Bool
  | a :: b :: rest => decide (b = a + 1) && consecutive (b :: rest)
  | _ => true

def lineAt (src : List Str) (n : Nat) : Str := src.getD (n - 1) []

/-- a synthetic one-line "unknown" paragraph for an unparsable line -/
def isSynthetic (src : List Str) (g : List FieldObs) : Bool :=
  match g with
  | [(name, [(n, v)])] =>
    name == unknownName && !declaration (lineAt src n) && v == lineAt src n && !isBlank v
  | _ => false

/-- every reported line carries its own text -/
def fieldOwnText (src : List Str) (f : FieldObs) : Bool :=
  match f.2 with
  | [] => true
  | (n, v) :: rest =>
    declaration (lineAt src n) && f.1 == normName (lineAt src n) && v == declValue (lineAt src n) &&
    rest.all fun (m, w) => w == rstrip (lineAt src m)

def paraNums (g : List FieldObs) : List Nat := g.flatMap fun f => f.2.map (·.1)

def separated (src : List Str) : List (List FieldObs) → Bool
  | p :: q :: rest =>
    (isSynthetic src p || isSynthetic src q ||
      (match (paraNums p).getLast?, (paraNums q).head? with
       | some a, some b => (List.range (b - a - 1)).any fun k => isBlank (lineAt src (a + 1 + k))
       | _, _ => true)) && separated src (q :: rest)
  | _ => true

def holdsOn (t : Input) (o : Obs) : Bool :=
  let src := srcLines t
  let nums := allNums o
  -- (1) each source line at most once, true 1-based numbers, strictly increasing over the whole result
  strictlyIncreasing nums && nums.all (fun n => 1 ≤ n && n ≤ src.length) &&
  -- (2) contiguous inside a field
  o.all (fun g => g.all fun f => consecutive (f.2.map (·.1))) &&
  -- (3) own text
  o.all (fun g => isSynthetic src g || g.all (fieldOwnText src)) &&
  -- (4) the only unreported lines: blank lines, and declarations with no value
  (List.range src.length).all (fun i =>
    nums.contains (i + 1) || isBlank (src.getD i []) ||
      (declaration (src.getD i []) && (declValue (src.getD i [])).isEmpty)) &&
  -- (5) paragraphs are separated by an unreported blank line (or one of them is an unparsable line)
  separated src o && o.all (fun g => !g.isEmpty)

/-! ### wire format -/

def decField : Val → Option FieldObs
  | .list [.str n, .list ls] => do
    let ls ← ls.mapM fun
      | .list [.int k, .str v] => if k ≥ 0 then some (k.toNat, v) else none
      | _ => none
    pure (n, ls)
  | _ => none

def decO : Val → Option Obs
  | .list ps => ps.mapM fun | .list fs => fs.mapM decField | _ => none
  | _ => none

def encO (o : Obs) : Val :=
  .list (o.map fun g => .list (g.map fun f => .list [.str f.1, .list (f.2.map fun (lv : Nat × Str) => .list [.int lv.1, .str lv.2])]))

def check : Props.Check Input Obs :=
  { decI := Val.asStr?, decO, encO, model, holdsOn }

end Props.C05
