/-
C04 — Printing a version and parsing it back gives the same version.
Input: any string.  Observation: for an accepted `s`: the tuple of `v = from_string(s)`, `p = str(v)`,
and either the exception of `from_string(p)` or its tuple and its `str`.
-/
import DebInspector.Props.Common
import DebInspector.Model.Version
import DebInspector.Spec.Dpkg

namespace Props.C04
open Proto Py Spec

abbrev Tup := Nat × Str × Str
abbrev Input := Str
abbrev Obs := Except PyExc (Tup × Str × Except PyExc (Tup × Str))

def tup (v : Model.Version.Ver) : Tup := (v.epoch, v.upstream, v.revision)

def model (s : Input) : Obs :=
  match Model.Version.fromString s with
  | .error e => .error e
  | .ok v =>
    let p := Model.Version.toStr v
    .ok (tup v, p,
      match Model.Version.fromString p with
      | .error e => .error e
      | .ok v2 => .ok (tup v2, Model.Version.toStr v2))

/-- the canonical spelling of the epoch: no leading zeros, omitted when zero -/
def epochPrefix (e : Nat) : Str := if e ≠ 0 then natToStr e ++ [':'] else []

/-- the printed form differs from the trimmed input at most by a normalised epoch and an omitted
`-0` revision -/
def shape (t : Tup) (p : Str) : Bool :=
  let base := epochPrefix t.1 ++ t.2.1
  p == base ++ '-' :: t.2.2 || (p == base && t.2.2 == ['0'])

/-- for an accepted `s`: the tuple is the dpkg split of the trimmed input; the printed form has the
allowed shape, is itself accepted, parses to the same tuple (so an omitted revision did not change
how the string splits) and prints to itself -/
def holdsOn (s : Input) (obs : Obs) : Bool :=
  match obs with
  | .error _ => true
  | .ok (t1, p, inner) =>
    t1 == Policy.split (strip s) && shape t1 p &&
    (match inner with
     | .error _ => false
     | .ok (t2, p2) => t2 == t1 && p2 == p)

def decTup : Val → Option Tup
  | .list [.int e, .str u, .str r] => if e ≥ 0 then some (e.toNat, u, r) else none
  | _ => none
def encTup (t : Tup) : Val := .list [.int t.1, .str t.2.1, .str t.2.2]

def decO : Val → Option Obs := Props.decExcept fun
  | .list [t1, .str p, inner] => do
    let t1 ← decTup t1
    let inner ← (Props.decExcept fun
      | .list [t2, .str p2] => do let t2 ← decTup t2; pure (t2, p2)
      | _ => none) inner
    pure (t1, p, inner)
  | _ => none

def encO : Obs → Val := Props.encExcept fun (t1, p, inner) =>
  .list [encTup t1, .str p, Props.encExcept (fun (t2, p2) => .list [encTup t2, .str p2]) inner]

def check : Props.Check Input Obs :=
  { decI := Val.asStr?, decO, encO, model, holdsOn }

end Props.C04
