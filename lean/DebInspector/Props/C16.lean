/-
C16 — PGP clear-sign removal returns the signed body or the input.
  C16   input: any text; obs: remove_signature(text) (a string, `None`, or an exception)
  C16w  input: a well-formed clear-signed message given by its parts, and its text; obs: the same
(The running-time clause is measured by the harness, not modelled.)
-/
import DebInspector.Props.Common
import DebInspector.Model.Unsign

namespace Props.C16
open Proto Py Model.Unsign

/-- the result: a string, or `none` for a non-string (Python `None`) -/
abbrev Obs := Except PyExc (Option Str)

def model (t : Str) : Obs := .ok (some (removeSignature t))

/-- `a` is a contiguous part of `b` -/
def isInfix (a : Str) : Str → Bool
  | [] => a.isEmpty
  | c :: cs => startsWith (c :: cs) a || isInfix a cs

/-- the text carries a clear-sign envelope: trimmed, it starts with the BEGIN line and ends with the END line -/
def enveloped (t : Str) : Bool :=
  let s := strip t
  startsWith s beginSigned && endsWith s endSignature

def holdsOn (t : Str) (o : Obs) : Bool :=
  match o with
  | .ok (some r) => isInfix r t && (enveloped t || r == t)
  | _ => false          -- never None, never an exception

/-! ### well-formed messages -/

structure Msg where
  form : Nat                     -- header block: 0 none at all (body right after BEGIN); 1 one `Hash:` line + empty line;
                                 -- 2 empty line only; 3 two `Hash:` lines + empty line; 4 `Hash: A, B` (with a space) + empty line
  hashes : Option Str            -- the hash list of forms 1, 3, 4
  body : List Str
  armorHeaders : List Str        -- e.g. `Version: GnuPG v1`
  b64 : List Str
  crc : Str
  crlf : Bool
  finalNl : Bool
  text : Str

def nl (m : Msg) : Str := if m.crlf then ['\r', '\n'] else ['\n']

def renderLines (m : Msg) : List Str :=
  [beginSigned] ++
  (match m.form, m.hashes with
   | 1, some h => ["Hash: ".toList ++ h, []]
   | 2, _ => [[]]
   | 3, some h => ["Hash: ".toList ++ h, "Hash: ".toList ++ h, []]
   | 4, some h => ["Hash: ".toList ++ h ++ ", ".toList ++ h, []]
   | _, _ => []) ++
  m.body ++ ["-----BEGIN PGP SIGNATURE-----".toList] ++ m.armorHeaders ++ [[]] ++ m.b64 ++ ['=' :: m.crc] ++
  [endSignature]

def joinWith (sep : Str) : List Str → Str
  | [] => []
  | [l] => l
  | l :: ls => l ++ sep ++ joinWith sep ls

def render (m : Msg) : Str := joinWith (nl m) (renderLines m) ++ (if m.finalNl then nl m else [])

def plainLine (l : Str) : Bool := !l.contains '\n' && !l.contains '\r'

def wfWith (forms : List Nat) (m : Msg) : Bool :=
  forms.contains m.form && (m.form == 0 || m.form == 2 || m.hashes.isSome) &&
  (match m.hashes with | some h => !h.isEmpty && h.all isHashChar | none => true) &&
  !m.body.isEmpty && m.body.all (fun l => plainLine l && !startsWith l dashes) &&
  -- without a Hash header the body must not itself begin with one
  (m.form != 0 || !(match m.body with
     | h :: e :: _ :: _ => startsWith h "Hash: ".toList && !(h.drop 6).isEmpty && (h.drop 6).all isHashChar && e.isEmpty
     | _ => false)) &&
  m.armorHeaders.all (fun l => plainLine l && hasColonSpace l) &&
  !m.b64.isEmpty && m.b64.all (fun l => isBodyLine l) &&
  m.crc.length == 4 && m.crc.all isB64 &&
  -- the text is the rendering, possibly preceded by blank lines and followed by white space
  (let pre := m.text.takeWhile isSpace; pre.isEmpty || pre.getLast? == some '\n') &&
  strip m.text == strip (render m)

/-- exactly the signed body (for CRLF input the final carriage return remains) -/
def expected (m : Msg) : Str := joinWith (nl m) m.body ++ (if m.crlf then ['\r'] else [])

/-- every header block RFC 4880 allows -/
def holdsOnW (m : Msg) (o : Obs) : Bool :=
  !wfWith [0, 1, 2, 3, 4] m || (match o with | .ok (some r) => r == expected m | _ => false)

/-- with the hypothesis of finding K6 added: no header block, or exactly one `Hash:` line -/
def holdsOnWK6 (m : Msg) (o : Obs) : Bool :=
  !wfWith [0, 1] m || (match o with | .ok (some r) => r == expected m | _ => false)

/-! ### wire format -/

def decO : Val → Option Obs := Props.decExcept fun
  | .none => some none
  | .str s => some (some s)
  | _ => none

def encO : Obs → Val := Props.encExcept fun | none => .none | some s => .str s

def decStrs : Val → Option (List Str)
  | .list xs => xs.mapM Val.asStr?
  | _ => none

def decMsg : Val → Option Msg
  | .list [.int form, h, b, ah, b64, .str crc, .bool crlf, .bool fin, .str text] => do
    let h ← match h with | .none => some none | .str s => some (some s) | _ => none
    let b ← decStrs b; let ah ← decStrs ah; let b64 ← decStrs b64
    pure ⟨form.toNat, h, b, ah, b64, crc, crlf, fin, text⟩
  | _ => none

def check : Props.Check Str Obs := { decI := Val.asStr?, decO, encO, model, holdsOn }

def checkW : Props.Check Msg Obs :=
  { decI := decMsg, decO, encO, model := fun m => model m.text, holdsOn := holdsOnW }

def checkWK6 : Props.Check Msg Obs :=
  { decI := decMsg, decO, encO, model := fun m => model m.text, holdsOn := holdsOnWK6 }

end Props.C16
