/-
C02 — Version comparison is one coherent total preorder.
Input: a finite list of strings `vs`.  Observation (all through the public API):
  * the matrix `compare_versions(vs[i], vs[j])`,
  * for every ordered pair the rich comparisons `< <= > >= == !=` on `Version` objects, whether
    `==` implies equal hashes, and `eval_constraint` for the seven operators,
  * `sorted()` of the Version objects, `sorted(strings, key=compare_versions_key)`, `max`, `min`
    as index lists (`sorted` is stable, `max`/`min` return the first extremal element).
If some string is not accepted the observation is the exception type.
-/
import DebInspector.Props.Common
import DebInspector.Model.Version
import DebInspector.Spec.Dpkg

namespace Props.C02
open Proto Py Spec Model.Version

abbrev Input := List Str

structure PairObs where
  rich : List Bool       -- lt, le, gt, ge, eq, ne
  eqHash : Bool          -- (a == b) → hash a == hash b
  ops : List Bool        -- << <= < = >= > >>
deriving Repr, DecidableEq

structure Full where
  matrix : List (List Int)
  pairs : List (List PairObs)
  sortedObj : List Nat
  sortedKey : List Nat
  maxIdx : Option Nat
  minIdx : Option Nat
deriving Repr, DecidableEq

abbrev Obs := Except PyExc Full

def opNames : List String := ["<<", "<=", "<", "=", ">=", ">", ">>"]

/-- three-way result between two parsed versions; parsed versions never make `compare_strings`
raise, an error here is reported as such -/
def cmpV (a b : Ver) : Except PyExc Int := compareVersionObjects a b

def pairObs (a b : Ver) (r : Int) : Except PyExc PairObs := do
  let ops ← opNames.mapM fun op => evalOp op r
  let lt ← evalOp "<<" r
  let le ← evalOp "<=" r
  let gt ← evalOp ">>" r
  let ge ← evalOp ">=" r
  let eq := decide (a = b)
  pure { rich := [lt, le, gt, ge, eq, !eq], eqHash := true, ops := ops }

/-- stable insertion of index `i` into an index list sorted by `lt` (Python: insert after all
elements that are not greater) -/
def insertIdx (lt : Nat → Nat → Bool) (i : Nat) : List Nat → List Nat
  | [] => [i]
  | j :: js => if lt i j then i :: j :: js else j :: insertIdx lt i js

/-- the unique stable sort of `0..n-1` under a strict weak order `lt` -/
def stableSort (lt : Nat → Nat → Bool) (n : Nat) : List Nat :=
  (List.range n).foldl (fun acc i => insertIdx lt i acc) []

/-- Python `max(xs)`: the first element that no later element exceeds (`item > current`) -/
def firstMax (gt : Nat → Nat → Bool) (n : Nat) : Option Nat :=
  if n = 0 then none else some ((List.range n).foldl (fun m i => if gt i m then i else m) 0)

def model (vs : Input) : Obs := do
  let ps ← vs.mapM fromString
  let matrix ← ps.mapM fun a => ps.mapM fun b => cmpV a b
  let pairs ← (ps.zip matrix).mapM fun (a, row) => (ps.zip row).mapM fun (b, r) => pairObs a b r
  let get (i j : Nat) : Int := (matrix.getD i []).getD j 0
  let lt := fun i j => decide (get i j < 0)
  let gt := fun i j => decide (get i j > 0)
  let sorted := stableSort lt vs.length
  pure { matrix, pairs, sortedObj := sorted, sortedKey := sorted,
         maxIdx := firstMax gt vs.length, minIdx := firstMax lt vs.length }

/-! ### the property on one observation -/

def allIdx (n : Nat) (p : Nat → Bool) : Bool := (List.range n).all p

def isPerm (n : Nat) (p : List Nat) : Bool :=
  p.length == n && allIdx n fun i => p.contains i

def holdsFull (n : Nat) (o : Full) : Bool :=
  let get (i j : Nat) : Int := (o.matrix.getD i []).getD j 0
  let pr (i j : Nat) : PairObs := (o.pairs.getD i []).getD j ⟨[], false, []⟩
  -- shape
  o.matrix.length == n && o.matrix.all (fun r => r.length == n) &&
  o.pairs.length == n && o.pairs.all (fun r => r.length == n) &&
  -- results are -1, 0, 1; reflexive; compare(b, a) = -compare(a, b)
  (allIdx n fun i => allIdx n fun j =>
    (get i j == -1 || get i j == 0 || get i j == 1) && get j i == - get i j) &&
  (allIdx n fun i => get i i == 0) &&
  -- transitive, including through order-equal versions
  (allIdx n fun i => allIdx n fun j => allIdx n fun k =>
    !(get i j ≤ 0 && get j k ≤ 0) || (get i k ≤ 0 && (!(get i j < 0 || get j k < 0) || get i k < 0))) &&
  -- every way of asking agrees with the three-way result
  (allIdx n fun i => allIdx n fun j =>
    let r := get i j
    let p := pr i j
    p.rich == [decide (r < 0), decide (r ≤ 0), decide (r > 0), decide (r ≥ 0), p.rich.getD 4 false, !(p.rich.getD 4 false)] &&
    p.ops == [decide (r < 0), decide (r ≤ 0), decide (r ≤ 0), decide (r = 0), decide (r ≥ 0), decide (r ≥ 0), decide (r > 0)] &&
    -- == implies order-equal and equal hashes
    (!(p.rich.getD 4 false) || (r == 0 && p.eqHash))) &&
  -- sorting gives a non-decreasing permutation; max / min are extremal
  isPerm n o.sortedObj && isPerm n o.sortedKey &&
  (allIdx (n - 1) fun k => get (o.sortedObj.getD k 0) (o.sortedObj.getD (k + 1) 0) ≤ 0) &&
  (allIdx (n - 1) fun k => get (o.sortedKey.getD k 0) (o.sortedKey.getD (k + 1) 0) ≤ 0) &&
  (match o.maxIdx with
   | none => n == 0
   | some m => m < n && allIdx n fun j => get m j ≥ 0) &&
  (match o.minIdx with
   | none => n == 0
   | some m => m < n && allIdx n fun j => get m j ≤ 0)

/-- the property speaks about lists of valid versions: an exception (some string rejected) is
outside it -/
def holdsOn (vs : Input) (obs : Obs) : Bool :=
  match obs with
  | .error _ => true
  | .ok o => holdsFull vs.length o

/-! ### wire format -/

def decBools : Val → Option (List Bool)
  | .list xs => xs.mapM Val.asBool?
  | _ => none

def decPair : Val → Option PairObs
  | .list [r, .bool h, o] => do
    let r ← decBools r; let o ← decBools o; pure ⟨r, h, o⟩
  | _ => none

def decNats : Val → Option (List Nat)
  | .list xs => xs.mapM fun | .int i => if i ≥ 0 then some i.toNat else none | _ => none
  | _ => none

def decOptNat : Val → Option (Option Nat)
  | .none => some none
  | .int i => if i ≥ 0 then some (some i.toNat) else none
  | _ => none

def decFull : Val → Option Full
  | .list [.list m, .list p, so, sk, mx, mn] => do
    let matrix ← m.mapM fun | .list r => r.mapM Val.asInt? | _ => none
    let pairs ← p.mapM fun | .list r => r.mapM decPair | _ => none
    let so ← decNats so; let sk ← decNats sk
    let mx ← decOptNat mx; let mn ← decOptNat mn
    pure ⟨matrix, pairs, so, sk, mx, mn⟩
  | _ => none

def encBools (bs : List Bool) : Val := .list (bs.map .bool)
def encPair (p : PairObs) : Val := .list [encBools p.rich, .bool p.eqHash, encBools p.ops]
def encOptNat : Option Nat → Val | none => .none | some n => .int n

def encFull (o : Full) : Val :=
  .list [.list (o.matrix.map fun r => .list (r.map .int)),
         .list (o.pairs.map fun r => .list (r.map encPair)),
         .list (o.sortedObj.map fun (n : Nat) => .int n), .list (o.sortedKey.map fun (n : Nat) => .int n),
         encOptNat o.maxIdx, encOptNat o.minIdx]

def decI : Val → Option Input
  | .list xs => xs.mapM Val.asStr?
  | _ => none

def check : Props.Check Input Obs :=
  { decI, decO := Props.decExcept decFull, encO := Props.encExcept encFull, model, holdsOn }

end Props.C02
