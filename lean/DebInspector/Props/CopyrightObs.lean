/-
Shared observation of a copyright object: per paragraph its class and `to_dict(with_lines=True)`.
-/
import DebInspector.Props.Common
import DebInspector.Model.Copyright

namespace Props.CopyrightObs
open Proto Py Model.Copyright

structure ParaObs where
  kind : Kind
  dict : List (Str × DV)
  lines : List (Str × (Nat × Nat))
deriving DecidableEq, Repr

def ofPara (p : Para) : ParaObs := ⟨p.kind, toDict p, p.lines⟩

def encKind : Kind → Val
  | .header => .str "header".toList
  | .files => .str "files".toList
  | .license => .str "license".toList
  | .catchall => .str "catchall".toList

def decKind : Val → Option Kind
  | .str s =>
    if s = "header".toList then some .header else if s = "files".toList then some .files
    else if s = "license".toList then some .license else if s = "catchall".toList then some .catchall else none
  | _ => none

def encDV : DV → Val
  | .s v => .str v
  | .emptyList => .list []

def decDV : Val → Option DV
  | .str v => some (.s v)
  | .list [] => some .emptyList
  | _ => none

def encPara (p : ParaObs) : Val :=
  .list [encKind p.kind,
         .list (p.dict.map fun kv => .list [.str kv.1, encDV kv.2]),
         .list (p.lines.map fun (kv : Str × (Nat × Nat)) => .list [.str kv.1, .int kv.2.1, .int kv.2.2])]

def decPara : Val → Option ParaObs
  | .list [k, .list d, .list l] => do
    let k ← decKind k
    let d ← d.mapM fun | .list [.str n, v] => (decDV v).map (n, ·) | _ => none
    let l ← l.mapM fun
      | .list [.str n, .int a, .int b] => if a ≥ 0 && b ≥ 0 then some (n, (a.toNat, b.toNat)) else none
      | _ => none
    pure ⟨k, d, l⟩
  | _ => none

def encParas (ps : List ParaObs) : Val := .list (ps.map encPara)
def decParas : Val → Option (List ParaObs)
  | .list ps => ps.mapM decPara
  | _ => none

end Props.CopyrightObs
