/-
C07 — Lenient parsing is total: no input text makes it raise.
Input: any text.  Observation: for every lenient entry point `ok` or the exception type, the results
of the copyright object, and whether a second evaluation gave equal results.
-/
import DebInspector.Props.CopyrightObs

namespace Props.C07
open Proto Py Model.Copyright Props.CopyrightObs

abbrev Input := Str

structure CObs where
  paras : List ParaObs
  dumps : Except PyExc Str        -- `outOfModel` only from the model (non-ASCII field names)
  valid : Bool
  validStrict : Bool

structure Obs where
  groups : Except PyExc Unit       -- get_paragraphs_as_field_groups
  pdatas : Except PyExc Unit       -- get_paragraphs_data
  pdata : Except PyExc Unit        -- get_paragraph_data
  copyright : Except PyExc CObs    -- from_text, to_dict(), to_dict(with_lines=True), dumps(), is_valid(), is_valid(strict=True)
  same : Bool                      -- repeated calls returned equal results

def model (t : Input) : Obs :=
  { groups := .ok (), pdatas := .ok (), pdata := .ok (),
    copyright := match fromText t with
      | .error e => .error e
      | .ok ps => .ok { paras := ps.map ofPara, dumps := docDumps ps,
                        valid := docIsValid ps false, validStrict := docIsValid ps true },
    same := true }

def holdsOn (_t : Input) (o : Obs) : Bool :=
  Props.isOk o.groups && Props.isOk o.pdatas && Props.isOk o.pdata &&
  (match o.copyright with
   | .ok c => (match c.dumps with | .ok _ => true | .error e => e == .outOfModel)
   | .error _ => false) &&
  o.same

def decUnit : Val → Option (Except PyExc Unit) := Props.decExcept fun | .none => some () | _ => none
def encUnit : Except PyExc Unit → Val := Props.encExcept fun _ => .none

def decC : Val → Option CObs
  | .list [ps, d, .bool v, .bool vs] => do
    let ps ← decParas ps
    let d ← Props.decExcept Val.asStr? d
    pure ⟨ps, d, v, vs⟩
  | _ => none

def encC (c : CObs) : Val :=
  .list [encParas c.paras, Props.encExcept .str c.dumps, .bool c.valid, .bool c.validStrict]

def decO : Val → Option Obs
  | .list [g, ps, p, c, .bool s] => do
    let g ← decUnit g; let ps ← decUnit ps; let p ← decUnit p
    let c ← Props.decExcept decC c
    pure ⟨g, ps, p, c, s⟩
  | _ => none

def encO (o : Obs) : Val :=
  .list [encUnit o.groups, encUnit o.pdatas, encUnit o.pdata, Props.encExcept encC o.copyright, .bool o.same]

def check : Props.Check Input Obs := { decI := Val.asStr?, decO, encO, model, holdsOn }

end Props.C07
