/-
C08 — Header-style control parser drops no content; duplicates merge losslessly.
  C08   input: any text; obs: get_paragraph_data(text), list(get_paragraphs_data(text))
  C08m  input: a paragraph as a list of single-line (name, value) pairs; obs: get_paragraph_data of its text
-/
import DebInspector.Props.Common
import DebInspector.Model.Email

namespace Props.C08
open Proto Py Model.Email

abbrev Input := Str

structure Obs where
  pdata : Except PyExc Dict
  pdatas : Except PyExc (List Dict)

def model (t : Input) : Obs := { pdata := .ok (getParagraphData t), pdatas := .ok (getParagraphsData t) }

/-! ### specification -/

/-- the words of a text for this property: lower-cased maximal runs of characters that are neither
Python white space nor a colon (so `Homepage: http://x` has the words `homepage`, `http`, `//x`
whichever way it is split into name and value) -/
def atomsAux : Str → Str → List Str
  | [], cur => if cur.isEmpty then [] else [cur.reverse]
  | c :: cs, cur =>
    if isSpace c || c = ':' then (if cur.isEmpty then atomsAux cs [] else cur.reverse :: atomsAux cs [])
    else atomsAux cs (lowerAsciiChar c :: cur)

def atoms (s : Str) : List Str := atomsAux s []

def dictAtoms (d : Dict) : List Str := d.flatMap fun kv => atoms kv.1 ++ atoms kv.2

def subset (a b : List Str) : Bool := a.all (b.contains ·)

def holdsOn (t : Input) (o : Obs) : Bool :=
  (match o.pdata with
   | .ok d => subset (atoms t) (dictAtoms d)
   | .error _ => false) &&
  (match o.pdatas with
   | .ok ds => subset (atoms t) (ds.flatMap dictAtoms)
   | .error _ => false)

/-! ### merging of repeated field names -/

abbrev InputM := List (Str × Str)

def renderM (ps : InputM) : Str := ps.flatMap fun nv => nv.1 ++ ':' :: ' ' :: nv.2 ++ ['\n']

def nameOk (n : Str) : Bool :=
  headP isAsciiAlpha n && n.all fun c => isAsciiAlnum c || c = '-'

/-- a continuation line as written: indented by a space or a tab, no line boundary inside -/
def contOk (l : Str) : Bool := headP (fun c => c = ' ' || c = '\t') l && l.all fun c => !isBoundary c

/-- a value: a non-empty first line that starts with a non-blank character, then any number of continuation
lines; the last character is not blank (the value is spelled trimmed) -/
def valueOk (v : Str) : Bool :=
  match splitChar '\n' v with
  | first :: conts =>
    !first.isEmpty && headP (fun c => !isSpace c) first && (first.all fun c => !isBoundary c) && conts.all contOk &&
    lastP (fun c => !isSpace c) v
  | [] => false

def wfM (ps : InputM) : Bool := !ps.isEmpty && ps.all fun nv => nameOk nv.1 && valueOk nv.2

/-- each lower-cased name, in order of first occurrence, maps to its distinct values (whole values: a multi-line
value is one value) in order of first appearance, newline-separated -/
def expectedM (ps : InputM) : Dict :=
  let names := ps.foldl (fun acc nv => if acc.contains (lowerAscii nv.1) then acc else acc ++ [lowerAscii nv.1]) []
  names.map fun n =>
    let vs := (ps.filter fun nv => lowerAscii nv.1 = n).map (·.2)
    let distinct := vs.foldl (fun acc v => if acc.contains v then acc else acc ++ [v]) []
    (n, joinNl distinct)

abbrev ObsM := Except PyExc Dict

def modelM (ps : InputM) : ObsM := .ok (getParagraphData (renderM ps))

def holdsOnM (ps : InputM) (o : ObsM) : Bool :=
  !wfM ps || (match o with | .ok d => decide (d = expectedM ps) | .error _ => false)

/-! ### wire format -/

def decDict : Val → Option Dict
  | .list xs => xs.mapM fun | .list [.str k, .str v] => some (k, v) | _ => none
  | _ => none

def encDict (d : Dict) : Val := .list (d.map fun kv => .list [.str kv.1, .str kv.2])

def decO : Val → Option Obs
  | .list [a, b] => do
    let a ← Props.decExcept decDict a
    let b ← Props.decExcept (fun | .list ds => ds.mapM decDict | _ => none) b
    pure ⟨a, b⟩
  | _ => none

def encO (o : Obs) : Val :=
  .list [Props.encExcept encDict o.pdata, Props.encExcept (fun ds => .list (ds.map encDict)) o.pdatas]

def check : Props.Check Input Obs := { decI := Val.asStr?, decO, encO, model, holdsOn }

def checkM : Props.Check InputM ObsM :=
  { decI := decDict, decO := Props.decExcept decDict, encO := Props.encExcept encDict, model := modelM, holdsOn := holdsOnM }

end Props.C08
