/-
C11 — Building a copyright object loses no content and invents none.
Input: any text.  Observation: the field groups of the line-tracking parser and the paragraphs
(dictionary form) of the copyright object built from them.
-/
import DebInspector.Props.CopyrightObs
import DebInspector.Props.C05
import DebInspector.Spec.Words

namespace Props.C11
open Proto Py Model.Deb822 Model.Copyright Props.CopyrightObs Spec.Words

abbrev Input := Str

structure Obs where
  groups : Props.C05.Obs
  paras : Except PyExc (List ParaObs)

def model (t : Input) : Obs :=
  { groups := Props.C05.model t,
    paras := match fromText t with
      | .error e => .error e
      | .ok ps => .ok (ps.map ofPara) }

/-- every word of a tracked field line -/
def wordsIn (g : Props.C05.Obs) : List Str :=
  g.flatMap fun grp => grp.flatMap fun f => f.2.flatMap fun lv => words lv.2

/-- every word of a value of the dictionary form -/
def wordsOut (ps : List ParaObs) : List Str :=
  ps.flatMap fun p => p.dict.flatMap fun kv => match kv.2 with
    | .s v => words v
    | .emptyList => []

/-- every word of the input occurs equally often in the output, and no word is invented. The words of the input are
those of its field values and free-text lines as the text itself spells them (the reading of the text that `Props.C05.sound`
proves correct), and, to the same effect, those of the field groups the implementation reports. -/
def holdsOn (t : Input) (o : Obs) : Bool :=
  match o.paras with
  | .ok ps => sameMultiset (wordsIn (Props.C05.model t)) (wordsOut ps) && sameMultiset (wordsIn o.groups) (wordsOut ps)
  | .error _ => true     -- raising is C07's concern

def decO : Val → Option Obs
  | .list [g, p] => do
    let g ← Props.C05.decO g
    let p ← Props.decExcept decParas p
    pure ⟨g, p⟩
  | _ => none

def encO (o : Obs) : Val := .list [Props.C05.encO o.groups, Props.encExcept encParas o.paras]

def check : Props.Check Input Obs := { decI := Val.asStr?, decO, encO, model, holdsOn }

end Props.C11
