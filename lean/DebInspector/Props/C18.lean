/-
C18 — Contents index: the two returned mappings are complete and mutually inverse.
Input: a table (rows of a path and qualified package names), the column padding of each row, an
optional header narrative and `FILE  LOCATION` row, the `has_header` argument, and the rendered text.
Observation: `parse_contents` on the file written plain and gzip-compressed.
-/
import DebInspector.Props.Common
import DebInspector.Model.Contents

namespace Props.C18
open Proto Py Model.Contents

structure Row where
  path : Str
  pkgs : List (List Str × Str)     -- qualifiers (0–2), package name
  pad : Str                        -- spaces between the two columns

structure Input where
  narrative : List Str             -- free text before the header row
  headerRow : Option Str           -- the `FILE  LOCATION` row as written, if present
  rows : List Row
  hasHeader : Bool
  text : Str

abbrev Maps := Dict × Dict
abbrev Res := Except PyExc Maps

structure Obs where
  plain : Res
  gz : Res

def model (i : Input) : Obs :=
  let r := parseContents (fileLines i.text) i.hasHeader
  { plain := r, gz := r }

/-! ### specification -/

def qualified (p : List Str × Str) : Str := join ['/'] (p.1 ++ [p.2])

def renderRow (r : Row) : Str := r.path ++ r.pad ++ join [','] (r.pkgs.map qualified)

def render (i : Input) : Str :=
  let lines := i.narrative ++ (match i.headerRow with | some h => [h] | none => []) ++ i.rows.map renderRow
  if lines.isEmpty then [] else join ['\n'] lines ++ ['\n']

def tokenOk (s : Str) : Bool := !s.isEmpty && s.all fun c => !isSpace c && c != ',' && c != '/'

/-- the column-header row: `FILE`, one or more spaces, `LOCATION` (surrounding white space ignored) -/
def isHeaderText (l : Str) : Bool :=
  let s := strip l
  startsWith s "FILE".toList && endsWith s "LOCATION".toList && s.length > 12 &&
  ((s.drop 4).take (s.length - 12)).all (· == ' ')

def rowOk (r : Row) : Bool :=
  !r.path.isEmpty && headP (fun c => !isSpace c) r.path && lastP (fun c => !isSpace c) r.path &&
  !r.path.contains '\n' && !r.path.contains '\r' &&
  !r.pkgs.isEmpty && r.pkgs.all (fun p => tokenOk p.2 && p.1.length ≤ 2 && p.1.all tokenOk) &&
  !r.pad.isEmpty && r.pad.all (· == ' ') &&
  -- a row that spells the column header is not a row
  !(r.path == "FILE".toList && join [','] (r.pkgs.map qualified) == "LOCATION".toList)

def wf (i : Input) : Bool :=
  i.rows.all rowOk &&
  -- free text: no line of it reads as the column header (`FILE`, white space ending in a space, `LOCATION`)
  i.narrative.all (fun l => !l.contains '\n' && !l.contains '\r' && !isHeaderText l && !isHeaderRow (splitLine l)) &&
  (match i.headerRow with | some h => isHeaderText h && !h.contains '\n' && !h.contains '\r' | none => true) &&
  -- free text is only ignored when a header is declared
  (i.hasHeader || i.narrative.isEmpty) &&
  i.text == render i

/-- each row's path maps to exactly the bare package names of that row, in order; rows with the same
path accumulate in file order -/
def expectedByPath (rows : List Row) : Dict :=
  rows.foldl (fun d r => r.pkgs.foldl (fun d p => appendTo d r.path p.2) d) []

/-- each package maps to exactly the paths of the rows naming it, in file order -/
def expectedByPkg (rows : List Row) : Dict :=
  rows.foldl (fun d r => r.pkgs.foldl (fun d p => appendTo d p.2 r.path) d) []

def expected (i : Input) : Res :=
  match i.headerRow, i.hasHeader with
  | some _, true => .ok (expectedByPath i.rows, expectedByPkg i.rows)
  | none, false => .ok (expectedByPath i.rows, expectedByPkg i.rows)
  | some _, false => .error .exception     -- an undeclared header that is present
  | none, true => .error .exception        -- a declared header that is missing

def holdsOn (i : Input) (o : Obs) : Bool :=
  !wf i || (decide (o.plain = expected i) && decide (o.gz = expected i))

/-! ### wire format -/

def decStrs : Val → Option (List Str)
  | .list xs => xs.mapM Val.asStr?
  | _ => none

def decRow : Val → Option Row
  | .list [.str p, .list pk, .str pad] => do
    let pk ← pk.mapM fun
      | .list [q, .str n] => do let q ← decStrs q; pure (q, n)
      | _ => none
    pure ⟨p, pk, pad⟩
  | _ => none

def decI : Val → Option Input
  | .list [n, h, .list rows, .bool hh, .str text] => do
    let n ← decStrs n
    let h ← match h with | .none => some none | .str s => some (some s) | _ => none
    let rows ← rows.mapM decRow
    pure ⟨n, h, rows, hh, text⟩
  | _ => none

def decDict : Val → Option Dict
  | .list es => es.mapM fun
    | .list [.str k, vs] => do let vs ← decStrs vs; pure (k, vs)
    | _ => none
  | _ => none

def encDict (d : Dict) : Val := .list (d.map fun (k, vs) => .list [.str k, .list (vs.map .str)])

def decRes : Val → Option Res := Props.decExcept fun
  | .list [a, b] => do let a ← decDict a; let b ← decDict b; pure (a, b)
  | _ => none

def encRes : Res → Val := Props.encExcept fun (a, b) => .list [encDict a, encDict b]

def decO : Val → Option Obs
  | .list [p, g] => do let p ← decRes p; let g ← decRes g; pure ⟨p, g⟩
  | _ => none

def encO (o : Obs) : Val := .list [encRes o.plain, encRes o.gz]

def check : Props.Check Input Obs := { decI, decO, encO, model, holdsOn }

end Props.C18
