/-
C01 — Version ordering is exactly dpkg's ordering.
Input: a pair of strings.  Observation: `compare_versions(a, b)` or the exception type.
A second check (`C01s`) observes `compare_strings(x, y)` on bare component strings.
-/
import DebInspector.Props.Common
import DebInspector.Model.Version
import DebInspector.Spec.Dpkg
import DebInspector.Spec.DpkgOrder

namespace Props.C01
open Proto Py Spec

abbrev Input := Str × Str
abbrev Obs := Except PyExc Int

def model (i : Input) : Obs := Model.Version.compareVersions i.1 i.2

/-- For two policy-valid strings a returned result is dpkg's three-way result; if both are strings
that must be accepted (C03) a result is returned. -/
def holdsOn (i : Input) (obs : Obs) : Bool :=
  let a := strip i.1
  let b := strip i.2
  (match obs with
   | .ok r => !(Policy.valid a && Policy.valid b) || r == VerOrder.dpkgCmpVersions a b
   | .error _ => true) &&
  (!(Policy.mustAccept Generated.intMaxStrDigits a && Policy.mustAccept Generated.intMaxStrDigits b)
    || Props.isOk obs)

def decO : Val → Option Obs := Props.decExcept Val.asInt?
def encO : Obs → Val := Props.encExcept Val.int

def check : Props.Check Input Obs :=
  { decI := Props.decPairStr, decO, encO, model, holdsOn }

/-! component strings -/

/-- characters that can occur in the upstream or revision of a policy-valid version -/
def componentOk (s : Str) : Bool := s.all Policy.upChar

def modelS (i : Input) : Obs := Model.Version.compareStrings i.1 i.2

def holdsOnS (i : Input) (obs : Obs) : Bool :=
  !(componentOk i.1 && componentOk i.2) ||
    (match obs with
     | .ok r => r == VerOrder.dpkgCmpStr i.1 i.2
     | .error _ => false)

/-- support only (no theorem yet): the transliteration of dpkg's C `verrevcmp` / `dpkg_version_compare`
gives the same answer as the observation; it cross-checks the declarative order used above -/
def holdsOnC (i : Input) (obs : Obs) : Bool :=
  let a := strip i.1
  let b := strip i.2
  match obs with
  | .ok r => !(Policy.valid a && Policy.valid b) || r == Dpkg.compareStr a b
  | .error _ => true

def checkC : Props.Check Input Obs :=
  { decI := Props.decPairStr, decO, encO, model, holdsOn := holdsOnC }

def checkS : Props.Check Input Obs :=
  { decI := Props.decPairStr, decO, encO, model := modelS, holdsOn := holdsOnS }

end Props.C01
