/-
The DEP-5 document grammar shared by C09 and C13: documents given by their structure, an explicit
renderer, and the typed values the document spells (written from the copyright-format specification,
independently of the implementation).
-/
import DebInspector.Props.CopyrightObs

namespace Props.Dep5
open Proto Py Model.Copyright

/-- one continuation line of a multi-line value: 0 = paragraph text, 1 = blank-line marker ` .`,
2 = verbatim line (two or more leading spaces), 3 = item line of a list-valued field (Files, Copyright):
one space, then the content, which may be indented further and may start with a full stop -/
structure TLine where
  kind : Nat
  content : Str

/-- field kinds: 0 single line · 1 white-space list · 2 copyright statements · 3 license (short name
+ text) · 4 formatted text · 5 unknown (extra) field · 6 line-based list (Upstream-Contact) -/
structure Field where
  label : Str            -- the name as written (any case; `Licence` allowed)
  kind : Nat
  first : Str            -- first-line value
  conts : List TLine

abbrev Para := List Field

structure Doc where
  paras : List Para
  seps : List Nat        -- number of empty lines after each paragraph (≥ 1)
  text : Str

def rawLine (l : TLine) : Str :=
  match l.kind with
  | 0 => ' ' :: l.content
  | 1 => [' ', '.']
  | 3 => ' ' :: l.content
  | _ => ' ' :: ' ' :: l.content

def fieldLines (f : Field) : List Str :=
  (f.label ++ (if f.first.isEmpty then [':'] else ':' :: ' ' :: f.first)) :: f.conts.map rawLine

def joinNl : List Str → Str
  | [] => []
  | [l] => l
  | l :: ls => l ++ '\n' :: joinNl ls

def renderPara (p : Para) : Str := joinNl (p.flatMap fieldLines)

def renderAux : List Para → List Nat → Str
  | [], _ => []
  | [p], _ => renderPara p ++ ['\n']
  | p :: q :: rest, seps =>
    renderPara p ++ '\n' :: List.replicate (seps.headD 1) '\n' ++ renderAux (q :: rest) seps.tail

def render (d : Doc) : Str := renderAux d.paras d.seps

/-! ### well-formedness -/

def plain (s : Str) : Bool := s.all fun c => !isBoundary c && c.toNat ≠ 0
def trimmed (s : Str) : Bool := !headP isSpace s && !lastP isSpace s

def tlineOk (l : TLine) : Bool :=
  match l.kind with
  | 0 => !l.content.isEmpty && plain l.content && trimmed l.content && !headP (· == '.') l.content
  | 1 => l.content.isEmpty
  | 2 => !l.content.isEmpty && plain l.content && !lastP isSpace l.content
  | _ => false

/-- the item text of a line of a list-valued field: without its further indentation -/
def itemText (l : TLine) : Str := l.content.dropWhile (· == ' ')

/-- a text block: starts with a paragraph line (or, with `verbFirst`, a verbatim line) and does not
end in a blank-line marker -/
def blockOk (ls : List TLine) (verbFirst : Bool := false) : Bool :=
  ls.all tlineOk && (match ls.head? with | some l => l.kind == 0 || (verbFirst && l.kind == 2) | none => true) &&
  (match ls.getLast? with | some l => l.kind != 1 | none => true)

/-- the continuation lines of a text that starts on the declaration line: any line kinds, not ending in a
blank-line marker -/
def bodyOk (ls : List TLine) : Bool :=
  ls.all tlineOk && (match ls.getLast? with | some l => l.kind != 1 | none => true)

def normLabel (s : Str) : Str :=
  let l := lowerAscii s
  if l = "licence".toList then "license".toList else l

/-- names that are not free for an unknown (extra) field: the DEP-5 field names, and `Format-Specification`, the
pre-1.0 name of `Format`, which the classifier also takes as the mark of a header paragraph (a files paragraph
carrying it is classified as a header by the pinned code; such a paragraph is left outside the grammar) -/
def knownLabels : List String :=
  ["format", "upstream-name", "upstream-contact", "source", "disclaimer", "comment", "copyright", "license", "files", "files-excluded",
   "format-specification"]

def labelOk (f : Field) : Bool :=
  headP isAsciiAlpha f.label && f.label.all (fun c => isAsciiAlnum c || c == '-') &&
  (match f.kind with
   | 0 => ["format", "upstream-name"].contains (String.ofList (normLabel f.label))
   | 1 => ["files", "files-excluded"].contains (String.ofList (normLabel f.label))
   | 2 => normLabel f.label == "copyright".toList
   | 3 => normLabel f.label == "license".toList
   | 4 => ["source", "disclaimer", "comment"].contains (String.ofList (normLabel f.label))
   | 6 => normLabel f.label == "upstream-contact".toList
   | 5 => !knownLabels.contains (String.ofList (normLabel f.label)) && !(normLabel f.label).contains '_' &&
          !startsWith (normLabel f.label) "unknown".toList
   | _ => false)

/-- single-spaced words: the only white space is U+0020, one at a time, none at either end -/
def singleSpaced (s : Str) : Bool :=
  !s.isEmpty && plain s && trimmed s && (splitChar ' ' s).all (!·.isEmpty) && s.all (fun c => !isSpace c || c == ' ')

/-- an item line: paragraph-text layout, or free layout (any further indentation, leading full stop) -/
def itemOk (l : TLine) : Bool :=
  (l.kind == 0 && singleSpaced l.content && !headP (· == '.') l.content) ||
  (l.kind == 3 && plain l.content && singleSpaced (itemText l))

def fieldOk (f : Field) (verbFirst : Bool := false) : Bool :=
  labelOk f && plain f.first && trimmed f.first &&
  (match f.kind with
   | 0 => !f.first.isEmpty && f.conts.isEmpty
   | 1 => singleSpaced f.first && f.conts.all (fun l => itemOk l)
   | 2 => singleSpaced f.first && f.conts.all (fun l => itemOk l)
   | 3 => !f.first.isEmpty && blockOk f.conts verbFirst
   | 4 => (if f.first.isEmpty then blockOk f.conts verbFirst else bodyOk f.conts) && (!f.first.isEmpty || !f.conts.isEmpty)
   | 5 => !f.first.isEmpty && f.conts.all (fun l => l.kind == 0 && tlineOk l)
   | 6 => !f.first.isEmpty && f.conts.all (fun l => l.kind == 0 && tlineOk l)
   | _ => false)

def distinct (p : Para) : Bool :=
  let ns := p.map fun f => normLabel f.label
  ns.length == (ns.foldl (fun acc n => if acc.contains n then acc else acc ++ [n]) []).length

def hasLabel (p : Para) (n : String) : Bool := p.any fun f => normLabel f.label == n.toList

/-- the class the document gives a paragraph: header (has Format), files (has Files), stand-alone license -/
def paraKind (p : Para) : Option Kind :=
  if hasLabel p "format" then some .header
  else if hasLabel p "files" then some .files
  else if hasLabel p "license" then some .license
  else none

def paraOk (p : Para) (verbFirst : Bool := false) : Bool :=
  !p.isEmpty && p.all (fieldOk · verbFirst) && distinct p &&
  (match paraKind p with
   | some .header => p.all fun f => !["files"].contains (String.ofList (normLabel f.label))
   | some .files => hasLabel p "copyright" && hasLabel p "license" &&
                    p.all fun f => ["files", "copyright", "license", "comment"].contains (String.ofList (normLabel f.label)) || f.kind == 5
   | some .license => p.all fun f => ["license", "comment"].contains (String.ofList (normLabel f.label)) || f.kind == 5
   | _ => false)

/-- `verbFirst`: a text block may also start with a verbatim line (the first parse strips its
indentation, so the typed-value clauses of C09 exclude it; the fixpoint clauses of C13 do not) -/
def wf (d : Doc) (verbFirst : Bool := false) : Bool :=
  !d.paras.isEmpty && d.paras.all (paraOk · verbFirst) &&
  (match d.paras.head? with | some p => paraKind p == some .header | none => false) &&
  d.paras.tail.all (fun p => paraKind p != some .header) &&
  d.seps.length == d.paras.length && d.seps.all (fun n => n ≥ 1) &&
  d.text == render d

/-! ### what the document spells -/

def decodeLine (l : TLine) : Str :=
  match l.kind with
  | 0 => l.content
  | 1 => []
  | 3 => l.content
  | _ => ' ' :: l.content

def punct : Str := "!\"#$%&'()*+,-./:;<=>?@[\\]^_`{|}~".toList

/-- a year range: digits and punctuation with at least one digit -/
def isYearSpec (t : Str) : Bool :=
  !t.isEmpty && (t.all isDigitU || (t.all (fun c => isAsciiDigit c || punct.contains c) && t.any isAsciiDigit))

def splitStatement (s : Str) : Option Str × Str :=
  match splitChar ' ' s with
  | t :: rest => if isYearSpec t then (some t, joinSp rest) else (none, s)
  | [] => (none, s)
where
  joinSp : List Str → Str
    | [] => []
    | [w] => w
    | w :: ws => w ++ ' ' :: joinSp ws

/-- the typed value of a field of the document -/
def expectedFV (f : Field) : FV :=
  match f.kind with
  | 0 => .single (some f.first)
  | 1 => .wsSep ((splitChar ' ' f.first) ++ f.conts.flatMap fun l => splitChar ' ' (itemText l))
  | 2 => .copyright ((f.first :: f.conts.map itemText).map splitStatement)
  | 3 => .license f.first (if f.conts.isEmpty then none else some (joinNl (f.conts.map decodeLine)))
  | 6 => .lineSep (f.first :: f.conts.map (·.content))
  | _ => .formatted (some (joinNl ((if f.first.isEmpty then [] else [f.first]) ++ f.conts.map decodeLine)))

/-- the raw value kept for an unknown field: first line and continuation lines as written -/
def expectedExtra (f : Field) : Str := joinNl (f.first :: f.conts.map rawLine)

def fieldKey (f : Field) : Str := replaceChar '-' '_' (normLabel f.label)

/-! ### wire format -/

def decTLine : Val → Option TLine
  | .list [.int k, .str c] => if k ≥ 0 then some ⟨k.toNat, c⟩ else none
  | _ => none

def decField : Val → Option Field
  | .list [.str l, .int k, .str f, .list cs] => do
    let cs ← cs.mapM decTLine
    if k ≥ 0 then pure ⟨l, k.toNat, f, cs⟩ else none
  | _ => none

def decDoc : Val → Option Doc
  | .list [.list ps, .list seps, .str text] => do
    let ps ← ps.mapM fun | .list fs => fs.mapM decField | _ => none
    let seps ← seps.mapM fun | .int n => if n ≥ 0 then some n.toNat else none | _ => none
    pure ⟨ps, seps, text⟩
  | _ => none

def encOptStr : Option Str → Val | none => .none | some s => .str s
def decOptStr : Val → Option (Option Str) | .none => some none | .str s => some (some s) | _ => none

def encFV : FV → Val
  | .single v => .list [.str ['s'], encOptStr v]
  | .lineSep vs => .list [.str ['l'], .list (vs.map .str)]
  | .wsSep vs => .list [.str ['w'], .list (vs.map .str)]
  | .formatted t => .list [.str ['f'], encOptStr t]
  | .copyright ss => .list [.str ['c'], .list (ss.map fun s => .list [encOptStr s.1, .str s.2])]
  | .license n t => .list [.str ['L'], .str n, encOptStr t]

def decStmt : Val → Option (Option Str × Str)
  | .list [y, .str h] => (decOptStr y).map fun y => (y, h)
  | _ => none

def decFV : Val → Option FV
  | .list [.str ['s'], v] => (decOptStr v).map .single
  | .list [.str ['l'], .list vs] => (vs.mapM Val.asStr?).map .lineSep
  | .list [.str ['w'], .list vs] => (vs.mapM Val.asStr?).map .wsSep
  | .list [.str ['f'], t] => (decOptStr t).map .formatted
  | .list [.str ['c'], .list ss] => (ss.mapM decStmt).map .copyright
  | .list [.str ['L'], .str n, t] => (decOptStr t).map (.license n)
  | _ => none

end Props.Dep5
