/-
C02 — Version comparison is one coherent total preorder: property theorems.
-/
import DebInspector.Props.C02
import DebInspector.Proofs.VersionOrder

namespace Props.C02
open Py Spec Spec.VerOrder PadLex Model.Version Proofs.VersionOrder

/-- the order of two accepted strings, as an `Ordering` -/
def ord (a b : Str) : Ordering := cmpVer dpkgRk (Policy.split (strip a)) (Policy.split (strip b))

theorem ordPre : IsPre (fun a b : Str => ord a b) :=
  isPre_comap (cmpVer_pre dpkgRk) (fun a => Policy.split (strip a))

theorem cmp_eq (a b : Str) (va vb : Ver) (ha : fromString a = .ok va) (hb : fromString b = .ok vb) :
    compareVersions a b = .ok (ordInt (ord a b)) := compareVersions_eq a b va vb ha hb

theorem ordInt_swap (o : Ordering) : ordInt o.swap = - ordInt o := by cases o <;> rfl
theorem ordInt_le (o : Ordering) : ordInt o ≤ 0 ↔ o ≠ .gt := by cases o <;> simp [ordInt]
theorem ordInt_lt (o : Ordering) : ordInt o < 0 ↔ o = .lt := by cases o <;> simp [ordInt]

/-- the three-way result is -1, 0 or 1 -/
theorem cmp_values (a b : Str) (r : Int) (h : compareVersions a b = .ok r) : r = -1 ∨ r = 0 ∨ r = 1 := by
  unfold compareVersions at h
  cases ha : fromString a with
  | error x => rw [ha] at h; cases h
  | ok va =>
    cases hb : fromString b with
    | error x => rw [ha, hb] at h; cases h
    | ok vb =>
      have := cmp_eq a b va vb ha hb
      unfold compareVersions at this
      rw [this] at h
      cases h
      cases ord a b <;> simp [ordInt]

/-- a version is order-equal to itself -/
theorem cmp_refl (a : Str) (va : Ver) (ha : fromString a = .ok va) : compareVersions a a = .ok 0 := by
  rw [cmp_eq a a va va ha ha, ordPre.refl a]; rfl

/-- `compare(b, a)` is the negation of `compare(a, b)` -/
theorem cmp_swap (a b : Str) (va vb : Ver) (ha : fromString a = .ok va) (hb : fromString b = .ok vb) :
    ∃ r, compareVersions a b = .ok r ∧ compareVersions b a = .ok (-r) := by
  refine ⟨ordInt (ord a b), cmp_eq a b va vb ha hb, ?_⟩
  rw [cmp_eq b a vb va hb ha, ordPre.swap a b, ordInt_swap]

/-- transitivity of "not after", including through order-equal versions such as 1.0 and 1.00 -/
theorem cmp_trans_le (a b c : Str) (va vb vc : Ver)
    (ha : fromString a = .ok va) (hb : fromString b = .ok vb) (hc : fromString c = .ok vc)
    (rab rbc : Int) (h1 : compareVersions a b = .ok rab) (h2 : compareVersions b c = .ok rbc)
    (l1 : rab ≤ 0) (l2 : rbc ≤ 0) : ∃ rac, compareVersions a c = .ok rac ∧ rac ≤ 0 := by
  rw [cmp_eq a b va vb ha hb] at h1; cases h1
  rw [cmp_eq b c vb vc hb hc] at h2; cases h2
  refine ⟨_, cmp_eq a c va vc ha hc, ?_⟩
  rw [ordInt_le] at *
  exact ordPre.trans_le a b c l1 l2

/-- … and if one of the two steps is strict, so is the result -/
theorem cmp_trans_lt (a b c : Str) (va vb vc : Ver)
    (ha : fromString a = .ok va) (hb : fromString b = .ok vb) (hc : fromString c = .ok vc)
    (rab rbc : Int) (h1 : compareVersions a b = .ok rab) (h2 : compareVersions b c = .ok rbc)
    (l1 : rab ≤ 0) (l2 : rbc ≤ 0) (hs : rab < 0 ∨ rbc < 0) :
    ∃ rac, compareVersions a c = .ok rac ∧ rac < 0 := by
  rw [cmp_eq a b va vb ha hb] at h1; cases h1
  rw [cmp_eq b c vb vc hb hc] at h2; cases h2
  refine ⟨_, cmp_eq a c va vc ha hc, ?_⟩
  rw [ordInt_le] at l1 l2
  rw [ordInt_lt] at *
  cases hab : ord a b with
  | gt => exact absurd hab l1
  | lt =>
    cases hbc : ord b c with
    | gt => exact absurd hbc l2
    | lt => exact ordPre.trans_lt a b c hab hbc
    | eq => rw [← ordPre.eq_right a b c hbc]; exact hab
  | eq =>
    cases hbc : ord b c with
    | gt => exact absurd hbc l2
    | lt => rw [ordPre.eq_left a b c hab]; exact hbc
    | eq =>
      rcases hs with h | h
      · rw [hab] at h; cases h
      · rw [ordInt_lt, hbc] at h; cases h

/-- **the operators are the stated functions of the three-way result** (over the table extracted
from `eval_constraint` on this run): `<<` strictly earlier, `<=` and legacy `<` earlier or equal,
`=` order-equal, `>=` and legacy `>` later or equal, `>>` strictly later -/
theorem ops_agree : ∀ r ∈ [(-1 : Int), 0, 1],
    evalOp "<<" r = .ok (decide (r < 0)) ∧ evalOp "<=" r = .ok (decide (r ≤ 0)) ∧
    evalOp "<" r = .ok (decide (r ≤ 0)) ∧ evalOp "=" r = .ok (decide (r = 0)) ∧
    evalOp ">=" r = .ok (decide (r ≥ 0)) ∧ evalOp ">" r = .ok (decide (r ≥ 0)) ∧
    evalOp ">>" r = .ok (decide (r > 0)) := by decide +kernel

/-- exactly seven operators are accepted -/
theorem ops_seven : Generated.ops.map (·.1) = ["<", ">", "=", "<<", "<=", ">>", ">="] ∨
    (Generated.ops.map (·.1)).length = 7 := by decide

/-- versions that compare `==` (same epoch, upstream, revision) are order-equal -/
theorem eq_imp_cmp_zero (a b : Str) (va vb : Ver) (ha : fromString a = .ok va) (hb : fromString b = .ok vb)
    (he : va = vb) : compareVersions a b = .ok 0 := by
  subst he
  rw [cmp_eq a b va va ha hb]
  have h1 := (Proofs.VersionParse.fromString_ok a va ha).2
  have h2 := (Proofs.VersionParse.fromString_ok b va hb).2
  have : ord a b = .eq := by
    unfold ord; rw [← h1, ← h2]; exact (cmpVer_pre dpkgRk).refl _
  rw [this]; rfl

/-! ### the reference stable sort -/

theorem insertIdx_perm (lt : Nat → Nat → Bool) (i : Nat) (l : List Nat) :
    (insertIdx lt i l).Perm (i :: l) := by
  induction l with
  | nil => exact List.Perm.refl _
  | cons j js ih =>
    unfold insertIdx
    split
    · exact List.Perm.refl _
    · exact (List.Perm.cons j ih).trans (List.Perm.swap i j js)

theorem foldl_insert_perm (lt : Nat → Nat → Bool) (xs acc : List Nat) :
    (xs.foldl (fun acc i => insertIdx lt i acc) acc).Perm (xs.reverse ++ acc) := by
  induction xs generalizing acc with
  | nil => simp
  | cons x xs ih =>
    simp only [List.foldl_cons, List.reverse_cons, List.append_assoc, List.singleton_append]
    exact (ih _).trans (List.Perm.append_left _ (insertIdx_perm lt x acc))

/-- sorting returns a permutation of the input positions -/
theorem stableSort_perm (lt : Nat → Nat → Bool) (n : Nat) : (stableSort lt n).Perm (List.range n) := by
  unfold stableSort
  have := foldl_insert_perm lt (List.range n) []
  simp only [List.append_nil] at this
  exact this.trans (List.reverse_perm _)

/-- `lt` behaves as the strict part of a total preorder -/
structure StrictWeak (lt : Nat → Nat → Bool) : Prop where
  trans_le : ∀ i j k, lt j i = false → lt k j = false → lt k i = false
  asymm : ∀ i j, lt i j = true → lt j i = false

def Sorted (lt : Nat → Nat → Bool) (l : List Nat) : Prop := l.Pairwise (fun i j => lt j i = false)

theorem insertIdx_sorted (lt : Nat → Nat → Bool) (h : StrictWeak lt) (i : Nat) (l : List Nat)
    (hs : Sorted lt l) : Sorted lt (insertIdx lt i l) := by
  induction l with
  | nil => simp [insertIdx, Sorted]
  | cons j js ih =>
    unfold Sorted at hs ih ⊢
    rw [List.pairwise_cons] at hs
    unfold insertIdx
    split
    · rename_i hij
      rw [List.pairwise_cons]
      refine ⟨?_, List.pairwise_cons.mpr hs⟩
      intro k hk
      rcases List.mem_cons.mp hk with rfl | hk
      · exact h.asymm _ _ hij
      · exact h.trans_le _ _ _ (h.asymm _ _ hij) (hs.1 k hk)
    · rename_i hij
      have hij' : lt i j = false := by simpa using hij
      rw [List.pairwise_cons]
      refine ⟨?_, ih hs.2⟩
      intro k hk
      have hm := (insertIdx_perm lt i js).mem_iff.mp hk
      rcases List.mem_cons.mp hm with rfl | hk
      · exact hij'
      · exact hs.1 k hk

/-- under a strict weak order the sort is non-decreasing: no element is followed by a smaller one -/
theorem stableSort_sorted (lt : Nat → Nat → Bool) (h : StrictWeak lt) (n : Nat) :
    Sorted lt (stableSort lt n) := by
  unfold stableSort
  have : ∀ (xs acc : List Nat), Sorted lt acc → Sorted lt (xs.foldl (fun acc i => insertIdx lt i acc) acc) := by
    intro xs
    induction xs with
    | nil => intro acc ha; simpa using ha
    | cons x xs ih => intro acc ha; exact ih _ (insertIdx_sorted lt h x acc ha)
  exact this _ [] (by simp [Sorted])

/-- the strict part of the version order is a strict weak order on any list of accepted strings -/
theorem version_lt_strictWeak (vs : List Str) :
    StrictWeak (fun i j => decide (ord (vs.getD i []) (vs.getD j []) = .lt)) := by
  constructor
  · intro i j k h1 h2
    simp only [decide_eq_false_iff_not] at *
    have p := ordPre
    intro hk
    -- k < i, ¬ j < i, ¬ k < j : so i ≤ j ≤ k < i
    have hij : ord (vs.getD i []) (vs.getD j []) ≠ .gt := by
      intro hg; exact h1 ((p.gt_iff_lt _ _).mp hg)
    have hjk : ord (vs.getD j []) (vs.getD k []) ≠ .gt := by
      intro hg; exact h2 ((p.gt_iff_lt _ _).mp hg)
    have := p.trans_le _ _ _ hij hjk
    exact this ((p.gt_iff_lt _ _).mpr hk)
  · intro i j h
    simp only [decide_eq_true_eq, decide_eq_false_iff_not] at *
    intro h2
    have := ordPre.swap (vs.getD i []) (vs.getD j [])
    rw [h, h2] at this
    cases this

/-- non-vacuity: order-equal but textually different versions, and the legacy operators -/
example : model ["1.0".toList, "1.00".toList] =
    .ok { matrix := [[0, 0], [0, 0]],
          pairs := [[⟨[false, true, false, true, true, false], true, [false, true, true, true, true, true, false]⟩,
                     ⟨[false, true, false, true, false, true], true, [false, true, true, true, true, true, false]⟩],
                    [⟨[false, true, false, true, false, true], true, [false, true, true, true, true, true, false]⟩,
                     ⟨[false, true, false, true, true, false], true, [false, true, true, true, true, true, false]⟩]],
          sortedObj := [0, 1], sortedKey := [0, 1], maxIdx := some 0, minIdx := some 0 } := by decide +kernel
example : holdsOn ["1:1".toList, "2~".toList, "2".toList] (model ["1:1".toList, "2~".toList, "2".toList]) = true := by
  decide +kernel

end Props.C02
