/-
C02 — Version comparison is one coherent total preorder: property theorems.
-/
import DebInspector.Props.C02
import DebInspector.Proofs.VersionOrder

namespace Props.C02
open Proto Py Spec Spec.VerOrder PadLex Model.Version Proofs.VersionOrder

/-- the order of two accepted strings, as an `Ordering` -/
def ord (a b : Str) : Ordering := cmpVer dpkgRk (Policy.split (strip a)) (Policy.split (strip b))

theorem ordPre : IsPre (fun a b : Str => ord a b) :=
  isPre_comap (cmpVer_pre dpkgRk) (fun a => Policy.split (strip a))

theorem cmp_eq (a b : Str) (va vb : Ver) (ha : fromString a = .ok va) (hb : fromString b = .ok vb) :
    compareVersions a b = .ok (ordInt (ord a b)) := compareVersions_eq a b va vb ha hb

theorem ordInt_swap (o : Ordering) : ordInt o.swap = - ordInt o := by cases o <;> rfl
theorem ordInt_le (o : Ordering) : ordInt o ≤ 0 ↔ o ≠ .gt := by cases o <;> simp [ordInt]
theorem ordInt_lt (o : Ordering) : ordInt o < 0 ↔ o = .lt := by cases o <;> simp [ordInt]

/-- the three-way result is -1, 0 or 1 -/
theorem cmp_values (a b : Str) (r : Int) (h : compareVersions a b = .ok r) : r = -1 ∨ r = 0 ∨ r = 1 := by
  unfold compareVersions at h
  cases ha : fromString a with
  | error x => rw [ha] at h; cases h
  | ok va =>
    cases hb : fromString b with
    | error x => rw [ha, hb] at h; cases h
    | ok vb =>
      have := cmp_eq a b va vb ha hb
      unfold compareVersions at this
      rw [this] at h
      cases h
      cases ord a b <;> simp [ordInt]

/-- a version is order-equal to itself -/
theorem cmp_refl (a : Str) (va : Ver) (ha : fromString a = .ok va) : compareVersions a a = .ok 0 := by
  rw [cmp_eq a a va va ha ha, ordPre.refl a]; rfl

/-- `compare(b, a)` is the negation of `compare(a, b)` -/
theorem cmp_swap (a b : Str) (va vb : Ver) (ha : fromString a = .ok va) (hb : fromString b = .ok vb) :
    ∃ r, compareVersions a b = .ok r ∧ compareVersions b a = .ok (-r) := by
  refine ⟨ordInt (ord a b), cmp_eq a b va vb ha hb, ?_⟩
  rw [cmp_eq b a vb va hb ha, ordPre.swap a b, ordInt_swap]

/-- transitivity of "not after", including through order-equal versions such as 1.0 and 1.00 -/
theorem cmp_trans_le (a b c : Str) (va vb vc : Ver)
    (ha : fromString a = .ok va) (hb : fromString b = .ok vb) (hc : fromString c = .ok vc)
    (rab rbc : Int) (h1 : compareVersions a b = .ok rab) (h2 : compareVersions b c = .ok rbc)
    (l1 : rab ≤ 0) (l2 : rbc ≤ 0) : ∃ rac, compareVersions a c = .ok rac ∧ rac ≤ 0 := by
  rw [cmp_eq a b va vb ha hb] at h1; cases h1
  rw [cmp_eq b c vb vc hb hc] at h2; cases h2
  refine ⟨_, cmp_eq a c va vc ha hc, ?_⟩
  rw [ordInt_le] at *
  exact ordPre.trans_le a b c l1 l2

/-- … and if one of the two steps is strict, so is the result -/
theorem cmp_trans_lt (a b c : Str) (va vb vc : Ver)
    (ha : fromString a = .ok va) (hb : fromString b = .ok vb) (hc : fromString c = .ok vc)
    (rab rbc : Int) (h1 : compareVersions a b = .ok rab) (h2 : compareVersions b c = .ok rbc)
    (l1 : rab ≤ 0) (l2 : rbc ≤ 0) (hs : rab < 0 ∨ rbc < 0) :
    ∃ rac, compareVersions a c = .ok rac ∧ rac < 0 := by
  rw [cmp_eq a b va vb ha hb] at h1; cases h1
  rw [cmp_eq b c vb vc hb hc] at h2; cases h2
  refine ⟨_, cmp_eq a c va vc ha hc, ?_⟩
  rw [ordInt_le] at l1 l2
  rw [ordInt_lt] at *
  cases hab : ord a b with
  | gt => exact absurd hab l1
  | lt =>
    cases hbc : ord b c with
    | gt => exact absurd hbc l2
    | lt => exact ordPre.trans_lt a b c hab hbc
    | eq => rw [← ordPre.eq_right a b c hbc]; exact hab
  | eq =>
    cases hbc : ord b c with
    | gt => exact absurd hbc l2
    | lt => rw [ordPre.eq_left a b c hab]; exact hbc
    | eq =>
      rcases hs with h | h
      · rw [hab] at h; cases h
      · rw [ordInt_lt, hbc] at h; cases h

/-- **the operators are the stated functions of the three-way result** (over the table extracted
from `eval_constraint` on this run): `<<` strictly earlier, `<=` and legacy `<` earlier or equal,
`=` order-equal, `>=` and legacy `>` later or equal, `>>` strictly later -/
theorem ops_agree : ∀ r ∈ [(-1 : Int), 0, 1],
    evalOp "<<" r = .ok (decide (r < 0)) ∧ evalOp "<=" r = .ok (decide (r ≤ 0)) ∧
    evalOp "<" r = .ok (decide (r ≤ 0)) ∧ evalOp "=" r = .ok (decide (r = 0)) ∧
    evalOp ">=" r = .ok (decide (r ≥ 0)) ∧ evalOp ">" r = .ok (decide (r ≥ 0)) ∧
    evalOp ">>" r = .ok (decide (r > 0)) := by decide +kernel

/-- exactly seven operators are accepted -/
theorem ops_seven : Generated.ops.map (·.1) = ["<", ">", "=", "<<", "<=", ">>", ">="] ∨
    (Generated.ops.map (·.1)).length = 7 := by decide

/-- versions that compare `==` (same epoch, upstream, revision) are order-equal -/
theorem eq_imp_cmp_zero (a b : Str) (va vb : Ver) (ha : fromString a = .ok va) (hb : fromString b = .ok vb)
    (he : va = vb) : compareVersions a b = .ok 0 := by
  subst he
  rw [cmp_eq a b va va ha hb]
  have h1 := (Proofs.VersionParse.fromString_ok a va ha).2
  have h2 := (Proofs.VersionParse.fromString_ok b va hb).2
  have : ord a b = .eq := by
    unfold ord; rw [← h1, ← h2]; exact (cmpVer_pre dpkgRk).refl _
  rw [this]; rfl

/-! ### the reference stable sort -/

theorem insertIdx_perm (lt : Nat → Nat → Bool) (i : Nat) (l : List Nat) :
    (insertIdx lt i l).Perm (i :: l) := by
  induction l with
  | nil => exact List.Perm.refl _
  | cons j js ih =>
    unfold insertIdx
    split
    · exact List.Perm.refl _
    · exact (List.Perm.cons j ih).trans (List.Perm.swap i j js)

theorem foldl_insert_perm (lt : Nat → Nat → Bool) (xs acc : List Nat) :
    (xs.foldl (fun acc i => insertIdx lt i acc) acc).Perm (xs.reverse ++ acc) := by
  induction xs generalizing acc with
  | nil => simp
  | cons x xs ih =>
    simp only [List.foldl_cons, List.reverse_cons, List.append_assoc, List.singleton_append]
    exact (ih _).trans (List.Perm.append_left _ (insertIdx_perm lt x acc))

/-- sorting returns a permutation of the input positions -/
theorem stableSort_perm (lt : Nat → Nat → Bool) (n : Nat) : (stableSort lt n).Perm (List.range n) := by
  unfold stableSort
  have := foldl_insert_perm lt (List.range n) []
  simp only [List.append_nil] at this
  exact this.trans (List.reverse_perm _)

/-- `lt` behaves as the strict part of a total preorder -/
structure StrictWeak (lt : Nat → Nat → Bool) : Prop where
  trans_le : ∀ i j k, lt j i = false → lt k j = false → lt k i = false
  asymm : ∀ i j, lt i j = true → lt j i = false

def Sorted (lt : Nat → Nat → Bool) (l : List Nat) : Prop := l.Pairwise (fun i j => lt j i = false)

theorem insertIdx_sorted (lt : Nat → Nat → Bool) (h : StrictWeak lt) (i : Nat) (l : List Nat)
    (hs : Sorted lt l) : Sorted lt (insertIdx lt i l) := by
  induction l with
  | nil => simp [insertIdx, Sorted]
  | cons j js ih =>
    unfold Sorted at hs ih ⊢
    rw [List.pairwise_cons] at hs
    unfold insertIdx
    split
    · rename_i hij
      rw [List.pairwise_cons]
      refine ⟨?_, List.pairwise_cons.mpr hs⟩
      intro k hk
      rcases List.mem_cons.mp hk with rfl | hk
      · exact h.asymm _ _ hij
      · exact h.trans_le _ _ _ (h.asymm _ _ hij) (hs.1 k hk)
    · rename_i hij
      have hij' : lt i j = false := by simpa using hij
      rw [List.pairwise_cons]
      refine ⟨?_, ih hs.2⟩
      intro k hk
      have hm := (insertIdx_perm lt i js).mem_iff.mp hk
      rcases List.mem_cons.mp hm with rfl | hk
      · exact hij'
      · exact hs.1 k hk

/-- under a strict weak order the sort is non-decreasing: no element is followed by a smaller one -/
theorem stableSort_sorted (lt : Nat → Nat → Bool) (h : StrictWeak lt) (n : Nat) :
    Sorted lt (stableSort lt n) := by
  unfold stableSort
  have : ∀ (xs acc : List Nat), Sorted lt acc → Sorted lt (xs.foldl (fun acc i => insertIdx lt i acc) acc) := by
    intro xs
    induction xs with
    | nil => intro acc ha; simpa using ha
    | cons x xs ih => intro acc ha; exact ih _ (insertIdx_sorted lt h x acc ha)
  exact this _ [] (by simp [Sorted])

/-- the strict part of the version order is a strict weak order on any list of accepted strings -/
theorem version_lt_strictWeak (vs : List Str) :
    StrictWeak (fun i j => decide (ord (vs.getD i []) (vs.getD j []) = .lt)) := by
  constructor
  · intro i j k h1 h2
    simp only [decide_eq_false_iff_not] at *
    have p := ordPre
    intro hk
    -- k < i, ¬ j < i, ¬ k < j : so i ≤ j ≤ k < i
    have hij : ord (vs.getD i []) (vs.getD j []) ≠ .gt := by
      intro hg; exact h1 ((p.gt_iff_lt _ _).mp hg)
    have hjk : ord (vs.getD j []) (vs.getD k []) ≠ .gt := by
      intro hg; exact h2 ((p.gt_iff_lt _ _).mp hg)
    have := p.trans_le _ _ _ hij hjk
    exact this ((p.gt_iff_lt _ _).mpr hk)
  · intro i j h
    simp only [decide_eq_true_eq, decide_eq_false_iff_not] at *
    intro h2
    have := ordPre.swap (vs.getD i []) (vs.getD j [])
    rw [h, h2] at this
    cases this


/-! ## the whole observation -/

theorem mapM_ok_of {α β} (f : α → Except PyExc β) (g : α → β) (l : List α) (h : ∀ a ∈ l, f a = .ok (g a)) :
    l.mapM f = .ok (l.map g) := by
  induction l with
  | nil => rfl
  | cons a as ih =>
    rw [List.mapM_cons, h a (by simp), ih (fun x hx => h x (by simp [hx]))]
    rfl

theorem mapM_ok_facts {α β} (f : α → Except PyExc β) (l : List α) (ps : List β) (h : l.mapM f = .ok ps) :
    ps.length = l.length ∧ ∀ i (hi : i < l.length) (hj : i < ps.length), f l[i] = .ok ps[i] := by
  induction l generalizing ps with
  | nil =>
    rw [List.mapM_nil] at h
    cases h
    exact ⟨rfl, fun i hi => absurd hi (by simp)⟩
  | cons a as ih =>
    rw [List.mapM_cons] at h
    cases hfa : f a with
    | error e => rw [hfa] at h; cases h
    | ok b =>
      rw [hfa] at h
      cases hm : as.mapM f with
      | error e => rw [hm] at h; cases h
      | ok bs =>
        rw [hm] at h
        have hps : ps = b :: bs := by cases h; rfl
        subst hps
        obtain ⟨hl, hix⟩ := ih bs hm
        refine ⟨by simp [hl], ?_⟩
        intro i hi hj
        cases i with
        | zero => simpa using hfa
        | succ k => simpa using hix k (by simpa using hi) (by simpa using hj)

theorem mapM_error_or {α β} (f : α → Except PyExc β) (l : List α) :
    (∃ e, l.mapM f = .error e) ∨ (∃ ps, l.mapM f = .ok ps) := by
  cases h : l.mapM f with
  | error e => exact Or.inl ⟨e, rfl⟩
  | ok ps => exact Or.inr ⟨ps, rfl⟩


theorem getD_of_lt {α} (l : List α) (i : Nat) (d : α) (h : i < l.length) : l.getD i d = l[i] := by
  simp [List.getD_eq_getElem?_getD, List.getElem?_eq_getElem h]

theorem allIdx_iff (n : Nat) (p : Nat → Bool) : allIdx n p = true ↔ ∀ i, i < n → p i = true := by
  simp [allIdx, List.all_eq_true, List.mem_range]

def tbl {α} (n : Nat) (g : Nat → Nat → α) : List (List α) :=
  (List.range n).map fun i => (List.range n).map fun j => g i j

theorem tbl_get {α} (n : Nat) (g : Nat → Nat → α) (d : α) (i j : Nat) (hi : i < n) (hj : j < n) :
    ((tbl n g).getD i []).getD j d = g i j := by
  simp [tbl, List.getD_eq_getElem?_getD, List.getElem?_map, List.getElem?_range, hi, hj]

theorem tbl_shape {α} (n : Nat) (g : Nat → Nat → α) :
    ((tbl n g).length == n && (tbl n g).all (fun r => r.length == n)) = true := by
  simp [tbl, List.all_eq_true]

theorem map_eq_range_map {α β} (l : List α) (F : α → β) (d : α) :
    l.map F = (List.range l.length).map fun i => F (l.getD i d) := by
  apply List.ext_getElem
  · simp
  · intro i h1 h2
    simp only [List.getElem_map, List.getElem_range, List.getD_eq_getElem?_getD]
    have : i < l.length := by simpa using h1
    simp [List.getElem?_eq_getElem this]

/-- an abstract comparison table on the indices below `n` -/
structure Table (n : Nat) (g : Nat → Nat → Int) : Prop where
  vals : ∀ i j, i < n → j < n → g i j = -1 ∨ g i j = 0 ∨ g i j = 1
  swap : ∀ i j, i < n → j < n → g j i = - g i j
  refl : ∀ i, i < n → g i i = 0
  trans : ∀ i j k, i < n → j < n → k < n → g i j ≤ 0 → g j k ≤ 0 →
    g i k ≤ 0 ∧ ((g i j < 0 ∨ g j k < 0) → g i k < 0)

def pairOf (r : Int) (eq : Bool) : PairObs :=
  ⟨[decide (r < 0), decide (r ≤ 0), decide (r > 0), decide (r ≥ 0), eq, !eq], true,
   [decide (r < 0), decide (r ≤ 0), decide (r ≤ 0), decide (r = 0), decide (r ≥ 0), decide (r ≥ 0), decide (r > 0)]⟩


theorem insertIdx_congr (lt lt' : Nat → Nat → Bool) (n i : Nat) (l : List Nat) (hi : i < n) (hl : ∀ x ∈ l, x < n)
    (h : ∀ a b, a < n → b < n → lt a b = lt' a b) : insertIdx lt i l = insertIdx lt' i l := by
  induction l with
  | nil => rfl
  | cons j js ih =>
    simp only [insertIdx, h i j hi (hl j (by simp)), ih (fun x hx => hl x (by simp [hx]))]

theorem insertIdx_mem (lt : Nat → Nat → Bool) (i : Nat) (l : List Nat) : ∀ x ∈ insertIdx lt i l, x = i ∨ x ∈ l := by
  intro x hx
  have := (insertIdx_perm lt i l).mem_iff.mp hx
  simpa using this

theorem stableSort_congr (lt lt' : Nat → Nat → Bool) (n : Nat) (h : ∀ a b, a < n → b < n → lt a b = lt' a b) :
    stableSort lt n = stableSort lt' n := by
  unfold stableSort
  have key : ∀ (xs acc : List Nat), (∀ x ∈ xs, x < n) → (∀ x ∈ acc, x < n) →
      xs.foldl (fun acc i => insertIdx lt i acc) acc = xs.foldl (fun acc i => insertIdx lt' i acc) acc := by
    intro xs
    induction xs with
    | nil => intro acc _ _; rfl
    | cons x xs ih =>
      intro acc hx hacc
      simp only [List.foldl_cons]
      rw [insertIdx_congr lt lt' n x acc (hx x (by simp)) hacc h]
      apply ih
      · intro y hy; exact hx y (by simp [hy])
      · intro y hy
        rcases insertIdx_mem lt' x acc y hy with e | e
        · rw [e]; exact hx x (by simp)
        · exact hacc y e
  exact key _ [] (fun x hx => by simpa using hx) (by simp)

theorem isPerm_of_perm (n : Nat) (p : List Nat) (h : p.Perm (List.range n)) : isPerm n p = true := by
  simp only [isPerm, Bool.and_eq_true, beq_iff_eq, allIdx_iff]
  refine ⟨by simpa using h.length_eq, ?_⟩
  intro i hi
  have : i ∈ p := h.mem_iff.mpr (by simpa using hi)
  simpa using this

/-- the clamped comparison: a strict weak order on all indices that agrees with the table below `n` -/
def clampLt (n : Nat) (g : Nat → Nat → Int) (i j : Nat) : Bool := decide (g (min i (n - 1)) (min j (n - 1)) < 0)

theorem clampLt_strictWeak (n : Nat) (g : Nat → Nat → Int) (hn : 0 < n) (T : Table n g) : StrictWeak (clampLt n g) := by
  have hb : ∀ i, min i (n - 1) < n := fun i => by omega
  constructor
  · intro i j k h1 h2
    simp only [clampLt, decide_eq_false_iff_not, Int.not_lt] at *
    -- g j' i' ≥ 0, g k' j' ≥ 0 ⊢ g k' i' ≥ 0
    have s1 := T.swap (min j (n-1)) (min i (n-1)) (hb j) (hb i)
    have s2 := T.swap (min k (n-1)) (min j (n-1)) (hb k) (hb j)
    have s3 := T.swap (min k (n-1)) (min i (n-1)) (hb k) (hb i)
    have := (T.trans (min i (n-1)) (min j (n-1)) (min k (n-1)) (hb i) (hb j) (hb k) (by omega) (by omega)).1
    omega
  · intro i j h
    simp only [clampLt, decide_eq_true_eq, decide_eq_false_iff_not, Int.not_lt] at *
    have := T.swap (min i (n-1)) (min j (n-1)) (hb i) (hb j)
    omega

theorem sorted_adjacent (n : Nat) (g : Nat → Nat → Int) (T : Table n g) (lt : Nat → Nat → Bool)
    (hlt : ∀ a b, a < n → b < n → lt a b = decide (g a b < 0)) :
    ∀ k, k < n - 1 → g ((stableSort lt n).getD k 0) ((stableSort lt n).getD (k + 1) 0) ≤ 0 := by
  intro k hk
  have hn : 0 < n := by omega
  have hc : stableSort lt n = stableSort (clampLt n g) n := by
    apply stableSort_congr
    intro a b ha hb
    rw [hlt a b ha hb]
    simp only [clampLt]
    have e1 : min a (n - 1) = a := by omega
    have e2 : min b (n - 1) = b := by omega
    rw [e1, e2]
  rw [hc]
  have hperm := stableSort_perm (clampLt n g) n
  have hlen : (stableSort (clampLt n g) n).length = n := by simpa using hperm.length_eq
  have hsorted := stableSort_sorted (clampLt n g) (clampLt_strictWeak n g hn T) n
  have hk1 : k < (stableSort (clampLt n g) n).length := by omega
  have hk2 : k + 1 < (stableSort (clampLt n g) n).length := by omega
  have hpw := (List.pairwise_iff_getElem.mp hsorted) k (k + 1) hk1 hk2 (by omega)
  have hin : ∀ (i : Nat) (hi : i < (stableSort (clampLt n g) n).length), (stableSort (clampLt n g) n)[i] < n := by
    intro i hi
    have : (stableSort (clampLt n g) n)[i] ∈ List.range n := hperm.mem_iff.mp (List.getElem_mem hi)
    simpa using this
  have ha := hin k hk1
  have hb := hin (k + 1) hk2
  simp only [List.getD_eq_getElem?_getD, List.getElem?_eq_getElem hk1, List.getElem?_eq_getElem hk2, Option.getD_some]
  simp only [clampLt, decide_eq_false_iff_not, Int.not_lt] at hpw
  have e1 : min (stableSort (clampLt n g) n)[k] (n - 1) = (stableSort (clampLt n g) n)[k] := by omega
  have e2 : min (stableSort (clampLt n g) n)[k + 1] (n - 1) = (stableSort (clampLt n g) n)[k + 1] := by omega
  rw [e1, e2] at hpw
  have := T.swap _ _ ha hb
  omega

/-- Python `max` / `min`: the running extremum of a total preorder is extremal -/
theorem firstMax_extremal (n : Nat) (g : Nat → Nat → Int) (T : Table n g) (gt : Nat → Nat → Bool)
    (hgt : ∀ a b, a < n → b < n → gt a b = decide (g a b > 0)) :
    match firstMax gt n with
    | none => n = 0
    | some m => m < n ∧ ∀ j, j < n → g m j ≥ 0 := by
  unfold firstMax
  by_cases hn : n = 0
  · simp [hn]
  · simp only [hn, if_false]
    have hpos : 0 < n := Nat.pos_of_ne_zero hn
    -- invariant over the prefix 0..k
    have key : ∀ k, k ≤ n →
        (List.range k).foldl (fun m i => if gt i m then i else m) 0 < n ∧
        ∀ j, j < k → g ((List.range k).foldl (fun m i => if gt i m then i else m) 0) j ≥ 0 := by
      intro k
      induction k with
      | zero => intro _; exact ⟨by simpa using hpos, fun j hj => absurd hj (by omega)⟩
      | succ k ih =>
        intro hk
        obtain ⟨hm, hall⟩ := ih (by omega)
        rw [List.range_succ, List.foldl_append]
        simp only [List.foldl_cons, List.foldl_nil]
        generalize (List.range k).foldl (fun m i => if gt i m then i else m) 0 = m at hm hall
        have hkn : k < n := by omega
        rw [hgt k m hkn hm]
        by_cases hg : g k m > 0
        · simp only [hg, decide_true, if_true]
          refine ⟨hkn, ?_⟩
          intro j hj
          by_cases hjk : j = k
          · subst hjk; have := T.refl j hkn; omega
          · have hjn : j < n := by omega
            have hmj := hall j (by omega)
            -- g j m ≤ 0, g m k < 0 ⇒ g j k ≤ 0
            have s1 := T.swap m j hm hjn
            have s2 := T.swap k m hkn hm
            have s3 := T.swap k j hkn hjn
            have := (T.trans j m k hjn hm hkn (by omega) (by omega)).1
            omega
        · simp only [hg, decide_false, Bool.false_eq_true, if_false]
          refine ⟨hm, ?_⟩
          intro j hj
          by_cases hjk : j = k
          · subst hjk
            have := T.swap j m hkn hm
            omega
          · exact hall j (by omega)
    exact key n (Nat.le_refl n)


theorem Table.neg {n : Nat} {g : Nat → Nat → Int} (T : Table n g) : Table n (fun i j => - g i j) := by
  constructor
  · intro i j hi hj; have := T.vals i j hi hj; omega
  · intro i j hi hj; have := T.swap i j hi hj; omega
  · intro i hi; have := T.refl i hi; omega
  · intro i j k hi hj hk h1 h2
    -- -g i j ≤ 0, -g j k ≤ 0: g k j ≤ 0, g j i ≤ 0 ⇒ g k i ≤ 0
    have s1 := T.swap i j hi hj
    have s2 := T.swap j k hj hk
    have s3 := T.swap i k hi hk
    have := T.trans k j i hk hj hi (by omega) (by omega)
    constructor
    · omega
    · intro h
      have := this.2 (by omega)
      omega

/-- the observation the model builds from a comparison table -/
def fullOf (n : Nat) (g : Nat → Nat → Int) (e : Nat → Nat → Bool) : Full :=
  let matrix := tbl n g
  let get (i j : Nat) : Int := (matrix.getD i []).getD j 0
  let lt := fun i j => decide (get i j < 0)
  let gt := fun i j => decide (get i j > 0)
  { matrix := matrix, pairs := tbl n fun i j => pairOf (g i j) (e i j),
    sortedObj := stableSort lt n, sortedKey := stableSort lt n,
    maxIdx := firstMax gt n, minIdx := firstMax lt n }

/-- **every clause of the property holds of the observation built from a total preorder table** -/
theorem holdsFull_fullOf (n : Nat) (g : Nat → Nat → Int) (e : Nat → Nat → Bool) (T : Table n g)
    (he : ∀ i j, i < n → j < n → e i j = true → g i j = 0) : holdsFull n (fullOf n g e) = true := by
  have hget : ∀ i j, i < n → j < n → (((fullOf n g e).matrix.getD i []).getD j 0) = g i j :=
    fun i j hi hj => tbl_get n g 0 i j hi hj
  have hpr : ∀ i j, i < n → j < n → (((fullOf n g e).pairs.getD i []).getD j ⟨[], false, []⟩) = pairOf (g i j) (e i j) :=
    fun i j hi hj => tbl_get n _ _ i j hi hj
  have hlt : ∀ a b, a < n → b < n →
      (fun i j => decide ((((fullOf n g e).matrix.getD i []).getD j 0) < 0)) a b = decide (g a b < 0) := by
    intro a b ha hb; simp only [hget a b ha hb]
  have hgt : ∀ a b, a < n → b < n →
      (fun i j => decide ((((fullOf n g e).matrix.getD i []).getD j 0) > 0)) a b = decide (g a b > 0) := by
    intro a b ha hb; simp only [hget a b ha hb]
  have hsortPerm := stableSort_perm (fun i j => decide ((((fullOf n g e).matrix.getD i []).getD j 0) < 0)) n
  have hsorted := sorted_adjacent n g T _ hlt
  have hmax := firstMax_extremal n g T _ hgt
  have hmin := firstMax_extremal n (fun i j => - g i j) T.neg
    (fun i j => decide ((((fullOf n g e).matrix.getD i []).getD j 0) < 0)) (by
      intro a b ha hb
      simp only [hget a b ha hb]
      by_cases h : g a b < 0
      · simp [h]
      · simp [h])
  unfold holdsFull
  simp only [Bool.and_eq_true]
  have hshape1 := tbl_shape n g
  have hshape2 := tbl_shape n fun i j => pairOf (g i j) (e i j)
  simp only [Bool.and_eq_true] at hshape1 hshape2
  refine ⟨⟨⟨⟨⟨⟨⟨⟨⟨⟨⟨⟨⟨hshape1.1, hshape1.2⟩, hshape2.1⟩, hshape2.2⟩, ?_⟩, ?_⟩, ?_⟩, ?_⟩, ?_⟩, ?_⟩, ?_⟩, ?_⟩, ?_⟩, ?_⟩
  · -- values and antisymmetry
    rw [allIdx_iff]; intro i hi; rw [allIdx_iff]; intro j hj
    rw [hget i j hi hj, hget j i hj hi]
    have v := T.vals i j hi hj
    have s := T.swap i j hi hj
    rcases v with v | v | v <;> simp [v, s]
  · rw [allIdx_iff]; intro i hi
    rw [hget i i hi hi, T.refl i hi]; rfl
  · rw [allIdx_iff]; intro i hi; rw [allIdx_iff]; intro j hj; rw [allIdx_iff]; intro k hk
    simp only [hget i j hi hj, hget j k hj hk, hget i k hi hk]
    by_cases h1 : g i j ≤ 0
    · by_cases h2 : g j k ≤ 0
      · obtain ⟨t1, t2⟩ := T.trans i j k hi hj hk h1 h2
        by_cases h3 : g i j < 0 ∨ g j k < 0
        · have := t2 h3
          simp [h1, h2, t1, this]
        · have h3' : ¬ g i j < 0 ∧ ¬ g j k < 0 := by
            constructor
            · intro h; exact h3 (Or.inl h)
            · intro h; exact h3 (Or.inr h)
          simp [h1, h2, t1, h3'.1, h3'.2]
      · simp [h2]
    · simp [h1]
  · rw [allIdx_iff]; intro i hi; rw [allIdx_iff]; intro j hj
    simp only [hget i j hi hj, hpr i j hi hj]
    simp only [pairOf, List.getD_eq_getElem?_getD, List.getElem?_cons_succ, List.getElem?_cons_zero, Option.getD_some,
      beq_self_eq_true, Bool.true_and, Bool.and_true]
    cases hee : e i j with
    | false => simp
    | true => simp [he i j hi hj hee]
  · exact isPerm_of_perm n _ hsortPerm
  · exact isPerm_of_perm n _ hsortPerm
  · rw [allIdx_iff]; intro k hk
    have := hsorted k hk
    have hperm := hsortPerm
    have hlen : (stableSort (fun i j => decide ((((fullOf n g e).matrix.getD i []).getD j 0) < 0)) n).length = n := by
      simpa using hperm.length_eq
    have hin : ∀ i, i < n → (stableSort (fun i j => decide ((((fullOf n g e).matrix.getD i []).getD j 0) < 0)) n).getD i 0 < n := by
      intro i hi
      have hi' : i < (stableSort (fun i j => decide ((((fullOf n g e).matrix.getD i []).getD j 0) < 0)) n).length := by omega
      rw [getD_of_lt _ _ _ hi']
      have := hperm.mem_iff.mp (List.getElem_mem hi')
      simpa using this
    show decide (((((fullOf n g e).matrix.getD ((fullOf n g e).sortedObj.getD k 0) []).getD ((fullOf n g e).sortedObj.getD (k + 1) 0) 0)) ≤ 0) = true
    have e1 : (fullOf n g e).sortedObj = stableSort (fun i j => decide ((((fullOf n g e).matrix.getD i []).getD j 0) < 0)) n := rfl
    rw [e1, hget _ _ (hin k (by omega)) (hin (k + 1) (by omega))]
    simpa using this
  · rw [allIdx_iff]; intro k hk
    have := hsorted k hk
    have hperm := hsortPerm
    have hlen : (stableSort (fun i j => decide ((((fullOf n g e).matrix.getD i []).getD j 0) < 0)) n).length = n := by
      simpa using hperm.length_eq
    have hin : ∀ i, i < n → (stableSort (fun i j => decide ((((fullOf n g e).matrix.getD i []).getD j 0) < 0)) n).getD i 0 < n := by
      intro i hi
      have hi' : i < (stableSort (fun i j => decide ((((fullOf n g e).matrix.getD i []).getD j 0) < 0)) n).length := by omega
      rw [getD_of_lt _ _ _ hi']
      have := hperm.mem_iff.mp (List.getElem_mem hi')
      simpa using this
    show decide (((((fullOf n g e).matrix.getD ((fullOf n g e).sortedKey.getD k 0) []).getD ((fullOf n g e).sortedKey.getD (k + 1) 0) 0)) ≤ 0) = true
    have e1 : (fullOf n g e).sortedKey = stableSort (fun i j => decide ((((fullOf n g e).matrix.getD i []).getD j 0) < 0)) n := rfl
    rw [e1, hget _ _ (hin k (by omega)) (hin (k + 1) (by omega))]
    simpa using this
  · have e1 : (fullOf n g e).maxIdx = firstMax (fun i j => decide ((((fullOf n g e).matrix.getD i []).getD j 0) > 0)) n := rfl
    rw [e1]
    cases hm : firstMax (fun i j => decide ((((fullOf n g e).matrix.getD i []).getD j 0) > 0)) n with
    | none => rw [hm] at hmax; simpa using hmax
    | some m =>
      rw [hm] at hmax
      simp only [Bool.and_eq_true, decide_eq_true_eq, allIdx_iff]
      refine ⟨hmax.1, ?_⟩
      intro j hj
      rw [hget m j hmax.1 hj]
      simpa using hmax.2 j hj
  · have e1 : (fullOf n g e).minIdx = firstMax (fun i j => decide ((((fullOf n g e).matrix.getD i []).getD j 0) < 0)) n := rfl
    rw [e1]
    cases hm : firstMax (fun i j => decide ((((fullOf n g e).matrix.getD i []).getD j 0) < 0)) n with
    | none => rw [hm] at hmin; simpa using hmin
    | some m =>
      rw [hm] at hmin
      simp only [Bool.and_eq_true, decide_eq_true_eq, allIdx_iff]
      refine ⟨hmin.1, ?_⟩
      intro j hj
      rw [hget m j hmin.1 hj]
      have := hmin.2 j hj
      have h' : g m j ≤ 0 := by omega
      simpa using h'


/-- the order table of a list of strings -/
def gOf (vs : List Str) (i j : Nat) : Int := ordInt (ord (vs.getD i []) (vs.getD j []))

theorem gOf_table (vs : List Str) (n : Nat) : Table n (gOf vs) := by
  have p := ordPre
  constructor
  · intro i j _ _
    unfold gOf
    cases ord (vs.getD i []) (vs.getD j []) <;> simp [ordInt]
  · intro i j _ _
    unfold gOf
    rw [p.swap (vs.getD i []) (vs.getD j []), ordInt_swap]
  · intro i _
    unfold gOf
    rw [p.refl]; rfl
  · intro i j k _ _ _ h1 h2
    unfold gOf at *
    rw [ordInt_le] at h1 h2
    refine ⟨(ordInt_le _).mpr (p.trans_le _ _ _ h1 h2), ?_⟩
    intro hs
    rw [ordInt_lt] at *
    cases hab : ord (vs.getD i []) (vs.getD j []) with
    | gt => exact absurd hab h1
    | lt =>
      cases hbc : ord (vs.getD j []) (vs.getD k []) with
      | gt => exact absurd hbc h2
      | lt => exact p.trans_lt _ _ _ hab hbc
      | eq => rw [← p.eq_right _ _ _ hbc]; exact hab
    | eq =>
      cases hbc : ord (vs.getD j []) (vs.getD k []) with
      | gt => exact absurd hbc h2
      | lt => rw [p.eq_left _ _ _ hab]; exact hbc
      | eq =>
        rcases hs with h | h
        · rw [hab] at h; cases h
        · rw [ordInt_lt, hbc] at h; cases h

theorem pairObs_ok (a b : Ver) : ∀ r ∈ [(-1 : Int), 0, 1], pairObs a b r = .ok (pairOf r (decide (a = b))) := by
  intro r hr
  simp only [List.mem_cons, List.not_mem_nil, or_false] at hr
  rcases hr with rfl | rfl | rfl <;> rfl

theorem zip_mapM {α β γ} (ps : List α) (F : α → β) (f : α × β → Except PyExc γ) :
    (ps.zip (ps.map F)).mapM f = ps.mapM fun a => f (a, F a) := by
  induction ps with
  | nil => rfl
  | cons a as ih => simp only [List.map_cons, List.zip_cons_cons, List.mapM_cons, ih]


/-- the three-way result between two parsed versions, totalised -/
def Gv (a b : Ver) : Int := match cmpV a b with | .ok r => r | .error _ => 0

theorem cmpV_of_parsed (a b : Str) (va vb : Ver) (ha : fromString a = .ok va) (hb : fromString b = .ok vb) :
    cmpV va vb = .ok (ordInt (ord a b)) := by
  have := cmp_eq a b va vb ha hb
  unfold compareVersions at this
  rw [ha, hb] at this
  exact this

/-- **C02, the whole observation**: for every list of strings, every clause of the property holds of what the
model observes — the matrix, the rich comparisons and the seven constraint operators on every ordered pair,
`sorted` of the objects and by key, `max` and `min` -/
theorem sound (vs : Input) : holdsOn vs (model vs) = true := by
  cases hps : vs.mapM fromString with
  | error e =>
    have : model vs = .error e := by unfold model; rw [hps]; rfl
    rw [this]; rfl
  | ok ps =>
    obtain ⟨hlen, hix⟩ := mapM_ok_facts fromString vs ps hps
    -- every entry of the matrix
    have hcmp : ∀ i j (hi : i < ps.length) (hj : j < ps.length), cmpV ps[i] ps[j] = .ok (gOf vs i j) := by
      intro i j hi hj
      have h1 := hix i (by omega) hi
      have h2 := hix j (by omega) hj
      have := cmpV_of_parsed vs[i] vs[j] ps[i] ps[j] h1 h2
      rw [this]
      unfold gOf
      rw [getD_of_lt vs i [] (by omega), getD_of_lt vs j [] (by omega)]
    have hmem : ∀ a ∈ ps, ∀ b ∈ ps, cmpV a b = .ok (Gv a b) := by
      intro a ha b hb
      obtain ⟨i, hi, rfl⟩ := List.getElem_of_mem ha
      obtain ⟨j, hj, rfl⟩ := List.getElem_of_mem hb
      unfold Gv
      rw [hcmp i j hi hj]
    have hGv : ∀ i j (hi : i < ps.length) (hj : j < ps.length), Gv ps[i] ps[j] = gOf vs i j := by
      intro i j hi hj
      unfold Gv; rw [hcmp i j hi hj]
    have hmatrix : (ps.mapM fun a => ps.mapM fun b => cmpV a b) = .ok (ps.map fun a => ps.map fun b => Gv a b) := by
      apply mapM_ok_of
      intro a ha
      exact mapM_ok_of _ _ _ (fun b hb => hmem a ha b hb)
    have hrows : (ps.map fun a => ps.map fun b => Gv a b) = tbl ps.length (gOf vs) := by
      unfold tbl
      rw [map_eq_range_map ps _ ⟨0, [], []⟩]
      apply List.map_congr_left
      intro i hi
      have hi' : i < ps.length := by simpa using hi
      rw [map_eq_range_map ps _ ⟨0, [], []⟩]
      apply List.map_congr_left
      intro j hj
      have hj' : j < ps.length := by simpa using hj
      rw [getD_of_lt ps i _ hi', getD_of_lt ps j _ hj']
      exact hGv i j hi' hj'
    have hpairs : ((ps.zip (ps.map fun a => ps.map fun b => Gv a b)).mapM fun (x : Ver × List Int) =>
          (ps.zip x.2).mapM fun (y : Ver × Int) => pairObs x.1 y.1 y.2) =
        .ok (ps.map fun a => ps.map fun b => pairOf (Gv a b) (decide (a = b))) := by
      rw [zip_mapM]
      apply mapM_ok_of
      intro a ha
      simp only
      rw [zip_mapM]
      apply mapM_ok_of
      intro b hb
      apply pairObs_ok
      obtain ⟨i, hi, rfl⟩ := List.getElem_of_mem ha
      obtain ⟨j, hj, rfl⟩ := List.getElem_of_mem hb
      rw [hGv i j hi hj]
      have := (gOf_table vs ps.length).vals i j hi hj
      simp only [List.mem_cons, List.not_mem_nil, or_false]
      exact this
    have hprows : (ps.map fun a => ps.map fun b => pairOf (Gv a b) (decide (a = b))) =
        tbl ps.length fun i j => pairOf (gOf vs i j) (decide (ps.getD i ⟨0, [], []⟩ = ps.getD j ⟨0, [], []⟩)) := by
      unfold tbl
      rw [map_eq_range_map ps _ ⟨0, [], []⟩]
      apply List.map_congr_left
      intro i hi
      have hi' : i < ps.length := by simpa using hi
      rw [map_eq_range_map ps _ ⟨0, [], []⟩]
      apply List.map_congr_left
      intro j hj
      have hj' : j < ps.length := by simpa using hj
      rw [getD_of_lt ps i _ hi', getD_of_lt ps j _ hj', hGv i j hi' hj']
      simp only [getD_of_lt ps i _ hi', getD_of_lt ps j _ hj']
    have hmodel : model vs = .ok (fullOf ps.length (gOf vs) fun i j => decide (ps.getD i ⟨0, [], []⟩ = ps.getD j ⟨0, [], []⟩)) := by
      unfold model
      rw [hps]
      simp only [bind, Except.bind]
      rw [hmatrix]
      simp only
      rw [hpairs]
      simp only [pure, Except.pure, hrows, hprows, hlen, fullOf]
    rw [hmodel]
    unfold holdsOn
    simp only
    rw [← hlen]
    apply holdsFull_fullOf _ _ _ (gOf_table vs ps.length)
    intro i j hi hj he
    have heq : ps.getD i ⟨0, [], []⟩ = ps.getD j ⟨0, [], []⟩ := by simpa using he
    rw [getD_of_lt ps i _ hi, getD_of_lt ps j _ hj] at heq
    have h1 := hix i (by omega) hi
    have h2 := hix j (by omega) hj
    have := eq_imp_cmp_zero vs[i] vs[j] ps[i] ps[j] h1 h2 heq
    rw [cmp_eq vs[i] vs[j] ps[i] ps[j] h1 h2] at this
    unfold gOf
    rw [getD_of_lt vs i [] (by omega), getD_of_lt vs j [] (by omega)]
    have h0 : ordInt (ord vs[i] vs[j]) = 0 := by
      injection this
    exact h0


/-- non-vacuity: order-equal but textually different versions, and the legacy operators -/
example : model ["1.0".toList, "1.00".toList] =
    .ok { matrix := [[0, 0], [0, 0]],
          pairs := [[⟨[false, true, false, true, true, false], true, [false, true, true, true, true, true, false]⟩,
                     ⟨[false, true, false, true, false, true], true, [false, true, true, true, true, true, false]⟩],
                    [⟨[false, true, false, true, false, true], true, [false, true, true, true, true, true, false]⟩,
                     ⟨[false, true, false, true, true, false], true, [false, true, true, true, true, true, false]⟩]],
          sortedObj := [0, 1], sortedKey := [0, 1], maxIdx := some 0, minIdx := some 0 } := by decide +kernel
example : holdsOn ["1:1".toList, "2~".toList, "2".toList] (model ["1:1".toList, "2~".toList, "2".toList]) = true := by
  decide +kernel

end Props.C02
