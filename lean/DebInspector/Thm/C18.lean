/-
C18 — the two mappings are complete and mutually inverse: theorems about the fold.
-/
import DebInspector.Props.C18
import DebInspector.Proofs.SplitJoin

namespace Props.C18
open Py Model.Contents

/-- all (key, value) pairs a mapping holds, with multiplicity -/
def pairs (d : Dict) : List (Str × Str) := d.flatMap fun kv => kv.2.map fun v => (kv.1, v)

theorem pairs_appendTo (d : Dict) (k v : Str) : (pairs (appendTo d k v)).Perm (pairs d ++ [(k, v)]) := by
  induction d with
  | nil => simp [appendTo, pairs]
  | cons kv rest ih =>
    obtain ⟨k', vs⟩ := kv
    unfold appendTo
    split
    · rename_i h
      subst h
      simp only [pairs, List.flatMap_cons, List.map_append, List.map_cons, List.map_nil, List.append_assoc]
      refine List.Perm.append_left _ ?_
      exact List.perm_append_comm
    · simp only [pairs, List.flatMap_cons, List.append_assoc] at ih ⊢
      exact List.Perm.append_left _ ih

def rowPairs (path : Str) (names : List Str) : List (Str × Str) := names.map fun n => (path, n)

/-- adding one row adds exactly its (path, package) pairs to the first mapping and the swapped pairs
to the second -/
theorem addRow_pairs (s : St) (path : Str) (names : List Str) :
    (pairs (addRow s path names).byPath).Perm (pairs s.byPath ++ rowPairs path names) ∧
    (pairs (addRow s path names).byPkg).Perm (pairs s.byPkg ++ (rowPairs path names).map Prod.swap) ∧
    (addRow s path names).inTable = s.inTable := by
  induction names generalizing s with
  | nil => simp [addRow, rowPairs]
  | cons n ns ih =>
    have := ih { s with byPath := appendTo s.byPath path n, byPkg := appendTo s.byPkg n path }
    simp only [addRow, List.foldl_cons] at this ⊢
    obtain ⟨h1, h2, h3⟩ := this
    refine ⟨?_, ?_, h3⟩
    · refine h1.trans ?_
      simp only [rowPairs, List.map_cons]
      have := (pairs_appendTo s.byPath path n).append_right (List.map (fun n => (path, n)) ns)
      simpa [List.append_assoc] using this
    · refine h2.trans ?_
      simp only [rowPairs, List.map_cons, List.map_map]
      have := (pairs_appendTo s.byPkg n path).append_right (List.map (Prod.swap ∘ fun n => (path, n)) ns)
      simpa [List.append_assoc] using this

/-- the state after folding a list of parsed rows -/
def addRows (s : St) (rows : List (Str × List Str)) : St := rows.foldl (fun s r => addRow s r.1 r.2) s

def allPairs (rows : List (Str × List Str)) : List (Str × Str) := rows.flatMap fun r => rowPairs r.1 r.2

theorem addRows_pairs (s : St) (rows : List (Str × List Str)) :
    (pairs (addRows s rows).byPath).Perm (pairs s.byPath ++ allPairs rows) ∧
    (pairs (addRows s rows).byPkg).Perm (pairs s.byPkg ++ (allPairs rows).map Prod.swap) := by
  induction rows generalizing s with
  | nil => simp [addRows, allPairs]
  | cons r rs ih =>
    obtain ⟨h1, h2, _⟩ := addRow_pairs s r.1 r.2
    obtain ⟨i1, i2⟩ := ih (addRow s r.1 r.2)
    simp only [addRows, List.foldl_cons] at i1 i2 ⊢
    refine ⟨?_, ?_⟩
    · refine i1.trans ?_
      simp only [allPairs, List.flatMap_cons]
      have := h1.append_right (List.flatMap (fun r => rowPairs r.1 r.2) rs)
      simpa [List.append_assoc] using this
    · refine i2.trans ?_
      simp only [allPairs, List.flatMap_cons, List.map_append]
      have := h2.append_right (List.map Prod.swap (List.flatMap (fun r => rowPairs r.1 r.2) rs))
      simpa [List.append_assoc] using this

/-- **complete and mutually inverse**: for any list of parsed rows — any number, any names, repeated
paths and packages — the path→packages mapping holds exactly the rows' (path, package) pairs and
the package→paths mapping exactly the same pairs swapped, each with multiplicity -/
theorem inverse_complete (rows : List (Str × List Str)) :
    let s := addRows ⟨true, [], []⟩ rows
    (pairs s.byPath).Perm (allPairs rows) ∧
    (pairs s.byPkg).Perm ((allPairs rows).map Prod.swap) ∧
    ((pairs s.byPkg).map Prod.swap).Perm (pairs s.byPath) := by
  obtain ⟨h1, h2⟩ := addRows_pairs ⟨true, [], []⟩ rows
  simp only [pairs, List.flatMap_nil, List.nil_append] at h1 h2
  refine ⟨h1, h2, ?_⟩
  have h3 := h2.map Prod.swap
  simp only [List.map_map, Prod.swap_swap_eq, List.map_id] at h3
  exact h3.trans h1.symm

/-- non-vacuity: a path with a space, three-level qualifiers, a repeated path -/
example : parseContents (fileLines "FILE  LOCATION\nusr/a b   main/net/x,y\nusr/a b z\n".toList) true =
    .ok ([("usr/a b".toList, ["x".toList, "y".toList, "z".toList])],
         [("x".toList, ["usr/a b".toList]), ("y".toList, ["usr/a b".toList]), ("z".toList, ["usr/a b".toList])]) := by
  decide +kernel

/-! ## the whole property: every table of the grammar -/

/-! ### string facts -/

theorem join1_snoc (sep : Char) (qs : List Str) (n : Str) (h : qs ≠ []) :
    join [sep] (qs ++ [n]) = join [sep] qs ++ sep :: n := by
  induction qs with
  | nil => exact absurd rfl h
  | cons q rest ih =>
    cases rest with
    | nil => simp [join]
    | cons r rs =>
      have := ih (by simp)
      simp only [List.cons_append] at this ⊢
      rw [join1_cons2, this, join1_cons2]
      simp

theorem mem_join1' (sep : Char) (ps : List Str) (c : Char) (h : c ∈ join [sep] ps) : c = sep ∨ ∃ p ∈ ps, c ∈ p := by
  induction ps with
  | nil => simp [join] at h
  | cons p ps ih =>
    cases ps with
    | nil => simp only [join] at h; exact Or.inr ⟨p, by simp, h⟩
    | cons q qs =>
      rw [join1_cons2] at h
      simp only [List.mem_append, List.mem_cons] at h
      rcases h with h | h | h
      · exact Or.inr ⟨p, by simp, h⟩
      · exact Or.inl h
      · rcases ih h with h | ⟨r, hr, hc⟩
        · exact Or.inl h
        · exact Or.inr ⟨r, List.mem_cons_of_mem _ hr, hc⟩

theorem tokenOk_props (s : Str) (h : tokenOk s = true) :
    s ≠ [] ∧ ∀ c ∈ s, isSpace c = false ∧ c ≠ ',' ∧ c ≠ '/' := by
  simp only [tokenOk, Bool.and_eq_true, Bool.not_eq_true', List.isEmpty_eq_false_iff, List.all_eq_true, bne_iff_ne,
    ne_eq] at h
  exact ⟨h.1, fun c hc => ⟨(h.2 c hc).1.1, (h.2 c hc).1.2, (h.2 c hc).2⟩⟩

/-- a qualified name `[[area/]section/]package` -/
structure QFacts (p : List Str × Str) : Prop where
  name : tokenOk p.2 = true
  quals : ∀ q ∈ p.1, tokenOk q = true

theorem qualified_chars (p : List Str × Str) (hq : QFacts p) :
    qualified p ≠ [] ∧ ∀ c ∈ qualified p, isSpace c = false ∧ c ≠ ',' := by
  unfold qualified
  have hn := tokenOk_props p.2 hq.name
  constructor
  · cases hp : p.1 with
    | nil => simpa [join] using hn.1
    | cons q qs =>
      have hq0 := (tokenOk_props q (hq.quals q (by rw [hp]; simp))).1
      intro e
      have : join ['/'] (q :: (qs ++ [p.2])) = [] := by simpa using e
      cases hqs : qs ++ [p.2] with
      | nil => simp at hqs
      | cons r rs => rw [hqs, join1_cons2] at this; cases q <;> simp_all
  · intro c hc
    rcases mem_join1' '/' _ c hc with h | ⟨t, ht, hct⟩
    · subst h; exact ⟨by decide, by decide⟩
    · simp only [List.mem_append, List.mem_singleton] at ht
      rcases ht with ht | rfl
      · have := (tokenOk_props t (hq.quals t ht)).2 c hct
        exact ⟨this.1, this.2.1⟩
      · have := hn.2 c hct
        exact ⟨this.1, this.2.1⟩

theorem bareName_qualified (p : List Str × Str) (hq : QFacts p) : bareName (qualified p) = p.2 := by
  unfold bareName qualified
  have hn := tokenOk_props p.2 hq.name
  have hns : '/' ∉ p.2 := fun hm => (hn.2 '/' hm).2.2 rfl
  cases hp : p.1 with
  | nil => simp [join, rpartitionChar_not_mem '/' p.2 hns]
  | cons q qs =>
    rw [join1_snoc '/' (q :: qs) p.2 (by simp), rpartitionChar_split '/' _ _ hns]


/-! ### one row -/

structure RowFacts (r : Row) : Prop where
  pathNe : r.path ≠ []
  pathHead : headP isSpace r.path = false
  pathLast : lastP (fun c => !isSpace c) r.path = true
  pathNoNl : '\n' ∉ r.path
  pkgsNe : r.pkgs ≠ []
  pkgs : ∀ p ∈ r.pkgs, QFacts p
  padNe : r.pad ≠ []
  pad : ∀ c ∈ r.pad, c = ' '
  notHeader : ¬ (r.path = "FILE".toList ∧ join [','] (r.pkgs.map qualified) = "LOCATION".toList)

theorem rowFacts (r : Row) (h : rowOk r = true) : RowFacts r := by
  simp only [rowOk, Bool.and_eq_true, Bool.not_eq_true', List.isEmpty_eq_false_iff, List.all_eq_true, beq_iff_eq,
    decide_eq_true_eq] at h
  obtain ⟨⟨⟨⟨⟨⟨⟨⟨⟨h1, h2⟩, h3⟩, h4⟩, _⟩, h6⟩, h7⟩, h8⟩, h9⟩, h10⟩ := h
  refine ⟨h1, ?_, h3, by simpa using h4, h6, ?_, h8, h9, ?_⟩
  · cases hp : r.path with
    | nil => exact absurd hp h1
    | cons c cs => rw [hp] at h2; simpa [headP] using h2
  · intro p hp
    have := h7 p hp
    exact ⟨this.1.1, this.2⟩
  · intro hc
    simp [hc.1, hc.2] at h10

def pkText (r : Row) : Str := join [','] (r.pkgs.map qualified)

theorem pkText_props (r : Row) (hf : RowFacts r) :
    pkText r ≠ [] ∧ (∀ c ∈ pkText r, isSpace c = false) := by
  unfold pkText
  constructor
  · cases hp : r.pkgs with
    | nil => exact absurd hp hf.pkgsNe
    | cons p ps =>
      have := (qualified_chars p (hf.pkgs p (by rw [hp]; simp))).1
      simp only [List.map_cons]
      cases ps with
      | nil => simpa [join] using this
      | cons q qs => rw [List.map_cons, join1_cons2]; cases hq : qualified p <;> simp_all
  · intro c hc
    rcases mem_join1' ',' _ c hc with h | ⟨t, ht, hct⟩
    · subst h; decide
    · simp only [List.mem_map] at ht
      obtain ⟨p, hp, rfl⟩ := ht
      exact ((qualified_chars p (hf.pkgs p hp)).2 c hct).1

theorem lastP_all' (p : Char → Bool) (s : Str) (hne : s ≠ []) (h : ∀ c ∈ s, p c = true) : lastP p s = true := by
  induction s with
  | nil => exact absurd rfl hne
  | cons c cs ih =>
    cases cs with
    | nil => simpa [lastP] using h c (by simp)
    | cons d ds => simpa [lastP] using ih (by simp) (fun x hx => h x (by simp [hx]))

theorem splitLine_row (r : Row) (hf : RowFacts r) : splitLine (renderRow r) = (r.path, pkText r) := by
  obtain ⟨hpne, hpns⟩ := pkText_props r hf
  obtain ⟨pad', hpad'⟩ : ∃ pad', r.pad = pad' ++ [' '] := by
    rcases List.eq_nil_or_concat r.pad with h | ⟨i, l, h⟩
    · exact absurd h hf.padNe
    · have hl : l = ' ' := hf.pad l (by rw [h]; simp)
      exact ⟨i, by rw [h, hl]; simp⟩
  have hsp : ∀ c ∈ pad', isSpace c = true := by
    intro c hc
    have : c = ' ' := hf.pad c (by rw [hpad']; simp [hc])
    subst this; decide
  have hrender : renderRow r = (r.path ++ pad') ++ ' ' :: pkText r := by
    simp [renderRow, pkText, hpad', List.append_assoc]
  -- the rendered row is already trimmed
  have hhead : headP isSpace ((r.path ++ pad') ++ ' ' :: pkText r) = false := by
    cases hp : r.path with
    | nil => exact absurd hp hf.pathNe
    | cons c cs => have := hf.pathHead; rw [hp] at this; simpa [headP] using this
  have hlast : lastP (fun c => !isSpace c) ((r.path ++ pad') ++ ' ' :: pkText r) = true := by
    cases hpk : pkText r with
    | nil => exact absurd hpk hpne
    | cons c cs =>
      have e : (r.path ++ pad') ++ ' ' :: c :: cs = ((r.path ++ pad') ++ [' ']) ++ c :: cs := by simp
      rw [e, lastP_append_cons]
      rw [← hpk]
      exact lastP_all' _ _ hpne (fun x hx => by simp [hpns x hx])
  have hstrip : strip (renderRow r) = (r.path ++ pad') ++ ' ' :: pkText r := by
    rw [hrender]
    have := strip_core [] ((r.path ++ pad') ++ ' ' :: pkText r) [] (by simp) (by simp) hhead hlast
    simpa using this
  have hnosp : ' ' ∉ pkText r := by
    intro hm; have := hpns ' ' hm; revert this; decide
  unfold splitLine
  simp only [hstrip, rpartitionChar_split ' ' _ _ hnosp]
  have h1 : strip (r.path ++ pad') = r.path := by
    have := strip_core [] r.path pad' (by simp) hsp hf.pathHead hf.pathLast
    simpa using this
  have h2 : strip (pkText r) = pkText r := by
    have hh : headP isSpace (pkText r) = false := by
      cases hpk : pkText r with
      | nil => exact absurd hpk hpne
      | cons c cs => have := hpns c (by rw [hpk]; simp); simp [headP, this]
    have := strip_core [] (pkText r) [] (by simp) (by simp) hh (lastP_all' _ _ hpne (fun x hx => by simp [hpns x hx]))
    simpa using this
  rw [h1, h2]

theorem names_row (r : Row) (hf : RowFacts r) :
    (splitChar ',' (pkText r)).map bareName = r.pkgs.map (·.2) := by
  unfold pkText
  have hne : r.pkgs.map qualified ≠ [] := by
    cases hp : r.pkgs with
    | nil => exact absurd hp hf.pkgsNe
    | cons p ps => simp
  rw [splitChar_join ',' _ hne (by
    intro t ht hm
    simp only [List.mem_map] at ht
    obtain ⟨p, hp, rfl⟩ := ht
    exact ((qualified_chars p (hf.pkgs p hp)).2 ',' hm).2 rfl), List.map_map]
  apply List.map_congr_left
  intro p hp
  exact bareName_qualified p (hf.pkgs p hp)

theorem row_not_header (r : Row) (hf : RowFacts r) : isHeaderRow (splitLine (renderRow r)) = false := by
  rw [splitLine_row r hf]
  cases h : isHeaderRow (r.path, pkText r) with
  | false => rfl
  | true =>
    simp only [isHeaderRow, Bool.and_eq_true, decide_eq_true_eq] at h
    exact absurd ⟨h.1, h.2⟩ hf.notHeader


/-! ### the column-header row -/

theorem headerText_decomp (l : Str) (h : isHeaderText l = true) :
    ∃ mid, strip l = "FILE".toList ++ mid ++ [' '] ++ "LOCATION".toList ∧ ∀ c ∈ mid, c = ' ' := by
  simp only [isHeaderText, Bool.and_eq_true, decide_eq_true_eq, List.all_eq_true, beq_iff_eq] at h
  obtain ⟨⟨⟨h1, h2⟩, h3⟩, h4⟩ := h
  have e1 := startsWith_decomp _ _ h1
  have e2 := endsWith_decomp _ _ h2
  have hl1 : "FILE".toList.length = 4 := rfl
  have hl2 : "LOCATION".toList.length = 8 := rfl
  rw [hl1] at e1
  rw [hl2] at e2
  -- the middle part
  have hmid : List.take ((strip l).length - 8) (strip l) =
      "FILE".toList ++ List.take ((strip l).length - 12) (List.drop 4 (strip l)) := by
    have h0 : List.take ((strip l).length - 8) (strip l) =
        List.take ((strip l).length - 8) ("FILE".toList ++ List.drop 4 (strip l)) := congrArg _ e1
    rw [h0, List.take_append]
    have : (strip l).length - 8 - "FILE".toList.length = (strip l).length - 12 := by rw [hl1]; omega
    rw [this]
    have h5 : List.take ((strip l).length - 8) "FILE".toList = "FILE".toList := by
      apply List.take_of_length_le; rw [hl1]; omega
    rw [h5]
  have hne : List.take ((strip l).length - 12) (List.drop 4 (strip l)) ≠ [] := by
    intro e
    have := congrArg List.length e
    simp only [List.length_take, List.length_drop, List.length_nil] at this
    omega
  obtain ⟨mid, last, hml⟩ : ∃ mid last, List.take ((strip l).length - 12) (List.drop 4 (strip l)) = mid ++ [last] := by
    rcases List.eq_nil_or_concat (List.take ((strip l).length - 12) (List.drop 4 (strip l))) with h | ⟨i, x, h⟩
    · exact absurd h hne
    · exact ⟨i, x, by simpa using h⟩
  have hall : ∀ c ∈ mid ++ [last], c = ' ' := by
    intro c hc; rw [← hml] at hc; exact h4 c hc
  have hlast : last = ' ' := hall last (by simp)
  refine ⟨mid, ?_, fun c hc => hall c (by simp [hc])⟩
  rw [e2, hmid, hml, hlast]
  simp [List.append_assoc]

theorem header_isHeaderRow (l : Str) (h : isHeaderText l = true) : isHeaderRow (splitLine l) = true := by
  obtain ⟨mid, hs, hmid⟩ := headerText_decomp l h
  have hnosp : ' ' ∉ "LOCATION".toList := by decide
  have e : strip l = ("FILE".toList ++ mid) ++ ' ' :: "LOCATION".toList := by rw [hs]; simp [List.append_assoc]
  unfold splitLine
  simp only [e, rpartitionChar_split ' ' _ _ hnosp]
  have h1 : strip ("FILE".toList ++ mid) = "FILE".toList := by
    have := strip_core [] "FILE".toList mid (by simp) (by intro c hc; rw [hmid c hc]; decide) (by decide) (by decide)
    simpa using this
  have h2 : strip "LOCATION".toList = "LOCATION".toList := by decide
  rw [h1, h2]
  decide


/-! ### the file lines and the fold -/

theorem fileLines_render (lines : List Str) (h : ∀ l ∈ lines, '\n' ∉ l) :
    fileLines (if lines.isEmpty then [] else join ['\n'] lines ++ ['\n']) = lines := by
  cases lines with
  | nil => simp [fileLines, splitChar]
  | cons l ls =>
    simp only [List.isEmpty_cons, Bool.false_eq_true, if_false]
    have e : join ['\n'] (l :: ls) ++ ['\n'] = join ['\n'] ((l :: ls) ++ [[]]) := by
      rw [join1_snoc '\n' (l :: ls) [] (by simp)]
    have hsplit := splitChar_join '\n' ((l :: ls) ++ [[]]) (by simp) (by
      intro p hp
      simp only [List.mem_append, List.mem_singleton] at hp
      rcases hp with hp | rfl
      · exact h p hp
      · simp)
    unfold fileLines
    rw [e, hsplit]
    have hl : ((l :: ls) ++ [[]]).getLast? = some [] := List.getLast?_concat
    have hd : ((l :: ls) ++ [[]]).dropLast = l :: ls := List.dropLast_concat
    simp only [hl, hd]

theorem addRow_fields (s : St) (path : Str) (names : List Str) :
    (addRow s path names).byPath = names.foldl (fun d n => appendTo d path n) s.byPath ∧
    (addRow s path names).byPkg = names.foldl (fun d n => appendTo d n path) s.byPkg ∧
    (addRow s path names).inTable = s.inTable := by
  induction names generalizing s with
  | nil => simp [addRow]
  | cons n ns ih =>
    have := ih { s with byPath := appendTo s.byPath path n, byPkg := appendTo s.byPkg n path }
    simpa [addRow] using this

theorem run_skip (hasHeader : Bool) (s : St) (ls : List Str) (hs : s.inTable = false)
    (h : ∀ l ∈ ls, isHeaderRow (splitLine l) = false) : run hasHeader s ls = .ok s := by
  induction ls with
  | nil => rfl
  | cons l ls ih =>
    simp only [run, step, h l (by simp), Bool.false_eq_true, if_false, hs, Bool.not_false, if_true]
    exact ih (fun x hx => h x (by simp [hx]))

def foldRows (s : St) (rows : List Row) : St :=
  rows.foldl (fun s r => addRow s r.path (r.pkgs.map (·.2))) s

theorem run_rows (hasHeader : Bool) (s : St) (rows : List Row) (hin : s.inTable = true)
    (hf : ∀ r ∈ rows, RowFacts r) : run hasHeader s (rows.map renderRow) = .ok (foldRows s rows) := by
  induction rows generalizing s with
  | nil => rfl
  | cons r rs ih =>
    have hr := hf r (by simp)
    have hnh := row_not_header r hr
    have hsl := splitLine_row r hr
    simp only [List.map_cons, run, step, hnh, Bool.false_eq_true, if_false, hin, Bool.not_true]
    rw [hsl]
    simp only
    have hnames : (splitChar ',' (pkText r)).map bareName = r.pkgs.map (·.2) := names_row r hr
    rw [hnames]
    have hin' : (addRow s r.path (r.pkgs.map (·.2))).inTable = true := by rw [(addRow_fields _ _ _).2.2]; exact hin
    rw [ih _ hin' (fun x hx => hf x (by simp [hx]))]
    rfl

theorem foldRows_fields (rows : List Row) (s : St) :
    (foldRows s rows).byPath = rows.foldl (fun d r => r.pkgs.foldl (fun d p => appendTo d r.path p.2) d) s.byPath ∧
    (foldRows s rows).byPkg = rows.foldl (fun d r => r.pkgs.foldl (fun d p => appendTo d p.2 r.path) d) s.byPkg ∧
    (foldRows s rows).inTable = s.inTable := by
  induction rows generalizing s with
  | nil => simp [foldRows]
  | cons r rs ih =>
    obtain ⟨h1, h2, h3⟩ := addRow_fields s r.path (r.pkgs.map (·.2))
    obtain ⟨i1, i2, i3⟩ := ih (addRow s r.path (r.pkgs.map (·.2)))
    simp only [foldRows, List.foldl_cons] at i1 i2 i3 ⊢
    refine ⟨?_, ?_, by rw [i3, h3]⟩
    · rw [i1, h1, List.foldl_map]
    · rw [i2, h2, List.foldl_map]


theorem run_append (hh : Bool) (s : St) (a b : List Str) :
    run hh s (a ++ b) = match run hh s a with | .ok s' => run hh s' b | .error e => .error e := by
  induction a generalizing s with
  | nil => rfl
  | cons l ls ih =>
    simp only [List.cons_append, run]
    cases step hh s l with
    | error e => rfl
    | ok s' => exact ih s'

theorem renderRow_noNl (r : Row) (hf : RowFacts r) : '\n' ∉ renderRow r := by
  intro hm
  simp only [renderRow, List.mem_append] at hm
  rcases hm with (hm | hm) | hm
  · exact hf.pathNoNl hm
  · exact absurd (hf.pad _ hm) (by decide)
  · have := (pkText_props r hf).2 '\n' hm
    revert this; decide

/-- **C18** — for every table of the grammar (any number of rows, paths with embedded spaces, one to
many qualified package names per row, any column padding, with or without header narrative) the model
of `parse_contents` returns exactly the expected mappings — each row's path maps to the bare package
names of that row in order, each package to the paths of the rows naming it in file order — free text
before a declared header is ignored, and a declared header that is missing or an undeclared header
that is present raises. -/
theorem sound (i : Input) : holdsOn i (model i) = true := by
  unfold holdsOn
  cases hw : wf i with
  | false => rfl
  | true =>
    simp only [wf, Bool.and_eq_true, List.all_eq_true, Bool.not_eq_true', Bool.or_eq_true, beq_iff_eq] at hw
    obtain ⟨⟨⟨⟨hrows, hnarr⟩, hhdr⟩, hfree⟩, htext⟩ := hw
    have hrf : ∀ r ∈ i.rows, RowFacts r := fun r hr => rowFacts r (hrows r hr)
    have hnarrNl : ∀ l ∈ i.narrative, '\n' ∉ l := by
      intro l hl; have := (hnarr l hl).1.1.1; simpa using this
    have hnarrNH : ∀ l ∈ i.narrative, isHeaderRow (splitLine l) = false := fun l hl => (hnarr l hl).2
    have hrowNH : ∀ l ∈ i.rows.map renderRow, isHeaderRow (splitLine l) = false := by
      intro l hl
      simp only [List.mem_map] at hl
      obtain ⟨r, hr, rfl⟩ := hl
      exact row_not_header r (hrf r hr)
    have hrowNl : ∀ l ∈ i.rows.map renderRow, '\n' ∉ l := by
      intro l hl
      simp only [List.mem_map] at hl
      obtain ⟨r, hr, rfl⟩ := hl
      exact renderRow_noNl r (hrf r hr)
    have hmodel : model i = ⟨parseContents (fileLines i.text) i.hasHeader, parseContents (fileLines i.text) i.hasHeader⟩ := rfl
    suffices hmain : parseContents (fileLines i.text) i.hasHeader = expected i by
      rw [hmodel]; simp [hmain]
    rw [htext]
    unfold render
    simp only
    cases hh : i.headerRow with
    | none =>
      simp only [List.append_nil]
      rw [fileLines_render _ (by
        intro l hl
        simp only [List.mem_append] at hl
        rcases hl with hl | hl
        · exact hnarrNl l hl
        · exact hrowNl l hl)]
      cases hhas : i.hasHeader with
      | false =>
        have hn : i.narrative = [] := by
          rcases hfree with h | h
          · rw [hhas] at h; cases h
          · simpa using h
        simp only [hn, List.nil_append, parseContents, Bool.not_false, expected, hh, hhas]
        rw [run_rows false ⟨true, [], []⟩ i.rows rfl hrf]
        obtain ⟨h1, h2, h3⟩ := foldRows_fields i.rows ⟨true, [], []⟩
        simp only [h3, Bool.not_true, Bool.false_eq_true, if_false, h1, h2, expectedByPath, expectedByPkg]
      | true =>
        simp only [parseContents, Bool.not_true, expected, hh, hhas]
        rw [run_skip true ⟨false, [], []⟩ _ rfl (by
          intro l hl
          simp only [List.mem_append] at hl
          rcases hl with hl | hl
          · exact hnarrNH l hl
          · exact hrowNH l hl)]
        simp
    | some h =>
      rw [hh] at hhdr
      simp only [Bool.and_eq_true, Bool.not_eq_true'] at hhdr
      have hhNl : '\n' ∉ h := by have := hhdr.1.2; simpa using this
      have hhRow : isHeaderRow (splitLine h) = true := header_isHeaderRow h hhdr.1.1
      rw [fileLines_render _ (by
        intro l hl
        simp only [List.mem_append, List.mem_singleton] at hl
        rcases hl with (hl | hl) | hl
        · exact hnarrNl l hl
        · subst hl; exact hhNl
        · exact hrowNl l hl)]
      cases hhas : i.hasHeader with
      | false =>
        have hn : i.narrative = [] := by
          rcases hfree with h' | h'
          · rw [hhas] at h'; cases h'
          · simpa using h'
        simp only [hn, List.nil_append, List.singleton_append, parseContents, run, step, hhRow, if_true, Bool.not_false,
          expected, hh, hhas]
      | true =>
        simp only [parseContents, Bool.not_true, expected, hh, hhas, List.append_assoc]
        rw [run_append, run_skip true ⟨false, [], []⟩ _ rfl hnarrNH]
        simp only [List.singleton_append, run, step, hhRow, if_true, Bool.not_true, Bool.false_eq_true, if_false]
        rw [run_rows true _ i.rows rfl hrf]
        obtain ⟨h1, h2, h3⟩ := foldRows_fields i.rows ⟨true, [], []⟩
        simp only [h3, Bool.not_true, Bool.false_eq_true, if_false, h1, h2, expectedByPath, expectedByPkg]


end Props.C18
