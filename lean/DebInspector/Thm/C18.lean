/-
C18 — the two mappings are complete and mutually inverse: theorems about the fold.
-/
import DebInspector.Props.C18

namespace Props.C18
open Py Model.Contents

/-- all (key, value) pairs a mapping holds, with multiplicity -/
def pairs (d : Dict) : List (Str × Str) := d.flatMap fun kv => kv.2.map fun v => (kv.1, v)

theorem pairs_appendTo (d : Dict) (k v : Str) : (pairs (appendTo d k v)).Perm (pairs d ++ [(k, v)]) := by
  induction d with
  | nil => simp [appendTo, pairs]
  | cons kv rest ih =>
    obtain ⟨k', vs⟩ := kv
    unfold appendTo
    split
    · rename_i h
      subst h
      simp only [pairs, List.flatMap_cons, List.map_append, List.map_cons, List.map_nil, List.append_assoc]
      refine List.Perm.append_left _ ?_
      exact List.perm_append_comm
    · simp only [pairs, List.flatMap_cons, List.append_assoc] at ih ⊢
      exact List.Perm.append_left _ ih

def rowPairs (path : Str) (names : List Str) : List (Str × Str) := names.map fun n => (path, n)

/-- adding one row adds exactly its (path, package) pairs to the first mapping and the swapped pairs
to the second -/
theorem addRow_pairs (s : St) (path : Str) (names : List Str) :
    (pairs (addRow s path names).byPath).Perm (pairs s.byPath ++ rowPairs path names) ∧
    (pairs (addRow s path names).byPkg).Perm (pairs s.byPkg ++ (rowPairs path names).map Prod.swap) ∧
    (addRow s path names).inTable = s.inTable := by
  induction names generalizing s with
  | nil => simp [addRow, rowPairs]
  | cons n ns ih =>
    have := ih { s with byPath := appendTo s.byPath path n, byPkg := appendTo s.byPkg n path }
    simp only [addRow, List.foldl_cons] at this ⊢
    obtain ⟨h1, h2, h3⟩ := this
    refine ⟨?_, ?_, h3⟩
    · refine h1.trans ?_
      simp only [rowPairs, List.map_cons]
      have := (pairs_appendTo s.byPath path n).append_right (List.map (fun n => (path, n)) ns)
      simpa [List.append_assoc] using this
    · refine h2.trans ?_
      simp only [rowPairs, List.map_cons, List.map_map]
      have := (pairs_appendTo s.byPkg n path).append_right (List.map (Prod.swap ∘ fun n => (path, n)) ns)
      simpa [List.append_assoc] using this

/-- the state after folding a list of parsed rows -/
def addRows (s : St) (rows : List (Str × List Str)) : St := rows.foldl (fun s r => addRow s r.1 r.2) s

def allPairs (rows : List (Str × List Str)) : List (Str × Str) := rows.flatMap fun r => rowPairs r.1 r.2

theorem addRows_pairs (s : St) (rows : List (Str × List Str)) :
    (pairs (addRows s rows).byPath).Perm (pairs s.byPath ++ allPairs rows) ∧
    (pairs (addRows s rows).byPkg).Perm (pairs s.byPkg ++ (allPairs rows).map Prod.swap) := by
  induction rows generalizing s with
  | nil => simp [addRows, allPairs]
  | cons r rs ih =>
    obtain ⟨h1, h2, _⟩ := addRow_pairs s r.1 r.2
    obtain ⟨i1, i2⟩ := ih (addRow s r.1 r.2)
    simp only [addRows, List.foldl_cons] at i1 i2 ⊢
    refine ⟨?_, ?_⟩
    · refine i1.trans ?_
      simp only [allPairs, List.flatMap_cons]
      have := h1.append_right (List.flatMap (fun r => rowPairs r.1 r.2) rs)
      simpa [List.append_assoc] using this
    · refine i2.trans ?_
      simp only [allPairs, List.flatMap_cons, List.map_append]
      have := h2.append_right (List.map Prod.swap (List.flatMap (fun r => rowPairs r.1 r.2) rs))
      simpa [List.append_assoc] using this

/-- **complete and mutually inverse**: for any list of parsed rows — any number, any names, repeated
paths and packages — the path→packages mapping holds exactly the rows' (path, package) pairs and
the package→paths mapping exactly the same pairs swapped, each with multiplicity -/
theorem inverse_complete (rows : List (Str × List Str)) :
    let s := addRows ⟨true, [], []⟩ rows
    (pairs s.byPath).Perm (allPairs rows) ∧
    (pairs s.byPkg).Perm ((allPairs rows).map Prod.swap) ∧
    ((pairs s.byPkg).map Prod.swap).Perm (pairs s.byPath) := by
  obtain ⟨h1, h2⟩ := addRows_pairs ⟨true, [], []⟩ rows
  simp only [pairs, List.flatMap_nil, List.nil_append] at h1 h2
  refine ⟨h1, h2, ?_⟩
  have h3 := h2.map Prod.swap
  simp only [List.map_map, Prod.swap_swap_eq, List.map_id] at h3
  exact h3.trans h1.symm

/-- non-vacuity: a path with a space, three-level qualifiers, a repeated path -/
example : parseContents (fileLines "FILE  LOCATION\nusr/a b   main/net/x,y\nusr/a b z\n".toList) true =
    .ok ([("usr/a b".toList, ["x".toList, "y".toList, "z".toList])],
         [("x".toList, ["usr/a b".toList]), ("y".toList, ["usr/a b".toList]), ("z".toList, ["usr/a b".toList])]) := by
  decide +kernel

end Props.C18
