/-
C08 — the merge clause on the text: the header parser delivers exactly the items of a well-formed
paragraph (`getParagraphData_items`) and the merged mapping is the expected one (`soundM`).
-/
import DebInspector.Thm.C06H
import DebInspector.Thm.C08
import DebInspector.Proofs.SplitJoin
namespace Props.C08M
open Py Model.Email Props.C06 Props.C06H Proofs.LinesAscii

/-- the header parser delivers exactly the items of a well-formed paragraph, whatever the names -/
theorem getParagraphData_items (fs : List Field) (fin : Bool) (hne : fs ≠ []) (hf : ∀ f ∈ fs, HF f)
    (hlines : ∀ l ∈ fs.flatMap fieldLines, NoT l ∧ l ≠ []) :
    getParagraphData (Props.C06.joinNl (fs.flatMap fieldLines) ++ (if fin then ['\n'] else [])) =
      mergeItems (fs.map fun f => (f.name, Props.C06.joinNl (f.value :: f.conts))) := by
  obtain ⟨f0, fs0, hfs⟩ : ∃ f fs', fs = f :: fs' := by
    cases fs with
    | nil => exact absurd rfl hne
    | cons f fs' => exact ⟨f, fs', rfl⟩
  have hlne : fs.flatMap fieldLines ≠ [] := by rw [hfs]; exact flatMap_fieldLines_ne_nil f0 fs0
  have hske := splitKeepEnds_joinNl (fs.flatMap fieldLines) fin hlne hlines
  obtain ⟨g1, g2, g3⟩ := groupsOf_facts fs fin hf
  have htext_ne : (Props.C06.joinNl (fs.flatMap fieldLines) ++ (if fin then ['\n'] else [])).isEmpty = false := by
    have : Props.C06.joinNl (fs.flatMap fieldLines) ≠ [] := by
      cases hl : fs.flatMap fieldLines with
      | nil => exact absurd hl hlne
      | cons l ls => exact joinNl_ne_nil l ls (hlines l (by rw [hl]; simp)).2
    cases hj : Props.C06.joinNl (fs.flatMap fieldLines) with
    | nil => exact absurd hj this
    | cons c cs => simp
  unfold getParagraphData
  rw [htext_ne]
  simp only [Bool.false_eq_true, if_false]
  have hparse : parseHeaders (Props.C06.joinNl (fs.flatMap fieldLines) ++ (if fin then ['\n'] else [])) =
      { headers := fs.map fun f => (f.name, Props.C06.joinNl (f.value :: f.conts)),
        unixfrom := none, defects := false, payload := [] } := by
    unfold parseHeaders
    simp only [hske, withEnds_fields, takeHeaderLines_all _ g2]
    rw [parse_groups _ _ 0 _ g1]
    simp [flushHeader, g3]
  rw [hparse]
  have hhne : (fs.map fun f => (f.name, Props.C06.joinNl (f.value :: f.conts))).isEmpty = false := by
    rw [hfs]; rfl
  simp only [hhne, Bool.false_or, Bool.false_eq_true, if_false, List.isEmpty_nil, if_true, List.append_nil, List.nil_append]


/-! ### the merged mapping is the expected one -/

open Props.C08 in
theorem firstOcc_eq_foldl (acc ns : List Str) :
    firstOccurrences acc ns = ns.foldl (fun acc n => if acc.contains n then acc else acc ++ [n]) acc := by
  induction ns generalizing acc with
  | nil => rfl
  | cons n ns ih =>
    simp only [firstOccurrences, List.foldl_cons]
    split <;> exact ih _

open Props.C08 in
theorem firstOcc_nodup (ns acc : List Str) (h : acc.Nodup) : (firstOccurrences acc ns).Nodup := by
  induction ns generalizing acc with
  | nil => exact h
  | cons n ns ih =>
    simp only [firstOccurrences]
    split
    · exact ih acc h
    · rename_i hc
      apply ih
      rw [List.nodup_append]
      refine ⟨h, by simp, ?_⟩
      intro a ha b hb
      simp only [List.mem_singleton] at hb
      subst hb
      intro e; subst e
      exact hc (by simpa using ha)

theorem dict_ext (d : Dict) (g : Str → Str) (hnd : (d.map (·.1)).Nodup)
    (hl : ∀ k ∈ d.map (·.1), d.lookup k = some (g k)) : d = (d.map (·.1)).map fun k => (k, g k) := by
  induction d with
  | nil => rfl
  | cons a as ih =>
    obtain ⟨k0, v0⟩ := a
    simp only [List.map_cons, List.nodup_cons] at hnd
    have h0 := hl k0 (by simp)
    simp only [List.lookup, beq_self_eq_true] at h0
    have hv : v0 = g k0 := by simpa using h0
    simp only [List.map_cons, List.cons.injEq, Prod.mk.injEq, true_and]
    refine ⟨hv, ih hnd.2 ?_⟩
    intro k hk
    have hne : k ≠ k0 := fun e => hnd.1 (e ▸ hk)
    have := hl k (by simp [hk])
    have hb : (k == k0) = false := by simpa using hne
    simpa [List.lookup, hb] using this


/-- an item as a field of the document grammar: the first line of the value and its continuation lines -/
def fieldOf (nv : Str × Str) : Field := ⟨nv.1, (splitChar '\n' nv.2).headD [], (splitChar '\n' nv.2).tail, [' ']⟩

theorem joinNl_eq_join (ls : List Str) : Props.C06.joinNl ls = join ['\n'] ls := by
  induction ls with
  | nil => rfl
  | cons l ls ih =>
    cases ls with
    | nil => simp [Props.C06.joinNl, join]
    | cons m ms => rw [join1_cons2, ← ih]; rfl

theorem joinNl_lines (v : Str) : Props.C06.joinNl ((splitChar '\n' v).headD [] :: (splitChar '\n' v).tail) = v := by
  cases h : splitChar '\n' v with
  | nil => exact absurd h (splitChar_ne_nil '\n' v)
  | cons f cs =>
    have := join_splitChar '\n' v
    rw [h] at this
    simp only [List.headD_cons, List.tail_cons, joinNl_eq_join, this]

theorem joinNl_append2 (a b : List Str) (ha : a ≠ []) (hb : b ≠ []) :
    Props.C06.joinNl (a ++ b) = Props.C06.joinNl a ++ '\n' :: Props.C06.joinNl b := by
  induction a with
  | nil => exact absurd rfl ha
  | cons x xs ih =>
    cases xs with
    | nil =>
      cases b with
      | nil => exact absurd rfl hb
      | cons y ys => simp [Props.C06.joinNl]
    | cons z zs =>
      have := ih (by simp)
      simp only [List.cons_append] at this ⊢
      simp only [Props.C06.joinNl, this, List.append_assoc, List.cons_append]

theorem joinNl_fieldLines (nv : Str × Str) :
    Props.C06.joinNl (fieldLines (fieldOf nv)) = nv.1 ++ ':' :: ' ' :: nv.2 := by
  unfold fieldLines fieldOf
  simp only
  cases h : splitChar '\n' nv.2 with
  | nil => exact absurd h (splitChar_ne_nil '\n' nv.2)
  | cons f cs =>
    have hj := joinNl_lines nv.2
    rw [h] at hj
    simp only [List.headD_cons, List.tail_cons] at hj ⊢
    cases cs with
    | nil =>
      simp only [Props.C06.joinNl] at hj ⊢
      rw [← hj]; simp
    | cons c cs' =>
      simp only [Props.C06.joinNl] at hj ⊢
      rw [← hj]; simp [List.append_assoc]

theorem renderM_eq (ps : Props.C08.InputM) (hne : ps ≠ []) :
    Props.C08.renderM ps = Props.C06.joinNl ((ps.map fieldOf).flatMap fieldLines) ++ ['\n'] := by
  induction ps with
  | nil => exact absurd rfl hne
  | cons nv rest ih =>
    cases rest with
    | nil =>
      simp only [Props.C08.renderM, List.flatMap_cons, List.flatMap_nil, List.map_cons, List.map_nil, List.append_nil,
        joinNl_fieldLines]
    | cons m r =>
      have := ih (by simp)
      have hA : fieldLines (fieldOf nv) ≠ [] := by simp [fieldLines]
      have hB : ((m :: r).map fieldOf).flatMap fieldLines ≠ [] := by simp [fieldLines]
      simp only [Props.C08.renderM, List.flatMap_cons, List.map_cons] at this ⊢
      rw [joinNl_append2 _ _ hA (by simpa using hB), joinNl_fieldLines, this]
      simp [List.append_assoc]

structure ItemOK (nv : Str × Str) : Prop where
  nameNe : nv.1 ≠ []
  nameR : ∀ c ∈ nv.1, inRange c = true ∧ c ≠ ':'
  firstNe : (splitChar '\n' nv.2).headD [] ≠ []
  firstHead : headP isSpace ((splitChar '\n' nv.2).headD []) = false
  firstNoB : ∀ c ∈ (splitChar '\n' nv.2).headD [], isBoundary c = false
  conts : ∀ l ∈ (splitChar '\n' nv.2).tail, headP (fun c => c = ' ' || c = '\t') l = true ∧ ∀ c ∈ l, isBoundary c = false
  valLast : lastP (fun c => !isSpace c) nv.2 = true

theorem itemOK_of (nv : Str × Str) (h : Props.C08.nameOk nv.1 = true ∧ Props.C08.valueOk nv.2 = true) : ItemOK nv := by
  obtain ⟨hn, hv⟩ := h
  simp only [Props.C08.nameOk, Bool.and_eq_true, List.all_eq_true, Bool.or_eq_true, decide_eq_true_eq] at hn
  obtain ⟨hh, ha⟩ := hn
  unfold Props.C08.valueOk at hv
  cases hs : splitChar '\n' nv.2 with
  | nil => exact absurd hs (splitChar_ne_nil '\n' nv.2)
  | cons f cs =>
    rw [hs] at hv
    simp only [Bool.and_eq_true, Bool.not_eq_true', List.isEmpty_eq_false_iff, List.all_eq_true, Props.C08.contOk] at hv
    obtain ⟨⟨⟨⟨v1, v2⟩, v3⟩, v4⟩, v5⟩ := hv
    refine ⟨?_, ?_, ?_, ?_, ?_, ?_, v5⟩
    · intro e; rw [e] at hh; simp [headP] at hh
    · intro c hc
      have : (isAsciiAlnum c || c == '-') = true := by
        rcases ha c hc with h | h
        · simp [h]
        · simp [h]
      have := alnum_range this
      simp only [Bool.and_eq_true, bne_iff_ne, ne_eq] at this
      exact ⟨by simp [inRange, this.1.1, this.1.2], this.2⟩
    · simpa [hs] using v1
    · simp only [hs, List.headD_cons]
      cases hf : f with
      | nil => exact absurd hf v1
      | cons c cs' => rw [hf] at v2; simpa [headP] using v2
    · intro c hc
      simp only [hs, List.headD_cons] at hc
      simpa using v3 c hc
    · intro l hl
      simp only [hs, List.tail_cons] at hl
      have := v4 l hl
      exact ⟨this.1, fun c hc => by simpa using this.2 c hc⟩

theorem hf_fieldOf (nv : Str × Str) (h : ItemOK nv) :
    HF (fieldOf nv) ∧ (∀ l ∈ fieldLines (fieldOf nv), NoT l ∧ l ≠ []) := by
  have hnl : isBoundary '\n' = true := by decide
  have hcr : isBoundary '\r' = true := by decide
  have hfn : '\n' ∉ (splitChar '\n' nv.2).headD [] := fun hm => by have := h.firstNoB _ hm; rw [hnl] at this; cases this
  have hfr : '\r' ∉ (splitChar '\n' nv.2).headD [] := fun hm => by have := h.firstNoB _ hm; rw [hcr] at this; cases this
  refine ⟨⟨h.nameNe, ?_, ?_, ?_, ?_, ?_⟩, ?_⟩
  · intro c hc
    have hr := inRange_facts (h.nameR c hc).1
    exact ⟨headerNameChar_of (h.nameR c hc).1 (h.nameR c hc).2, (h.nameR c hc).2, hr.1, hr.2.1⟩
  · intro c hc; simp [fieldOf] at hc; exact Or.inl hc
  · intro c hc
    simp only [fieldOf] at hc
    cases hv : (splitChar '\n' nv.2).headD [] with
    | nil => rw [hv] at hc; cases hc
    | cons v vs =>
      rw [hv] at hc
      have hcv : c = v := by simpa using hc.symm
      have := h.firstHead
      rw [hv] at this
      simp only [headP] at this
      rw [hcv]
      constructor <;> (intro e; subst e; revert this; decide)
  · intro c hc
    simp only [fieldOf] at hc
    have : c ∈ (splitChar '\n' nv.2).headD [] := List.mem_of_getLast? hc
    exact ⟨fun e => hfn (e ▸ this), fun e => hfr (e ▸ this)⟩
  · intro c hc
    simp only [fieldOf] at hc
    obtain ⟨h1, h2⟩ := h.conts c hc
    refine ⟨h1, ?_⟩
    intro x hx
    have hxc : x ∈ c := List.mem_of_getLast? hx
    have := h2 x hxc
    constructor <;> (intro e; subst e; revert this; decide)
  · intro l hl
    simp only [fieldLines, fieldOf, List.mem_cons] at hl
    rcases hl with rfl | hl
    · refine ⟨⟨?_, ?_⟩, ?_⟩
      · intro hm
        simp only [List.mem_append, List.mem_cons, List.mem_singleton] at hm
        rcases hm with (hm | hm | hm) | hm
        · exact (inRange_facts (h.nameR _ hm).1).2.2.1 rfl
        · revert hm; decide
        · revert hm; decide
        · exact hfn hm
      · intro hm
        simp only [List.mem_append, List.mem_cons, List.mem_singleton] at hm
        rcases hm with (hm | hm | hm) | hm
        · exact (inRange_facts (h.nameR _ hm).1).2.2.2.1 rfl
        · revert hm; decide
        · revert hm; decide
        · exact hfr hm
      · cases hn : nv.1 with
        | nil => exact absurd hn h.nameNe
        | cons c cs => simp
    · obtain ⟨h1, h2⟩ := h.conts l hl
      refine ⟨⟨?_, ?_⟩, ?_⟩
      · intro hm; have := h2 _ hm; rw [hnl] at this; cases this
      · intro hm; have := h2 _ hm; rw [hcr] at this; cases this
      · intro e; rw [e] at h1; simp [headP] at h1

theorem valHead_of (nv : Str × Str) (h : ItemOK nv) : headP isSpace nv.2 = false := by
  have hj := joinNl_lines nv.2
  have hf := h.firstHead
  cases hfirst : (splitChar '\n' nv.2).headD [] with
  | nil => exact absurd hfirst h.firstNe
  | cons c cs =>
    rw [hfirst] at hj hf
    rw [← hj]
    cases (splitChar '\n' nv.2).tail with
    | nil => simpa [Props.C06.joinNl, headP] using hf
    | cons l ls => simpa [Props.C06.joinNl, headP] using hf

open Props.C08 in
/-- **C08, merge clause on the text** — a paragraph of `Name: value` fields, the values with any number of
continuation lines, with any pattern of repeated names and repeated values parses to the lower-cased names in
order of first occurrence, each with its distinct values (whole values) in order of first appearance,
newline-separated -/
theorem soundM (ps : InputM) : holdsOnM ps (modelM ps) = true := by
  unfold holdsOnM
  cases hw : wfM ps with
  | false => rfl
  | true =>
    simp only [wfM, Bool.and_eq_true, Bool.not_eq_true', List.isEmpty_eq_false_iff, List.all_eq_true] at hw
    obtain ⟨hne, hall⟩ := hw
    have hok : ∀ nv ∈ ps, ItemOK nv := fun nv hnv => itemOK_of nv (hall nv hnv)
    have hfs : ∀ f ∈ ps.map fieldOf, HF f := by
      intro f hf
      simp only [List.mem_map] at hf
      obtain ⟨nv, hnv, rfl⟩ := hf
      exact (hf_fieldOf nv (hok nv hnv)).1
    have hlines : ∀ l ∈ (ps.map fieldOf).flatMap fieldLines, NoT l ∧ l ≠ [] := by
      intro l hl
      simp only [List.mem_flatMap, List.mem_map] at hl
      obtain ⟨f, ⟨nv, hnv, rfl⟩, hlf⟩ := hl
      exact (hf_fieldOf nv (hok nv hnv)).2 l hlf
    have hdata : getParagraphData (renderM ps) = mergeItems ps := by
      rw [renderM_eq ps hne]
      have := getParagraphData_items (ps.map fieldOf) true (by simpa using hne) hfs hlines
      simp only [if_true] at this
      rw [this]
      congr 1
      rw [List.map_map]
      conv => rhs; rw [← List.map_id ps]
      apply List.map_congr_left
      intro nv _
      simp only [Function.comp, fieldOf, joinNl_lines, id]
    -- keys and values
    have hkey : ∀ nv ∈ ps, Props.C08.keyOf nv = lowerAscii nv.1 :=
      fun nv hnv => strip_lower_name nv.1 (fun c hc => ((hok nv hnv).nameR c hc).1)
    have hval : ∀ nv ∈ ps, Props.C08.valOf nv = nv.2 := by
      intro nv hnv
      have h := hok nv hnv
      have := strip_core [] nv.2 [] (by simp) (by simp) (valHead_of nv h) h.valLast
      simpa [Props.C08.valOf] using this
    have hvne : ∀ nv ∈ ps, nv.2.isEmpty = false := by
      intro nv hnv
      have := lastP_true_ne_nil (hok nv hnv).valLast
      cases hv : nv.2 with
      | nil => exact absurd hv this
      | cons _ _ => rfl
    have hkeys := mergeItems_keys ps
    have hkeymap : (ps.map fun nv => strip (lowerAscii nv.1)) = ps.map fun nv => lowerAscii nv.1 :=
      List.map_congr_left (fun nv hnv => hkey nv hnv)
    rw [hkeymap] at hkeys
    have hnd : ((mergeItems ps).map (·.1)).Nodup := by rw [hkeys]; exact firstOcc_nodup _ [] List.nodup_nil
    -- the values for a key, in the two formulations
    have hvf : ∀ k, valuesFor k ps = (ps.filter fun nv => lowerAscii nv.1 = k).map (·.2) := by
      intro k
      unfold valuesFor
      have hfil : (ps.filter fun nv => Props.C08.keyOf nv = k) = ps.filter fun nv => lowerAscii nv.1 = k := by
        apply List.filter_congr
        intro nv hnv
        rw [hkey nv hnv]
      rw [hfil]
      have hmap : (ps.filter fun nv => lowerAscii nv.1 = k).map valOf = (ps.filter fun nv => lowerAscii nv.1 = k).map (·.2) := by
        apply List.map_congr_left
        intro nv hnv
        exact hval nv (List.mem_filter.mp hnv).1
      rw [hmap, List.filter_eq_self]
      intro v hv
      simp only [List.mem_map, List.mem_filter] at hv
      obtain ⟨nv, ⟨hnv, _⟩, rfl⟩ := hv
      simp [hvne nv hnv]
    have hext := dict_ext (mergeItems ps)
      (fun k => Model.Email.joinNl (distinct ((ps.filter fun nv => lowerAscii nv.1 = k).map (·.2)))) hnd (by
        intro k hk
        rw [mergeItems_lookup ps k, hvf k]
        have hm : mentioned k ps = true := by
          rw [hkeys, firstOcc_eq_foldl] at hk
          -- a key of the merged mapping is the key of some item
          have hmem : ∀ (ns acc : List Str), ∀ x ∈ ns.foldl (fun acc n => if acc.contains n then acc else acc ++ [n]) acc,
              x ∈ acc ∨ x ∈ ns := by
            intro ns
            induction ns with
            | nil => intro acc x hx; exact Or.inl hx
            | cons n ns ihn =>
              intro acc x hx
              simp only [List.foldl_cons] at hx
              rcases ihn _ x hx with h | h
              · split at h
                · exact Or.inl h
                · simp only [List.mem_append, List.mem_singleton] at h
                  rcases h with h | h
                  · exact Or.inl h
                  · exact Or.inr (by simp [h])
              · exact Or.inr (by simp [h])
          rcases hmem _ [] k hk with h | h
          · cases h
          · simp only [List.mem_map] at h
            obtain ⟨nv, hnv, hk'⟩ := h
            simp only [mentioned, List.any_eq_true, decide_eq_true_eq]
            exact ⟨nv, hnv, by rw [hkey nv hnv]; exact hk'⟩
        rw [if_pos hm])
    simp only [modelM, hdata]
    rw [hext, hkeys]
    have hA : ps.foldl (fun acc nv => if acc.contains (lowerAscii nv.1) then acc else acc ++ [lowerAscii nv.1]) [] =
        (ps.map fun nv => lowerAscii nv.1).foldl (fun acc n => if acc.contains n then acc else acc ++ [n]) [] := by
      rw [List.foldl_map]
    have hB : addNew = fun (acc : List Str) (v : Str) => if acc.contains v then acc else acc ++ [v] := rfl
    simp only [expectedM, firstOcc_eq_foldl, distinct, hA, hB]
    simp

end Props.C08M
