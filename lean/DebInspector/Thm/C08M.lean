/-
C08 — the merge clause on the text: the header parser delivers exactly the items of a well-formed
paragraph (`getParagraphData_items`) and the merged mapping is the expected one (`soundM`).
-/
import DebInspector.Thm.C06H
import DebInspector.Thm.C08
import DebInspector.Proofs.SplitJoin
namespace Props.C08M
open Py Model.Email Props.C06 Props.C06H Proofs.LinesAscii

/-- the header parser delivers exactly the items of a well-formed paragraph, whatever the names -/
theorem getParagraphData_items (fs : List Field) (fin : Bool) (hne : fs ≠ []) (hf : ∀ f ∈ fs, HF f)
    (hlines : ∀ l ∈ fs.flatMap fieldLines, NoT l ∧ l ≠ []) :
    getParagraphData (Props.C06.joinNl (fs.flatMap fieldLines) ++ (if fin then ['\n'] else [])) =
      mergeItems (fs.map fun f => (f.name, Props.C06.joinNl (f.value :: f.conts))) := by
  obtain ⟨f0, fs0, hfs⟩ : ∃ f fs', fs = f :: fs' := by
    cases fs with
    | nil => exact absurd rfl hne
    | cons f fs' => exact ⟨f, fs', rfl⟩
  have hlne : fs.flatMap fieldLines ≠ [] := by rw [hfs]; exact flatMap_fieldLines_ne_nil f0 fs0
  have hske := splitKeepEnds_joinNl (fs.flatMap fieldLines) fin hlne hlines
  obtain ⟨g1, g2, g3⟩ := groupsOf_facts fs fin hf
  have htext_ne : (Props.C06.joinNl (fs.flatMap fieldLines) ++ (if fin then ['\n'] else [])).isEmpty = false := by
    have : Props.C06.joinNl (fs.flatMap fieldLines) ≠ [] := by
      cases hl : fs.flatMap fieldLines with
      | nil => exact absurd hl hlne
      | cons l ls => exact joinNl_ne_nil l ls (hlines l (by rw [hl]; simp)).2
    cases hj : Props.C06.joinNl (fs.flatMap fieldLines) with
    | nil => exact absurd hj this
    | cons c cs => simp
  unfold getParagraphData
  rw [htext_ne]
  simp only [Bool.false_eq_true, if_false]
  have hparse : parseHeaders (Props.C06.joinNl (fs.flatMap fieldLines) ++ (if fin then ['\n'] else [])) =
      { headers := fs.map fun f => (f.name, Props.C06.joinNl (f.value :: f.conts)),
        unixfrom := none, defects := false, payload := [] } := by
    unfold parseHeaders
    simp only [hske, withEnds_fields, takeHeaderLines_all _ g2]
    rw [parse_groups _ _ 0 _ g1]
    simp [flushHeader, g3]
  rw [hparse]
  have hhne : (fs.map fun f => (f.name, Props.C06.joinNl (f.value :: f.conts))).isEmpty = false := by
    rw [hfs]; rfl
  simp only [hhne, Bool.false_or, Bool.false_eq_true, if_false, List.isEmpty_nil, if_true, List.append_nil, List.nil_append]


/-! ### the merged mapping is the expected one -/

open Props.C08 in
theorem firstOcc_eq_foldl (acc ns : List Str) :
    firstOccurrences acc ns = ns.foldl (fun acc n => if acc.contains n then acc else acc ++ [n]) acc := by
  induction ns generalizing acc with
  | nil => rfl
  | cons n ns ih =>
    simp only [firstOccurrences, List.foldl_cons]
    split <;> exact ih _

open Props.C08 in
theorem firstOcc_nodup (ns acc : List Str) (h : acc.Nodup) : (firstOccurrences acc ns).Nodup := by
  induction ns generalizing acc with
  | nil => exact h
  | cons n ns ih =>
    simp only [firstOccurrences]
    split
    · exact ih acc h
    · rename_i hc
      apply ih
      rw [List.nodup_append]
      refine ⟨h, by simp, ?_⟩
      intro a ha b hb
      simp only [List.mem_singleton] at hb
      subst hb
      intro e; subst e
      exact hc (by simpa using ha)

theorem dict_ext (d : Dict) (g : Str → Str) (hnd : (d.map (·.1)).Nodup)
    (hl : ∀ k ∈ d.map (·.1), d.lookup k = some (g k)) : d = (d.map (·.1)).map fun k => (k, g k) := by
  induction d with
  | nil => rfl
  | cons a as ih =>
    obtain ⟨k0, v0⟩ := a
    simp only [List.map_cons, List.nodup_cons] at hnd
    have h0 := hl k0 (by simp)
    simp only [List.lookup, beq_self_eq_true] at h0
    have hv : v0 = g k0 := by simpa using h0
    simp only [List.map_cons, List.cons.injEq, Prod.mk.injEq, true_and]
    refine ⟨hv, ih hnd.2 ?_⟩
    intro k hk
    have hne : k ≠ k0 := fun e => hnd.1 (e ▸ hk)
    have := hl k (by simp [hk])
    have hb : (k == k0) = false := by simpa using hne
    simpa [List.lookup, hb] using this


def fieldOf (nv : Str × Str) : Field := ⟨nv.1, nv.2, [], [' ']⟩

theorem renderM_eq (ps : Props.C08.InputM) (hne : ps ≠ []) :
    Props.C08.renderM ps = Props.C06.joinNl ((ps.map fieldOf).flatMap fieldLines) ++ ['\n'] := by
  induction ps with
  | nil => exact absurd rfl hne
  | cons nv rest ih =>
    cases rest with
    | nil => simp [Props.C08.renderM, fieldOf, fieldLines, Props.C06.joinNl, List.append_assoc]
    | cons m r =>
      have := ih (by simp)
      simp only [Props.C08.renderM, List.flatMap_cons, List.map_cons] at this ⊢
      rw [this]
      simp [fieldOf, fieldLines, Props.C06.joinNl, List.append_assoc]

structure ItemOK (nv : Str × Str) : Prop where
  nameNe : nv.1 ≠ []
  nameR : ∀ c ∈ nv.1, inRange c = true ∧ c ≠ ':'
  valNe : nv.2 ≠ []
  valHead : headP isSpace nv.2 = false
  valLast : lastP (fun c => !isSpace c) nv.2 = true
  valNoB : ∀ c ∈ nv.2, isBoundary c = false

theorem itemOK_of (nv : Str × Str) (h : Props.C08.nameOk nv.1 = true ∧ Props.C08.valueOk nv.2 = true) : ItemOK nv := by
  simp only [Props.C08.nameOk, Props.C08.valueOk, Bool.and_eq_true, List.all_eq_true, Bool.not_eq_true',
    List.isEmpty_eq_false_iff, Bool.or_eq_true, decide_eq_true_eq] at h
  obtain ⟨⟨hh, ha⟩, ⟨⟨⟨v1, v2⟩, v3⟩, v4⟩⟩ := h
  refine ⟨?_, ?_, v1, ?_, v3, v4⟩
  · intro e; rw [e] at hh; simp [headP] at hh
  · intro c hc
    have : (isAsciiAlnum c || c == '-') = true := by
      rcases ha c hc with h | h
      · simp [h]
      · simp [h]
    have := alnum_range this
    simp only [Bool.and_eq_true, bne_iff_ne, ne_eq] at this
    exact ⟨by simp [inRange, this.1.1, this.1.2], this.2⟩
  · cases hv : nv.2 with
    | nil => exact absurd hv v1
    | cons c cs => rw [hv] at v2; simpa [headP] using v2

theorem hf_fieldOf (nv : Str × Str) (h : ItemOK nv) :
    HF (fieldOf nv) ∧ (∀ l ∈ fieldLines (fieldOf nv), NoT l ∧ l ≠ []) := by
  have hnl : isBoundary '\n' = true := by decide
  have hcr : isBoundary '\r' = true := by decide
  have hvn : '\n' ∉ nv.2 := fun hm => by have := h.valNoB _ hm; rw [hnl] at this; cases this
  have hvr : '\r' ∉ nv.2 := fun hm => by have := h.valNoB _ hm; rw [hcr] at this; cases this
  refine ⟨⟨h.nameNe, ?_, ?_, ?_, ?_, ?_, ?_⟩, ?_⟩
  · intro c hc
    have hr := inRange_facts (h.nameR c hc).1
    exact ⟨headerNameChar_of (h.nameR c hc).1 (h.nameR c hc).2, (h.nameR c hc).2, hr.1, hr.2.1⟩
  · intro c hc; simp [fieldOf] at hc; exact Or.inl hc
  · intro c hc
    simp only [fieldOf] at hc
    cases hv : nv.2 with
    | nil => rw [hv] at hc; cases hc
    | cons v vs =>
      rw [hv] at hc
      have hcv : c = v := by simpa using hc.symm
      have := h.valHead
      rw [hv] at this
      simp only [headP] at this
      rw [hcv]
      constructor <;> (intro e; subst e; revert this; decide)
  · intro c hc
    simp only [fieldOf] at hc
    have : c ∈ nv.2 := List.mem_of_getLast? hc
    exact ⟨fun e => hvn (e ▸ this), fun e => hvr (e ▸ this)⟩
  · intro hv; exact absurd hv h.valNe
  · intro c hc; simp [fieldOf] at hc
  · intro l hl
    simp only [fieldLines, fieldOf, List.mem_singleton] at hl
    subst hl
    refine ⟨⟨?_, ?_⟩, ?_⟩
    · intro hm
      simp only [List.mem_append, List.mem_cons, List.mem_singleton] at hm
      rcases hm with (hm | hm | hm) | hm
      · exact (inRange_facts (h.nameR _ hm).1).2.2.1 rfl
      · revert hm; decide
      · revert hm; decide
      · exact hvn hm
    · intro hm
      simp only [List.mem_append, List.mem_cons, List.mem_singleton] at hm
      rcases hm with (hm | hm | hm) | hm
      · exact (inRange_facts (h.nameR _ hm).1).2.2.2.1 rfl
      · revert hm; decide
      · revert hm; decide
      · exact hvr hm
    · cases hn : nv.1 with
      | nil => exact absurd hn h.nameNe
      | cons c cs => simp

open Props.C08 in
/-- **C08, merge clause on the text** — a paragraph of single-line `Name: value` fields with any pattern of
repeated names and repeated values parses to the lower-cased names in order of first occurrence, each
with its distinct values in order of first appearance, newline-separated -/
theorem soundM (ps : InputM) : holdsOnM ps (modelM ps) = true := by
  unfold holdsOnM
  cases hw : wfM ps with
  | false => rfl
  | true =>
    simp only [wfM, Bool.and_eq_true, Bool.not_eq_true', List.isEmpty_eq_false_iff, List.all_eq_true] at hw
    obtain ⟨hne, hall⟩ := hw
    have hok : ∀ nv ∈ ps, ItemOK nv := fun nv hnv => itemOK_of nv (hall nv hnv)
    have hfs : ∀ f ∈ ps.map fieldOf, HF f := by
      intro f hf
      simp only [List.mem_map] at hf
      obtain ⟨nv, hnv, rfl⟩ := hf
      exact (hf_fieldOf nv (hok nv hnv)).1
    have hlines : ∀ l ∈ (ps.map fieldOf).flatMap fieldLines, NoT l ∧ l ≠ [] := by
      intro l hl
      simp only [List.mem_flatMap, List.mem_map] at hl
      obtain ⟨f, ⟨nv, hnv, rfl⟩, hlf⟩ := hl
      exact (hf_fieldOf nv (hok nv hnv)).2 l hlf
    have hdata : getParagraphData (renderM ps) = mergeItems ps := by
      rw [renderM_eq ps hne]
      have := getParagraphData_items (ps.map fieldOf) true (by simpa using hne) hfs hlines
      simp only [if_true] at this
      rw [this]
      congr 1
      rw [List.map_map]
      conv => rhs; rw [← List.map_id ps]
      apply List.map_congr_left
      intro nv _
      simp [fieldOf, Props.C06.joinNl]
    -- keys and values
    have hkey : ∀ nv ∈ ps, Props.C08.keyOf nv = lowerAscii nv.1 :=
      fun nv hnv => strip_lower_name nv.1 (fun c hc => ((hok nv hnv).nameR c hc).1)
    have hval : ∀ nv ∈ ps, Props.C08.valOf nv = nv.2 := by
      intro nv hnv
      have h := hok nv hnv
      have := strip_core [] nv.2 [] (by simp) (by simp) h.valHead h.valLast
      simpa [Props.C08.valOf] using this
    have hone : ∀ nv ∈ ps, OneLine (Props.C08.valOf nv) := by
      intro nv hnv
      rw [hval nv hnv]
      exact ⟨(hok nv hnv).valNe, (hok nv hnv).valNoB⟩
    have hkeys := mergeItems_keys ps
    have hkeymap : (ps.map fun nv => strip (lowerAscii nv.1)) = ps.map fun nv => lowerAscii nv.1 :=
      List.map_congr_left (fun nv hnv => hkey nv hnv)
    rw [hkeymap] at hkeys
    have hnd : ((mergeItems ps).map (·.1)).Nodup := by rw [hkeys]; exact firstOcc_nodup _ [] List.nodup_nil
    -- the values for a key, in the two formulations
    have hvf : ∀ k, valuesFor k ps = (ps.filter fun nv => lowerAscii nv.1 = k).map (·.2) := by
      intro k
      unfold valuesFor
      have hfil : (ps.filter fun nv => Props.C08.keyOf nv = k) = ps.filter fun nv => lowerAscii nv.1 = k := by
        apply List.filter_congr
        intro nv hnv
        rw [hkey nv hnv]
      rw [hfil]
      apply List.map_congr_left
      intro nv hnv
      exact hval nv (List.mem_filter.mp hnv).1
    have hext := dict_ext (mergeItems ps)
      (fun k => Model.Email.joinNl (distinct ((ps.filter fun nv => lowerAscii nv.1 = k).map (·.2)))) hnd (by
        intro k hk
        rw [mergeItems_lookup ps hone k, hvf k]
        have hne' : (ps.filter fun nv => lowerAscii nv.1 = k).map (·.2) ≠ [] := by
          rw [hkeys, firstOcc_eq_foldl] at hk
          -- a key of the merged mapping is the key of some item
          have hmem : ∀ (ns acc : List Str), ∀ x ∈ ns.foldl (fun acc n => if acc.contains n then acc else acc ++ [n]) acc,
              x ∈ acc ∨ x ∈ ns := by
            intro ns
            induction ns with
            | nil => intro acc x hx; exact Or.inl hx
            | cons n ns ihn =>
              intro acc x hx
              simp only [List.foldl_cons] at hx
              rcases ihn _ x hx with h | h
              · split at h
                · exact Or.inl h
                · simp only [List.mem_append, List.mem_singleton] at h
                  rcases h with h | h
                  · exact Or.inl h
                  · exact Or.inr (by simp [h])
              · exact Or.inr (by simp [h])
          rcases hmem _ [] k hk with h | h
          · cases h
          · simp only [List.mem_map] at h
            obtain ⟨nv, hnv, hk'⟩ := h
            intro e
            have : nv ∈ ps.filter fun nv => lowerAscii nv.1 = k := by simp [hnv, hk']
            have hm : nv.2 ∈ (ps.filter fun nv => lowerAscii nv.1 = k).map (·.2) := List.mem_map.mpr ⟨nv, this, rfl⟩
            rw [e] at hm; cases hm
        rw [if_neg hne'])
    simp only [modelM, hdata]
    rw [hext, hkeys]
    have hA : ps.foldl (fun acc nv => if acc.contains (lowerAscii nv.1) then acc else acc ++ [lowerAscii nv.1]) [] =
        (ps.map fun nv => lowerAscii nv.1).foldl (fun acc n => if acc.contains n then acc else acc ++ [n]) [] := by
      rw [List.foldl_map]
    have hB : addNew = fun (acc : List Str) (v : Str) => if acc.contains v then acc else acc ++ [v] := rfl
    simp only [expectedM, firstOcc_eq_foldl, distinct, hA, hB]
    simp

end Props.C08M
