/-
C13 — the K1 negation on its witness; the rendering of the model has one block per paragraph on it.
-/
import DebInspector.Props.C13

namespace Props.C13
open Py Model.Copyright Props.Dep5

def k1Doc : Doc :=
  let paras : List Dep5.Para :=
    [[⟨"Format".toList, 0, "https://www.debian.org/doc/packaging-manuals/copyright-format/1.0/".toList, []⟩,
      ⟨"Foo".toList, 5, "a".toList, [⟨0, "b".toList⟩]⟩]]
  { paras := paras, seps := [1], text := renderAux paras [1] }

/-- **K1**: the full fixpoint statement is false of the model (and of the implementation, replayed on
every run): an extra field with a continuation line gains indentation on each cycle -/
theorem K1_witness : wf k1Doc = true ∧ holdsOn k1Doc (model k1Doc) = false := by decide +kernel

/-- with the K1 hypothesis the same document raises no objection -/
theorem K1_partial_witness : holdsOnK1 k1Doc (model k1Doc) = true := by decide +kernel

/-- non-vacuity of the fixpoint on a document without multi-line extra fields -/
def okDoc : Doc :=
  let paras : List Dep5.Para :=
    [[⟨"Format".toList, 0, "https://www.debian.org/doc/packaging-manuals/copyright-format/1.0/".toList, []⟩],
     [⟨"Files".toList, 1, "* src/*".toList, []⟩, ⟨"Copyright".toList, 2, "2001-2003, Foo Bar".toList, [⟨0, "Baz".toList⟩]⟩,
      ⟨"Licence".toList, 3, "GPL-2+".toList, [⟨0, "text".toList⟩, ⟨1, []⟩, ⟨2, "verbatim".toList⟩]⟩]]
  { paras := paras, seps := [2, 1], text := renderAux paras [2, 1] }

theorem fixpoint_example : wf okDoc = true ∧ holdsOn okDoc (model okDoc) = true := by decide +kernel

end Props.C13
