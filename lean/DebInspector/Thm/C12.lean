/-
C12 — the look-ahead rule of the generator loop.
-/
import DebInspector.Props.C12
import DebInspector.Proofs.Deb822

namespace Props.C12
open Py Model.Deb822

/-- a continuation line is not a declaration line -/
theorem cont_not_decl (l : Str) (h : isCont l = true) : isDecl l = false := Proofs.Deb822.cont_not_decl l h

/-- a continuation line is not blank -/
theorem cont_not_blank (l : Str) (h : isCont l = true) : isBlank l = false := Proofs.Deb822.cont_not_blank l h

/-- **the look-ahead rule**: a blank line met while a field is open is appended to that field exactly
when a next line exists and is neither a declaration nor blank; otherwise the paragraph ends -/
theorem absorb_iff (s : List Fld × Fld) (l n : NL) (rest : List NL) (hb : isBlank l.val = true) :
    go (some s) (l :: n :: rest) =
      if !isDecl n.val && !isBlank n.val then go (some (addLine s ⟨l.num, rstrip l.val⟩)) (n :: rest)
      else flush (some s) ++ go none (n :: rest) := by
  rw [go]
  simp [hb]

/-- hence a blank (or blanked) line directly followed by a continuation line never ends the field -/
theorem blank_before_cont_absorbed (s : List Fld × Fld) (l n : NL) (rest : List NL)
    (hb : isBlank l.val = true) (hc : isCont n.val = true) :
    go (some s) (l :: n :: rest) = go (some (addLine s ⟨l.num, rstrip l.val⟩)) (n :: rest) := by
  rw [absorb_iff s l n rest hb, cont_not_decl _ hc, cont_not_blank _ hc]
  simp

/-- non-vacuity: a marker blanked before a continuation line; two adjacent markers blanked (splits) -/
example : holdsOn ⟨["License: GPL".toList, " text".toList, " .".toList, " more".toList], [(2, "  ".toList)]⟩
    (model ⟨["License: GPL".toList, " text".toList, " .".toList, " more".toList], [(2, "  ".toList)]⟩) = true := by
  decide +kernel
example : (model ⟨["License: GPL".toList, " .".toList, " .".toList, " more".toList], [(1, []), (2, [])]⟩).blanked.groups.length = 2 := by
  decide +kernel

end Props.C12
