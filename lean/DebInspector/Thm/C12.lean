/-
C12 — the look-ahead rule of the generator loop, and `groups_sound`: blanking markers that are followed by a
continuation line changes nothing in what the line-tracking parser reports but the text of those lines.
-/
import DebInspector.Props.C12
import DebInspector.Proofs.Deb822
import DebInspector.Proofs.LinesAscii
import DebInspector.Proofs.StrLemmas

namespace Props.C12
open Py Model.Deb822 Proofs.Deb822 Proofs.LinesAscii

/-- a continuation line is not a declaration line -/
theorem cont_not_decl (l : Str) (h : isCont l = true) : isDecl l = false := Proofs.Deb822.cont_not_decl l h

/-- a continuation line is not blank -/
theorem cont_not_blank (l : Str) (h : isCont l = true) : isBlank l = false := Proofs.Deb822.cont_not_blank l h

/-- **the look-ahead rule**: a blank line met while a field is open is appended to that field exactly
when a next line exists and is neither a declaration nor blank; otherwise the paragraph ends -/
theorem absorb_iff (s : List Fld × Fld) (l n : NL) (rest : List NL) (hb : isBlank l.val = true) :
    go (some s) (l :: n :: rest) =
      if !isDecl n.val && !isBlank n.val then go (some (addLine s ⟨l.num, rstrip l.val⟩)) (n :: rest)
      else flush (some s) ++ go none (n :: rest) := by
  rw [go]
  simp [hb]

/-- hence a blank (or blanked) line directly followed by a continuation line never ends the field -/
theorem blank_before_cont_absorbed (s : List Fld × Fld) (l n : NL) (rest : List NL)
    (hb : isBlank l.val = true) (hc : isCont n.val = true) :
    go (some s) (l :: n :: rest) = go (some (addLine s ⟨l.num, rstrip l.val⟩)) (n :: rest) := by
  rw [absorb_iff s l n rest hb, cont_not_decl _ hc, cont_not_blank _ hc]
  simp

/-- non-vacuity: a marker blanked before a continuation line; two adjacent markers blanked (splits) -/
example : holdsOn ⟨["License: GPL".toList, " text".toList, " .".toList, " more".toList], [(2, "  ".toList)]⟩
    (model ⟨["License: GPL".toList, " text".toList, " .".toList, " more".toList], [(2, "  ".toList)]⟩) = true := by
  decide +kernel
example : (model ⟨["License: GPL".toList, " .".toList, " .".toList, " more".toList], [(1, []), (2, [])]⟩).blanked.groups.length = 2 := by
  decide +kernel

/-! ## the simulation -/

/-! ### blanking markers inside the loop: a simulation -/

/-- the marked line numbers (1-based) -/
abbrev Marked := Nat → Bool

def blankLine (mk : Marked) (l : NL) : NL := if mk l.num then ⟨l.num, []⟩ else l
def mapF (mk : Marked) (f : Fld) : Fld := { f with lines := f.lines.map (blankLine mk) }
def mapSt (mk : Marked) : St → St
  | none => none
  | some (done, cur) => some (done.map (mapF mk), mapF mk cur)
def mapOut (mk : Marked) (ps : List (List Fld)) : List (List Fld) := ps.map fun g => g.map (mapF mk)

/-- a line is a witness that trailing-blank trimming stops at or after it, in both runs -/
def Witness (mk : Marked) (l : NL) : Prop := mk l.num = false ∧ isBlank l.val = false

/-- every marked line has a later witness -/
def Safe (mk : Marked) : List NL → Prop
  | [] => True
  | l :: ls => (mk l.num = true → ∃ w ∈ ls, Witness mk w) ∧ Safe mk ls

/-- … except possibly the last line -/
def SafeBL (mk : Marked) : List NL → Prop
  | [] => True
  | [_] => True
  | l :: m :: rest => (mk l.num = true → ∃ w ∈ m :: rest, Witness mk w) ∧ SafeBL mk (m :: rest)

theorem rstripLines_ne_nil_of_witness (ls : List NL) (w : NL) (hw : w ∈ ls) (hb : isBlank w.val = false) :
    rstripLines ls ≠ [] := by
  rcases rstripLines_mem_or_blank ls w hw with h | h
  · intro e; rw [e] at h; cases h
  · rw [hb] at h; cases h

theorem blankLine_witness (mk : Marked) (w : NL) (h : Witness mk w) : blankLine mk w = w := by
  simp [blankLine, h.1]

/-- trimming trailing blank lines commutes with blanking the marked lines -/
theorem rstripLines_blank (mk : Marked) (ls : List NL) (h : Safe mk ls) :
    rstripLines (ls.map (blankLine mk)) = (rstripLines ls).map (blankLine mk) := by
  induction ls with
  | nil => rfl
  | cons l ls ih =>
    obtain ⟨hl, hs⟩ := h
    have ih := ih hs
    simp only [List.map_cons, rstripLines, ih]
    cases hr : rstripLines ls with
    | nil =>
      simp only [List.map_nil]
      by_cases hm : mk l.num = true
      · obtain ⟨w, hw, hwit⟩ := hl hm
        exact absurd hr (rstripLines_ne_nil_of_witness ls w hw hwit.2)
      · have hm' : mk l.num = false := by simpa using hm
        simp [blankLine, hm']
        split <;> simp [blankLine, hm']
    | cons r rs => simp

theorem safe_of_safeBL (mk : Marked) (ls : List NL) (h : SafeBL mk ls)
    (hlast : ∀ l ∈ ls.getLast?, mk l.num = false) : Safe mk ls := by
  induction ls with
  | nil => trivial
  | cons l ls ih =>
    cases ls with
    | nil =>
      refine ⟨fun hm => ?_, trivial⟩
      have := hlast l (by simp)
      rw [this] at hm; cases hm
    | cons m rest =>
      obtain ⟨h1, h2⟩ := h
      exact ⟨h1, ih h2 (fun x hx => hlast x (by simpa [List.getLast?_cons_cons] using hx))⟩

theorem safe_snoc_witness (mk : Marked) (ls : List NL) (y : NL) (h : SafeBL mk ls) (hy : Witness mk y) :
    Safe mk (ls ++ [y]) := by
  induction ls with
  | nil => exact ⟨(fun hm => by rw [hy.1] at hm; cases hm), trivial⟩
  | cons l ls ih =>
    cases ls with
    | nil =>
      refine ⟨fun _ => ⟨y, by simp, hy⟩, ?_⟩
      exact ⟨(fun hm => by rw [hy.1] at hm; cases hm), trivial⟩
    | cons m rest =>
      obtain ⟨h1, h2⟩ := h
      refine ⟨fun hm => ?_, ih h2⟩
      obtain ⟨w, hw, hwit⟩ := h1 hm
      exact ⟨w, List.mem_append_left _ hw, hwit⟩

theorem safeBL_snoc (mk : Marked) (ls : List NL) (x : NL) (h : Safe mk ls) : SafeBL mk (ls ++ [x]) := by
  induction ls with
  | nil => trivial
  | cons l ls ih =>
    obtain ⟨h1, h2⟩ := h
    cases ls with
    | nil =>
      refine ⟨fun hm => ?_, trivial⟩
      obtain ⟨w, hw, _⟩ := h1 hm
      cases hw
    | cons m rest =>
      refine ⟨fun hm => ?_, ih h2⟩
      obtain ⟨w, hw, hwit⟩ := h1 hm
      exact ⟨w, List.mem_append_left _ hw, hwit⟩

theorem safeBL_of_safe (mk : Marked) (ls : List NL) (h : Safe mk ls) : SafeBL mk ls := by
  induction ls with
  | nil => trivial
  | cons l ls ih =>
    cases ls with
    | nil => trivial
    | cons m rest => exact ⟨h.1, ih h.2⟩


/-! ### the documents: each line with its optional blank replacement -/

abbrev Item := Str × Option Str

def origOf (items : List Item) : List Str := items.map (·.1)
def blankedOf (items : List Item) : List Str := items.map fun x => x.2.getD x.1

/-- a well-formed document with its marks, from line number `k` on -/
def ItemsOK (mk : Marked) : Nat → List Item → Prop
  | _, [] => True
  | k, x :: rest =>
    (mk k = x.2.isSome) ∧
    (x.1 = [] ∨ isDecl x.1 = true ∨ isCont x.1 = true) ∧
    (∀ r, x.2 = some r → x.1 = marker ∧ isBlank r = true ∧
        ∃ y rest', rest = y :: rest' ∧ isCont y.1 = true ∧ y.2 = none) ∧
    (∀ y ∈ rest.head?, isCont y.1 = true → x.1 ≠ []) ∧
    ItemsOK mk (k + 1) rest

def lastMarked (mk : Marked) (ls : List NL) : Prop := ∃ l ∈ ls.getLast?, mk l.num = true

/-- the state invariant of the simulation -/
def StInv (mk : Marked) : St → List Item → Prop
  | none, items => ∀ y ∈ items.head?, isCont y.1 = false
  | some (done, cur), items =>
    (∀ f ∈ done, Safe mk f.lines) ∧ SafeBL mk cur.lines ∧
    (lastMarked mk cur.lines → ∃ y rest, items = y :: rest ∧ isCont y.1 = true ∧ y.2 = none)

theorem clean_map (mk : Marked) (g : List Fld) (h : ∀ f ∈ g, Safe mk f.lines) :
    clean (g.map (mapF mk)) = (clean g).map (mapF mk) := by
  induction g with
  | nil => rfl
  | cons f fs ih =>
    simp only [List.map_cons, clean] at ih ⊢
    rw [ih (fun x hx => h x (by simp [hx]))]
    simp only [mapF, rstripLines_blank mk f.lines (h f (by simp))]

theorem flush_map (mk : Marked) (st : St) (h : match st with
      | none => True
      | some (done, cur) => (∀ f ∈ done, Safe mk f.lines) ∧ Safe mk cur.lines) :
    flush (mapSt mk st) = mapOut mk (flush st) := by
  cases st with
  | none => rfl
  | some s =>
    obtain ⟨done, cur⟩ := s
    simp only [mapSt, flush, mapOut, List.map_cons, List.map_nil]
    have := clean_map mk (done ++ [cur]) (by
      intro f hf
      simp only [List.mem_append, List.mem_singleton] at hf
      rcases hf with hf | rfl
      · exact h.1 f hf
      · exact h.2)
    simpa using this

theorem mapOut_append (mk : Marked) (a b : List (List Fld)) : mapOut mk (a ++ b) = mapOut mk a ++ mapOut mk b := by
  simp [mapOut]

theorem marker_facts : isCont marker = true ∧ isBlank marker = false ∧ rstrip marker = marker ∧ isDecl marker = false := by
  decide

theorem rstrip_blank_nil (r : Str) (h : isBlank r = true) : rstrip r = [] := (rstrip_eq_nil_iff r).mpr h

theorem not_lastMarked_of (mk : Marked) (cur : Fld) (items : List Item)
    (h : lastMarked mk cur.lines → ∃ y rest, items = y :: rest ∧ isCont y.1 = true ∧ y.2 = none)
    (hhead : ∀ y ∈ items.head?, isCont y.1 = false ∨ y.2.isSome = true) :
    ∀ l ∈ cur.lines.getLast?, mk l.num = false := by
  intro l hl
  cases hm : mk l.num with
  | false => rfl
  | true =>
    obtain ⟨y, rest, e, hc, hn⟩ := h ⟨l, hl, hm⟩
    have := hhead y (by rw [e]; simp)
    rcases this with h' | h'
    · rw [hc] at h'; cases h'
    · rw [hn] at h'; cases h'


theorem space_not_letter : ∀ n ∈ Generated.spaceCodes, isLetterIC (Char.ofNat n) = false := by decide

theorem letter_not_space {c : Char} (h : isLetterIC c = true) : isSpace c = false := by
  cases hs : isSpace c with
  | false => rfl
  | true =>
    have hm : c.toNat ∈ Generated.spaceCodes := by simpa [isSpace] using hs
    have := space_not_letter _ hm
    rw [Char.ofNat_toNat] at this
    rw [this] at h; cases h

theorem mapSt_addLine (mk : Marked) (s : List Fld × Fld) (l : NL) :
    mapSt mk (some (addLine s l)) = some (addLine ((s.1.map (mapF mk)), mapF mk s.2) (blankLine mk l)) := by
  obtain ⟨done, cur⟩ := s
  simp [mapSt, addLine, mapF]

theorem fromLine_unmarked (mk : Marked) (l : NL) (h : mk l.num = false) : mapF mk (fromLine l) = fromLine l := by
  simp [mapF, fromLine, blankLine, h]

theorem getLast?_snoc {α} (l : List α) (x : α) : (l ++ [x]).getLast? = some x := List.getLast?_concat

/-- **the simulation**: running the loop on the blanked document gives the run on the original with
the marked lines blanked -/
theorem sim (mk : Marked) (items : List Item) (k : Nat) (st : St) (hok : ItemsOK mk k items)
    (hinv : StInv mk st items) :
    go (mapSt mk st) (numberFrom k (blankedOf items)) = mapOut mk (go st (numberFrom k (origOf items))) := by
  induction items generalizing k st with
  | nil =>
    simp only [blankedOf, origOf, List.map_nil, numberFrom, go]
    apply flush_map
    cases st with
    | none => trivial
    | some s =>
      obtain ⟨done, cur⟩ := s
      obtain ⟨h1, h2, h3⟩ := hinv
      refine ⟨h1, safe_of_safeBL mk _ h2 ?_⟩
      exact not_lastMarked_of mk cur [] h3 (by intro y hy; cases hy)
  | cons x rest ih =>
    obtain ⟨hmk, hkind, hmark, hnext, hrest⟩ := hok
    obtain ⟨xo, xr⟩ := x
    simp only [blankedOf, origOf, List.map_cons, numberFrom]
    have ih' := fun st' (h : StInv mk st' rest) => ih (k + 1) st' hrest h
    simp only [blankedOf, origOf] at ih'
    cases xr with
    | some r =>
      -- a marked line: a marker in the original, a blank line in the blanked document
      obtain ⟨hxo, hrb, y, rest', hre, hyc, hyn⟩ := hmark r rfl
      subst hxo
      have hmk' : mk k = true := by simpa using hmk
      cases st with
      | none =>
        have := hinv (marker, some r) (by simp)
        simp only at this
        rw [marker_facts.1] at this; cases this
      | some s =>
        obtain ⟨done, cur⟩ := s
        obtain ⟨h1, h2, h3⟩ := hinv
        simp only [Option.getD_some]
        -- original: a continuation line
        rw [go_cont_step (done, cur) ⟨k, marker⟩ _ marker_facts.2.1 marker_facts.1]
        -- blanked: a blank line followed by a continuation line
        subst hre
        simp only [List.map_cons, numberFrom, hyn, Option.getD_none]
        have habs := Props.C12.blank_before_cont_absorbed ((done.map (mapF mk)), mapF mk cur) ⟨k, r⟩ ⟨k + 1, y.1⟩
          (numberFrom (k + 1 + 1) (rest'.map fun x => x.2.getD x.1)) hrb hyc
        simp only [mapSt]
        rw [habs]
        have hst : (some (addLine (done.map (mapF mk), mapF mk cur) ⟨k, rstrip r⟩) : St) =
            mapSt mk (some (addLine (done, cur) ⟨k, rstrip marker⟩)) := by
          rw [mapSt_addLine]
          simp [blankLine, hmk', rstrip_blank_nil r hrb]
        rw [hst]
        have := ih' (some (addLine (done, cur) ⟨k, rstrip marker⟩)) (by
          simp only [addLine, StInv]
          have hlast : ∀ l ∈ cur.lines.getLast?, mk l.num = false :=
            not_lastMarked_of mk cur _ h3 (by intro z hz; simp at hz; subst hz; exact Or.inr rfl)
          refine ⟨h1, safeBL_snoc mk _ _ (safe_of_safeBL mk _ h2 hlast), ?_⟩
          intro _
          exact ⟨y, rest', rfl, hyc, hyn⟩)
        simpa [numberFrom, hyn] using this
    | none =>
      have hmk' : mk k = false := by simpa using hmk
      simp only [Option.getD_none]
      have hhead_unmarked_cont : ∀ z ∈ ((xo, (none : Option Str)) :: rest).head?, isCont z.1 = false ∨ z.2.isSome = true →
          isCont xo = false := by
        intro z hz hh; simp at hz; subst hz; simpa using hh
      rcases hkind with hk | hk | hk
      · -- an empty line
        subst hk
        have hblank : isBlank ([] : Str) = true := rfl
        have hnc : ∀ y ∈ rest.head?, isCont y.1 = false := by
          intro y hy
          cases hc : isCont y.1 with
          | false => rfl
          | true => exact absurd rfl (hnext y hy hc)
        -- the next line is the same in both documents: not marked (a marked line is a continuation line)
        have hnextB : ∀ n ∈ (numberFrom (k + 1) (rest.map fun x => x.2.getD x.1)).head?,
            isDecl n.val = true ∨ isBlank n.val = true := by
          intro n hn
          cases rest with
          | nil => simp [numberFrom] at hn
          | cons y rest' =>
            simp only [List.map_cons, numberFrom, List.head?_cons, Option.mem_def, Option.some.injEq] at hn
            subst hn
            obtain ⟨hymk, hykind, hymark, _, _⟩ := hrest
            cases hy2 : y.2 with
            | some r' =>
              have := (hymark r' hy2).1
              have hc := hnc y (by simp)
              rw [this, marker_facts.1] at hc; cases hc
            | none =>
              simp only [Option.getD_none]
              have hc := hnc y (by simp)
              rcases hykind with h | h | h
              · rw [h]; exact Or.inr rfl
              · exact Or.inl h
              · rw [hc] at h; cases h
        have hnextA : ∀ n ∈ (numberFrom (k + 1) (rest.map (·.1))).head?,
            isDecl n.val = true ∨ isBlank n.val = true := by
          intro n hn
          cases rest with
          | nil => simp [numberFrom] at hn
          | cons y rest' =>
            simp only [List.map_cons, numberFrom, List.head?_cons, Option.mem_def, Option.some.injEq] at hn
            subst hn
            obtain ⟨_, hykind, _, _, _⟩ := hrest
            have hc := hnc y (by simp)
            rcases hykind with h | h | h
            · rw [h]; exact Or.inr rfl
            · exact Or.inl h
            · rw [hc] at h; cases h
        cases st with
        | none =>
          simp only [mapSt]
          rw [go_blank_none _ _ hblank, go_blank_none _ _ hblank]
          exact ih' none hnc
        | some s =>
          obtain ⟨done, cur⟩ := s
          obtain ⟨h1, h2, h3⟩ := hinv
          simp only [mapSt]
          rw [go_blank_break _ _ _ hblank hnextB, go_blank_break _ _ _ hblank hnextA, mapOut_append]
          have hlast : ∀ l ∈ cur.lines.getLast?, mk l.num = false :=
            not_lastMarked_of mk cur _ h3 (by intro z hz; simp at hz; subst hz; exact Or.inl rfl)
          have hfl := flush_map mk (some (done, cur)) ⟨h1, safe_of_safeBL mk _ h2 hlast⟩
          simp only [mapSt] at hfl
          rw [hfl]
          congr 1
          exact ih' none hnc
      · -- a declaration line
        have hnb : isBlank xo = false := by
          cases xo with
          | nil => simp [isDecl, headP] at hk
          | cons c cs =>
            simp only [isDecl, headP, Bool.and_eq_true] at hk
            simp [isBlank, letter_not_space hk.1]
        have hnc : isCont xo = false := by
          cases hc : isCont xo with
          | false => rfl
          | true => have := cont_not_decl xo hc; rw [hk] at this; cases this
        have hfl : mapF mk (fromLine ⟨k, xo⟩) = fromLine ⟨k, xo⟩ := fromLine_unmarked mk _ hmk'
        have hcurinv : StInv mk (some ((match st with | none => [] | some s => s.1 ++ [s.2]), fromLine ⟨k, xo⟩)) rest := by
          have hnew : SafeBL mk (fromLine ⟨k, xo⟩).lines ∧ ¬ lastMarked mk (fromLine ⟨k, xo⟩).lines := by
            refine ⟨by simp [fromLine, SafeBL], ?_⟩
            rintro ⟨l, hl, hm⟩
            simp [fromLine] at hl
            subst hl
            simp only at hm
            rw [hmk'] at hm; cases hm
          cases st with
          | none => exact ⟨(by intro f hf; cases hf), hnew.1, fun h => absurd h hnew.2⟩
          | some s =>
            obtain ⟨done, cur⟩ := s
            obtain ⟨h1, h2, h3⟩ := hinv
            have hlast : ∀ l ∈ cur.lines.getLast?, mk l.num = false :=
              not_lastMarked_of mk cur _ h3 (by intro z hz; simp at hz; subst hz; exact Or.inl hnc)
            refine ⟨?_, hnew.1, fun h => absurd h hnew.2⟩
            intro f hf
            simp only [List.mem_append, List.mem_singleton] at hf
            rcases hf with hf | rfl
            · exact h1 f hf
            · exact safe_of_safeBL mk _ h2 hlast
        cases st with
        | none =>
          simp only [mapSt]
          rw [go_decl_step_none _ _ hnb hk, go_decl_step_none _ _ hnb hk]
          have := ih' _ hcurinv
          simpa [mapSt, hfl] using this
        | some s =>
          obtain ⟨done, cur⟩ := s
          simp only [mapSt]
          rw [go_decl_step_open _ _ _ hnb hnc hk, go_decl_step_open _ _ _ hnb hnc hk]
          have := ih' _ hcurinv
          simpa [mapSt, hfl] using this
      · -- an unmarked continuation line
        have hnb : isBlank xo = false := cont_not_blank xo hk
        cases st with
        | none =>
          have := hinv (xo, none) (by simp)
          simp only at this
          rw [hk] at this; cases this
        | some s =>
          obtain ⟨done, cur⟩ := s
          obtain ⟨h1, h2, h3⟩ := hinv
          simp only [mapSt]
          rw [go_cont_step _ ⟨k, xo⟩ _ hnb hk, go_cont_step _ ⟨k, xo⟩ _ hnb hk]
          have hwit : Witness mk ⟨k, rstrip xo⟩ := ⟨hmk', isBlank_rstrip hnb⟩
          have hst : (some (addLine (done.map (mapF mk), mapF mk cur) ⟨k, rstrip xo⟩) : St) =
              mapSt mk (some (addLine (done, cur) ⟨k, rstrip xo⟩)) := by
            rw [mapSt_addLine]; simp [blankLine, hmk']
          rw [hst]
          apply ih'
          simp only [addLine, StInv]
          have hs := safe_snoc_witness mk cur.lines ⟨k, rstrip xo⟩ h2 hwit
          refine ⟨h1, safeBL_of_safe mk _ hs, ?_⟩
          rintro ⟨l, hl, hm⟩
          rw [getLast?_snoc] at hl
          simp at hl; subst hl
          simp only at hm
          rw [hmk'] at hm; cases hm


/-! ### from the property's input to the simulation -/

def mkOf (i : Input) : Marked := fun n => (i.marks.lookup (n - 1)).isSome && decide (n > 0)

def itemsFrom (i : Input) : Nat → List Str → List Item
  | _, [] => []
  | j, l :: ls => (l, i.marks.lookup j) :: itemsFrom i (j + 1) ls

theorem origOf_itemsFrom (i : Input) (j : Nat) (ls : List Str) : origOf (itemsFrom i j ls) = ls := by
  induction ls generalizing j with
  | nil => rfl
  | cons l ls ih => simp only [itemsFrom, origOf, List.map_cons] at ih ⊢; rw [ih]

theorem lookup_mem' (l : List (Nat × Str)) (k : Nat) (v : Str) (h : l.lookup k = some v) : (k, v) ∈ l := by
  induction l with
  | nil => simp [List.lookup] at h
  | cons a as ih =>
    obtain ⟨a1, a2⟩ := a
    simp only [List.lookup] at h
    by_cases e : k = a1
    · subst e; simp at h; subst h; simp
    · have hb : (k == a1) = false := by simpa using e
      simp only [hb] at h
      exact List.mem_cons_of_mem _ (ih h)

theorem drop_cons_facts (l : List Str) (j : Nat) (x : Str) (xs : List Str) (h : l.drop j = x :: xs) :
    j < l.length ∧ l.getD j [] = x ∧ l.drop (j + 1) = xs ∧ x ∈ l := by
  have hlt : j < l.length := by
    apply Nat.lt_of_not_le
    intro hge
    have : l.drop j = [] := List.drop_eq_nil_of_le hge
    rw [this] at h; cases h
  have hget : l[j]? = some x := by
    have := congrArg List.head? h
    simpa [List.head?_drop] using this
  refine ⟨hlt, by simp [List.getD, hget], ?_, List.mem_of_getElem? hget⟩
  have := congrArg List.tail h
  simpa [List.tail_drop] using this

theorem itemsOK_of_wf (i : Input) (h : wf i = true) (j : Nat) (ls : List Str) (hd : i.lines.drop j = ls) :
    ItemsOK (mkOf i) (j + 1) (itemsFrom i j ls) := by
  simp only [wf, wfDoc, wfMarks, Bool.and_eq_true, List.all_eq_true, List.mem_range] at h
  obtain ⟨⟨hlines, hprev⟩, hmarks⟩ := h
  induction ls generalizing j with
  | nil => trivial
  | cons l ls ih =>
    obtain ⟨hjlt, hget, hd', hlmem⟩ := drop_cons_facts i.lines j l ls hd
    refine ⟨?_, ?_, ?_, ?_, ih (j + 1) hd'⟩
    · simp [mkOf]
    · have := (hlines l hlmem).2
      simp only [Bool.or_eq_true, List.isEmpty_iff] at this
      rcases this with (h | h) | h
      · exact Or.inl h
      · exact Or.inr (Or.inl h)
      · exact Or.inr (Or.inr h)
    · intro r hr
      have hm := hmarks (j, r) (lookup_mem' _ _ _ hr)
      simp only [Bool.and_eq_true, beq_iff_eq, decide_eq_true_eq, Option.isNone_iff_eq_none] at hm
      obtain ⟨⟨⟨⟨⟨⟨h1, h2⟩, _⟩, h4⟩, h5⟩, h6⟩, _⟩ := hm
      refine ⟨by rw [← hget]; exact h1, h2, ?_⟩
      cases ls with
      | nil =>
        have := congrArg List.length hd'
        simp at this
        omega
      | cons y rest' =>
        obtain ⟨_, hgy, _, _⟩ := drop_cons_facts i.lines (j + 1) y rest' hd'
        exact ⟨(y, i.marks.lookup (j + 1)), itemsFrom i (j + 1 + 1) rest', rfl, by rw [← hgy]; exact h5, h6⟩
    · intro y hy hc
      cases ls with
      | nil => simp [itemsFrom] at hy
      | cons y' rest' =>
        simp only [itemsFrom, List.head?_cons, Option.mem_def, Option.some.injEq] at hy
        subst hy
        simp only at hc
        obtain ⟨hj1, hgy, _, _⟩ := drop_cons_facts i.lines (j + 1) y' rest' hd'
        have := hprev (j + 1) hj1
        simp only [Bool.or_eq_true, Bool.not_eq_true', Bool.and_eq_true, decide_eq_true_eq, List.isEmpty_eq_false_iff,
          Nat.add_sub_cancel] at this
        rcases this with h' | h'
        · rw [hgy, hc] at h'; cases h'
        · rw [hget] at h'; exact h'.2


theorem blankedOf_itemsFrom (i : Input) (j : Nat) (ls : List Str) (hd : i.lines.drop j = ls) :
    blankedOf (itemsFrom i j ls) =
      (List.range' j ls.length).map fun j => match i.marks.lookup j with | some r => r | none => i.lines.getD j [] := by
  induction ls generalizing j with
  | nil => rfl
  | cons l ls ih =>
    obtain ⟨_, hget, hd', _⟩ := drop_cons_facts i.lines j l ls hd
    simp only [itemsFrom, blankedOf, List.map_cons, List.length_cons, List.range'_succ] at ih ⊢
    rw [ih (j + 1) hd', hget]
    cases i.marks.lookup j <;> rfl

theorem blankedLines_eq (i : Input) : blankedLines i = blankedOf (itemsFrom i 0 i.lines) := by
  rw [blankedOf_itemsFrom i 0 i.lines rfl]
  unfold blankedLines
  rw [List.range_eq_range']
  rfl

theorem model_render (ls : List Str) (h : ∀ l ∈ ls, NoT l) :
    Props.C05.model (render ls) = Props.C05.obsOf (go none (numberFrom 1 ls)) := by
  unfold Props.C05.model parse linesFromText render
  have := splitLinesAscii_seps ls [] h
  simp only [List.append_nil] at this
  rw [this]
  simp [splitLinesAscii, splitLinesAsciiAux]

theorem obsOf_mapOut (i : Input) (ps : List (List Fld)) :
    Props.C05.obsOf (mapOut (mkOf i) ps) = expectedGroups i (Props.C05.obsOf ps) := by
  simp only [Props.C05.obsOf, mapOut, expectedGroups, List.map_map]
  apply List.map_congr_left
  intro g _
  simp only [Function.comp, List.map_map]
  apply List.map_congr_left
  intro f _
  simp only [Function.comp, mapF, List.map_map, Prod.mk.injEq, true_and]
  apply List.map_congr_left
  intro l _
  simp only [Function.comp, blankLine, mkOf]
  by_cases hc : ((List.lookup (l.num - 1) i.marks).isSome && decide (l.num > 0)) = true
  · simp [hc]
  · simp [hc]

/-- **C12, line-tracking parser** — in any well-formed document, replacing any set of ` .` markers that
are followed by a continuation line by empty or white-space-only lines changes nothing in what the
line-tracking parser reports but the line text of the replaced markers: same paragraphs, same fields,
same line numbers, same other lines. -/
theorem groups_sound (i : Input) (h : wf i = true) :
    (model i).blanked.groups = expectedGroups i (model i).orig.groups := by
  have hwf := h
  simp only [wf, wfDoc, wfMarks, Bool.and_eq_true, List.all_eq_true, List.mem_range] at h
  obtain ⟨⟨hlines, _⟩, hmarks⟩ := h
  have hnoT : ∀ s : Str, noTerminator s = true → NoT s := by
    intro s hs
    simp only [noTerminator, Bool.and_eq_true, Bool.not_eq_true'] at hs
    exact ⟨by simpa using hs.1, by simpa using hs.2⟩
  have hA : ∀ l ∈ i.lines, NoT l := fun l hl => hnoT l (hlines l hl).1
  have hB : ∀ l ∈ blankedLines i, NoT l := by
    intro l hl
    simp only [blankedLines, List.mem_map, List.mem_range] at hl
    obtain ⟨j, hj, rfl⟩ := hl
    cases hlk : i.marks.lookup j with
    | none =>
      simp only
      have hm : i.lines.getD j [] ∈ i.lines := by
        have : i.lines[j]? = some (i.lines.getD j []) := by simp [List.getD, List.getElem?_eq_getElem hj]
        exact List.mem_of_getElem? this
      exact hA _ hm
    | some r =>
      simp only
      have := hmarks (j, r) (lookup_mem' _ _ _ hlk)
      simp only [Bool.and_eq_true] at this
      exact hnoT r this.1.1.1.1.2
  simp only [model, side]
  rw [model_render _ hA, model_render _ hB, blankedLines_eq]
  have hsim := sim (mkOf i) (itemsFrom i 0 i.lines) 1 none (itemsOK_of_wf i hwf 0 i.lines rfl) (by
    intro y hy
    -- the first line is not a continuation line
    cases hl : i.lines with
    | nil => rw [hl] at hy; simp [itemsFrom] at hy
    | cons l ls =>
      rw [hl] at hy
      simp only [itemsFrom, List.head?_cons, Option.mem_def, Option.some.injEq] at hy
      subst hy
      simp only
      have hw2 := hwf
      simp only [wf, wfDoc, Bool.and_eq_true, List.all_eq_true, List.mem_range] at hw2
      have := hw2.1.2 0 (by rw [hl]; simp)
      simp only [hl, List.getD_cons_zero, Bool.or_eq_true, Bool.not_eq_true', Bool.and_eq_true, decide_eq_true_eq] at this
      rcases this with h' | h'
      · exact h'
      · omega)
  simp only [mapSt, origOf_itemsFrom] at hsim
  rw [hsim, obsOf_mapOut]


end Props.C12
