/-
C12 — the look-ahead rule of the generator loop.
-/
import DebInspector.Props.C12

namespace Props.C12
open Py Model.Deb822

theorem mem_dropBlanksTabs {c : Char} {l : Str} (h : c ∈ dropBlanksTabs l) : c ∈ l := by
  induction l with
  | nil => simp [dropBlanksTabs] at h
  | cons d ds ih =>
    simp only [dropBlanksTabs] at h
    split at h
    · exact List.mem_cons_of_mem _ (ih h)
    · exact h

/-- a continuation line is not a declaration line -/
theorem cont_not_decl (l : Str) (h : isCont l = true) : isDecl l = false := by
  cases l with
  | nil => simp [isCont, headP] at h
  | cons c cs =>
    simp only [isCont, headP, Bool.and_eq_true, Bool.or_eq_true, decide_eq_true_eq] at h
    have : isLetterIC c = false := by
      rcases h.1 with e | e <;> subst e <;> decide
    simp [isDecl, headP, this]

/-- a continuation line is not blank -/
theorem cont_not_blank (l : Str) (h : isCont l = true) : isBlank l = false := by
  simp only [isCont, Bool.and_eq_true] at h
  obtain ⟨c, r, hr, hc⟩ : ∃ c r, dropBlanksTabs l = c :: r ∧ isSpace c = false := by
    cases hd : dropBlanksTabs l with
    | nil => rw [hd] at h; simp [headP] at h
    | cons c r => rw [hd] at h; exact ⟨c, r, rfl, by simpa [headP] using h.2⟩
  have hm : c ∈ l := mem_dropBlanksTabs (by rw [hr]; simp)
  cases hb : isBlank l with
  | false => rfl
  | true =>
    have := List.all_eq_true.mp hb c hm
    rw [hc] at this; cases this

/-- **the look-ahead rule**: a blank line met while a field is open is appended to that field exactly
when a next line exists and is neither a declaration nor blank; otherwise the paragraph ends -/
theorem absorb_iff (s : List Fld × Fld) (l n : NL) (rest : List NL) (hb : isBlank l.val = true) :
    go (some s) (l :: n :: rest) =
      if !isDecl n.val && !isBlank n.val then go (some (addLine s ⟨l.num, rstrip l.val⟩)) (n :: rest)
      else flush (some s) ++ go none (n :: rest) := by
  rw [go]
  simp [hb]

/-- hence a blank (or blanked) line directly followed by a continuation line never ends the field -/
theorem blank_before_cont_absorbed (s : List Fld × Fld) (l n : NL) (rest : List NL)
    (hb : isBlank l.val = true) (hc : isCont n.val = true) :
    go (some s) (l :: n :: rest) = go (some (addLine s ⟨l.num, rstrip l.val⟩)) (n :: rest) := by
  rw [absorb_iff s l n rest hb, cont_not_decl _ hc, cont_not_blank _ hc]
  simp

/-- non-vacuity: a marker blanked before a continuation line; two adjacent markers blanked (splits) -/
example : holdsOn ⟨["License: GPL".toList, " text".toList, " .".toList, " more".toList], [(2, "  ".toList)]⟩
    (model ⟨["License: GPL".toList, " text".toList, " .".toList, " more".toList], [(2, "  ".toList)]⟩) = true := by
  decide +kernel
example : (model ⟨["License: GPL".toList, " .".toList, " .".toList, " more".toList], [(1, []), (2, [])]⟩).blanked.groups.length = 2 := by
  decide +kernel

end Props.C12
