/-
C13 — the fixpoint, paragraph level: a paragraph object built from a paragraph of the grammar is rendered as the
canonical paragraph (typed fields in class order under their conventional names, then the unknown fields).
-/
import DebInspector.Thm.C13F
import DebInspector.Thm.C06H

namespace Props.C13P
open Py Model.Deb822 Model.Debcon Model.Copyright Props.Dep5 Props.C09 Props.C09G Props.C13F Proofs.Splitlines

/-! ### generic list facts -/

theorem lset_absent {α} (l : List (Str × α)) (k : Str) (v : α) (h : k ∉ l.map (·.1)) : lset l k v = l ++ [(k, v)] := by
  induction l with
  | nil => rfl
  | cons a as ih =>
    have hne : a.1 ≠ k := fun e => h (by simp [e])
    have : k ∉ as.map (·.1) := fun hm => h (by simp [hm])
    obtain ⟨a1, a2⟩ := a
    simp only [lset, hne, if_false, ih this, List.cons_append]

theorem fold_lset_fresh {α β} (xs : List β) (key : β → Str) (val : β → α) (d : List (Str × α))
    (hnd : (xs.map key).Nodup) (hdis : ∀ x ∈ xs, key x ∉ d.map (·.1)) :
    xs.foldl (fun d x => lset d (key x) (val x)) d = d ++ xs.map fun x => (key x, val x) := by
  induction xs generalizing d with
  | nil => simp
  | cons x xs ih =>
    simp only [List.foldl_cons, List.map_cons]
    rw [lset_absent d _ _ (hdis x (by simp))]
    rw [List.map_cons] at hnd
    have hnd' := List.nodup_cons.mp hnd
    rw [ih _ hnd'.2 (by
      intro y hy
      simp only [List.map_append, List.map_cons, List.map_nil, List.mem_append, List.mem_singleton, not_or]
      refine ⟨hdis y (by simp [hy]), ?_⟩
      intro e
      exact hnd'.1 (by rw [← e]; exact List.mem_map.mpr ⟨y, hy, rfl⟩))]
    simp

theorem lookup_map_find {α β} (l : List α) (key : α → Str) (val : α → β) (n : Str) :
    (l.map fun a => (key a, val a)).lookup n = (l.find? fun a => key a == n).map val := by
  induction l with
  | nil => rfl
  | cons a as ih =>
    by_cases h : key a = n
    · have h1 : (n == key a) = true := by rw [h]; exact beq_self_eq_true n
      have h2 : (key a == n) = true := by rw [h]; exact beq_self_eq_true n
      rw [List.map_cons, List.lookup_cons, h1, List.find?_cons, h2]
      rfl
    · have h1 : (n == key a) = false := by
        cases hb : n == key a with
        | false => rfl
        | true => exact absurd (eq_of_beq hb).symm h
      have h2 : (key a == n) = false := by
        cases hb : key a == n with
        | false => rfl
        | true => exact absurd (eq_of_beq hb) h
      rw [List.map_cons, List.lookup_cons, h1, List.find?_cons, h2]
      exact ih

theorem filterMap_congr' {α β} (l : List α) (f g : α → Option β) (h : ∀ x ∈ l, f x = g x) : l.filterMap f = l.filterMap g := by
  induction l with
  | nil => rfl
  | cons a as ih =>
    simp only [List.filterMap_cons, h a (by simp), ih (fun x hx => h x (by simp [hx]))]

theorem nodup_of_map {α β} (g : α → β) (l : List α) (h : (l.map g).Nodup) : l.Nodup := by
  induction l with
  | nil => exact List.nodup_nil
  | cons a as ih =>
    rw [List.map_cons] at h
    have hn := List.nodup_cons.mp h
    exact List.nodup_cons.mpr ⟨fun hm => hn.1 (List.mem_map.mpr ⟨a, hm, rfl⟩), ih hn.2⟩

theorem joinNl_append (a b : List Str) (ha : a ≠ []) (hb : b ≠ []) :
    Model.Debcon.joinNl (a ++ b) = Model.Debcon.joinNl a ++ '\n' :: Model.Debcon.joinNl b := by
  induction a with
  | nil => exact absurd rfl ha
  | cons x xs ih =>
    cases xs with
    | nil =>
      cases b with
      | nil => exact absurd rfl hb
      | cons r rs => rfl
    | cons y ys =>
      have := ih (by simp)
      rw [show Model.Debcon.joinNl (x :: y :: ys) = x ++ '\n' :: Model.Debcon.joinNl (y :: ys) from rfl,
        show (x :: y :: ys) ++ b = x :: ((y :: ys) ++ b) from rfl]
      rw [show Model.Debcon.joinNl (x :: ((y :: ys) ++ b)) = x ++ '\n' :: Model.Debcon.joinNl ((y :: ys) ++ b) from rfl, this]
      simp

theorem joinNl_flatMap {α} (gs : List α) (fl : α → List Str) (h : ∀ g ∈ gs, fl g ≠ []) :
    Model.Debcon.joinNl (gs.map fun g => Model.Debcon.joinNl (fl g)) = Model.Debcon.joinNl (gs.flatMap fl) := by
  induction gs with
  | nil => rfl
  | cons g gs ih =>
    have ihh := ih (fun x hx => h x (by simp [hx]))
    cases gs with
    | nil => simp [Model.Debcon.joinNl]
    | cons g2 gs2 =>
      have e1 : Model.Debcon.joinNl ((g :: g2 :: gs2).map fun g => Model.Debcon.joinNl (fl g)) =
          Model.Debcon.joinNl (fl g) ++ '\n' :: Model.Debcon.joinNl ((g2 :: gs2).map fun g => Model.Debcon.joinNl (fl g)) := rfl
      have hne2 : (g2 :: gs2).flatMap fl ≠ [] := by
        simp only [List.flatMap_cons]
        intro e
        exact h g2 (by simp) (List.append_eq_nil_iff.mp e).1
      rw [e1, ihh]
      rw [show (g :: g2 :: gs2).flatMap fl = fl g ++ (g2 :: gs2).flatMap fl from List.flatMap_cons, joinNl_append _ _ (h g (by simp)) hne2]

/-! ### the canonical paragraph -/

def non5 (p : Dep5.Para) : List Field := p.filter (·.kind != 5)
def is5 (p : Dep5.Para) : List Field := p.filter (·.kind == 5)

def pick (p : Dep5.Para) (n : Str) : Option Field := (non5 p).find? fun f => fieldKey f == n

/-- the fields in the order they are rendered: typed fields in class order, then the unknown fields -/
def src (K : Kind) (p : Dep5.Para) : List Field := ((typedFields K).filterMap fun nc => pick p nc.1) ++ is5 p

def canonPara (K : Kind) (p : Dep5.Para) : Dep5.Para := (src K p).map canonField

def noMultiExtra (p : Dep5.Para) : Prop := ∀ f ∈ p, f.kind = 5 → f.conts = []

theorem fields_ok (p : Dep5.Para) (hp : paraOk p = true) : ∀ f ∈ p, fieldOk f = true := by
  simp only [paraOk, Bool.and_eq_true, List.all_eq_true] at hp
  exact hp.1.1.2

theorem absent_dumps : ∀ K ∈ [Kind.header, Kind.files, Kind.license], ∀ nc ∈ typedFields K,
    dumps (fromValue nc.2 none) = [] := by decide +kernel

theorem pick_some (p : Dep5.Para) (K : Kind) (hp : paraOk p = true) (hK : paraKind p = some K) (hKne : K ≠ .catchall)
    (nc : Str × String) (hnc : nc ∈ typedFields K) (f : Field) (h : pick p nc.1 = some f) :
    f ∈ p ∧ f.kind ≠ 5 ∧ fieldKey f = nc.1 ∧ fromValue nc.2 (some (lstrip (rawVal f))) = expectedFV f := by
  unfold pick at h
  have hmem := List.mem_of_find?_eq_some h
  have hpred := List.find?_some h
  have hkey : fieldKey f = nc.1 := eq_of_beq hpred
  obtain ⟨hfp, hk5⟩ := List.mem_filter.mp hmem
  have h5 : f.kind ≠ 5 := by simpa using hk5
  refine ⟨hfp, h5, hkey, ?_⟩
  have hal := known_allowed p K hp hK f hfp h5
  have htab := (allowed_table K (kind_mem K hKne) _ hal).1
  have hlk := lookup_mem_nodup (typedFields K) (typed_nodup K (kind_mem K hKne)) nc hnc
  have hkk : replaceChar '-' '_' (normLabel f.label) = nc.1 := hkey
  simp only [] at htab
  rw [hkk, hlk] at htab
  have : nc.2 = clsOf f.kind := by simpa using htab
  rw [this]
  exact typed_value f (fields_ok p hp f hfp) h5

theorem splitlines_one (s : Str) (h : NoB s) (hne : s ≠ []) : splitlines s = [s] := splitlinesAux_single s h hne

theorem asFormattedText_line (s : Str) (hpl : plain s = true) (hne : s ≠ []) (htr : trimmed s = true) :
    asFormattedText s = s := by
  have hie : s.isEmpty = false := by cases s <;> simp_all
  simp only [asFormattedText, hie, Bool.false_eq_true, if_false, asFormattedLines, splitlines_one s (plain_noB _ hpl) hne,
    List.map_cons, List.map_nil, joinNlSp, encLine, nonblank_trimmed s hne htr]

theorem extra_parts (f : Field) (hk : f.kind = 5) (h : fieldOk f = true) :
    f.first ≠ [] ∧ plain f.first = true ∧ trimmed f.first = true := by
  simp only [fieldOk, hk, Bool.and_eq_true, Bool.not_eq_true', List.isEmpty_eq_false_iff] at h
  exact ⟨h.2.1, h.1.1.2, h.1.2⟩

/-- the dictionary form of a paragraph object built from a paragraph of the grammar -/
theorem toDict_eq (p : Dep5.Para) (K : Kind) (hp : paraOk p = true) (hK : paraKind p = some K) (hKne : K ≠ .catchall)
    (hx : noMultiExtra p) (q : Model.Copyright.Para)
    (hqf : q.fields = (paraOf p K).fields) (hqe : q.extra = (paraOf p K).extra) :
    toDict q = ((typedFields K).map fun nc => (nc.1, XV.s (match pick p nc.1 with
                  | some f => rawVal (canonField f)
                  | none => []))) ++
               (is5 p).map fun f => (fieldKey f, XV.s f.first) := by
  have hfo := fields_ok p hp
  unfold toDict
  rw [hqf, hqe]
  simp only [paraOf, List.map_map]
  -- the extra data are appended
  have hfold := fold_lset_fresh (is5 p) fieldKey (fun f => XV.s f.first)
    ((typedFields K).map ((fun nf => (nf.1, XV.s (dumps nf.2))) ∘ fun nc => (nc.1, fromValue nc.2
        (((p.filter (·.kind != 5)).map fun f => (fieldKey f, lstrip (rawVal f))).lookup nc.1))))
    (by
      have := keys_nodup p hp
      exact List.Nodup.sublist (List.Sublist.map _ List.filter_sublist) this)
    (by
      intro f hf
      obtain ⟨hfp, hk5⟩ := List.mem_filter.mp hf
      have hk : f.kind = 5 := by simpa using hk5
      have := extra_not_known K hKne f (hfo f hfp) hk
      intro hm
      simp only [List.map_map, Function.comp_def] at hm
      have hc : ((typedFields K).map (·.1)).contains (fieldKey f) = true := List.contains_iff_mem.mpr hm
      rw [this] at hc; cases hc)
  have hfoldl : ∀ d : List (Str × DV),
      ((is5 p).map fun f => (fieldKey f, XV.s (expectedExtra f))).foldl (fun d nv =>
        lset d nv.1 (extraOut nv.2)) d =
      (is5 p).foldl (fun d f => lset d (fieldKey f) (XV.s f.first)) d := by
    intro d
    rw [List.foldl_map]
    have : ∀ (l : List Field) (d : List (Str × DV)), (∀ f ∈ l, f ∈ is5 p) →
        l.foldl (fun d f => lset d (fieldKey f) (extraOut (XV.s (expectedExtra f)))) d = l.foldl (fun d f => lset d (fieldKey f) (XV.s f.first)) d := by
      intro l
      induction l with
      | nil => intro d _; rfl
      | cons f fs ih =>
        intro d hl
        simp only [List.foldl_cons]
        obtain ⟨hfp, hk5⟩ := List.mem_filter.mp (hl f (by simp))
        have hk : f.kind = 5 := by simpa using hk5
        obtain ⟨hne, hpl, htr⟩ := extra_parts f hk (hfo f hfp)
        have hee : expectedExtra f = f.first := by simp [expectedExtra, hx f hfp hk, Dep5.joinNl]
        have hie : f.first.isEmpty = false := by cases hff : f.first <;> simp_all
        rw [hee]
        simp only [extraOut, hie, Bool.false_eq_true, if_false, asFormattedText_line f.first hpl hne htr]
        exact ih _ (fun g hg => hl g (by simp [hg]))
    exact this _ d (fun f hf => hf)
  show ((p.filter (·.kind == 5)).map fun f => (fieldKey f, XV.s (expectedExtra f))).foldl _ _ = _
  rw [show p.filter (·.kind == 5) = is5 p from rfl, hfoldl, hfold]
  congr 1
  apply List.map_congr_left
  intro nc hnc
  simp only [Function.comp]
  congr 2
  rw [show p.filter (·.kind != 5) = non5 p from rfl, lookup_map_find (non5 p) fieldKey (fun f => lstrip (rawVal f)) nc.1]
  show dumps (fromValue nc.2 ((pick p nc.1).map fun f => lstrip (rawVal f))) = _
  cases hpk : pick p nc.1 with
  | none => exact absent_dumps K (kind_mem K hKne) nc hnc
  | some f =>
    obtain ⟨hfp, h5, _, htv⟩ := pick_some p K hp hK hKne nc hnc f hpk
    simp only [Option.map_some, htv]
    exact dumps_eq f (hfo f hfp) h5

/-! ### the lines of a field of the grammar -/

theorem fieldLines_facts (f : Field) (h : fieldOk f = true) :
    ∀ l ∈ fieldLines f, l ≠ [] ∧ lastP isSpace l = false := by
  have hconts := Props.C09D.conts_ok f h
  have hlab : f.label ≠ [] := by
    simp only [fieldOk, labelOk, Bool.and_eq_true] at h
    intro e
    have := h.1.1.1.1.1
    rw [e] at this
    simp [headP] at this
  have htr : trimmed f.first = true := by
    simp only [fieldOk, Bool.and_eq_true] at h; exact h.1.2
  simp only [trimmed, Bool.and_eq_true, Bool.not_eq_true'] at htr
  intro l hl
  unfold fieldLines at hl
  rcases List.mem_cons.mp hl with rfl | hl
  · refine ⟨by simp [hlab], ?_⟩
    by_cases he : f.first.isEmpty = true
    · simp only [he, if_true]
      rw [lastP_append_ne _ _ _ (by simp)]
      decide
    · simp only [he, Bool.false_eq_true, if_false]
      have hne : f.first ≠ [] := by intro e; rw [e] at he; simp at he
      rw [lastP_append_ne _ _ _ (by simp), lastP_cons_ne_nil _ _ _ (by simp), lastP_cons_ne_nil _ _ _ hne]
      exact htr.2
  · obtain ⟨t, ht, rfl⟩ := List.mem_map.mp hl
    have hok : Props.C06.lineOk (rawLine t) = true ∧ isCont (rawLine t) = true := by
      rcases hconts t ht with h1 | h1
      · exact Props.C09D.rawLine_ok t h1
      · exact Props.C09D.item_rawLine_ok t h1
    constructor
    · intro e
      have := hok.2
      rw [e] at this
      simp [isCont, headP] at this
    · have := hok.1
      simp only [Props.C06.lineOk, Bool.and_eq_true, Bool.not_eq_true'] at this
      exact this.2

theorem fieldLines_ne (f : Field) : fieldLines f ≠ [] := by simp [fieldLines]

theorem joinNl_fieldLines (g : Field) (hne : g.first ≠ []) :
    Model.Debcon.joinNl (fieldLines g) = g.label ++ ':' :: ' ' :: rawVal g := by
  have hie : g.first.isEmpty = false := by cases hg : g.first <;> simp_all
  unfold fieldLines rawVal
  simp only [hie, Bool.false_eq_true, if_false]
  cases g.conts.map rawLine with
  | nil => simp [Model.Debcon.joinNl]
  | cons a as => simp [Model.Debcon.joinNl]

theorem rawVal_head (g : Field) (h : fieldOk g = true) (hne : g.first ≠ []) : headP isSpace (rawVal g) = false := by
  unfold rawVal
  rw [headP_joinNl _ _ _ hne]
  simp only [fieldOk, Bool.and_eq_true, trimmed, Bool.not_eq_true'] at h
  exact h.1.2.1

theorem key_ascii (f : Field) (h : fieldOk f = true) : isAsciiStr (fieldKey f) = true := by
  have hs := canon_label_shape f (by simp only [fieldOk, Bool.and_eq_true] at h; exact h.1.1.1)
  -- the normalised label is the lower-cased canonical label: same character classes
  have hP : ∀ c, (fun c => isAsciiAlnum c || c == '-') (lowerAsciiChar c) = (fun c => isAsciiAlnum c || c == '-') c := by
    intro c
    simp only [(class_facts c).2, (Props.C19.case_facts c).2.2.2.2.1]
  have hn : (normLabel f.label).all (fun c => isAsciiAlnum c || c == '-') = true := by
    rw [← lower_canonLabel f, all_lower _ hP]; exact hs.2
  unfold fieldKey isAsciiStr replaceChar
  simp only [List.all_eq_true, List.mem_map, decide_eq_true_eq] at hn ⊢
  rintro c ⟨d, hd, rfl⟩
  have := Props.C06H.alnum_range (hn d hd)
  simp only [Bool.and_eq_true, decide_eq_true_eq] at this
  by_cases e : d = '-'
  · simp [e]
  · simp only [e, if_false]; omega

/-! ### rendering the paragraph object -/

theorem src_mem (p : Dep5.Para) (K : Kind) (hp : paraOk p = true) (hK : paraKind p = some K) (hKne : K ≠ .catchall) :
    ∀ f ∈ src K p, f ∈ p := by
  intro f hf
  unfold src at hf
  rcases List.mem_append.mp hf with h | h
  · obtain ⟨nc, hnc, hpk⟩ := List.mem_filterMap.mp h
    exact (pick_some p K hp hK hKne nc hnc f hpk).1
  · exact (List.mem_filter.mp h).1

theorem extra_rawVal (f : Field) (hk : f.kind = 5) (hc : f.conts = []) : rawVal (canonField f) = f.first := by
  simp [canonField, hk, rawVal, hc, Model.Debcon.joinNl]

def entryOf (f : Field) : Str × Str := (fieldKey f, rawVal (canonField f))

theorem canon_value_facts (f : Field) (h : fieldOk f = true) :
    (rawVal (canonField f)).isEmpty = false ∧ isBlank (rawVal (canonField f)) = false ∧
    startsWith (rawVal (canonField f)) [' '] = false := by
  have hok := canon_fieldOk f h
  have hne := canon_first_ne f h
  have hhead := rawVal_head _ hok hne
  have hie := rawVal_ne _ hok
  refine ⟨hie, ?_, ?_⟩
  · apply isBlank_of_head hhead
    intro e; rw [e] at hie; simp at hie
  · cases hr : rawVal (canonField f) with
    | nil => rfl
    | cons c cs =>
      rw [hr] at hhead
      have : c ≠ ' ' := by intro e; subst e; simp [headP] at hhead; revert hhead; decide
      simp [startsWith, this]

theorem entries_eq (p : Dep5.Para) (K : Kind) (hp : paraOk p = true) (hK : paraKind p = some K) (hKne : K ≠ .catchall)
    (hx : noMultiExtra p) (q : Model.Copyright.Para)
    (hqf : q.fields = (paraOf p K).fields) (hqe : q.extra = (paraOf p K).extra) :
    (toDict q).filterMap dumpedEntry = (src K p).map entryOf := by
  have hfo := fields_ok p hp
  rw [toDict_eq p K hp hK hKne hx q hqf hqe, List.filterMap_append]
  unfold src
  rw [List.map_append]
  congr 1
  · rw [List.filterMap_map, List.map_filterMap]
    apply filterMap_congr'
    intro nc hnc
    simp only [Function.comp]
    cases hpk : pick p nc.1 with
    | none => simp [dumpedEntry]
    | some f =>
      obtain ⟨hfp, h5, hkey, _⟩ := pick_some p K hp hK hKne nc hnc f hpk
      obtain ⟨h1, h2, _⟩ := canon_value_facts f (hfo f hfp)
      simp [dumpedEntry, h1, h2, entryOf, hkey]
  · rw [List.filterMap_map]
    have : ∀ l : List Field, (∀ f ∈ l, f ∈ is5 p) →
        l.filterMap (dumpedEntry ∘ fun f => (fieldKey f, XV.s f.first)) = l.map entryOf := by
      intro l
      induction l with
      | nil => intro _; rfl
      | cons f fs ih =>
        intro hl
        obtain ⟨hfp, hk5⟩ := List.mem_filter.mp (hl f (by simp))
        have hk : f.kind = 5 := by simpa using hk5
        obtain ⟨h1, h2, _⟩ := canon_value_facts f (hfo f hfp)
        have hr := extra_rawVal f hk (hx f hfp hk)
        rw [hr] at h1 h2
        simp only [List.filterMap_cons, Function.comp, dumpedEntry, h1, h2, Bool.not_false, Bool.and_self, if_true, List.map_cons]
        rw [ih (fun g hg => hl g (by simp [hg]))]
        simp [entryOf, hr]
    exact this _ (fun f hf => hf)

theorem entry_line (f : Field) (h : fieldOk f = true) :
    Model.Control.normalizeName (replaceChar '_' '-' (entryOf f).1) ++ ':' :: ' ' ::
      (if startsWith (entryOf f).2 [' '] then (entryOf f).2.tail else (entryOf f).2) =
    Model.Debcon.joinNl (fieldLines (canonField f)) := by
  obtain ⟨_, _, h3⟩ := canon_value_facts f h
  rw [joinNl_fieldLines _ (canon_first_ne f h), canon_label]
  simp only [entryOf, h3, Bool.false_eq_true, if_false]
  unfold fieldKey canonLabel
  rw [replace_inverse _ (label_no_us f h)]

theorem src_ne (p : Dep5.Para) (K : Kind) (hp : paraOk p = true) (hK : paraKind p = some K) (hKne : K ≠ .catchall) :
    src K p ≠ [] := by
  -- the field that gives the paragraph its class is a typed field
  have hne : p ≠ [] := by
    simp only [paraOk, Bool.and_eq_true, Bool.not_eq_true', List.isEmpty_eq_false_iff] at hp
    exact hp.1.1.1
  obtain ⟨f, hfp⟩ : ∃ f, f ∈ p := by
    cases hp0 : p with
    | nil => exact absurd hp0 hne
    | cons f fs => exact ⟨f, by simp⟩
  (
    by_cases h5 : f.kind = 5
    · intro e
      have : f ∈ src K p := by
        unfold src
        exact List.mem_append.mpr (Or.inr (List.mem_filter.mpr ⟨hfp, by simp [h5]⟩))
      rw [e] at this; cases this
    · -- its key is a typed name, and `pick` finds a field with that key
      have hki := known_iff p K hp hK hKne f hfp
      have hk : (f.kind != 5) = true := by simpa using h5
      rw [hk] at hki
      obtain ⟨nc, hnc, hnk⟩ : ∃ nc ∈ typedFields K, nc.1 = fieldKey f := by
        have := List.contains_iff_mem.mp hki
        obtain ⟨nc, hnc, e⟩ := List.mem_map.mp this
        exact ⟨nc, hnc, e⟩
      have hfind : ∃ g, pick p nc.1 = some g := by
        unfold pick
        cases hf : (non5 p).find? fun g => fieldKey g == nc.1 with
        | some g => exact ⟨g, rfl⟩
        | none =>
          have := List.find?_eq_none.mp hf f (List.mem_filter.mpr ⟨hfp, hk⟩)
          rw [hnk] at this
          simp at this
      obtain ⟨g, hg⟩ := hfind
      intro e
      have : g ∈ src K p := by
        unfold src
        exact List.mem_append.mpr (Or.inl (List.mem_filterMap.mpr ⟨nc, hnc, hg⟩))
      rw [e] at this; cases this
  )

theorem renderPara_canon (K : Kind) (p : Dep5.Para) :
    renderPara (canonPara K p) = Model.Debcon.joinNl ((src K p).map fun f => Model.Debcon.joinNl (fieldLines (canonField f))) := by
  unfold renderPara canonPara
  rw [joinNl_eq, List.flatMap_map]
  exact (joinNl_flatMap (src K p) (fun f => fieldLines (canonField f)) (fun g _ => fieldLines_ne _)).symm

/-- a rendered paragraph of the grammar has no white space at either end -/
theorem strip_renderPara (P : Dep5.Para) (hne : P ≠ []) (hok : ∀ f ∈ P, fieldOk f = true) :
    strip (renderPara P) = renderPara P := by
  unfold renderPara
  rw [joinNl_eq]
  cases hP : P with
  | nil => exact absurd hP hne
  | cons f fs =>
    have hfl : (f :: fs).flatMap fieldLines = (f.label ++ (if f.first.isEmpty then [':'] else ':' :: ' ' :: f.first)) ::
        (f.conts.map rawLine ++ fs.flatMap fieldLines) := by
      simp [List.flatMap_cons, fieldLines]
    rw [hfl]
    have hfo := hok f (by rw [hP]; simp)
    have hlab : headP isAsciiAlpha f.label = true := by
      simp only [fieldOk, labelOk, Bool.and_eq_true] at hfo
      exact hfo.1.1.1.1.1
    obtain ⟨c, cs, hc⟩ : ∃ c cs, f.label = c :: cs := by
      cases hl : f.label with
      | nil => rw [hl] at hlab; simp [headP] at hlab
      | cons c cs => exact ⟨c, cs, rfl⟩
    apply strip_joinNl
    · rw [hc]; simp
    · rw [hc]
      simp only [List.cons_append, headP]
      rw [hc] at hlab
      simp only [headP] at hlab
      cases hs : isSpace c with
      | false => rfl
      | true =>
        exfalso
        have hal : (isAsciiAlnum c || c == '-') = true := by
          simp only [isAsciiAlpha] at hlab
          simp [isAsciiAlnum, Char.isAlphanum, hlab]
        have := Props.C06.nameCh_not_space (c := c) (by simpa [Props.C06.nameCh] using hal)
        rw [this] at hs; cases hs
    · intro l hl
      rw [← hfl, ← hP] at hl
      have hm := List.mem_of_getLast? hl
      obtain ⟨g, hg, hlg⟩ := List.mem_flatMap.mp hm
      exact fieldLines_facts g (hok g hg) l hlg

theorem baseDumps_eq (p : Dep5.Para) (K : Kind) (hp : paraOk p = true) (hK : paraKind p = some K) (hKne : K ≠ .catchall)
    (hx : noMultiExtra p) (q : Model.Copyright.Para)
    (hqf : q.fields = (paraOf p K).fields) (hqe : q.extra = (paraOf p K).extra) :
    baseDumps q = .ok (renderPara (canonPara K p)) := by
  have hfo := fields_ok p hp
  have hsrc := src_mem p K hp hK hKne
  unfold baseDumps
  simp only [entries_eq p K hp hK hKne hx q hqf hqe]
  have hascii : ((src K p).map entryOf).any (fun kv => !isAsciiStr kv.1) = false := by
    rw [List.any_eq_false]
    intro kv hkv
    obtain ⟨f, hf, rfl⟩ := List.mem_map.mp hkv
    simp [entryOf, key_ascii f (hfo f (hsrc f hf))]
  rw [hascii]
  simp only [Bool.false_eq_true, if_false, List.map_map]
  have hmap : (src K p).map ((fun kv : Str × Str => Model.Control.normalizeName (replaceChar '_' '-' kv.1) ++ ':' :: ' ' ::
      (if startsWith kv.2 [' '] then kv.2.tail else kv.2)) ∘ entryOf) =
      (src K p).map fun f => Model.Debcon.joinNl (fieldLines (canonField f)) := by
    apply List.map_congr_left
    intro f hf
    exact entry_line f (hfo f (hsrc f hf))
  rw [hmap, ← renderPara_canon]
  congr 1
  apply strip_renderPara
  · unfold canonPara
    intro e
    exact src_ne p K hp hK hKne (List.map_eq_nil_iff.mp e)
  · intro g hg
    unfold canonPara at hg
    obtain ⟨f, hf, rfl⟩ := List.mem_map.mp hg
    exact canon_fieldOk f (hfo f (hsrc f hf))

/-- a files or stand-alone license paragraph has a license with a name -/
theorem license_name (p : Dep5.Para) (K : Kind) (hp : paraOk p = true) (hK : paraKind p = some K)
    (hKfl : K = .files ∨ K = .license) (q : Model.Copyright.Para) (hqf : q.fields = (paraOf p K).fields) :
    (licenseOf q).1.isEmpty = false := by
  have hfo := fields_ok p hp
  have hlab : hasLabel p "license" = true := by
    rcases hKfl with rfl | rfl
    · have hp' := hp
      simp only [paraOk, Bool.and_eq_true, hK] at hp'
      exact hp'.2.1.2
    · unfold paraKind at hK
      by_cases h1 : hasLabel p "format" = true
      · simp [h1] at hK
      · simp only [h1] at hK
        by_cases h2 : hasLabel p "files" = true
        · simp [h2] at hK
        · simp only [h2] at hK
          by_cases h3 : hasLabel p "license" = true
          · exact h3
          · simp [h3] at hK
  obtain ⟨fl, hfll, hll⟩ := has_field p "license" hlab
  have kl : fl.kind = 3 := by
    rcases cand_of fl (hfo fl hfll) with hk | hc
    · have := kind5_free fl (hfo fl hfll) hk
      rw [hll] at this; exact absurd this (by decide)
    · exact (cand_kinds _ hc).2.2 hll
  have ll := field_lookup p K hp hK fl hfll (by omega)
  rw [key_of_label fl _ hll] at ll
  have e3 : replaceChar '-' '_' "license".toList = "license".toList := by decide
  rw [e3] at ll
  have hne3 : fl.first.isEmpty = false := by
    have := hfo fl hfll
    simp only [fieldOk, kl, Bool.and_eq_true, Bool.not_eq_true'] at this
    exact this.2.1
  simp only [licenseOf, getField, hqf, ll, expectedFV, kl, hne3]

theorem paraDumps_eq (p : Dep5.Para) (K : Kind) (hp : paraOk p = true) (hK : paraKind p = some K) (hKne : K ≠ .catchall)
    (hx : noMultiExtra p) (q : Model.Copyright.Para) (hqk : q.kind = K)
    (hqf : q.fields = (paraOf p K).fields) (hqe : q.extra = (paraOf p K).extra) :
    paraDumps q = .ok (renderPara (canonPara K p)) := by
  have hb := baseDumps_eq p K hp hK hKne hx q hqf hqe
  unfold paraDumps
  rw [hqk]
  cases K with
  | header => exact hb
  | files =>
    have := license_name p .files hp hK (Or.inl rfl) q hqf
    simp only [filesParaIsEmpty, this, Bool.and_false, Bool.false_and, Bool.false_eq_true, if_false]
    exact hb
  | license =>
    have := license_name p .license hp hK (Or.inr rfl) q hqf
    simp only [licenseParaIsEmpty, this, Bool.and_false, Bool.false_and, Bool.false_eq_true, if_false]
    exact hb
  | catchall => exact absurd rfl hKne

/-! ### the canonical paragraph is a paragraph of the grammar, of the same class, spelling the same values -/

theorem ddk_fresh (ns acc : List Str) (hnd : ns.Nodup) (hdis : ∀ n ∈ ns, n ∉ acc) : ddk acc ns = acc ++ ns := by
  induction ns generalizing acc with
  | nil => simp [ddk]
  | cons n ns ih =>
    have hn := List.nodup_cons.mp hnd
    have hc : acc.contains n = false := by
      cases h : acc.contains n with
      | false => rfl
      | true => exact absurd (List.contains_iff_mem.mp h) (hdis n (by simp))
    simp only [ddk, List.foldl_cons, hc, Bool.false_eq_true, if_false]
    have := ih (acc ++ [n]) hn.2 (by
      intro x hx hm
      rcases List.mem_append.mp hm with h | h
      · exact hdis x (by simp [hx]) h
      · have : x = n := by simpa using h
        subst this
        exact hn.1 hx)
    simp only [ddk] at this
    rw [this]; simp

theorem distinct_of_nodup (P : Dep5.Para) (h : (P.map fun f => normLabel f.label).Nodup) : distinct P = true := by
  unfold distinct
  have := ddk_fresh (P.map fun f => normLabel f.label) [] h (by simp)
  simp only [ddk, List.nil_append] at this
  simp only [this, beq_self_eq_true]

theorem key_inj (p : Dep5.Para) (hp : paraOk p = true) (f g : Field) (hf : f ∈ p) (hg : g ∈ p) (h : fieldKey f = fieldKey g) :
    f = g := by
  have hnd := keys_nodup p hp
  -- two members of a list with distinct keys
  have : ∀ (l : List Field), (l.map fieldKey).Nodup → f ∈ l → g ∈ l → f = g := by
    intro l
    induction l with
    | nil => intro _ hf; cases hf
    | cons a as ih =>
      intro hnd hf hg
      rw [List.map_cons] at hnd
      have hn := List.nodup_cons.mp hnd
      rcases List.mem_cons.mp hf with rfl | hf' <;> rcases List.mem_cons.mp hg with rfl | hg'
      · rfl
      · exact absurd (List.mem_map.mpr ⟨g, hg', h.symm⟩) hn.1
      · exact absurd (List.mem_map.mpr ⟨f, hf', h⟩) hn.1
      · exact ih hn.2 hf' hg'
  exact this p hnd hf hg

/-- every field of the paragraph is rendered -/
theorem src_complete (p : Dep5.Para) (K : Kind) (hp : paraOk p = true) (hK : paraKind p = some K) (hKne : K ≠ .catchall) :
    ∀ f ∈ p, f ∈ src K p := by
  intro f hfp
  unfold src
  by_cases h5 : f.kind = 5
  · exact List.mem_append.mpr (Or.inr (List.mem_filter.mpr ⟨hfp, by simp [h5]⟩))
  · have hki := known_iff p K hp hK hKne f hfp
    have hk : (f.kind != 5) = true := by simpa using h5
    rw [hk] at hki
    obtain ⟨nc, hnc, hnk⟩ : ∃ nc ∈ typedFields K, nc.1 = fieldKey f := by
      have := List.contains_iff_mem.mp hki
      obtain ⟨nc, hnc, e⟩ := List.mem_map.mp this
      exact ⟨nc, hnc, e⟩
    have hfind : ∃ g, pick p nc.1 = some g := by
      unfold pick
      cases hf : (non5 p).find? fun g => fieldKey g == nc.1 with
      | some g => exact ⟨g, rfl⟩
      | none =>
        have := List.find?_eq_none.mp hf f (List.mem_filter.mpr ⟨hfp, hk⟩)
        rw [hnk] at this
        simp at this
    obtain ⟨g, hg⟩ := hfind
    obtain ⟨hgp, _, hgk, _⟩ := pick_some p K hp hK hKne nc hnc g hg
    have : g = f := key_inj p hp g f hgp hfp (by rw [hgk, hnk])
    subst this
    exact List.mem_append.mpr (Or.inl (List.mem_filterMap.mpr ⟨nc, hnc, hg⟩))

theorem fieldKey_canon (f : Field) : fieldKey (canonField f) = fieldKey f := by
  unfold fieldKey
  rw [canon_label, normLabel_canon]

theorem src_keys_nodup (p : Dep5.Para) (K : Kind) (hp : paraOk p = true) (hK : paraKind p = some K) (hKne : K ≠ .catchall) :
    ((src K p).map fieldKey).Nodup := by
  have hfo := fields_ok p hp
  unfold src
  rw [List.map_append, List.nodup_append]
  refine ⟨?_, ?_, ?_⟩
  · -- picked fields carry the (distinct) typed names they were picked for
    have hnd := typed_nodup K (kind_mem K hKne)
    have : ∀ (tf : List (Str × String)), (∀ nc ∈ tf, nc ∈ typedFields K) → (tf.map (·.1)).Nodup →
        ((tf.filterMap fun nc => pick p nc.1).map fieldKey).Nodup ∧
        ∀ k ∈ (tf.filterMap fun nc => pick p nc.1).map fieldKey, k ∈ tf.map (·.1) := by
      intro tf
      induction tf with
      | nil => intro _ _; exact ⟨List.nodup_nil, by simp⟩
      | cons nc rest ih =>
        intro hsub hnd
        rw [List.map_cons] at hnd
        have hn := List.nodup_cons.mp hnd
        obtain ⟨ih1, ih2⟩ := ih (fun x hx => hsub x (by simp [hx])) hn.2
        cases hpk : pick p nc.1 with
        | none =>
          simp only [List.filterMap_cons, hpk]
          exact ⟨ih1, fun k hk => by simp [ih2 k hk]⟩
        | some g =>
          obtain ⟨_, _, hgk, _⟩ := pick_some p K hp hK hKne nc (hsub nc (by simp)) g hpk
          simp only [List.filterMap_cons, hpk, List.map_cons]
          refine ⟨List.nodup_cons.mpr ⟨?_, ih1⟩, ?_⟩
          · intro hm
            rw [hgk] at hm
            exact hn.1 (ih2 _ hm)
          · intro k hk
            rcases List.mem_cons.mp hk with rfl | hk
            · simp [hgk]
            · simp [ih2 k hk]
    exact (this (typedFields K) (fun _ h => h) hnd).1
  · exact List.Nodup.sublist (List.Sublist.map _ List.filter_sublist) (keys_nodup p hp)
  · intro a ha b hb hab
    subst hab
    obtain ⟨f, hf, rfl⟩ := List.mem_map.mp ha
    obtain ⟨nc, hnc, hpk⟩ := List.mem_filterMap.mp hf
    obtain ⟨_, _, hfk, _⟩ := pick_some p K hp hK hKne nc hnc f hpk
    obtain ⟨g, hg, hgk⟩ := List.mem_map.mp hb
    obtain ⟨hgp, hk5⟩ := List.mem_filter.mp hg
    have hk : g.kind = 5 := by simpa using hk5
    have := extra_not_known K hKne g (hfo g hgp) hk
    have hc : ((typedFields K).map (·.1)).contains (fieldKey g) = true := by
      apply List.contains_iff_mem.mpr
      rw [hgk, hfk]
      exact List.mem_map.mpr ⟨nc, hnc, rfl⟩
    rw [this] at hc; cases hc

theorem canon_mem (p : Dep5.Para) (K : Kind) (hp : paraOk p = true) (hK : paraKind p = some K) (hKne : K ≠ .catchall) :
    ∀ g ∈ canonPara K p, ∃ f ∈ p, g = canonField f := by
  intro g hg
  obtain ⟨f, hf, rfl⟩ := List.mem_map.mp hg
  exact ⟨f, src_mem p K hp hK hKne f hf, rfl⟩

theorem hasLabel_canon (p : Dep5.Para) (K : Kind) (hp : paraOk p = true) (hK : paraKind p = some K) (hKne : K ≠ .catchall)
    (s : String) : hasLabel (canonPara K p) s = hasLabel p s := by
  unfold hasLabel
  cases h1 : p.any fun f => normLabel f.label == s.toList with
  | true =>
    obtain ⟨f, hf, hl⟩ := List.any_eq_true.mp h1
    apply List.any_eq_true.mpr
    refine ⟨canonField f, List.mem_map.mpr ⟨f, src_complete p K hp hK hKne f hf, rfl⟩, ?_⟩
    rw [canon_label, normLabel_canon]; exact hl
  | false =>
    rw [List.any_eq_false] at h1 ⊢
    intro g hg
    obtain ⟨f, hf, rfl⟩ := canon_mem p K hp hK hKne g hg
    rw [canon_label, normLabel_canon]
    exact h1 f hf

theorem paraKind_canon (p : Dep5.Para) (K : Kind) (hp : paraOk p = true) (hK : paraKind p = some K) (hKne : K ≠ .catchall) :
    paraKind (canonPara K p) = some K := by
  rw [← hK]
  unfold paraKind
  simp only [hasLabel_canon p K hp hK hKne]

theorem paraOk_canon (p : Dep5.Para) (K : Kind) (hp : paraOk p = true) (hK : paraKind p = some K) (hKne : K ≠ .catchall) :
    paraOk (canonPara K p) = true := by
  have hfo := fields_ok p hp
  have hmem := canon_mem p K hp hK hKne
  have hkind := paraKind_canon p K hp hK hKne
  have hp' := hp
  simp only [paraOk, Bool.and_eq_true, hK] at hp'
  simp only [paraOk, Bool.and_eq_true, hkind]
  refine ⟨⟨⟨?_, ?_⟩, ?_⟩, ?_⟩
  · have := src_ne p K hp hK hKne
    unfold canonPara
    cases hs : src K p with
    | nil => exact absurd hs this
    | cons a as => rfl
  · rw [List.all_eq_true]
    intro g hg
    obtain ⟨f, hf, rfl⟩ := hmem g hg
    exact canon_fieldOk f (hfo f hf)
  · apply distinct_of_nodup
    have hnd := src_keys_nodup p K hp hK hKne
    unfold canonPara
    rw [List.map_map]
    have e : (src K p).map fieldKey = ((src K p).map ((fun f => normLabel f.label) ∘ canonField)).map (replaceChar '-' '_') := by
      rw [List.map_map]
      apply List.map_congr_left
      intro f _
      simp only [Function.comp, canon_label, normLabel_canon]
      rfl
    rw [e] at hnd
    exact nodup_of_map _ _ hnd
  · cases K with
    | header =>
      simp only [List.all_eq_true] at hp' ⊢
      intro g hg
      obtain ⟨f, hf, rfl⟩ := hmem g hg
      rw [canon_label, normLabel_canon]
      exact hp'.2 f hf
    | files =>
      simp only [Bool.and_eq_true, List.all_eq_true] at hp' ⊢
      refine ⟨⟨?_, ?_⟩, ?_⟩
      · rw [hasLabel_canon p _ hp hK hKne]; exact hp'.2.1.1
      · rw [hasLabel_canon p _ hp hK hKne]; exact hp'.2.1.2
      · intro g hg
        obtain ⟨f, hf, rfl⟩ := hmem g hg
        rw [canon_label, normLabel_canon, canon_kind]
        exact hp'.2.2 f hf
    | license =>
      simp only [List.all_eq_true] at hp' ⊢
      intro g hg
      obtain ⟨f, hf, rfl⟩ := hmem g hg
      rw [canon_label, normLabel_canon, canon_kind]
      exact hp'.2 f hf
    | catchall => exact absurd rfl hKne

theorem typed_at (p : Dep5.Para) (K : Kind) (hp : paraOk p = true) (hK : paraKind p = some K) (hKne : K ≠ .catchall)
    (nc : Str × String) (hnc : nc ∈ typedFields K) :
    fromValue nc.2 (((p.filter (·.kind != 5)).map fun f => (fieldKey f, lstrip (rawVal f))).lookup nc.1) =
      match pick p nc.1 with
      | some f => expectedFV f
      | none => fromValue nc.2 none := by
  rw [show p.filter (·.kind != 5) = non5 p from rfl, lookup_map_find (non5 p) fieldKey (fun f => lstrip (rawVal f)) nc.1]
  show fromValue nc.2 ((pick p nc.1).map fun f => lstrip (rawVal f)) = _
  cases hpk : pick p nc.1 with
  | none => rfl
  | some f =>
    obtain ⟨_, _, _, htv⟩ := pick_some p K hp hK hKne nc hnc f hpk
    simpa using htv

theorem pick_none (p : Dep5.Para) (n : Str) (h : pick p n = none) : ∀ f ∈ p, f.kind ≠ 5 → fieldKey f ≠ n := by
  intro f hf h5 e
  unfold pick at h
  have := List.find?_eq_none.mp h f (List.mem_filter.mpr ⟨hf, by simpa using h5⟩)
  simp [e] at this

theorem paraOf_canon (p : Dep5.Para) (K : Kind) (hp : paraOk p = true) (hK : paraKind p = some K) (hKne : K ≠ .catchall) :
    (paraOf (canonPara K p) K).fields = (paraOf p K).fields ∧ (paraOf (canonPara K p) K).extra = (paraOf p K).extra := by
  have hfo := fields_ok p hp
  have hP := paraOk_canon p K hp hK hKne
  have hKP := paraKind_canon p K hp hK hKne
  constructor
  · simp only [paraOf]
    apply List.map_congr_left
    intro nc hnc
    congr 1
    rw [typed_at _ K hP hKP hKne nc hnc, typed_at p K hp hK hKne nc hnc]
    cases hpk : pick p nc.1 with
    | some f =>
      obtain ⟨hfp, h5, hfk, _⟩ := pick_some p K hp hK hKne nc hnc f hpk
      have hcm : canonField f ∈ canonPara K p := List.mem_map.mpr ⟨f, src_complete p K hp hK hKne f hfp, rfl⟩
      cases hpP : pick (canonPara K p) nc.1 with
      | none =>
        exact absurd (by rw [fieldKey_canon, hfk]) (pick_none _ _ hpP (canonField f) hcm (by rw [canon_kind]; exact h5))
      | some g =>
        obtain ⟨hgP, _, hgk, _⟩ := pick_some _ K hP hKP hKne nc hnc g hpP
        have : g = canonField f := key_inj _ hP g (canonField f) hgP hcm (by rw [hgk, fieldKey_canon, hfk])
        subst this
        exact canon_expected f (hfo f hfp) h5
    | none =>
      cases hpP : pick (canonPara K p) nc.1 with
      | none => rfl
      | some g =>
        obtain ⟨hgP, hg5, hgk, _⟩ := pick_some _ K hP hKP hKne nc hnc g hpP
        obtain ⟨f, hf, rfl⟩ := canon_mem p K hp hK hKne g hgP
        rw [canon_kind] at hg5
        rw [fieldKey_canon] at hgk
        exact absurd hgk (pick_none p nc.1 hpk f hf hg5)
  · simp only [paraOf]
    -- the unknown fields of the canonical paragraph are the unknown fields, renamed
    have hfil : (canonPara K p).filter (·.kind == 5) = (is5 p).map canonField := by
      unfold canonPara src
      rw [List.map_append, List.filter_append]
      have h1 : (((typedFields K).filterMap fun nc => pick p nc.1).map canonField).filter (·.kind == 5) = [] := by
        rw [List.filter_eq_nil_iff]
        intro g hg
        obtain ⟨f, hf, rfl⟩ := List.mem_map.mp hg
        obtain ⟨nc, hnc, hpk⟩ := List.mem_filterMap.mp hf
        obtain ⟨_, h5, _, _⟩ := pick_some p K hp hK hKne nc hnc f hpk
        rw [canon_kind]; simpa using h5
      have h2 : ((is5 p).map canonField).filter (·.kind == 5) = (is5 p).map canonField := by
        rw [List.filter_eq_self]
        intro g hg
        obtain ⟨f, hf, rfl⟩ := List.mem_map.mp hg
        rw [canon_kind]
        exact (List.mem_filter.mp hf).2
      rw [h1, h2, List.nil_append]
    rw [hfil, List.map_map]
    apply List.map_congr_left
    intro f hf
    have hk : f.kind = 5 := by simpa using (List.mem_filter.mp hf).2
    have := canon_extra f hk
    simp only [Function.comp, fieldKey_canon, expectedExtra, this.1, this.2]

end Props.C13P
