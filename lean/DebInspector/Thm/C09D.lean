/-
C09 — the whole property on the model: the line-tracking parser on the text of a well-formed DEP-5 document returns
field groups that spell its paragraphs (`parse_spells`: the document is a deb822 document of the grammar of C06, whose
loop theorem `go_doc` applies; `licence` is respelled), and from there `Props.C09G.sound_from_groups`.
-/
import DebInspector.Thm.C06
import DebInspector.Thm.C09G
namespace Props.C09D
open Py Model.Deb822 Props.Dep5 Props.C09G

/-! ## from the text of a DEP-5 document to its tracked field groups -/

/-- a field of the DEP-5 grammar as a field of the deb822 grammar of C06 -/
def toField (f : Dep5.Field) : Props.C06.Field :=
  ⟨f.label, f.first, f.conts.map rawLine, if f.first.isEmpty then [] else [' ']⟩

def toParas : List Dep5.Para → List Nat → List Props.C06.Para
  | [], _ => []
  | p :: ps, seps => ⟨p.map toField, List.replicate (seps.headD 1 - 1) []⟩ :: toParas ps seps.tail

theorem joinNl_eq6 (ls : List Str) : Dep5.joinNl ls = Props.C06.joinNl ls := by
  induction ls with
  | nil => rfl
  | cons l ls ih =>
    cases ls with
    | nil => rfl
    | cons m ms => simp only [Dep5.joinNl, Props.C06.joinNl, ih]

theorem fieldLines_eq6 (f : Dep5.Field) : Dep5.fieldLines f = Props.C06.fieldLines (toField f) := by
  unfold Dep5.fieldLines Props.C06.fieldLines toField
  by_cases h : f.first.isEmpty = true
  · have : f.first = [] := List.isEmpty_iff.mp h
    simp [h, this]
  · simp [h]

theorem renderPara_eq6 (p : Dep5.Para) (sep : List Str) : Dep5.renderPara p = Props.C06.renderPara ⟨p.map toField, sep⟩ := by
  unfold Dep5.renderPara Props.C06.renderPara
  rw [joinNl_eq6]
  congr 1
  simp only [List.flatMap_map]
  induction p with
  | nil => rfl
  | cons f fs ih => simp only [List.flatMap_cons, ih, fieldLines_eq6]

theorem render_eq6 (paras : List Dep5.Para) (seps : List Nat) (hs : ∀ n ∈ seps, n ≥ 1) (hl : seps.length = paras.length) :
    Dep5.renderAux paras seps = Props.C06.render (toParas paras seps) true := by
  induction paras generalizing seps with
  | nil => rfl
  | cons p rest ih =>
    cases rest with
    | nil =>
      simp only [Dep5.renderAux, toParas, Props.C06.render, if_true]
      rw [renderPara_eq6]
    | cons q rest' =>
      cases seps with
      | nil => simp at hl
      | cons n ns =>
        have hn : n ≥ 1 := hs n (by simp)
        have := ih ns (fun m hm => hs m (by simp [hm])) (by simpa using hl)
        simp only [Dep5.renderAux, toParas, List.headD_cons, List.tail_cons, Props.C06.render] at this ⊢
        rw [this, renderPara_eq6 p (List.replicate (n - 1) [])]
        have hrep : (List.replicate (n - 1) ([] : Str)).flatMap (fun l => l ++ ['\n']) = List.replicate (n - 1) '\n' := by
          generalize n - 1 = k
          induction k with
          | zero => rfl
          | succ k ihk => simp [List.replicate_succ, ihk]
        rw [hrep]
        have : List.replicate n '\n' = '\n' :: List.replicate (n - 1) '\n' := by
          cases n with
          | zero => omega
          | succ k => simp [List.replicate_succ]
        rw [this]


/-! ### the facts the line-tracking loop needs, from the DEP-5 grammar -/

theorem conts_ok (f : Dep5.Field) (h : fieldOk f = true) : ∀ l ∈ f.conts, tlineOk l = true ∨ itemOk l = true := by
  intro l hl
  have h0 := h
  rcases kind_cases f h with hk | hk | hk | hk | hk | hk | hk <;>
    simp only [fieldOk, hk, Bool.and_eq_true, Bool.not_eq_true', List.all_eq_true, beq_iff_eq, Bool.or_eq_true,
      List.isEmpty_eq_false_iff] at h
  · have : f.conts = [] := List.isEmpty_iff.mp h.2.2
    rw [this] at hl; cases hl
  · exact Or.inr (h.2.2 l hl)
  · exact Or.inr (h.2.2 l hl)
  · have := h.2.2
    simp only [blockOk, Bool.and_eq_true, List.all_eq_true] at this
    exact Or.inl (this.1.1 l hl)
  · exact Or.inl (Props.C09.formatted_conts_ok f hk h0 l hl)
  · exact Or.inl (h.2.2 l hl).2
  · exact Or.inl (h.2.2 l hl).2

theorem plain_lineOk (s : Str) (hp : plain s = true) (hl : lastP isSpace s = false) : Props.C06.lineOk s = true := by
  have hb : ∀ c ∈ s, isBoundary c = false := fun c hc => by
    have := List.all_eq_true.mp hp c hc
    simp only [Bool.and_eq_true, Bool.not_eq_true'] at this
    exact this.1
  have hnl : s.contains '\n' = false := by
    cases hc : s.contains '\n' with
    | false => rfl
    | true => have := hb _ (List.contains_iff_mem.mp hc); revert this; decide
  have hcr : s.contains '\r' = false := by
    cases hc : s.contains '\r' with
    | false => rfl
    | true => have := hb _ (List.contains_iff_mem.mp hc); revert this; decide
  simp only [Props.C06.lineOk, hnl, hcr, hl, Bool.not_false, Bool.and_self]

theorem rawLine_ok (l : TLine) (h : tlineOk l = true) :
    Props.C06.lineOk (rawLine l) = true ∧ isCont (rawLine l) = true := by
  have hsp : isSpace ' ' = true := by decide
  have hspB : isBoundary ' ' = false := by decide
  unfold tlineOk at h
  match hk : l.kind with
  | 0 =>
    rw [hk] at h
    simp only [Bool.and_eq_true, Bool.not_eq_true', List.isEmpty_eq_false_iff] at h
    obtain ⟨⟨⟨hne, hpl⟩, htr⟩, _⟩ := h
    simp only [trimmed, Bool.and_eq_true, Bool.not_eq_true'] at htr
    have hraw : rawLine l = ' ' :: l.content := by simp [rawLine, hk]
    rw [hraw]
    obtain ⟨c, cs, hc⟩ : ∃ c cs, l.content = c :: cs := by
      cases hcc : l.content with
      | nil => exact absurd hcc hne
      | cons c cs => exact ⟨c, cs, rfl⟩
    have hcns : isSpace c = false := by rw [hc] at htr; simpa [headP] using htr.1
    constructor
    · apply plain_lineOk
      · simp only [plain, List.all_cons, Bool.and_eq_true] at hpl ⊢
        exact ⟨by decide, hpl⟩
      · rw [hc, lastP_cons_ne_nil _ _ _ (by simp)]
        rw [← hc]; exact htr.2
    · simp only [isCont, headP, Bool.and_eq_true, Bool.not_eq_true', decide_true, Bool.true_or, true_and]
      rw [hc]
      simp [isBlank, hcns]
  | 1 =>
    have hraw : rawLine l = [' ', '.'] := by simp [rawLine, hk]
    rw [hraw]
    exact ⟨by decide, by decide⟩
  | 2 =>
    rw [hk] at h
    simp only [Bool.and_eq_true, Bool.not_eq_true', List.isEmpty_eq_false_iff] at h
    obtain ⟨⟨hne, hpl⟩, hlast⟩ := h
    have hraw : rawLine l = ' ' :: ' ' :: l.content := by simp [rawLine, hk]
    rw [hraw]
    constructor
    · apply plain_lineOk
      · simp only [plain, List.all_cons, Bool.and_eq_true] at hpl ⊢
        exact ⟨by decide, by decide, hpl⟩
      · rw [lastP_cons_ne_nil _ _ _ (by simp), lastP_cons_ne_nil _ _ _ hne]
        exact hlast
    · simp only [isCont, headP, Bool.and_eq_true, Bool.not_eq_true', decide_true, Bool.true_or, true_and]
      -- the last character is not a white space: the line is not blank
      have hl : lastP (fun c => !isSpace c) l.content = true := Props.C06.lastP_false_of hne hlast
      obtain ⟨a, c, e, hc⟩ := lastP_mem hl
      cases hb : isBlank (' ' :: ' ' :: l.content) with
      | false => rfl
      | true =>
        have := List.all_eq_true.mp hb c (by rw [e]; simp)
        simp only [Bool.not_eq_true'] at hc
        rw [hc] at this; cases this
  | n + 3 => rw [hk] at h; simp at h

theorem item_rawLine_ok (l : TLine) (h : itemOk l = true) :
    Props.C06.lineOk (rawLine l) = true ∧ isCont (rawLine l) = true := by
  have hf := Props.C09.item_facts l h
  have hd := Props.C09.content_decomp l.content
  have hne : l.content ≠ [] := by
    intro e
    have : itemText l = [] := by unfold itemText; rw [e]; rfl
    exact hf.ss.ne this
  have hlast : lastP isSpace l.content = false := by
    have htr := hf.ss.tr
    simp only [trimmed, Bool.and_eq_true, Bool.not_eq_true'] at htr
    have e : itemText l = l.content.dropWhile (· == ' ') := rfl
    rw [hd, ← e]
    generalize (List.takeWhile (· == ' ') l.content).length = k
    induction k with
    | zero => simpa using htr.2
    | succ k ih =>
      rw [List.replicate_succ, List.cons_append, lastP_cons_ne_nil _ _ _ (by
        intro e2
        have := List.append_eq_nil_iff.mp e2
        exact hf.ss.ne this.2)]
      exact ih
  rw [hf.raw]
  constructor
  · apply plain_lineOk
    · have := hf.pl
      simp only [plain, List.all_cons, Bool.and_eq_true] at this ⊢
      exact ⟨by decide, this⟩
    · rw [lastP_cons_ne_nil _ _ _ hne]; exact hlast
  · simp only [isCont, headP, Bool.and_eq_true, Bool.not_eq_true', decide_true, Bool.true_or, true_and]
    have hl : lastP (fun c => !isSpace c) l.content = true := Props.C06.lastP_false_of hne hlast
    obtain ⟨a, c, e, hc⟩ := lastP_mem hl
    cases hb : isBlank (' ' :: l.content) with
    | false => rfl
    | true =>
      have := List.all_eq_true.mp hb c (by rw [e]; simp)
      simp only [Bool.not_eq_true'] at hc
      rw [hc] at this; cases this

theorem toField_ok (f : Dep5.Field) (h : fieldOk f = true) : Props.C06.fieldOkAny (toField f) = true := by
  have hconts := conts_ok f h
  simp only [fieldOk, Bool.and_eq_true] at h
  obtain ⟨⟨⟨hlab, hpl⟩, htr⟩, _⟩ := h
  simp only [labelOk, Bool.and_eq_true] at hlab
  simp only [trimmed, Bool.and_eq_true, Bool.not_eq_true'] at htr
  simp only [Props.C06.fieldOkAny, toField, Bool.and_eq_true, Bool.not_eq_true', List.all_eq_true, Bool.or_eq_true]
  refine ⟨⟨⟨⟨⟨?_, plain_lineOk _ hpl htr.2⟩, htr.1⟩, ?_⟩, ?_⟩, ?_⟩
  · simp only [Props.C06.narrowName, Bool.and_eq_true]
    exact hlab.1
  · intro c hc
    obtain ⟨l, hl, rfl⟩ := List.mem_map.mp hc
    rcases hconts l hl with h1 | h1
    · exact rawLine_ok l h1
    · exact item_rawLine_ok l h1
  · intro c hc
    by_cases he : f.first.isEmpty = true
    · simp [he] at hc
    · simp [he] at hc; left; simp [hc]
  · by_cases he : f.first.isEmpty = true
    · right; simp [he]
    · left; simpa using he


/-! ### the parse of the text spells the document -/

theorem pname_toField (f : Dep5.Field) : Props.C06.pname (toField f) = normLabel f.label := rfl

theorem toParas_facts (paras : List Dep5.Para) (seps : List Nat) (hp : ∀ p ∈ paras, paraOk p = true) :
    ∀ q ∈ toParas paras seps, Props.C06.ParaFacts q ∧
      (Props.C06.paraLines q ≠ [] ∧ (∀ l ∈ Props.C06.paraLines q, Proofs.LinesAscii.NoT l ∧ l ≠ []) ∧
        ∀ l ∈ q.sep, Proofs.LinesAscii.NoT l) := by
  induction paras generalizing seps with
  | nil => intro q hq; cases hq
  | cons p rest ih =>
    intro q hq
    simp only [toParas, List.mem_cons] at hq
    rcases hq with rfl | hq
    · have hpo := hp p (by simp)
      have hfields : ∀ f ∈ p, fieldOk f = true := by
        simp only [paraOk, Bool.and_eq_true, List.all_eq_true] at hpo
        exact hpo.1.1.2
      have hne : p ≠ [] := by
        simp only [paraOk, Bool.and_eq_true, Bool.not_eq_true', List.isEmpty_eq_false_iff] at hpo
        exact hpo.1.1.1
      refine ⟨⟨by simpa using hne, ?_, ?_⟩, ?_, ?_, ?_⟩
      · intro f hf
        obtain ⟨f0, hf0, rfl⟩ := List.mem_map.mp hf
        exact Props.C06.fieldFactsAny _ (toField_ok f0 (hfields f0 hf0))
      · intro l hl
        have : l = [] := List.eq_of_mem_replicate hl
        subst this; rfl
      · cases hpp : p with
        | nil => exact absurd hpp hne
        | cons f fs => simp [Props.C06.paraLines, Props.C06.fieldLines]
      · intro l hl
        simp only [Props.C06.paraLines, List.mem_flatMap, List.mem_map] at hl
        obtain ⟨f, ⟨f0, hf0, rfl⟩, hlf⟩ := hl
        exact Props.C06.fieldLines_factsAny _ (toField_ok f0 (hfields f0 hf0)) l hlf
      · intro l hl
        have : l = [] := List.eq_of_mem_replicate hl
        subst this
        exact ⟨by simp, by simp⟩
    · exact ih seps.tail (fun p' hp' => hp p' (by simp [hp'])) q hq

/-- pointwise: what `go_doc` says of one field is that the tracked field spells the document's field -/
theorem spells_of_exp (f : Dep5.Field) (hf : fieldOk f = true) (x : Fld)
    (h : Props.C06.obsFld x = Props.C06.expField (toField f)) : SpellsF f x := by
  unfold Props.C06.obsFld Props.C06.expField at h
  have hne := rawVal_ne f hf
  -- the value is not empty: the first line or a continuation line is there
  have hcond : ((toField f).value.isEmpty && (toField f).conts.isEmpty) = false := by
    cases h1 : f.first.isEmpty with
    | false => simp [toField, h1]
    | true =>
      cases h2 : f.conts with
      | nil =>
        have : f.first = [] := List.isEmpty_iff.mp h1
        unfold rawVal at hne
        rw [this, h2] at hne
        simp [Model.Debcon.joinNl] at hne
      | cons l ls => simp [toField, h2]
  rw [hcond] at h
  simp only [Bool.false_eq_true, if_false, Prod.mk.injEq] at h
  exact ⟨by rw [h.1, pname_toField], by rw [h.2]; rfl⟩

theorem para_all2 (p : Dep5.Para) (hfields : ∀ f ∈ p, fieldOk f = true) (g : List Fld)
    (h1 : g.map Props.C06.obsFld = p.map fun f => Props.C06.expField (toField f)) : All2 SpellsF p g := by
  induction p generalizing g with
  | nil =>
    cases g with
    | nil => exact All2.nil
    | cons x xs => simp at h1
  | cons f fs ihf =>
    cases g with
    | nil => simp at h1
    | cons x xs =>
      simp only [List.map_cons, List.cons.injEq] at h1
      exact All2.cons (spells_of_exp f (hfields f (by simp)) x h1.1)
        (ihf (fun f' hf' => hfields f' (by simp [hf'])) xs h1.2)

theorem all2_of_map_eq (paras : List Dep5.Para) (seps : List Nat) (hp : ∀ p ∈ paras, paraOk p = true)
    (gs : List (List Fld))
    (h : gs.map (fun g => g.map Props.C06.obsFld) = (toParas paras seps).map fun q => q.fields.map Props.C06.expField) :
    All2 (fun p g => All2 SpellsF p g) paras gs := by
  induction paras generalizing seps gs with
  | nil =>
    cases gs with
    | nil => exact All2.nil
    | cons g gs' => simp [toParas] at h
  | cons p rest ih =>
    cases gs with
    | nil => simp [toParas] at h
    | cons g gs' =>
      simp only [toParas, List.map_cons, List.cons.injEq] at h
      obtain ⟨h1, h2⟩ := h
      have hfields : ∀ f ∈ p, fieldOk f = true := by
        have hpo := hp p (by simp)
        simp only [paraOk, Bool.and_eq_true, List.all_eq_true] at hpo
        exact hpo.1.1.2
      refine All2.cons ?_ (ih seps.tail (fun p' hp' => hp p' (by simp [hp'])) gs' h2)
      apply para_all2 p hfields g
      rw [h1, List.map_map]; rfl

/-- **the line-tracking parser on a well-formed DEP-5 document** returns field groups that spell its paragraphs -/
theorem parse_spells (d : Doc) (hw : wf d = true) : All2 (fun p g => All2 SpellsF p g) d.paras (parse d.text) := by
  simp only [wf, Bool.and_eq_true, List.all_eq_true, beq_iff_eq, decide_eq_true_eq] at hw
  obtain ⟨⟨⟨⟨⟨⟨_, hparas⟩, _⟩, _⟩, hlen⟩, hseps⟩, htext⟩ := hw
  have hfacts := toParas_facts d.paras d.seps hparas
  have hrender : d.text = Props.C06.render (toParas d.paras d.seps) true := by
    rw [htext]; exact render_eq6 d.paras d.seps hseps hlen
  have hlines := Props.C06.lines_render (toParas d.paras d.seps) true (fun q hq => (hfacts q hq).2)
  have hgo := Props.C06.go_doc (toParas d.paras d.seps) (fun q hq => (hfacts q hq).1) 1
  rw [← hlines, ← hrender] at hgo
  apply all2_of_map_eq d.paras d.seps hparas
  exact hgo

/-- **C09** — for every well-formed machine-readable copyright document the model of the whole pipeline (text → tracked
field groups → typed paragraphs → recovery rewrites → validity) satisfies the property: one paragraph per document
paragraph, of its class, with exactly its typed fields and extra data; valid exactly when a files paragraph is there -/
theorem sound (d : Doc) : Props.C09.holdsOn d (Props.C09.model d) = true := by
  cases hw : wf d with
  | false => unfold Props.C09.holdsOn; rw [hw]; rfl
  | true =>
    have := sound_from_groups d (parse d.text) (parse_spells d hw)
    unfold Props.C09.model Model.Copyright.fromText
    unfold obsOf at this
    exact this

end Props.C09D
