/-
C11 — the whole property on the model, for every text: `from_fields` keeps the words of the tracked fields
(`fromFields_words`: renamed duplicates, unknown names, empty values; every converter class by
`Proofs.WordsConv.words_dumps_fromValue`), merging contiguous unknown paragraphs keeps them (`mergeUnknown_words`),
folding free text into an empty license keeps them (`foldLicense_words`), hence `sound`.
-/
import DebInspector.Thm.C11
import DebInspector.Thm.C07
import DebInspector.Proofs.WordsConv
import DebInspector.Thm.C09G
namespace Props.C11W
open Py Model.Deb822 Model.Debcon Model.Copyright Spec.Words Proofs.Words Proofs.WordsConv Proofs.CopyrightTotal

/-! ## conservation of words through the whole pipeline -/

def xwords : XV → List Str
  | .s v => words v
  | .emptyList => []

/-- the words of a tracked field -/
def fldWords (f : Fld) : List Str := f.lines.flatMap fun l => words l.val

theorem words_fieldText (f : Fld) : words (fieldText f) = fldWords f := by
  unfold fieldText fldWords
  rw [words_joinNl, List.flatMap_map]

/-- what the accumulator of `from_fields` holds, with the words it has taken in so far -/
structure AccW (knownNames : List Str) (a : Acc) (W : List Str) : Prop where
  seen : KeysSeen a
  knd : (a.known.map (·.1)).Nodup
  xnd : (a.extra.map (·.1)).Nodup
  kin : ∀ k ∈ a.known.map (·.1), k ∈ knownNames
  xout : ∀ k ∈ a.extra.map (·.1), k ∉ knownNames
  xs : ∀ kv ∈ a.extra, ∃ v, kv.2 = XV.s v
  wds : ((a.known.flatMap fun kv => words kv.2) ++ (a.extra.flatMap fun kv => xwords kv.2)).Perm W

theorem addField_words (knownNames : List Str) (a : Acc) (f : Fld) (W : List Str) (hinv : AccW knownNames a W) :
    ∃ a', addField knownNames a f = .ok a' ∧ AccW knownNames a' (W ++ fldWords f) := by
  unfold addField
  simp only
  by_cases hv : (fieldText f).isEmpty = true
  · refine ⟨a, by simp [hv], { hinv with wds := ?_ }⟩
    have : fldWords f = [] := by
      rw [← words_fieldText, List.isEmpty_iff.mp hv]; rfl
    rw [this, List.append_nil]; exact hinv.wds
  · simp only [hv, Bool.false_eq_true, if_false]
    obtain ⟨name, suffix, hfresh, hnotin⟩ :=
      freshName_some (replaceChar '-' '_' f.name) a.seen (a.seen.length + 1) (replaceChar '-' '_' f.name) a.suffix
        (Nat.lt_succ_self _) (Or.inl rfl)
    rw [hfresh]
    simp only
    have hkm : name ∉ a.known.map (·.1) := fun h => hnotin (hinv.seen.1 name h)
    have hem : name ∉ a.extra.map (·.1) := fun h => hnotin (hinv.seen.2 name h)
    have hk : (a.known.lookup name).isSome = false := by
      cases h : (a.known.lookup name).isSome with
      | false => rfl
      | true => exact absurd (lookup_isSome_mem _ _ h) hkm
    have he : (a.extra.lookup name).isSome = false := by
      cases h : (a.extra.lookup name).isSome with
      | false => rfl
      | true => exact absurd (lookup_isSome_mem _ _ h) hem
    simp only [hk, he, Bool.and_false, Bool.or_self, Bool.false_eq_true, if_false]
    have hne : f.lines ≠ [] := by
      intro e
      apply hv
      simp [fieldText, e, joinNl]
    have hw : words (lstrip (fieldText f)) = fldWords f := by rw [words_lstrip, words_fieldText]
    cases hl : f.lines with
    | nil => exact absurd hl hne
    | cons l ls =>
      have hlast : ∃ x, (l :: ls).getLast? = some x := ⟨(l :: ls).getLast (by simp), List.getLast?_eq_some_getLast _⟩
      obtain ⟨x, hx⟩ := hlast
      simp only [List.head?_cons, hx]
      rw [← hl]
      by_cases hkn : knownNames.contains name = true
      · simp only [hkn, if_true]
        refine ⟨_, rfl, ?_⟩
        constructor
        · constructor
          · intro k hk'
            simp only [List.map_append, List.map_cons, List.map_nil, List.mem_append, List.mem_singleton] at hk' ⊢
            rcases hk' with h | h
            · exact Or.inl (hinv.seen.1 k h)
            · exact Or.inr h
          · intro k hk'
            simp only [List.mem_append, List.mem_singleton]
            exact Or.inl (hinv.seen.2 k hk')
        · simp only [List.map_append, List.map_cons, List.map_nil]
          rw [List.nodup_append]
          refine ⟨hinv.knd, by simp, ?_⟩
          intro x hx y hy
          simp only [List.mem_singleton] at hy
          subst hy
          intro e; subst e; exact hkm hx
        · exact hinv.xnd
        · intro k hk'
          simp only [List.map_append, List.map_cons, List.map_nil, List.mem_append, List.mem_singleton] at hk'
          rcases hk' with h | h
          · exact hinv.kin k h
          · rw [h]; exact List.contains_iff_mem.mp hkn
        · exact hinv.xout
        · exact hinv.xs
        · simp only [List.flatMap_append, List.flatMap_cons, List.flatMap_nil, List.append_nil, hw]
          have := hinv.wds
          -- (K ++ [w]) ++ X ~ (K ++ X) ++ [w]
          refine List.Perm.trans ?_ (List.Perm.append_right _ this)
          simp only [List.append_assoc]
          exact List.Perm.append_left _ List.perm_append_comm
      · have hkn' : knownNames.contains name = false := by simpa using hkn
        simp only [hkn', Bool.false_eq_true, if_false]
        refine ⟨_, rfl, ?_⟩
        constructor
        · constructor
          · intro k hk'
            simp only [List.mem_append, List.mem_singleton]
            exact Or.inl (hinv.seen.1 k hk')
          · intro k hk'
            simp only [List.map_append, List.map_cons, List.map_nil, List.mem_append, List.mem_singleton] at hk' ⊢
            rcases hk' with h | h
            · exact Or.inl (hinv.seen.2 k h)
            · exact Or.inr h
        · exact hinv.knd
        · simp only [List.map_append, List.map_cons, List.map_nil]
          rw [List.nodup_append]
          refine ⟨hinv.xnd, by simp, ?_⟩
          intro x hx y hy
          simp only [List.mem_singleton] at hy
          subst hy
          intro e; subst e; exact hem hx
        · exact hinv.kin
        · intro k hk'
          simp only [List.map_append, List.map_cons, List.map_nil, List.mem_append, List.mem_singleton] at hk'
          rcases hk' with h | h
          · exact hinv.xout k h
          · rw [h]; intro hm; have := List.contains_iff_mem.mpr hm; rw [hkn'] at this; cases this
        · intro kv hkv
          simp only [List.mem_append, List.mem_singleton] at hkv
          rcases hkv with h | h
          · exact hinv.xs kv h
          · exact ⟨_, by rw [h]⟩
        · simp only [List.flatMap_append, List.flatMap_cons, List.flatMap_nil, List.append_nil, xwords, hw]
          have := hinv.wds
          rw [← List.append_assoc]
          exact List.Perm.append_right _ this


theorem addFields_words (knownNames : List Str) (fs : List Fld) (a : Acc) (W : List Str) (hinv : AccW knownNames a W) :
    ∃ a', addFields knownNames a fs = .ok a' ∧ AccW knownNames a' (W ++ fs.flatMap fldWords) := by
  induction fs generalizing a W with
  | nil => exact ⟨a, rfl, by simpa using hinv⟩
  | cons f fs ih =>
    obtain ⟨a1, h1, hi1⟩ := addField_words knownNames a f W hinv
    obtain ⟨a2, h2, hi2⟩ := ih a1 _ hi1
    refine ⟨a2, by simp [addFields, h1, h2], ?_⟩
    simpa [List.append_assoc] using hi2

/-! ### the words of the paragraph `from_fields` builds -/

def ow : Option Str → List Str
  | none => []
  | some v => words v

theorem typed_nodup_all (K : Kind) : ((typedFields K).map (·.1)).Nodup := by
  cases K <;> decide +kernel

theorem flatMap_congr' {α β} (l : List α) (f g : α → List β) (h : ∀ a ∈ l, f a = g a) : l.flatMap f = l.flatMap g := by
  induction l with
  | nil => rfl
  | cons a as ih => simp only [List.flatMap_cons, h a (by simp), ih (fun x hx => h x (by simp [hx]))]

theorem lookup_cons_ne {β} (k n : Str) (v : β) (ks : List (Str × β)) (h : n ≠ k) :
    ((k, v) :: ks).lookup n = ks.lookup n := by
  have : (n == k) = false := by simpa using h
  simp [List.lookup, this]

theorem flatMap_lookup_cons {γ} (tf : List (Str × γ)) (hnd : (tf.map (·.1)).Nodup) (k v : Str) (ks : List (Str × Str))
    (hk : k ∈ tf.map (·.1)) (hkn : k ∉ ks.map (·.1)) :
    (tf.flatMap fun nc => ow (((k, v) :: ks).lookup nc.1)).Perm
      (words v ++ tf.flatMap fun nc => ow (ks.lookup nc.1)) := by
  induction tf with
  | nil => simp at hk
  | cons nc tf' ih =>
    simp only [List.map_cons, List.nodup_cons] at hnd
    simp only [List.flatMap_cons]
    by_cases e : nc.1 = k
    · -- this entry takes the value; no later entry has the name
      have hrest : (tf'.flatMap fun nc' => ow (((k, v) :: ks).lookup nc'.1)) = tf'.flatMap fun nc' => ow (ks.lookup nc'.1) := by
        apply flatMap_congr'
        intro nc' hnc'
        have : nc'.1 ≠ k := by
          intro e'; apply hnd.1; rw [e, ← e']; exact List.mem_map.mpr ⟨nc', hnc', rfl⟩
        rw [lookup_cons_ne k nc'.1 v ks this]
      have hnone : ks.lookup nc.1 = none := by
        rw [e]
        cases hl : ks.lookup k with
        | none => rfl
        | some x => exact absurd (lookup_isSome_mem ks k (by rw [hl]; rfl)) hkn
      rw [hrest, hnone, e]
      simp [List.lookup, ow]
    · have hk' : k ∈ tf'.map (·.1) := by
        simp only [List.map_cons, List.mem_cons] at hk
        rcases hk with h | h
        · exact absurd h.symm e
        · exact h
      rw [lookup_cons_ne k nc.1 v ks e]
      have := ih hnd.2 hk'
      refine List.Perm.trans (List.Perm.append_left _ this) ?_
      rw [← List.append_assoc, ← List.append_assoc]
      exact List.Perm.append_right _ List.perm_append_comm

theorem flatMap_lookup_perm {γ} (tf : List (Str × γ)) (hnd : (tf.map (·.1)).Nodup) (known : List (Str × Str))
    (hknd : (known.map (·.1)).Nodup) (hkin : ∀ k ∈ known.map (·.1), k ∈ tf.map (·.1)) :
    (tf.flatMap fun nc => ow (known.lookup nc.1)).Perm (known.flatMap fun kv => words kv.2) := by
  induction known with
  | nil =>
    have : (tf.flatMap fun nc => ow (([] : List (Str × Str)).lookup nc.1)) = [] := by
      induction tf with
      | nil => rfl
      | cons a as ih' =>
        simp only [List.map_cons, List.nodup_cons] at hnd
        simp [List.flatMap_cons, List.lookup, ow]
    rw [this]; exact List.Perm.refl _
  | cons kv ks ih =>
    obtain ⟨k, v⟩ := kv
    simp only [List.map_cons, List.nodup_cons] at hknd
    have := flatMap_lookup_cons tf hnd k v ks (hkin k (by simp)) hknd.1
    refine List.Perm.trans this ?_
    simp only [List.flatMap_cons]
    exact List.Perm.append_left _ (ih hknd.2 (fun x hx => hkin x (by simp [hx])))


theorem lset_absent {β} (d : List (Str × β)) (k : Str) (v : β) (h : k ∉ d.map (·.1)) : lset d k v = d ++ [(k, v)] := by
  induction d with
  | nil => rfl
  | cons a as ih =>
    obtain ⟨a1, a2⟩ := a
    simp only [List.map_cons, List.mem_cons, not_or] at h
    have : ¬ a1 = k := fun e => h.1 e.symm
    simp [lset, this, ih h.2]

def conv (nv : Str × XV) : Str × DV :=
  (nv.1, match nv.2 with
    | .s v => .s (if v.isEmpty then v else asFormattedText v)
    | .emptyList => .emptyList)

open Props.C07 in
theorem foldl_dstep_append (extra : List (Str × XV)) (d0 : List (Str × DV)) (hnd : (extra.map (·.1)).Nodup)
    (hout : ∀ k ∈ extra.map (·.1), k ∉ d0.map (·.1)) : extra.foldl dstep d0 = d0 ++ extra.map conv := by
  induction extra generalizing d0 with
  | nil => simp
  | cons nv rest ih =>
    simp only [List.map_cons, List.nodup_cons] at hnd
    simp only [List.foldl_cons]
    have hstep : dstep d0 nv = d0 ++ [conv nv] := by
      unfold dstep conv
      exact lset_absent d0 _ _ (hout nv.1 (by simp))
    rw [hstep, ih (d0 ++ [conv nv]) hnd.2 (by
      intro k hk hm
      simp only [List.map_append, List.map_cons, List.map_nil, List.mem_append, List.mem_singleton] at hm
      rcases hm with h | h
      · exact hout k (by simp [hk]) h
      · have : k = nv.1 := h
        exact hnd.1 (this ▸ hk))]
    simp [List.append_assoc]

theorem xwords_conv (nv : Str × XV) : xwords (conv nv).2 = xwords nv.2 := by
  unfold conv
  cases nv.2 with
  | s v =>
    simp only [xwords]
    by_cases h : v.isEmpty = true
    · simp [h]
    · have h' : v.isEmpty = false := by simpa using h
      simp only [h', Bool.false_eq_true, if_false, words_asFormattedText]
  | emptyList => rfl

/-- the words of the values of the dictionary form of a paragraph -/
def paraWords (p : Para) : List Str := (toDict p).flatMap fun kv => xwords kv.2

open Props.C07 in
/-- **`from_fields` keeps the words**: the words of the dictionary form of the paragraph it builds are the words of the
tracked fields, for every class and every list of fields — renamed duplicates, unknown names, empty values included -/
theorem fromFields_words (K : Kind) (g : List Fld) (p : Para) (h : fromFields K g = .ok p) :
    (paraWords p).Perm (g.flatMap fldWords) := by
  unfold fromFields at h
  simp only at h
  obtain ⟨a, ha, hinv⟩ := addFields_words (if K = .catchall then [] else (typedFields K).map (·.1)) g ⟨[], [], [], [], 1⟩ []
    ⟨⟨by simp, by simp⟩, by simp, by simp, by simp, by simp, by simp, by simp⟩
  rw [ha] at h
  simp only [Except.ok.injEq] at h
  subst h
  simp only [List.nil_append] at hinv
  unfold paraWords
  rw [toDict_eq]
  simp only
  -- the extra data is appended after the typed fields
  have hd0keys : ((((typedFields K).map fun nc => (nc.1, fromValue nc.2 (a.known.lookup nc.1))).map
      (fun nf => ((nf.1, XV.s (dumps nf.2)) : Str × DV))).map (·.1)) = (typedFields K).map (·.1) := by
    simp [List.map_map, Function.comp]
  rw [foldl_dstep_append a.extra _ hinv.xnd (by
    intro k hk
    rw [hd0keys]
    by_cases hK : K = .catchall
    · subst hK; simp [typedFields_catchall]
    · have := hinv.xout k hk
      simpa [hK] using this)]
  simp only [List.flatMap_append, List.flatMap_map, xwords_conv]
  refine List.Perm.trans ?_ hinv.wds
  apply List.Perm.append ?_ (List.Perm.refl _)
  -- the typed fields: every known value under its own name, every absent field without words
  have hfld : ((typedFields K).flatMap fun nc => xwords (XV.s (dumps (fromValue nc.2 (a.known.lookup nc.1))))) =
      (typedFields K).flatMap fun nc => ow (a.known.lookup nc.1) := by
    apply flatMap_congr'
    intro nc _
    simp only [xwords]
    cases a.known.lookup nc.1 with
    | none => exact words_dumps_absent nc.2
    | some v => exact words_dumps_fromValue nc.2 v
  rw [hfld]
  apply flatMap_lookup_perm _ (typed_nodup_all K) _ hinv.knd
  intro k hk
  have := hinv.kin k hk
  by_cases hK : K = .catchall
  · simp [hK] at this
  · simpa [hK] using this


/-! ### merging contiguous unknown paragraphs keeps the words -/

theorem toDict_simple (extra : List (Str × XV)) (lines : List (Str × (Nat × Nat))) (hnd : (extra.map (·.1)).Nodup) :
    toDict { kind := .catchall, fields := [], extra := extra, lines := lines } = extra.map conv := by
  rw [Props.C07.toDict_eq]
  simp only [List.map_nil]
  rw [foldl_dstep_append extra [] hnd (by simp)]
  simp

theorem flat_values (g : List Para) :
    (g.flatMap fun p => (toDict p).map (·.2)).flatMap xwords = g.flatMap paraWords := by
  induction g with
  | nil => rfl
  | cons p ps ih =>
    simp only [List.flatMap_cons, List.flatMap_append, ih]
    congr 1
    unfold paraWords
    rw [List.flatMap_map]

theorem filterMap_words (dv : List XV) (h : ∀ v ∈ dv, ∃ s, v = XV.s s) :
    (dv.filterMap dvStr).flatMap words = dv.flatMap xwords := by
  induction dv with
  | nil => rfl
  | cons v vs ih =>
    obtain ⟨s, rfl⟩ := h v (by simp)
    simp only [List.filterMap_cons, dvStr, List.flatMap_cons, ih (fun x hx => h x (by simp [hx]))]
    rfl

theorem mergeRun_words (g : List Para) (m : Para) (h : mergeRun g = .ok m) :
    paraWords m = g.flatMap paraWords := by
  unfold mergeRun at h
  simp only at h
  by_cases hany : ((g.flatMap fun p => (toDict p).map (·.2)).any fun v => v = XV.emptyList) = true
  · simp [hany] at h
  · have hany' : ((g.flatMap fun p => (toDict p).map (·.2)).any fun v => decide (v = XV.emptyList)) = false := by simpa using hany
    simp only [hany', Bool.false_eq_true, if_false, Except.ok.injEq] at h
    subst h
    have hall : ∀ v ∈ g.flatMap fun p => (toDict p).map (·.2), ∃ s, v = XV.s s := by
      intro v hv
      cases v with
      | s s => exact ⟨s, rfl⟩
      | emptyList =>
        simp only [List.any_eq_false, decide_eq_true_eq] at hany'
        exact absurd rfl (hany' _ hv)
    have hw := filterMap_words _ hall
    rw [flat_values] at hw
    unfold paraWords
    rw [toDict_simple _ _ (by simp)]
    simp only [List.map_cons, List.map_nil, List.flatMap_cons, List.flatMap_nil, List.append_nil, xwords_conv]
    by_cases hempty : ((g.flatMap fun p => (toDict p).map (·.2)).filterMap dvStr).isEmpty = true
    · simp only [hempty, if_true]
      rw [List.isEmpty_iff.mp hempty] at hw
      have : g.flatMap paraWords = [] := hw.symm
      unfold paraWords at this
      rw [this]; rfl
    · have he' : ((g.flatMap fun p => (toDict p).map (·.2)).filterMap dvStr).isEmpty = false := by simpa using hempty
      simp only [he', Bool.false_eq_true, if_false]
      show words (fromFormattedLines _) = _
      rw [words_fromFormattedLines, hw]
      rfl


open Props.C07 in
theorem foldl_mstep_error (gs : List (List Para)) (e : PyExc) : gs.foldl mstep (.error e) = .error e := by
  induction gs with
  | nil => rfl
  | cons g gs ih => simp only [List.foldl_cons, mstep, ih]

open Props.C07 in
theorem foldl_mstep_words (gs : List (List Para)) (out out' : List Para) (h : gs.foldl mstep (.ok out) = .ok out') :
    out'.flatMap paraWords = out.flatMap paraWords ++ gs.flatten.flatMap paraWords := by
  induction gs generalizing out with
  | nil =>
    simp only [List.foldl_nil, Except.ok.injEq] at h
    subst h; simp
  | cons g gs ih =>
    simp only [List.foldl_cons] at h
    cases hs : mstep (.ok out) g with
    | error e => rw [hs, foldl_mstep_error] at h; cases h
    | ok o1 =>
      rw [hs] at h
      have := ih o1 h
      rw [this]
      simp only [List.flatten_cons, List.flatMap_append]
      rw [← List.append_assoc]
      congr 1
      -- one group
      unfold mstep at hs
      cases g with
      | nil =>
        simp only [Except.ok.injEq] at hs
        subst hs; simp
      | cons p rest =>
        simp only at hs
        split at hs
        · simp only [Except.ok.injEq] at hs
          subst hs; simp
        · cases hm : mergeRun (p :: rest) with
          | error e => rw [hm] at hs; cases hs
          | ok m =>
            rw [hm] at hs
            simp only [Except.ok.injEq] at hs
            subst hs
            simp only [List.flatMap_append, List.flatMap_cons, List.flatMap_nil, List.append_nil]
            rw [mergeRun_words _ m hm]
            simp

open Props.C07 in
theorem mergeUnknown_words (ps ps' : List Para) (h : mergeUnknown ps = .ok ps') :
    ps'.flatMap paraWords = ps.flatMap paraWords := by
  rw [mergeUnknown_eq] at h
  have := foldl_mstep_words _ [] ps' h
  rw [this, (Props.C09G.groupByKind_flatten ps).1]
  simp


/-! ### folding free text into an empty license keeps the words -/

def licKey : Str := "license".toList
def comKey : Str := "comment".toList

theorem com_ne_lic : (comKey == licKey) = false := by decide
theorem com_ne_lic' : ¬ comKey = licKey := by decide

/-- a license paragraph holds a license value and a formatted comment under its two names -/
def LicShape (p : Para) : Prop :=
  p.kind = .license → ∃ n t c, p.fields = [(licKey, FV.license n t), (comKey, FV.formatted c)]

theorem optTruthy_false (t : Option Str) (h : optTruthy t = false) : t = none ∨ t = some [] := by
  cases t with
  | none => exact Or.inl rfl
  | some s =>
    right
    simp only [optTruthy, Bool.not_eq_false'] at h
    rw [List.isEmpty_iff.mp h]

theorem licenseOf_shape (p : Para) (n : Str) (t c : Option Str)
    (hf : p.fields = [(licKey, FV.license n t), (comKey, FV.formatted c)]) :
    licenseOf p = (n, t) ∧ commentTextOf p = c := by
  constructor
  · unfold licenseOf getField
    rw [hf]
    show (match List.lookup licKey [(licKey, FV.license n t), (comKey, FV.formatted c)] with
      | some (FV.license n t) => (n, t) | _ => ([], none)) = (n, t)
    simp only [List.lookup, beq_self_eq_true]
  · unfold commentTextOf getField
    rw [hf]
    show (match List.lookup comKey [(licKey, FV.license n t), (comKey, FV.formatted c)] with
      | some (FV.formatted t) => t | _ => none) = c
    simp only [List.lookup, com_ne_lic, beq_self_eq_true]

theorem words_formatted_empty (c : Option Str) (h : optTruthy c = false) : words (dumps (FV.formatted c)) = [] := by
  rcases optTruthy_false c h with rfl | rfl <;> rfl

theorem words_license_empty (t : Option Str) (h : optTruthy t = false) : words (dumps (FV.license [] t)) = [] := by
  rcases optTruthy_false t h with rfl | rfl <;> rfl

theorem words_license_text (text : Str) : words (dumps (FV.license [] (some text))) = words text := by
  show words (licenseDumps [] (some text)) = words text
  unfold licenseDumps
  rw [words_strip, words_descriptionDumps]
  rfl

theorem paraWords_shape (p : Para) (fv1 fv2 : FV) (hf : p.fields = [(licKey, fv1), (comKey, fv2)]) (hex : p.extra = []) :
    paraWords p = words (dumps fv1) ++ words (dumps fv2) := by
  unfold paraWords
  rw [Props.C07.toDict_eq, hex, hf]
  simp only [List.foldl_nil, List.map_cons, List.map_nil, List.flatMap_cons, List.flatMap_nil, List.append_nil]
  rfl

theorem setLicense_shape (p : Para) (n : Str) (t c : Option Str) (text : Str)
    (hf : p.fields = [(licKey, FV.license n t), (comKey, FV.formatted c)]) :
    (setLicense p [] (some text)).fields = [(licKey, FV.license [] (some text)), (comKey, FV.formatted c)] := by
  unfold setLicense
  simp only [hf, List.map_cons, List.map_nil]
  have h1 : (licKey = "license".toList) = True := by simp [licKey]
  have h2 : (comKey = "license".toList) = False := by
    apply propext; constructor
    · intro e; exact com_ne_lic' e
    · exact False.elim
  simp only [h1, h2, if_true, if_false]

open Props.C07 in
theorem fold_words (p1 p2 : Para) (hs : LicShape p1) (hc : foldCond p1 p2 = true) (text : Str) (rng : Nat × Nat)
    (hd : toDict p2 = [(unknownName, XV.s text)]) :
    paraWords { setLicense p1 [] (some text) with lines := lset p1.lines "license".toList rng } =
      paraWords p1 ++ paraWords p2 := by
  unfold foldCond at hc
  simp only [Bool.and_eq_true, decide_eq_true_eq] at hc
  obtain ⟨⟨⟨⟨hk, hempty⟩, _⟩, _⟩, _⟩ := hc
  obtain ⟨n, t, c, hf⟩ := hs hk
  unfold licenseParaIsEmpty at hempty
  simp only [Bool.and_eq_true, Bool.not_eq_true'] at hempty
  obtain ⟨⟨⟨hex, hcom⟩, hname⟩, htext⟩ := hempty
  have hex' : p1.extra = [] := List.isEmpty_iff.mp hex
  obtain ⟨hlic, hct⟩ := licenseOf_shape p1 n t c hf
  rw [hlic] at hname htext
  rw [hct] at hcom
  simp only at hname htext
  have hn : n = [] := List.isEmpty_iff.mp hname
  subst hn
  have hw2 : paraWords p2 = words text := by
    unfold paraWords; rw [hd]; simp [xwords]
  have hw1 : paraWords p1 = [] := by
    rw [paraWords_shape p1 _ _ hf hex', words_license_empty t htext, words_formatted_empty c hcom]; rfl
  have hw1' : paraWords { setLicense p1 [] (some text) with lines := lset p1.lines "license".toList rng } = words text := by
    have hf' := setLicense_shape p1 [] t c text hf
    have hex'' : ({ setLicense p1 [] (some text) with lines := lset p1.lines "license".toList rng } : Para).extra = [] := by
      simp only [setLicense]; exact hex'
    rw [paraWords_shape _ _ _ (by exact hf') hex'', words_license_text, words_formatted_empty c hcom]
    simp
  rw [hw1', hw1, hw2]; rfl


/-- the words a run of the fold loop is responsible for: all paragraphs, minus the first when it was folded away -/
def total (ps : List Para) (b : Bool) : List Str := if b then ps.tail.flatMap paraWords else ps.flatMap paraWords

open Props.C07 in
theorem foldLoop_words (ps : List Para) (hne : ps ≠ []) (hs : ∀ p ∈ ps, LicShape p) (b : Bool) (out : List Para) (fp : Bool)
    (hr : foldLoop ps b = .ok (out, fp)) :
    out.flatMap paraWords ++ (if fp then [] else paraWords (ps.getLast hne)) = total ps b := by
  induction ps generalizing b out fp with
  | nil => exact absurd rfl hne
  | cons p1 rest ih =>
    cases rest with
    | nil =>
      simp only [foldLoop, Except.ok.injEq, Prod.mk.injEq] at hr
      obtain ⟨rfl, rfl⟩ := hr
      cases b <;> simp [total]
    | cons p2 rest2 =>
      rw [foldLoop_unfold] at hr
      have hlast : (p1 :: p2 :: rest2).getLast hne = (p2 :: rest2).getLast (List.cons_ne_nil _ _) :=
        List.getLast_cons (List.cons_ne_nil _ _)
      rw [hlast]
      have hs' : ∀ p ∈ p2 :: rest2, LicShape p := fun p hp => hs p (by simp [hp])
      by_cases hb : b = true
      · subst hb
        simp only [if_true] at hr
        have := ih (by simp) hs' false out fp hr
        rw [this]; simp [total]
      · have hb' : b = false := by simpa using hb
        subst hb'
        simp only [Bool.false_eq_true, if_false] at hr
        by_cases hc : foldCond p1 p2 = true
        · simp only [hc, if_true] at hr
          -- the dictionary form of p2 is a single string under the catch-all key
          have hshape : ∃ k text rng, toDict p2 = [(k, XV.s text)] ∧ p2.lines.lookup unknownName = some rng := by
            cases hl : p2.lines.lookup unknownName with
            | none =>
              rw [hl] at hr
              cases hd : toDict p2 with
              | nil => rw [hd] at hr; simp at hr
              | cons kv more =>
                rw [hd] at hr
                cases more <;> (obtain ⟨k, v⟩ := kv; cases v <;> simp at hr)
            | some rng =>
              cases hd : toDict p2 with
              | nil => rw [hd, hl] at hr; simp at hr
              | cons kv more =>
                cases more with
                | cons _ _ => rw [hd, hl] at hr; obtain ⟨k, v⟩ := kv; cases v <;> simp at hr
                | nil =>
                  obtain ⟨k, v⟩ := kv
                  cases v with
                  | emptyList => rw [hd, hl] at hr; simp at hr
                  | s text => exact ⟨k, text, rng, rfl, rfl⟩
          obtain ⟨k, text, rng, hd, hl⟩ := hshape
          rw [hd, hl] at hr
          simp only at hr
          cases hrec : foldLoop (p2 :: rest2) true with
          | error e => rw [hrec] at hr; cases hr
          | ok r =>
            obtain ⟨out2, fp2⟩ := r
            rw [hrec] at hr
            simp only [Except.ok.injEq, Prod.mk.injEq] at hr
            obtain ⟨rfl, rfl⟩ := hr
            have hih := ih (by simp) hs' true out2 fp2 hrec
            have hk : k = unknownName := by
              have := hc
              unfold foldCond at this
              simp only [Bool.and_eq_true, decide_eq_true_eq] at this
              have hkeys := this.1.2
              rw [hd] at hkeys
              simpa using hkeys
            subst hk
            have hfw := fold_words p1 p2 (hs p1 (by simp)) hc text rng hd
            simp only [List.flatMap_cons, List.append_assoc]
            rw [hfw, hih]
            simp [total, List.append_assoc]
        · have hc' : foldCond p1 p2 = false := by simpa using hc
          simp only [hc', Bool.false_eq_true, if_false] at hr
          cases hrec : foldLoop (p2 :: rest2) false with
          | error e => rw [hrec] at hr; cases hr
          | ok r =>
            obtain ⟨out2, fp2⟩ := r
            rw [hrec] at hr
            simp only [Except.ok.injEq, Prod.mk.injEq] at hr
            obtain ⟨rfl, rfl⟩ := hr
            have hih := ih (by simp) hs' false out2 fp2 hrec
            simp only [List.flatMap_cons, List.append_assoc]
            rw [hih]
            simp [total]

theorem foldLicense_words (ps ps' : List Para) (hs : ∀ p ∈ ps, LicShape p) (h : foldLicense ps = .ok ps') :
    ps'.flatMap paraWords = ps.flatMap paraWords := by
  unfold foldLicense at h
  by_cases hl : ps.length ≤ 2
  · simp only [hl, if_true, Except.ok.injEq] at h
    subst h; rfl
  · simp only [hl, if_false] at h
    have hne : ps ≠ [] := by intro e; rw [e] at hl; simp at hl
    cases hrec : foldLoop ps false with
    | error e => rw [hrec] at h; cases h
    | ok r =>
      obtain ⟨out, fp⟩ := r
      rw [hrec] at h
      simp only at h
      have hw := foldLoop_words ps hne hs false out fp hrec
      simp only [total, Bool.false_eq_true, if_false] at hw
      cases fp with
      | true =>
        simp only [if_true, Except.ok.injEq] at h
        subst h
        simpa using hw
      | false =>
        simp only [Bool.false_eq_true, if_false] at h hw
        rw [List.getLast?_eq_some_getLast hne] at h
        simp only [Except.ok.injEq] at h
        subst h
        simp only [List.flatMap_append, List.flatMap_cons, List.flatMap_nil, List.append_nil]
        exact hw


/-! ### the shape of license paragraphs is kept along the pipeline -/

theorem license_fields : typedFields .license = [(licKey, "LicenseField"), (comKey, "FormattedTextField")] := by decide

theorem fromFields_shape (K : Kind) (g : List Fld) (p : Para) (h : fromFields K g = .ok p) : LicShape p := by
  intro hk
  unfold fromFields at h
  simp only at h
  split at h
  · cases h
  · rename_i a _
    simp only [Except.ok.injEq] at h
    subst h
    simp only at hk
    subst hk
    simp only [license_fields, List.map_cons, List.map_nil]
    exact ⟨_, _, _, rfl⟩

theorem mapExcept_words (gs : List (List Fld)) (ps : List Para)
    (h : Model.Copyright.mapExcept (fun g => fromFields (classify g) g) gs = .ok ps) :
    (ps.flatMap paraWords).Perm (gs.flatMap fun g => g.flatMap fldWords) ∧ ∀ p ∈ ps, LicShape p := by
  induction gs generalizing ps with
  | nil =>
    simp only [Model.Copyright.mapExcept, Except.ok.injEq] at h
    subst h; exact ⟨List.Perm.refl _, by simp⟩
  | cons g gs ih =>
    simp only [Model.Copyright.mapExcept] at h
    cases hp : fromFields (classify g) g with
    | error e => rw [hp] at h; cases h
    | ok p =>
      rw [hp] at h
      simp only at h
      cases hr : Model.Copyright.mapExcept (fun g => fromFields (classify g) g) gs with
      | error e => rw [hr] at h; cases h
      | ok qs =>
        rw [hr] at h
        simp only [Except.ok.injEq] at h
        subst h
        obtain ⟨ih1, ih2⟩ := ih qs hr
        refine ⟨?_, ?_⟩
        · simp only [List.flatMap_cons]
          exact List.Perm.append (fromFields_words _ g p hp) ih1
        · intro q hq
          rcases List.mem_cons.mp hq with rfl | hq
          · exact fromFields_shape _ g _ hp
          · exact ih2 q hq

theorem mergeRun_kind (g : List Para) (m : Para) (h : mergeRun g = .ok m) : m.kind = .catchall := by
  unfold mergeRun at h
  simp only at h
  split at h
  · cases h
  · simp only [Except.ok.injEq] at h
    subst h; rfl

open Props.C07 in
theorem foldl_mstep_shape (gs : List (List Para)) (out out' : List Para) (h : gs.foldl mstep (.ok out) = .ok out')
    (ho : ∀ p ∈ out, LicShape p) (hg : ∀ g ∈ gs, ∀ p ∈ g, LicShape p) : ∀ p ∈ out', LicShape p := by
  induction gs generalizing out with
  | nil =>
    simp only [List.foldl_nil, Except.ok.injEq] at h
    subst h; exact ho
  | cons g gs ih =>
    simp only [List.foldl_cons] at h
    cases hs : mstep (.ok out) g with
    | error e => rw [hs, foldl_mstep_error] at h; cases h
    | ok o1 =>
      rw [hs] at h
      apply ih o1 h _ (fun g' hg' => hg g' (by simp [hg']))
      unfold mstep at hs
      cases g with
      | nil =>
        simp only [Except.ok.injEq] at hs
        subst hs; exact ho
      | cons p rest =>
        simp only at hs
        split at hs
        · simp only [Except.ok.injEq] at hs
          subst hs
          intro q hq
          rcases List.mem_append.mp hq with hq | hq
          · exact ho q hq
          · exact hg (p :: rest) (by simp) q hq
        · cases hm : mergeRun (p :: rest) with
          | error e => rw [hm] at hs; cases hs
          | ok m =>
            rw [hm] at hs
            simp only [Except.ok.injEq] at hs
            subst hs
            intro q hq
            rcases List.mem_append.mp hq with hq | hq
            · exact ho q hq
            · simp only [List.mem_singleton] at hq
              subst hq
              intro hk
              rw [mergeRun_kind _ q hm] at hk; cases hk

open Props.C07 in
theorem mergeUnknown_shape (ps ps' : List Para) (h : mergeUnknown ps = .ok ps') (hs : ∀ p ∈ ps, LicShape p) :
    ∀ p ∈ ps', LicShape p := by
  rw [mergeUnknown_eq] at h
  apply foldl_mstep_shape _ [] ps' h (by simp)
  intro g hg p hp
  exact hs p ((groupByKind_props ps g hg).1 p hp)

/-- **the whole pipeline keeps the words**: for every list of tracked field groups -/
theorem fromFieldsGroups_words (gs : List (List Fld)) (ps : List Para) (h : fromFieldsGroups gs = .ok ps) :
    (ps.flatMap paraWords).Perm (gs.flatMap fun g => g.flatMap fldWords) := by
  unfold fromFieldsGroups at h
  cases h0 : Model.Copyright.mapExcept (fun g => fromFields (classify g) g) gs with
  | error e => rw [h0] at h; cases h
  | ok ps0 =>
    rw [h0] at h
    simp only at h
    obtain ⟨hw0, hs0⟩ := mapExcept_words gs ps0 h0
    cases h1 : mergeUnknown ps0 with
    | error e => rw [h1] at h; cases h
    | ok ps1 =>
      rw [h1] at h
      simp only at h
      have hw1 := mergeUnknown_words ps0 ps1 h1
      have hs1 := mergeUnknown_shape ps0 ps1 h1 hs0
      have hw2 := foldLicense_words ps1 ps hs1 h
      rw [hw2, hw1]
      exact hw0

/-- **C11** — for every text, every word of a field value or a free-text line occurs equally often in the values of the
dictionary form of the copyright object, and no other word occurs there: whichever recovery path applies (duplicate
fields renamed, unknown names kept as extra data, contiguous unknown paragraphs merged, free text folded into an empty
license paragraph) -/
theorem sound (t : Str) : Props.C11.holdsOn t (Props.C11.model t) = true := by
  unfold Props.C11.holdsOn Props.C11.model
  simp only
  cases hft : fromText t with
  | error e => rfl
  | ok ps =>
    simp only [Bool.and_self]
    rw [Props.C11.removeAll_perm]
    have hw := fromFieldsGroups_words (parse t) ps hft
    -- the two sides in the shape of the specification
    have hin : Props.C11.wordsIn (Props.C05.model t) = (parse t).flatMap fun g => g.flatMap fldWords := by
      unfold Props.C11.wordsIn Props.C05.model Props.C05.obsOf fldWords
      simp only [List.flatMap_map]
    have hout : Props.C11.wordsOut (ps.map Props.CopyrightObs.ofPara) = ps.flatMap paraWords := by
      unfold Props.C11.wordsOut paraWords Props.CopyrightObs.ofPara
      simp only [List.flatMap_map]
      apply flatMap_congr'
      intro p _
      apply flatMap_congr'
      intro kv _
      cases kv.2 <;> rfl
    rw [hin, hout]
    exact hw.symm

end Props.C11W
