/-
C06 — `tracking_sound`: the line-tracking parser on every well-formed document (K3 hypothesis on names);
lemmas about the scanners of the header-style parser model.
-/
import DebInspector.Props.C06
import DebInspector.Proofs.SplitJoin
import DebInspector.Proofs.Deb822
import DebInspector.Proofs.LinesAscii
import DebInspector.Proofs.VersionPrint

namespace Props.C06
open Py Model.Email

theorem splitKeepEndsAux_flatten (t cur : Str) (cr : Bool) :
    (splitKeepEndsAux t cur cr).flatten = cur.reverse ++ t := by
  induction t generalizing cur cr with
  | nil =>
    simp only [splitKeepEndsAux]
    split
    · rename_i h; have : cur = [] := by simpa using h
      subst this; rfl
    · simp
  | cons c rest ih =>
    simp only [splitKeepEndsAux]
    split
    · split
      · simp [ih]
      · split <;> simp [ih]
    · split
      · simp [ih]
      · split <;> simp [ih]

/-- **the line splitter of the header-parser model loses no character**: the lines, with their
terminators, concatenate back to the text -/
theorem splitKeepEnds_flatten (t : Str) : (splitKeepEnds t).flatten = t := by
  simpa [splitKeepEnds] using splitKeepEndsAux_flatten t [] false

theorem dropWhileSpTab_suffix (s : Str) : ∃ pre, s = pre ++ dropWhileSpTab s := by
  induction s with
  | nil => exact ⟨[], rfl⟩
  | cons c cs ih =>
    simp only [dropWhileSpTab]
    split
    · obtain ⟨pre, h⟩ := ih
      exact ⟨c :: pre, by simp [← h]⟩
    · exact ⟨[], rfl⟩

/-- the separator scanner only removes a prefix -/
theorem skipBlankLines_suffix (n : Nat) (s : Str) : ∃ pre, s = pre ++ skipBlankLines n s := by
  induction n generalizing s with
  | zero => exact ⟨[], rfl⟩
  | succ n ih =>
    simp only [skipBlankLines]
    obtain ⟨pre, h⟩ := dropWhileSpTab_suffix s
    cases hd : dropWhileSpTab s with
    | nil => exact ⟨[], rfl⟩
    | cons c rest =>
      by_cases hc : c = '\n'
      · subst hc
        simp only
        obtain ⟨pre2, h2⟩ := ih rest
        refine ⟨pre ++ '\n' :: pre2, ?_⟩
        rw [hd] at h
        rw [h]
        simp [← h2]
      · refine ⟨[], ?_⟩
        simp only [List.nil_append]
        split
        · rename_i heq; simp at heq; exact absurd heq.1 hc
        · rfl

/-- non-vacuity: three empty lines followed by a whitespace-only line; a value with ": "; K3 -/
example : (model ⟨[], true, "A: x: y\n c\n\n\n\n \nB2: .d\n".toList⟩).headers =
    .ok [[("a".toList, "x: y\n c".toList)], [("b2".toList, ".d".toList)]] := by decide +kernel
example : (model ⟨[], true, "A: x: y\n c\n\n\n\n \nB2: .d\n".toList⟩).tracking =
    .ok [[("a".toList, ["x: y".toList, " c".toList])], [("b2".toList, [".d".toList])]] := by decide +kernel
example : (model ⟨[], true, "X_Foo: bar\n".toList⟩).tracking = .ok [[("unknown".toList, ["X_Foo: bar".toList])]] := by
  decide +kernel

end Props.C06

/-! ## the line-tracking parser on well-formed documents -/

namespace Props.C06
open Py Model.Deb822 Proofs.LinesAscii Proofs.Deb822

/-! ### the source lines of a rendered document -/

theorem splitLinesAscii_joinNl_nl (l : Str) (ls : List Str) (rest : Str) (h : ∀ x ∈ l :: ls, NoT x) :
    splitLinesAscii (joinNl (l :: ls) ++ '\n' :: rest) = (l :: ls) ++ splitLinesAscii rest := by
  induction ls generalizing l with
  | nil => simpa [joinNl] using splitLinesAscii_line l rest (h l (by simp))
  | cons m ms ih =>
    have e : joinNl (l :: m :: ms) ++ '\n' :: rest = l ++ '\n' :: (joinNl (m :: ms) ++ '\n' :: rest) := by
      simp [joinNl]
    rw [e, splitLinesAscii_line l _ (h l (by simp)), ih m (fun x hx => h x (by simp [hx]))]
    simp

theorem splitLinesAscii_joinNl (l : Str) (ls : List Str) (h : ∀ x ∈ l :: ls, NoT x)
    (hlast : (l :: ls).getLast (by simp) ≠ []) : splitLinesAscii (joinNl (l :: ls)) = l :: ls := by
  induction ls generalizing l with
  | nil => simpa [joinNl] using splitLinesAscii_last l (h l (by simp)) (by simpa using hlast)
  | cons m ms ih =>
    have e : joinNl (l :: m :: ms) = l ++ '\n' :: joinNl (m :: ms) := by simp [joinNl]
    rw [e, splitLinesAscii_line l _ (h l (by simp)), ih m (fun x hx => h x (by simp [hx])) (by simpa using hlast)]

def paraLines (p : Para) : List Str := p.fields.flatMap fieldLines

def docLines : List Para → List Str
  | [] => []
  | [p] => paraLines p
  | p :: q :: rest => paraLines p ++ [] :: p.sep ++ docLines (q :: rest)

theorem renderPara_eq (p : Para) : renderPara p = joinNl (paraLines p) := rfl

theorem lines_render (paras : List Para) (fin : Bool)
    (hp : ∀ p ∈ paras, paraLines p ≠ [] ∧ (∀ l ∈ paraLines p, NoT l ∧ l ≠ []) ∧ ∀ l ∈ p.sep, NoT l) :
    splitLinesAscii (render paras fin) = docLines paras := by
  induction paras with
  | nil => rfl
  | cons p rest ih =>
    obtain ⟨hne, hl, hs⟩ := hp p (by simp)
    cases hpl : paraLines p with
    | nil => exact absurd hpl hne
    | cons l ls =>
      have hl' : ∀ x ∈ l :: ls, NoT x := fun x hx => (hl x (by rw [hpl]; exact hx)).1
      cases rest with
      | nil =>
        simp only [render, docLines, renderPara_eq, hpl]
        cases fin with
        | true =>
          simp only [if_true]
          have := splitLinesAscii_joinNl_nl l ls [] hl'
          simpa [splitLinesAscii, splitLinesAsciiAux] using this
        | false =>
          simp only [Bool.false_eq_true, if_false, List.append_nil]
          apply splitLinesAscii_joinNl l ls hl'
          have hm : (l :: ls).getLast (by simp) ∈ paraLines p := by rw [hpl]; exact List.getLast_mem _
          exact (hl _ hm).2
      | cons q rest' =>
        have ih' := ih (fun x hx => hp x (List.mem_cons_of_mem _ hx))
        have e : render (p :: q :: rest') fin =
            joinNl (l :: ls) ++ '\n' :: ([] ++ '\n' :: ((p.sep.flatMap fun l => l ++ ['\n']) ++ render (q :: rest') fin)) := by
          simp [render, renderPara_eq, hpl, List.append_assoc]
        rw [e, splitLinesAscii_joinNl_nl l ls _ hl', splitLinesAscii_line [] _ ⟨by simp, by simp⟩,
          splitLinesAscii_seps p.sep _ hs, ih']
        simp [docLines, hpl]

/-! ### the loop on the lines of a well-formed document -/

/-- the field the loop builds from a declaration line and continuation lines, numbered from `k` -/
def builtField (name value : Str) (conts : List Str) (k : Nat) : Fld :=
  ⟨name, ⟨k, value⟩ :: numberFrom (k + 1) conts⟩

theorem numberFrom_append (k : Nat) (a b : List Str) :
    numberFrom k (a ++ b) = numberFrom k a ++ numberFrom (k + a.length) b := by
  induction a generalizing k with
  | nil => simp [numberFrom]
  | cons x xs ih =>
    simp only [List.cons_append, numberFrom, ih, List.length_cons]
    rw [show k + 1 + xs.length = k + (xs.length + 1) by omega]

theorem lastP_false_of {l : Str} (hne : l ≠ []) (h : lastP isSpace l = false) :
    lastP (fun c => !isSpace c) l = true := by
  induction l with
  | nil => exact absurd rfl hne
  | cons c cs ih =>
    cases cs with
    | nil => simpa [lastP] using h
    | cons d ds => simpa [lastP] using ih (by simp) (by simpa [lastP] using h)

/-- continuation lines are appended to the open field -/
theorem go_conts (done : List Fld) (cur : Fld) (cs : List Str) (k : Nat) (rest : List NL)
    (hc : ∀ c ∈ cs, isCont c = true ∧ lastP isSpace c = false) :
    go (some (done, cur)) (numberFrom k cs ++ rest) =
      go (some (done, { cur with lines := cur.lines ++ numberFrom k cs })) rest := by
  induction cs generalizing cur k with
  | nil => simp [numberFrom]
  | cons c cs ih =>
    obtain ⟨hcont, hlast⟩ := hc c (by simp)
    have hnb : isBlank c = false := Proofs.Deb822.cont_not_blank c hcont
    have hne : c ≠ [] := by intro e; subst e; simp [isCont, headP] at hcont
    have hr : rstrip c = c := rstrip_of_last c (lastP_false_of hne hlast)
    simp only [numberFrom, List.cons_append]
    rw [go_cont_step _ _ _ hnb hcont]
    simp only [hr, addLine]
    rw [ih _ _ (fun x hx => hc x (by simp [hx]))]
    simp [List.append_assoc]


/-! ### fields, paragraphs, documents -/

def declLine (f : Field) : Str := f.name ++ ':' :: f.sp ++ f.value

theorem fieldLines_eq (f : Field) : fieldLines f = declLine f :: f.conts := rfl

/-- the name `Deb822Field.from_line` gives the field: lower-cased, `licence` respelled -/
def pname (f : Field) : Str := if lowerAscii f.name = licence then license else lowerAscii f.name

/-- what the loop needs to know about a well-formed field -/
structure FieldFacts (f : Field) : Prop where
  decl : isDecl (declLine f) = true
  notBlank : isBlank (declLine f) = false
  notCont : isCont (declLine f) = false
  fromLine : ∀ k, Model.Deb822.fromLine ⟨k, declLine f⟩ = ⟨pname f, [⟨k, f.value⟩]⟩
  conts : ∀ c ∈ f.conts, isCont c = true ∧ lastP isSpace c = false
  valueBlank : isBlank f.value = f.value.isEmpty

def expField (f : Field) : Str × List Str :=
  (pname f, if f.value.isEmpty && f.conts.isEmpty then [] else f.value :: f.conts)

def built (f : Field) (k : Nat) : Fld := ⟨pname f, ⟨k, f.value⟩ :: numberFrom (k + 1) f.conts⟩

def obsFld (f : Fld) : Str × List Str := (f.name, f.lines.map (·.val))

theorem numberFrom_vals (k : Nat) (ls : List Str) : (numberFrom k ls).map (·.val) = ls := by
  induction ls generalizing k with
  | nil => rfl
  | cons l ls ih => simp [numberFrom, ih]

theorem rstripLines_nonblank_last (ls : List NL) (l : NL) (h : isBlank l.val = false) :
    rstripLines (ls ++ [l]) = ls ++ [l] := by
  induction ls with
  | nil => simp [rstripLines, h]
  | cons a as ih =>
    simp only [List.cons_append, rstripLines, ih]
    cases as <;> simp

theorem rstripLines_all_nonblank (ls : List NL) (h : ∀ l ∈ ls, isBlank l.val = false) : rstripLines ls = ls := by
  induction ls with
  | nil => rfl
  | cons a as ih =>
    simp only [rstripLines, ih (fun l hl => h l (by simp [hl]))]
    cases as with
    | nil => simp [h a (by simp)]
    | cons b bs => rfl

/-- cleaning the field the loop built gives the expected field -/
theorem clean_built (f : Field) (hf : FieldFacts f) (k : Nat) :
    obsFld { built f k with lines := rstripLines (built f k).lines } = expField f := by
  unfold built expField obsFld
  simp only
  by_cases hc : f.conts = []
  · simp only [hc, numberFrom, List.isEmpty_nil, Bool.and_true]
    by_cases hv : f.value.isEmpty = true
    · have : isBlank f.value = true := by rw [hf.valueBlank]; exact hv
      simp [rstripLines, this, hv]
    · have hv' : f.value.isEmpty = false := by simpa using hv
      have : isBlank f.value = false := by rw [hf.valueBlank]; exact hv'
      simp [rstripLines, this, hv']
  · have hce : f.conts.isEmpty = false := by cases hcs : f.conts <;> simp_all
    simp only [hce, Bool.and_false, Bool.false_eq_true, if_false]
    -- the last line is a continuation line, hence not blank: nothing is trimmed
    obtain ⟨init, last, hil⟩ : ∃ init last, f.conts = init ++ [last] := by
      rcases List.eq_nil_or_concat f.conts with h | ⟨i, l, h⟩
      · exact absurd h hc
      · exact ⟨i, l, by simpa using h⟩
    have hlast : isBlank last = false :=
      Proofs.Deb822.cont_not_blank last (hf.conts last (by rw [hil]; simp)).1
    have e : (⟨k, f.value⟩ : NL) :: numberFrom (k + 1) f.conts =
        ((⟨k, f.value⟩ : NL) :: numberFrom (k + 1) init) ++ [⟨k + 1 + init.length, last⟩] := by
      rw [hil, numberFrom_append]; simp [numberFrom]
    rw [e, rstripLines_nonblank_last _ _ hlast, ← e]
    simp [numberFrom_vals]

/-- the loop on the lines of one field, from either state -/
theorem go_field (f : Field) (hf : FieldFacts f) (k : Nat) (st : St) (rest : List NL) :
    go st (numberFrom k (fieldLines f) ++ rest) =
      go (some ((match st with | none => [] | some s => s.1 ++ [s.2]), built f k)) rest := by
  rw [fieldLines_eq]
  simp only [numberFrom, List.cons_append]
  have hstep : go st (⟨k, declLine f⟩ :: (numberFrom (k + 1) f.conts ++ rest)) =
      go (some ((match st with | none => [] | some s => s.1 ++ [s.2]), Model.Deb822.fromLine ⟨k, declLine f⟩))
        (numberFrom (k + 1) f.conts ++ rest) := by
    cases st with
    | none => exact go_decl_step_none _ _ hf.notBlank hf.decl
    | some s => exact go_decl_step_open s _ _ hf.notBlank hf.notCont hf.decl
  rw [hstep, hf.fromLine k, go_conts _ _ _ _ _ hf.conts]
  rfl


def splitLast (f : Fld) : List Fld → List Fld × Fld
  | [] => ([], f)
  | g :: gs => let r := splitLast g gs; (f :: r.1, r.2)

/-- the loop state that holds exactly these fields (the last one open) -/
def stFrom : List Fld → St
  | [] => none
  | f :: fs => some (splitLast f fs)

theorem splitLast_join (f : Fld) (fs : List Fld) : (splitLast f fs).1 ++ [(splitLast f fs).2] = f :: fs := by
  induction fs generalizing f with
  | nil => rfl
  | cons g gs ih => simp only [splitLast, List.cons_append, ih]

theorem stFrom_fields (D : List Fld) : (match stFrom D with | none => [] | some s => s.1 ++ [s.2]) = D := by
  cases D with
  | nil => rfl
  | cons f fs => exact splitLast_join f fs

theorem splitLast_snoc (f : Fld) (fs : List Fld) (c : Fld) : splitLast f (fs ++ [c]) = (f :: fs, c) := by
  induction fs generalizing f with
  | nil => rfl
  | cons g gs ih => simp only [List.cons_append, splitLast, ih]

theorem stFrom_snoc (D : List Fld) (c : Fld) : stFrom (D ++ [c]) = some (D, c) := by
  cases D with
  | nil => rfl
  | cons f fs => simp only [List.cons_append, stFrom, splitLast_snoc]

theorem flush_stFrom (D : List Fld) : flush (stFrom D) = if D.isEmpty then [] else [clean D] := by
  cases D with
  | nil => rfl
  | cons f fs => simp only [stFrom, flush, splitLast_join]; rfl

def builtFields : List Field → Nat → List Fld
  | [], _ => []
  | f :: fs, k => built f k :: builtFields fs (k + 1 + f.conts.length)

def linesCount (fs : List Field) : Nat := (fs.flatMap fieldLines).length

theorem go_fields (fs : List Field) (hf : ∀ f ∈ fs, FieldFacts f) (D : List Fld) (k : Nat) (rest : List NL) :
    go (stFrom D) (numberFrom k (fs.flatMap fieldLines) ++ rest) =
      go (stFrom (D ++ builtFields fs k)) (rest) := by
  induction fs generalizing D k with
  | nil => simp [numberFrom, builtFields]
  | cons f fs ih =>
    simp only [List.flatMap_cons, numberFrom_append, List.append_assoc]
    rw [go_field f (hf f (by simp)) k (stFrom D), stFrom_fields, ← stFrom_snoc]
    have hlen : (fieldLines f).length = 1 + f.conts.length := by simp [fieldLines]; omega
    rw [hlen, ih (fun x hx => hf x (by simp [hx]))]
    simp only [builtFields, List.append_assoc, List.singleton_append]
    rw [show k + (1 + f.conts.length) = k + 1 + f.conts.length by omega]

theorem clean_builtFields (fs : List Field) (hf : ∀ f ∈ fs, FieldFacts f) (k : Nat) :
    (clean (builtFields fs k)).map obsFld = fs.map expField := by
  induction fs generalizing k with
  | nil => rfl
  | cons f fs ih =>
    simp only [builtFields, clean, List.map_cons] at ih ⊢
    rw [clean_built f (hf f (by simp)) k]
    congr 1
    exact ih (fun x hx => hf x (by simp [hx])) _

theorem go_blank_lines (sep : List Str) (hs : ∀ l ∈ sep, isBlank l = true) (k : Nat) (rest : List NL) :
    go none (numberFrom k sep ++ rest) = go none rest := by
  induction sep generalizing k with
  | nil => simp [numberFrom]
  | cons l ls ih =>
    simp only [numberFrom, List.cons_append]
    rw [go_blank_none _ _ (hs l (by simp)), ih (fun x hx => hs x (by simp [hx]))]

/-- what the theorem needs of a paragraph -/
structure ParaFacts (p : Para) : Prop where
  ne : p.fields ≠ []
  fields : ∀ f ∈ p.fields, FieldFacts f
  sep : ∀ l ∈ p.sep, isBlank l = true

def obsOut (ps : List (List Fld)) : Groups := ps.map fun g => g.map obsFld

theorem builtFields_ne_nil (fs : List Field) (k : Nat) (h : fs ≠ []) : builtFields fs k ≠ [] := by
  cases fs with
  | nil => exact absurd rfl h
  | cons f fs => simp [builtFields]

/-- **the loop on the lines of a well-formed document** gives one group per paragraph with exactly
its fields -/
theorem go_doc (paras : List Para) (hp : ∀ p ∈ paras, ParaFacts p) (k : Nat) :
    obsOut (go none (numberFrom k (docLines paras))) = paras.map fun p => p.fields.map expField := by
  induction paras generalizing k with
  | nil => rfl
  | cons p rest ih =>
    have pf := hp p (by simp)
    have hb := builtFields_ne_nil p.fields k pf.ne
    have hbe : (builtFields p.fields k).isEmpty = false := by cases h : builtFields p.fields k <;> simp_all
    cases rest with
    | nil =>
      simp only [docLines, paraLines]
      have := go_fields p.fields pf.fields [] k []
      have h0 : stFrom [] = none := rfl
      simp only [List.append_nil, List.nil_append, h0] at this
      rw [this]
      simp only [go, flush_stFrom, hbe, Bool.false_eq_true, if_false, obsOut, List.map_cons, List.map_nil]
      rw [clean_builtFields p.fields pf.fields k]
    | cons q rest' =>
      have ih' := ih (fun x hx => hp x (List.mem_cons_of_mem _ hx))
      simp only [docLines, paraLines, numberFrom_append, List.append_assoc]
      have := go_fields p.fields pf.fields [] k
      have h0 : stFrom [] = none := rfl
      simp only [List.nil_append, h0] at this
      rw [this]
      simp only [numberFrom, List.cons_append]
      -- the empty line closes the paragraph
      cases hst : stFrom (builtFields p.fields k) with
      | none => cases h : builtFields p.fields k <;> simp_all [stFrom]
      | some s =>
        have hbreak : ∀ n ∈ (numberFrom (k + (List.flatMap fieldLines p.fields).length + 1) p.sep ++
            numberFrom (k + (List.flatMap fieldLines p.fields).length + 1 + p.sep.length) (docLines (q :: rest'))).head?,
            isDecl n.val = true ∨ isBlank n.val = true := by
          intro n hn
          cases hsep : p.sep with
          | cons l ls =>
            rw [hsep] at hn
            simp only [numberFrom, List.cons_append, List.head?_cons, Option.mem_def, Option.some.injEq] at hn
            subst hn
            exact Or.inr (pf.sep l (by rw [hsep]; simp))
          | nil =>
            rw [hsep] at hn
            have qf := hp q (by simp)
            cases hqf : q.fields with
            | nil => exact absurd hqf qf.ne
            | cons f fs =>
              have hd : ∃ tl, docLines (q :: rest') = declLine f :: tl := by
                cases rest' with
                | nil => exact ⟨f.conts ++ fs.flatMap fieldLines, by simp [docLines, paraLines, hqf, fieldLines_eq]⟩
                | cons r rs =>
                  exact ⟨f.conts ++ fs.flatMap fieldLines ++ [] :: q.sep ++ docLines (r :: rs),
                    by simp [docLines, paraLines, hqf, fieldLines_eq]⟩
              obtain ⟨tl, htl⟩ := hd
              rw [htl] at hn
              simp only [numberFrom, List.nil_append, List.head?_cons, Option.mem_def, Option.some.injEq] at hn
              subst hn
              exact Or.inl (qf.fields f (by rw [hqf]; simp)).decl
        have e : k + (List.flatMap fieldLines p.fields).length + ([] :: p.sep).length =
            k + (List.flatMap fieldLines p.fields).length + 1 + p.sep.length := by simp only [List.length_cons]; omega
        rw [e, go_blank_break s ⟨k + (List.flatMap fieldLines p.fields).length, []⟩ _ (by rfl) hbreak, ← hst, flush_stFrom,
          go_blank_lines p.sep pf.sep]
        simp only [hbe, Bool.false_eq_true, if_false, obsOut, List.map_append, List.map_cons, List.map_nil,
          List.singleton_append]
        rw [clean_builtFields p.fields pf.fields k]
        congr 1
        exact ih' _


/-! ### character classes: from the grammar to the facts the loop needs -/

def nameCh (c : Char) : Bool := isAsciiAlnum c || c == '-'

theorem space_not_nameCh : ∀ n ∈ Generated.spaceCodes, nameCh (Char.ofNat n) = false := by decide
theorem extra_not_nameCh : ∀ kv ∈ Generated.azIgnoreCaseExtra, nameCh (Char.ofNat kv.1) = false := by decide

theorem nameCh_not_space {c : Char} (h : nameCh c = true) : isSpace c = false := by
  cases hs : isSpace c with
  | false => rfl
  | true =>
    have hm : c.toNat ∈ Generated.spaceCodes := by simpa [isSpace] using hs
    have := space_not_nameCh _ hm
    rw [Char.ofNat_toNat] at this
    rw [this] at h; cases h

theorem nameCh_ne {c : Char} (h : nameCh c = true) : c ≠ ':' ∧ c ≠ '\n' ∧ c ≠ '\r' ∧ c ≠ ' ' ∧ c ≠ '\t' := by
  refine ⟨?_, ?_, ?_, ?_, ?_⟩ <;> (intro e; subst e; revert h; decide)

theorem nameCh_isNameChar {c : Char} (h : nameCh c = true) : isNameChar c = true := by
  simp only [nameCh, isAsciiAlnum, Char.isAlphanum, Bool.or_eq_true, beq_iff_eq] at h
  simp only [isNameChar, isLetterIC, isAsciiAlpha, isAsciiDigit, Bool.or_eq_true, decide_eq_true_eq]
  rcases h with (h | h) | h
  · exact Or.inl (Or.inl (Or.inl h))
  · exact Or.inl (Or.inr h)
  · exact Or.inr h

theorem lookup_mem {β} (l : List (Nat × β)) (k : Nat) (v : β) (h : l.lookup k = some v) : (k, v) ∈ l := by
  induction l with
  | nil => simp [List.lookup] at h
  | cons a as ih =>
    obtain ⟨a1, a2⟩ := a
    simp only [List.lookup] at h
    by_cases e : k = a1
    · subst e; simp at h; subst h; simp
    · have hb : (k == a1) = false := by simpa using e
      simp only [hb] at h
      exact List.mem_cons_of_mem _ (ih h)

theorem lowerNameChar_nameCh {c : Char} (h : nameCh c = true) : lowerNameChar c = [lowerAsciiChar c] := by
  unfold lowerNameChar
  cases hl : Generated.azIgnoreCaseExtra.lookup c.toNat with
  | none => rfl
  | some v =>
    have := extra_not_nameCh _ (lookup_mem _ _ _ hl)
    simp only [Char.ofNat_toNat] at this
    rw [this] at h; cases h

theorem lowerName_nameCh (n : Str) (h : ∀ c ∈ n, nameCh c = true) : lowerName n = lowerAscii n := by
  induction n with
  | nil => rfl
  | cons c cs ih =>
    simp only [lowerName, List.map_cons, List.flatten_cons, lowerNameChar_nameCh (h c (by simp)), lowerAscii] at ih ⊢
    rw [ih (fun d hd => h d (by simp [hd]))]
    rfl

theorem dropNameChars_append (n rest : Str) (h : ∀ c ∈ n, isNameChar c = true) (hr : headP isNameChar rest = false) :
    dropNameChars (n ++ rest) = rest := by
  induction n with
  | nil =>
    cases rest with
    | nil => rfl
    | cons c cs => simp only [headP] at hr; simp [dropNameChars, hr]
  | cons c cs ih =>
    simp only [List.cons_append, dropNameChars, h c (by simp), if_true]
    exact ih (fun d hd => h d (by simp [hd]))

/-- `fieldOk narrowName` without the clause that keeps `licence` out: what the line-tracking loop needs -/
def fieldOkAny (f : Field) : Bool :=
  narrowName f.name &&
  lineOk f.value && !headP isSpace f.value &&
  f.conts.all (fun c => lineOk c && Model.Deb822.isCont c) &&
  f.sp.all (fun c => c == ' ' || c == '\t') &&
  (!f.value.isEmpty || f.sp.isEmpty)

theorem fieldFactsAny (f : Field) (h : fieldOkAny f = true) : FieldFacts f := by
  simp only [fieldOkAny, Bool.and_eq_true, Bool.not_eq_true', Bool.or_eq_true, List.all_eq_true, bne_iff_ne, ne_eq,
    narrowName] at h
  obtain ⟨⟨⟨⟨⟨⟨hhead, hall⟩, hvline⟩, hvhead⟩, hconts⟩, hsp⟩, hvsp⟩ := h
  have hnc : ∀ c ∈ f.name, nameCh c = true := by
    intro c hc
    have := hall c hc
    simpa [nameCh] using this
  obtain ⟨c0, cs0, hn0⟩ : ∃ c cs, f.name = c :: cs := by
    cases hn : f.name with
    | nil => rw [hn] at hhead; simp [headP] at hhead
    | cons c cs => exact ⟨c, cs, rfl⟩
  have hc0a : isAsciiAlpha c0 = true := by rw [hn0] at hhead; simpa [headP] using hhead
  have hc0 : nameCh c0 = true := hnc c0 (by rw [hn0]; simp)
  have hdl : declLine f = c0 :: (cs0 ++ ':' :: f.sp ++ f.value) := by simp [declLine, hn0]
  have hcolon : ':' ∉ f.name := fun hm => (nameCh_ne (hnc _ hm)).1 rfl
  have hspsp : ∀ c ∈ f.sp, isSpace c = true := by
    intro c hc
    rcases hsp c hc with e | e <;> (simp only [beq_iff_eq] at e; subst e; decide)
  refine ⟨?_, ?_, ?_, ?_, ?_, ?_⟩
  · -- a declaration line
    have h1 : headP isLetterIC (declLine f) = true := by
      rw [hdl]; simp [headP, isLetterIC, hc0a]
    have h2 : dropNameChars (declLine f) = ':' :: f.sp ++ f.value := by
      have := dropNameChars_append f.name (':' :: f.sp ++ f.value) (fun c hc => nameCh_isNameChar (hnc c hc))
        (by have hcn : isNameChar ':' = false := by decide
            simp [headP, hcn])
      simpa [declLine] using this
    unfold isDecl
    rw [h1, h2]
    simp [headP]
  · rw [hdl]; simp [isBlank, nameCh_not_space hc0]
  · rw [hdl]
    have := nameCh_ne hc0
    simp [isCont, headP, this.2.2.2.1, this.2.2.2.2]
  · intro k
    have hp := partitionChar_split ':' f.name (f.sp ++ f.value) hcolon
    have hstripn : strip f.name = f.name := Proofs.VersionPrint.strip_id (fun c hc => nameCh_not_space (hnc c hc))
    have hval : strip (f.sp ++ f.value) = f.value := by
      by_cases hve : f.value = []
      · have : f.sp = [] := by
          have := hvsp
          rcases this with h | h
          · rw [hve] at h; simp at h
          · simpa using h
        simp [hve, this, strip, lstrip, rstrip]
      · have hh : headP isSpace f.value = false := hvhead
        have hl : lastP (fun c => !isSpace c) f.value = true := by
          apply lastP_false_of hve
          simp only [lineOk, Bool.and_eq_true, Bool.not_eq_true'] at hvline
          exact hvline.2
        have := strip_core f.sp f.value [] hspsp (by simp) hh hl
        simpa using this
    have hd : declLine f = f.name ++ ':' :: (f.sp ++ f.value) := by simp [declLine]
    unfold Model.Deb822.fromLine
    simp only [hd, hp, hstripn, hval, lowerName_nameCh f.name hnc]
    rfl
  · intro c hc
    have := hconts c hc
    simp only [lineOk, Bool.and_eq_true, Bool.not_eq_true'] at this
    exact ⟨this.2, this.1.2⟩
  · cases hv : f.value with
    | nil => rfl
    | cons c cs =>
      rw [hv] at hvhead
      simp only [headP] at hvhead
      simp [isBlank, hvhead]


theorem fieldFacts (f : Field) (h : fieldOk narrowName f = true) : FieldFacts f := by
  apply fieldFactsAny
  simp only [fieldOk, Bool.and_eq_true] at h
  simp only [fieldOkAny, Bool.and_eq_true]
  obtain ⟨⟨⟨⟨⟨⟨a, _⟩, b⟩, c⟩, d⟩, e⟩, g⟩ := h
  exact ⟨⟨⟨⟨⟨a, b⟩, c⟩, d⟩, e⟩, g⟩

theorem pname_of_ok (f : Field) (h : fieldOk narrowName f = true) : pname f = lowerAscii f.name := by
  simp only [fieldOk, Bool.and_eq_true, bne_iff_ne, ne_eq] at h
  have : lowerAscii f.name ≠ licence := h.1.1.1.1.1.2
  simp [pname, this]

theorem lineOk_NoT (l : Str) (h : lineOk l = true) : NoT l := by
  simp only [lineOk, Bool.and_eq_true, Bool.not_eq_true'] at h
  exact ⟨by simpa using h.1.1, by simpa using h.1.2⟩

theorem fieldLines_factsAny (f : Field) (h : fieldOkAny f = true) : ∀ l ∈ fieldLines f, NoT l ∧ l ≠ [] := by
  simp only [fieldOkAny, Bool.and_eq_true, Bool.not_eq_true', Bool.or_eq_true, List.all_eq_true, bne_iff_ne, ne_eq,
    narrowName] at h
  obtain ⟨⟨⟨⟨⟨⟨hhead, hall⟩, hvline⟩, _⟩, hconts⟩, hsp⟩, _⟩ := h
  intro l hl
  rw [fieldLines_eq] at hl
  rcases List.mem_cons.mp hl with rfl | hl
  · have hv := lineOk_NoT _ hvline
    refine ⟨⟨?_, ?_⟩, ?_⟩
    · intro hm
      simp only [declLine, List.mem_append, List.mem_cons] at hm
      rcases hm with (hm | hm | hm) | hm
      · have : nameCh '\n' = true := by have := hall _ hm; simpa [nameCh] using this
        revert this; decide
      · revert hm; decide
      · rcases hsp _ hm with e | e <;> (revert e; decide)
      · exact hv.1 hm
    · intro hm
      simp only [declLine, List.mem_append, List.mem_cons] at hm
      rcases hm with (hm | hm | hm) | hm
      · have : nameCh '\r' = true := by have := hall _ hm; simpa [nameCh] using this
        revert this; decide
      · revert hm; decide
      · rcases hsp _ hm with e | e <;> (revert e; decide)
      · exact hv.2 hm
    · cases hn : f.name with
      | nil => rw [hn] at hhead; simp [headP] at hhead
      | cons c cs => simp [declLine, hn]
  · have := hconts l hl
    refine ⟨lineOk_NoT l this.1, ?_⟩
    intro e; subst e
    have := this.2
    simp [isCont, headP] at this

theorem fieldLines_facts (f : Field) (h : fieldOk narrowName f = true) : ∀ l ∈ fieldLines f, NoT l ∧ l ≠ [] := by
  apply fieldLines_factsAny
  simp only [fieldOk, Bool.and_eq_true] at h
  simp only [fieldOkAny, Bool.and_eq_true]
  obtain ⟨⟨⟨⟨⟨⟨a, _⟩, b⟩, c⟩, d⟩, e⟩, g⟩ := h
  exact ⟨⟨⟨⟨⟨a, b⟩, c⟩, d⟩, e⟩, g⟩

/-- **C06, line-tracking parser** — for every well-formed deb822 document (any number of paragraphs
and fields, names of letters, digits and hyphens, values and continuation lines of any characters
but line terminators, any number of empty and white-space-only separator lines, with or without a
final newline) the model of `get_paragraphs_as_field_groups` returns the document's paragraphs in
order, each with exactly its fields in order: names lower-cased, first-line values trimmed,
continuation lines kept in order. -/
theorem tracking_sound (i : Input) (h : wfWith narrowName i = true) :
    (model i).tracking = .ok (expectedTracking i) := by
  simp only [wfWith, Bool.and_eq_true, Bool.not_eq_true', List.all_eq_true, beq_iff_eq] at h
  obtain ⟨⟨_, hparas⟩, htext⟩ := h
  have hpf : ∀ p ∈ i.paras, ParaFacts p := by
    intro p hp
    have := hparas p hp
    simp only [Bool.and_eq_true, Bool.not_eq_true', List.isEmpty_eq_false_iff, List.all_eq_true, Bool.or_eq_true,
      beq_iff_eq] at this
    refine ⟨this.1.1.1, fun f hf => fieldFacts f (this.1.1.2 f hf), ?_⟩
    intro l hl
    apply List.all_eq_true.mpr
    intro c hc
    rcases this.2 l hl c hc with e | e <;> (subst e; decide)
  have hlines : ∀ p ∈ i.paras, paraLines p ≠ [] ∧ (∀ l ∈ paraLines p, NoT l ∧ l ≠ []) ∧ ∀ l ∈ p.sep, NoT l := by
    intro p hp
    have := hparas p hp
    simp only [Bool.and_eq_true, Bool.not_eq_true', List.isEmpty_eq_false_iff, List.all_eq_true, Bool.or_eq_true,
      beq_iff_eq] at this
    refine ⟨?_, ?_, ?_⟩
    · cases hf : p.fields with
      | nil => exact absurd hf this.1.1.1
      | cons f fs => simp [paraLines, hf, fieldLines_eq]
    · intro l hl
      simp only [paraLines, List.mem_flatMap] at hl
      obtain ⟨f, hf, hlf⟩ := hl
      exact fieldLines_facts f (this.1.1.2 f hf) l hlf
    · intro l hl
      constructor <;> (intro hm; rcases this.2 l hl _ hm with e | e <;> (revert e; decide))
  have hgo := go_doc i.paras hpf 1
  rw [← lines_render i.paras i.finalNl hlines, ← htext] at hgo
  simp only [model]
  congr 1
  have hexp : (i.paras.map fun p => p.fields.map expField) = expectedTracking i := by
    unfold expectedTracking
    apply List.map_congr_left
    intro p hp
    apply List.map_congr_left
    intro f hf
    have := hparas p hp
    unfold expField
    rw [pname_of_ok f (this.1.1.2 f hf)]
  rw [← hexp, ← hgo]
  rfl


end Props.C06
