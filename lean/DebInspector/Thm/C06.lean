/-
C06 — lemmas about the scanners of the header-style parser model.
-/
import DebInspector.Props.C06

namespace Props.C06
open Py Model.Email

theorem splitKeepEndsAux_flatten (t cur : Str) (cr : Bool) :
    (splitKeepEndsAux t cur cr).flatten = cur.reverse ++ t := by
  induction t generalizing cur cr with
  | nil =>
    simp only [splitKeepEndsAux]
    split
    · rename_i h; have : cur = [] := by simpa using h
      subst this; rfl
    · simp
  | cons c rest ih =>
    simp only [splitKeepEndsAux]
    split
    · split
      · simp [ih]
      · split <;> simp [ih]
    · split
      · simp [ih]
      · split <;> simp [ih]

/-- **the line splitter of the header-parser model loses no character**: the lines, with their
terminators, concatenate back to the text -/
theorem splitKeepEnds_flatten (t : Str) : (splitKeepEnds t).flatten = t := by
  simpa [splitKeepEnds] using splitKeepEndsAux_flatten t [] false

theorem dropWhileSpTab_suffix (s : Str) : ∃ pre, s = pre ++ dropWhileSpTab s := by
  induction s with
  | nil => exact ⟨[], rfl⟩
  | cons c cs ih =>
    simp only [dropWhileSpTab]
    split
    · obtain ⟨pre, h⟩ := ih
      exact ⟨c :: pre, by simp [← h]⟩
    · exact ⟨[], rfl⟩

/-- the separator scanner only removes a prefix -/
theorem skipBlankLines_suffix (n : Nat) (s : Str) : ∃ pre, s = pre ++ skipBlankLines n s := by
  induction n generalizing s with
  | zero => exact ⟨[], rfl⟩
  | succ n ih =>
    simp only [skipBlankLines]
    obtain ⟨pre, h⟩ := dropWhileSpTab_suffix s
    cases hd : dropWhileSpTab s with
    | nil => exact ⟨[], rfl⟩
    | cons c rest =>
      by_cases hc : c = '\n'
      · subst hc
        simp only
        obtain ⟨pre2, h2⟩ := ih rest
        refine ⟨pre ++ '\n' :: pre2, ?_⟩
        rw [hd] at h
        rw [h]
        simp [← h2]
      · refine ⟨[], ?_⟩
        simp only [List.nil_append]
        split
        · rename_i heq; simp at heq; exact absurd heq.1 hc
        · rfl

/-- non-vacuity: three empty lines followed by a whitespace-only line; a value with ": "; K3 -/
example : (model ⟨[], true, "A: x: y\n c\n\n\n\n \nB2: .d\n".toList⟩).headers =
    .ok [[("a".toList, "x: y\n c".toList)], [("b2".toList, ".d".toList)]] := by decide +kernel
example : (model ⟨[], true, "A: x: y\n c\n\n\n\n \nB2: .d\n".toList⟩).tracking =
    .ok [[("a".toList, ["x: y".toList, " c".toList])], [("b2".toList, [".d".toList])]] := by decide +kernel
example : (model ⟨[], true, "X_Foo: bar\n".toList⟩).tracking = .ok [[("unknown".toList, ["X_Foo: bar".toList])]] := by
  decide +kernel

end Props.C06
