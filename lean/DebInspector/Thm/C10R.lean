/-
C10 — the range clauses for every text: every field with a value carries a range inside the file whose first and last
lines hold content and whose lines contain every word of the value; ranges are disjoint and increasing.
Part A: what the line-tracking parser guarantees about every tracked field.
-/
import DebInspector.Thm.C10S
import DebInspector.Thm.C05
import DebInspector.Thm.C11W
import DebInspector.Thm.C12
import DebInspector.Thm.C13P

namespace Props.C10R
open Py Model.Deb822 Model.Debcon Model.Copyright Props.C10 Proofs.Deb822 Spec.Words

/-! ### A. tracked fields -/

/-- the lines after the first are not declaration lines of the source; the lines are what `rstrip` of the field leaves;
the field has a line -/
structure FldA (src : List Str) (f : Fld) : Prop where
  restND : ∀ l ∈ f.lines.tail, isDecl (Props.C05.lineAt src l.num) = false
  clean : rstripLines f.lines = f.lines

def StA (src : List Str) : St → Prop
  | none => True
  | some (done, cur) => ∀ f ∈ done ++ [cur], ∀ l ∈ f.lines.tail, isDecl (Props.C05.lineAt src l.num) = false

theorem rstripLines_cons_nil (l : NL) (ls : List NL) (h : rstripLines ls = []) :
    rstripLines (l :: ls) = if isBlank l.val then [] else [l] := by
  rw [show rstripLines (l :: ls) = (match rstripLines ls with
    | [] => if isBlank l.val then [] else [l]
    | r => l :: r) from rfl, h]

theorem rstripLines_cons_ne (l : NL) (ls : List NL) (h : rstripLines ls ≠ []) :
    rstripLines (l :: ls) = l :: rstripLines ls := by
  rw [show rstripLines (l :: ls) = (match rstripLines ls with
    | [] => if isBlank l.val then [] else [l]
    | r => l :: r) from rfl]
  cases hr : rstripLines ls with
  | nil => exact absurd hr h
  | cons r rs => rfl

theorem rstripLines_idem (ls : List NL) : rstripLines (rstripLines ls) = rstripLines ls := by
  induction ls with
  | nil => rfl
  | cons l ls ih =>
    by_cases h : rstripLines ls = []
    · rw [rstripLines_cons_nil l ls h]
      by_cases hb : isBlank l.val = true
      · simp [hb, rstripLines]
      · simp only [hb, Bool.false_eq_true, if_false]
        rw [rstripLines_cons_nil l [] rfl]
        simp [hb]
    · rw [rstripLines_cons_ne l ls h, rstripLines_cons_ne l _ (by rw [ih]; exact h), ih]

theorem tail_prefix {α} (a b : List α) : ∀ x ∈ a.tail, x ∈ (a ++ b).tail := by
  intro x hx
  cases a with
  | nil => cases hx
  | cons y ys => simpa using Or.inl hx

theorem flush_A (src : List Str) (st : St) (h : StA src st) : ∀ g ∈ flush st, ∀ f ∈ g, FldA src f := by
  cases st with
  | none => intro g hg; cases hg
  | some s =>
    obtain ⟨done, cur⟩ := s
    intro g hg f hf
    simp only [flush, List.mem_singleton] at hg
    subst hg
    simp only [clean, List.mem_map] at hf
    obtain ⟨f0, hf0, rfl⟩ := hf
    refine ⟨?_, rstripLines_idem _⟩
    intro l hl
    obtain ⟨rest, hr⟩ := rstripLines_prefix f0.lines
    apply h f0 hf0 l
    rw [hr]
    exact tail_prefix _ _ l hl

theorem go_A (src : List Str) (rest pre : List Str) (hsrc : src = pre ++ rest) (st : St) (hst : StA src st) :
    ∀ g ∈ go st (numberFrom (pre.length + 1) rest), ∀ f ∈ g, FldA src f := by
  induction rest generalizing pre st with
  | nil => simpa [numberFrom, go] using flush_A src st hst
  | cons l rest ih =>
    have hL : Props.C05.lineAt src (pre.length + 1) = l := by rw [hsrc]; exact Props.C05.lineAt_pre pre rest l
    have hsrc' : src = (pre ++ [l]) ++ rest := by rw [hsrc]; simp
    have hlen' : (pre ++ [l]).length + 1 = pre.length + 1 + 1 := by simp
    have recur := fun st' (h : StA src st') => by
      have := ih (pre ++ [l]) hsrc' st' h
      rw [hlen'] at this
      exact this
    have hsynth : isBlank l = false → ∀ f ∈ [(⟨unknownName, [⟨pre.length + 1, l⟩]⟩ : Fld)], FldA src f := by
      intro hnb f hf
      simp only [List.mem_singleton] at hf
      subst hf
      refine ⟨?_, ?_⟩
      · intro x hx
        simp at hx
      · rw [rstripLines_cons_nil _ [] rfl]
        simp [hnb]
    have hadd : ∀ s : List Fld × Fld, StA src (some s) → isDecl l = false →
        StA src (some (addLine s ⟨pre.length + 1, rstrip l⟩)) := by
      intro s hs hnd f hf x hx
      obtain ⟨done, cur⟩ := s
      simp only [addLine, List.mem_append, List.mem_singleton] at hf
      rcases hf with hf | rfl
      · exact hs f (by simp [hf]) x hx
      · simp only at hx
        cases hc : cur.lines with
        | nil => rw [hc] at hx; simp at hx
        | cons y ys =>
          rw [hc] at hx
          simp only [List.cons_append, List.tail_cons, List.mem_append, List.mem_singleton] at hx
          rcases hx with hx | rfl
          · exact hs cur (by simp) x (by rw [hc]; exact hx)
          · simpa [hL] using hnd
    have hblank_nd : isBlank l = true → isDecl l = false := by
      intro hb
      cases hd : isDecl l with
      | false => rfl
      | true =>
        -- a declaration starts with a letter, which is not white space
        exfalso
        cases l with
        | nil => simp [isDecl, headP] at hd
        | cons c cs =>
          have hc : isSpace c = true := by
            have := List.all_eq_true.mp hb c (by simp)
            exact this
          simp only [isDecl, headP, Bool.and_eq_true] at hd
          have := Props.C12.letter_not_space hd.1
          rw [this] at hc; cases hc
    simp only [numberFrom]
    unfold go
    simp only
    split
    · rename_i hb
      cases st with
      | none =>
        intro g hg
        simp only [flush, List.nil_append] at hg
        exact recur none trivial g hg
      | some s =>
        cases rest with
        | nil =>
          intro g hg f hf
          simp only [numberFrom, List.mem_append] at hg
          rcases hg with hg | hg
          · exact flush_A src _ hst g hg f hf
          · exact recur none trivial g hg f hf
        | cons n rest' =>
          simp only [numberFrom]
          split
          · exact recur _ (hadd s hst (hblank_nd hb))
          · intro g hg f hf
            rcases List.mem_append.mp hg with hg | hg
            · exact flush_A src _ hst g hg f hf
            · exact recur none trivial g hg f hf
    · rename_i hnb
      have hnb' : isBlank l = false := by simpa using hnb
      cases st with
      | some s =>
        simp only
        split
        · rename_i hc
          exact recur _ (hadd s hst (cont_not_decl l hc))
        · split
          · -- a new declaration inside the paragraph
            apply recur
            intro f hf x hx
            simp only [List.mem_append, List.mem_singleton] at hf
            rcases hf with hf | rfl
            · exact hst f (by simpa using hf) x hx
            · simp [fromLine] at hx
          · intro g hg f hf
            simp only [List.mem_append, List.mem_singleton] at hg
            rcases hg with (hg | rfl) | hg
            · exact flush_A src _ hst g hg f hf
            · exact hsynth hnb' f hf
            · exact recur none trivial g hg f hf
      | none =>
        simp only
        split
        · apply recur
          intro f hf x hx
          simp only [List.nil_append, List.mem_singleton] at hf
          subst hf
          simp [fromLine] at hx
        · intro g hg f hf
          simp only [List.mem_append, List.mem_singleton] at hg
          rcases hg with rfl | hg
          · exact hsynth hnb' f hf
          · exact recur none trivial g hg f hf

/-! ### what a tracked line says about its source line -/

theorem lineAt_eq (src : List Str) (n : Nat) : Props.C05.lineAt src n = lineAt src n := rfl

/-- a tracked line carries the words of the content of its source line; if it is not blank, neither are the content and
the line -/
structure LineR (src : List Str) (l : NL) : Prop where
  words : words l.val = words (content src l.num)
  nb : isBlank l.val = false → isBlank (content src l.num) = false ∧ isBlank (lineAt src l.num) = false

theorem blank_of_strip (x : Str) (h : isBlank (strip x) = false) : isBlank x = false := by
  cases hb : isBlank x with
  | false => rfl
  | true =>
    have h0 : lstrip x = [] := by
      have := Py.lstrip_all_space_append x [] (fun c hc => List.all_eq_true.mp hb c hc)
      simpa [lstrip] using this
    have : strip x = [] := by simp [strip, h0, rstrip]
    rw [this] at h; simp [isBlank] at h

theorem blank_of_rstrip (x : Str) (h : isBlank (rstrip x) = false) : isBlank x = false := by
  cases hb : isBlank x with
  | false => rfl
  | true =>
    have h1 : rstrip x = [] := (rstrip_eq_nil_iff x).mpr hb
    rw [h1] at h; simp [isBlank] at h

theorem decl_nonblank (l : Str) (h : isDecl l = true) : isBlank l = false := by
  cases l with
  | nil => simp [isDecl, headP] at h
  | cons c cs =>
    simp only [isDecl, headP, Bool.and_eq_true] at h
    have := Props.C12.letter_not_space h.1
    simp [isBlank, this]

theorem lineR_decl (src : List Str) (n : Nat) (hd : isDecl (lineAt src n) = true) :
    LineR src ⟨n, Props.C05.declValue (lineAt src n)⟩ := by
  have hc : content src n = (partitionChar ':' (lineAt src n)).2.2 := by simp [content, hd]
  refine ⟨?_, ?_⟩
  · simp only [Props.C05.declValue, hc, Proofs.Words.words_strip]
  · intro h
    simp only [Props.C05.declValue] at h
    exact ⟨by rw [hc]; exact blank_of_strip _ h, decl_nonblank _ hd⟩

theorem lineR_rest (src : List Str) (n : Nat) (hd : isDecl (lineAt src n) = false) :
    LineR src ⟨n, rstrip (lineAt src n)⟩ := by
  have hc : content src n = lineAt src n := by simp [content, hd]
  refine ⟨?_, ?_⟩
  · simp only [hc, Proofs.Words.words_rstrip]
  · intro h
    have := blank_of_rstrip _ h
    exact ⟨by rw [hc]; exact this, this⟩

theorem lineR_raw (src : List Str) (n : Nat) (hd : isDecl (lineAt src n) = false) :
    LineR src ⟨n, lineAt src n⟩ := by
  have hc : content src n = lineAt src n := by simp [content, hd]
  exact ⟨by simp only [hc], fun h => ⟨by rw [hc]; exact h, h⟩⟩

/-- everything the later stages need to know about a tracked field -/
structure FldR (src : List Str) (f : Fld) : Prop where
  lines : ∀ l ∈ f.lines, LineR src l
  cons : Props.C05.consecutive (f.lines.map (·.num)) = true
  clean : rstripLines f.lines = f.lines
  bounds : ∀ l ∈ f.lines, 1 ≤ l.num ∧ l.num ≤ src.length

theorem parse_fldR (t : Str) : ∀ g ∈ parse t, ∀ f ∈ g, FldR (srcLines t) f := by
  intro g hg f hf
  have hA : FldA (srcLines t) f := by
    have := go_A (srcLines t) (srcLines t) [] rfl none trivial
    simp only [List.length_nil, Nat.zero_add] at this
    exact this g (by simpa [parse, linesFromText, srcLines] using hg) f hf
  -- the observation-level facts of C05
  have hfin : Props.C05.Final (Props.C05.srcLines t) (Props.C05.model t) := by
    have := Props.C05.go_final (Props.C05.srcLines t) (Props.C05.srcLines t) [] rfl [] .none
      ⟨⟨(fun g hg => by cases hg), rfl, (fun n hn => by cases hn),
        (fun n h1 h2 => by simp at h2; omega)⟩, (by simp [Props.C05.PSep, Props.C05.obsOf])⟩
    simpa [Props.C05.model, parse, linesFromText, Props.C05.srcLines, Props.C05.conc] using this
  obtain ⟨hG, _, _⟩ := hfin
  have hgo : Props.C05.obsG g ∈ Props.C05.model t := by
    simp only [Props.C05.model, Props.C05.obsOf_eq]
    exact List.mem_map.mpr ⟨g, hg, rfl⟩
  have hfo : Props.C05.obsF f ∈ Props.C05.obsG g := List.mem_map.mpr ⟨f, hf, rfl⟩
  obtain ⟨_, hcons, hown⟩ := hG _ hgo
  have hbound := (Props.C05.numbers_increasing t).2
  have hb : ∀ l ∈ f.lines, 1 ≤ l.num ∧ l.num ≤ (srcLines t).length := by
    intro l hl
    apply hbound
    rw [Props.C05.allNums_model]
    simp only [Proofs.Deb822.nums, List.mem_flatMap, List.mem_map]
    exact ⟨g, hg, f, hf, l, hl, rfl⟩
  refine ⟨?_, ?_, hA.clean, hb⟩
  · -- own text
    rcases hown with hs | ho
    · -- an unparsable line standing alone
      unfold Props.C05.isSynthetic at hs
      have hgg : Props.C05.obsG g = g.map Props.C05.obsF := rfl
      cases g with
      | nil => cases hf
      | cons f0 rest =>
        cases rest with
        | cons _ _ => simp [hgg] at hs
        | nil =>
          simp only [List.mem_singleton] at hf
          subst hf
          simp only [hgg, List.map_cons, List.map_nil, Props.C05.obsF] at hs
          cases hl : f.lines with
          | nil => rw [hl] at hs; simp at hs
          | cons l0 ls =>
            rw [hl] at hs
            cases ls with
            | cons _ _ => simp at hs
            | nil =>
              simp only [List.map_cons, List.map_nil, Bool.and_eq_true, beq_iff_eq, Bool.not_eq_true'] at hs
              obtain ⟨⟨⟨_, hnd⟩, hv⟩, _⟩ := hs
              intro l hl'
              simp only [List.mem_singleton] at hl'
              subst hl'
              have : l = ⟨l.num, lineAt (srcLines t) l.num⟩ := by
                cases l; simp only [NL.mk.injEq, true_and]; exact hv
              rw [this]
              exact lineR_raw _ _ hnd
    · have := ho _ hfo
      unfold Props.C05.fieldOwnText at this
      simp only [Props.C05.obsF] at this
      cases hl : f.lines with
      | nil => intro l hl'; cases hl'
      | cons l0 ls =>
        rw [hl] at this
        simp only [List.map_cons, Bool.and_eq_true, beq_iff_eq, List.all_eq_true] at this
        obtain ⟨⟨⟨hd, _⟩, hv⟩, hrest⟩ := this
        intro l hl'
        rcases List.mem_cons.mp hl' with rfl | hl'
        · have : l = ⟨l.num, Props.C05.declValue (lineAt (srcLines t) l.num)⟩ := by
            cases l; simp only [NL.mk.injEq, true_and]; exact hv
          rw [this]
          exact lineR_decl _ _ hd
        · have hw := hrest (l.num, l.val) (List.mem_map.mpr ⟨l, hl', rfl⟩)
          have hnd := hA.restND l (by rw [hl]; exact hl')
          have : l = ⟨l.num, rstrip (lineAt (srcLines t) l.num)⟩ := by
            have hw2 : l.val = rstrip (Props.C05.lineAt (Props.C05.srcLines t) l.num) := by simpa using hw
            have hw' : l.val = rstrip (lineAt (srcLines t) l.num) := hw2
            cases l; simp only [NL.mk.injEq, true_and]; exact hw'
          rw [this]
          exact lineR_rest _ _ hnd
  · have := hcons _ hfo
    simpa [Props.C05.obsF, List.map_map, Function.comp_def] using this

/-! ### B. one paragraph: what `from_fields` records -/

open Proofs.CopyrightTotal in
/-- what one step of the loop of `from_fields` does -/
theorem addField_spec (kn : List Str) (a : Acc) (f : Fld) (hs : KeysSeen a) (hl : ∀ k ∈ a.lines.map (·.1), k ∈ a.seen) :
    ((fieldText f).isEmpty = true ∧ addField kn a f = .ok a) ∨
    ((fieldText f).isEmpty = false ∧ ∃ name suffix first last, name ∉ a.seen ∧ f.lines.head? = some first ∧ f.lines.getLast? = some last ∧
      ((kn.contains name = true ∧ addField kn a f = .ok
          { a with seen := a.seen ++ [name], suffix := suffix,
                   lines := a.lines ++ [(name, (first.num + (f.lines.takeWhile fun l => isBlank l.val).length, last.num))],
                   known := a.known ++ [(name, lstrip (fieldText f))] }) ∨
       (kn.contains name = false ∧ addField kn a f = .ok
          { a with seen := a.seen ++ [name], suffix := suffix,
                   lines := a.lines ++ [(name, (first.num + (f.lines.takeWhile fun l => isBlank l.val).length, last.num))],
                   extra := a.extra ++ [(name, .s (lstrip (fieldText f)))] }))) := by
  unfold addField
  simp only
  by_cases hv : (fieldText f).isEmpty = true
  · left; exact ⟨hv, by simp [hv]⟩
  · right
    have hv' : (fieldText f).isEmpty = false := by simpa using hv
    refine ⟨hv', ?_⟩
    simp only [hv', Bool.false_eq_true, if_false]
    obtain ⟨name, suffix, hfresh, hnotin⟩ :=
      freshName_some (replaceChar '-' '_' f.name) a.seen (a.seen.length + 1) (replaceChar '-' '_' f.name) a.suffix
        (Nat.lt_succ_self _) (Or.inl rfl)
    rw [hfresh]
    simp only
    have hkm : name ∉ a.known.map (·.1) := fun h => hnotin (hs.1 name h)
    have hem : name ∉ a.extra.map (·.1) := fun h => hnotin (hs.2 name h)
    have hlm : name ∉ a.lines.map (·.1) := fun h => hnotin (hl name h)
    have hk : (a.known.lookup name).isSome = false := by
      cases h : (a.known.lookup name).isSome with
      | false => rfl
      | true => exact absurd (lookup_isSome_mem _ _ h) hkm
    have he : (a.extra.lookup name).isSome = false := by
      cases h : (a.extra.lookup name).isSome with
      | false => rfl
      | true => exact absurd (lookup_isSome_mem _ _ h) hem
    simp only [hk, he, Bool.and_false, Bool.or_self, Bool.false_eq_true, if_false]
    have hne : f.lines ≠ [] := by
      intro e
      apply hv
      simp [fieldText, e, Model.Debcon.joinNl]
    cases hll : f.lines with
    | nil => exact absurd hll hne
    | cons l ls =>
      have hlast : ∃ x, (l :: ls).getLast? = some x := ⟨(l :: ls).getLast (by simp), List.getLast?_eq_some_getLast _⟩
      obtain ⟨x, hx⟩ := hlast
      refine ⟨name, suffix, l, x, hnotin, rfl, hx, ?_⟩
      simp only [List.head?_cons, hx]
      rw [Props.C13P.lset_absent a.lines name _ hlm]
      by_cases hkn : kn.contains name = true
      · left; exact ⟨hkn, by simp only [hkn, if_true]⟩
      · have hkn' : kn.contains name = false := by simpa using hkn
        right; exact ⟨hkn', by simp only [hkn', Bool.false_eq_true, if_false]⟩

/-- what the property asks of the range of a value -/
structure RangeR (src : List Str) (s e : Nat) (v : Str) : Prop where
  lo : 1 ≤ s
  le : s ≤ e
  hi : e ≤ src.length
  first : isBlank (content src s) = false
  last : isBlank (lineAt src e) = false
  wds : subMultiset (words v) (rangeWords src s e) = true

theorem subMultiset_refl (a : List Str) : subMultiset a a = true := by
  have := (Props.C11.removeAll_nil_iff a a).mpr (List.Perm.refl a)
  simp [subMultiset, this]

theorem consecutive_range (l : List Nat) (a : Nat) (h : Props.C05.consecutive (a :: l) = true) :
    a :: l = List.range' a (l.length + 1) := by
  induction l generalizing a with
  | nil => rfl
  | cons b bs ih =>
    simp only [Props.C05.consecutive, Bool.and_eq_true, decide_eq_true_eq] at h
    have := ih b h.2
    rw [List.length_cons, List.range'_succ, ← h.1, ← this]

theorem rstrip_fixed_last (ls : List NL) (h : rstripLines ls = ls) : ∀ l ∈ ls.getLast?, isBlank l.val = false := by
  induction ls with
  | nil => intro l hl; cases hl
  | cons x xs ih =>
    intro l hl
    by_cases hx : rstripLines xs = []
    · rw [rstripLines_cons_nil x xs hx] at h
      by_cases hb : isBlank x.val = true
      · simp [hb] at h
      · simp only [hb, Bool.false_eq_true, if_false, List.cons.injEq, true_and] at h
        subst h
        simp only [List.getLast?_singleton, Option.mem_def, Option.some.injEq] at hl
        subst hl
        simpa using hb
    · rw [rstripLines_cons_ne x xs hx] at h
      have hxs : rstripLines xs = xs := by simpa using h
      cases xs with
      | nil => exact absurd rfl (by rw [← hxs] at hx; exact hx)
      | cons y ys =>
        rw [List.getLast?_cons_cons] at hl
        exact ih hxs l hl

theorem flatMap_congr'' {α β} (l : List α) (f g : α → List β) (h : ∀ a ∈ l, f a = g a) : l.flatMap f = l.flatMap g := by
  induction l with
  | nil => rfl
  | cons a as ih => simp only [List.flatMap_cons, h a (by simp), ih (fun x hx => h x (by simp [hx]))]

theorem flatMap_range_nums (src : List Str) (B : List NL) (s : Nat) (h : B.map (·.num) = List.range' s B.length) :
    B.flatMap (fun l => words (content src l.num)) = (List.range B.length).flatMap fun i => words (content src (s + i)) := by
  induction B generalizing s with
  | nil => rfl
  | cons b bs ih =>
    simp only [List.map_cons, List.length_cons, List.range'_succ, List.cons.injEq] at h
    rw [List.flatMap_cons, ih (s + 1) h.2, List.length_cons, List.range_succ_eq_map, List.flatMap_cons, List.flatMap_map, h.1]
    congr 1
    apply flatMap_congr''
    intro i _
    show words (content src (s + 1 + i)) = words (content src (s + (i + 1)))
    congr 2
    omega

/-- split a list of lines at the first one that is not blank -/
theorem split_blank (ls : List NL) :
    ∃ A B, ls = A ++ B ∧ (∀ l ∈ A, isBlank l.val = true) ∧ (∀ b ∈ B.head?, isBlank b.val = false) ∧
      (ls.takeWhile fun l => isBlank l.val).length = A.length := by
  induction ls with
  | nil => exact ⟨[], [], rfl, by simp, by simp, rfl⟩
  | cons x xs ih =>
    by_cases hx : isBlank x.val = true
    · obtain ⟨A, B, h1, h2, h3, h4⟩ := ih
      refine ⟨x :: A, B, by rw [h1]; rfl, ?_, h3, ?_⟩
      · intro l hl
        rcases List.mem_cons.mp hl with rfl | hl
        · exact hx
        · exact h2 l hl
      · simp [List.takeWhile_cons, hx, h4]
    · refine ⟨[], x :: xs, rfl, by simp, ?_, ?_⟩
      · intro b hb
        simp only [List.head?_cons, Option.mem_def, Option.some.injEq] at hb
        subst hb; simpa using hx
      · simp [List.takeWhile_cons, hx]

theorem nums_split (A : List NL) (b0 : NL) (B' : List NL) (a : Nat)
    (h : (A ++ b0 :: B').map (·.num) = List.range' a (A ++ b0 :: B').length) :
    b0.num = a + A.length ∧ B'.map (·.num) = List.range' (a + A.length + 1) B'.length ∧
    ∀ l ∈ A, a ≤ l.num ∧ l.num < a + A.length := by
  induction A generalizing a with
  | nil =>
    simp only [List.nil_append, List.map_cons, List.length_cons, List.range'_succ, List.cons.injEq] at h
    exact ⟨by simpa using h.1, by simpa using h.2, by simp⟩
  | cons x xs ih =>
    simp only [List.cons_append, List.map_cons, List.length_cons, List.range'_succ, List.cons.injEq] at h
    obtain ⟨h1, h2, h3⟩ := ih (a + 1) (by simpa using h.2)
    refine ⟨by rw [h1, List.length_cons]; omega, by rw [h2, List.length_cons]; congr 1; omega, ?_⟩
    intro l hl
    rcases List.mem_cons.mp hl with rfl | hl
    · rw [h.1, List.length_cons]; omega
    · have := h3 l hl; rw [List.length_cons]; omega

/-- **the range recorded for a field**: it starts at the first line of the field that is not blank, ends at its last
line, and those lines spell exactly the words of the value -/
theorem field_range (src : List Str) (f : Fld) (hR : FldR src f) (hv : (fieldText f).isEmpty = false)
    (first last : NL) (hf : f.lines.head? = some first) (hl : f.lines.getLast? = some last) :
    RangeR src (first.num + (f.lines.takeWhile fun l => isBlank l.val).length) last.num (lstrip (fieldText f)) ∧
    first.num ≤ first.num + (f.lines.takeWhile fun l => isBlank l.val).length ∧
    (∀ l ∈ f.lines, first.num ≤ l.num ∧ l.num ≤ last.num) := by
  have hlastnb := rstrip_fixed_last f.lines hR.clean last hl
  obtain ⟨A, B, hsplit, hAb, hBh, hlenA⟩ := split_blank f.lines
  rw [hlenA]
  -- `B` is not empty: the last line is not blank
  have hlastB : last ∈ B := by
    have hm : last ∈ f.lines := List.mem_of_getLast? hl
    rw [hsplit] at hm
    rcases List.mem_append.mp hm with h | h
    · have := hAb last h; rw [hlastnb] at this; cases this
    · exact h
  obtain ⟨b0, B', hBB⟩ : ∃ b0 B', B = b0 :: B' := by
    cases B with
    | nil => cases hlastB
    | cons b0 B' => exact ⟨b0, B', rfl⟩
  subst hBB
  have hb0 : isBlank b0.val = false := hBh b0 rfl
  -- numbers
  obtain ⟨rest, hfl⟩ : ∃ rest, f.lines = first :: rest := by
    cases hll : f.lines with
    | nil => rw [hll] at hf; cases hf
    | cons x xs => rw [hll] at hf; simp at hf; exact ⟨xs, by rw [hf]⟩
  have hnums : f.lines.map (·.num) = List.range' first.num f.lines.length := by
    have := consecutive_range (rest.map (·.num)) first.num (by have := hR.cons; rw [hfl] at this; simpa using this)
    rw [hfl, List.map_cons, this]; simp
  rw [hsplit] at hnums
  obtain ⟨hb0n, hB'n, hAn⟩ := nums_split A b0 B' first.num hnums
  -- the last line
  have hlast_num : last.num = first.num + A.length + B'.length := by
    have hgl : (A ++ b0 :: B').getLast? = some last := by rw [← hsplit]; exact hl
    rw [List.getLast?_append] at hgl
    have hne : (b0 :: B').getLast? = some ((b0 :: B').getLast (by simp)) := List.getLast?_eq_some_getLast _
    rw [hne] at hgl
    simp only [Option.some_or] at hgl
    rw [← hne] at hgl
    cases hB' : B' with
    | nil =>
      rw [hB'] at hgl
      simp only [List.getLast?_singleton, Option.some.injEq] at hgl
      rw [← hgl, hb0n]; simp
    | cons c cs =>
      have hm : last ∈ B' := by
        rw [hB'] at hgl ⊢
        rw [List.getLast?_cons_cons] at hgl
        exact List.mem_of_getLast? hgl
      -- the last of a range
      have : (B'.map (·.num)).getLast? = some last.num := by
        rw [hB'] at hgl ⊢
        rw [List.getLast?_cons_cons] at hgl
        rw [List.getLast?_map, hgl]; rfl
      rw [hB'n] at this
      have hr : (List.range' (first.num + A.length + 1) B'.length).getLast? = some (first.num + A.length + 1 + (B'.length - 1)) := by
        rw [hB']
        simp [List.getLast?_range']
      rw [hr] at this
      have hpos : B'.length ≥ 1 := by rw [hB']; simp
      have hlenB : B'.length = (c :: cs).length := by rw [hB']
      have := Option.some.inj this
      omega
  have hb := hR.bounds
  refine ⟨⟨?_, ?_, ?_, ?_, ?_, ?_⟩, by omega, ?_⟩
  · have := (hb first (by rw [hfl]; simp)).1; omega
  · omega
  · exact (hb last (List.mem_of_getLast? hl)).2
  · have := (hR.lines b0 (by rw [hsplit]; simp)).nb hb0
    rw [hb0n] at this; exact this.1
  · exact ((hR.lines last (List.mem_of_getLast? hl)).nb hlastnb).2
  · -- the words
    have hw : words (lstrip (fieldText f)) = (A ++ b0 :: B').flatMap fun l => words (content src l.num) := by
      rw [Proofs.Words.words_lstrip, Props.C11W.words_fieldText, Props.C11W.fldWords, hsplit]
      apply flatMap_congr''
      intro l hl'
      exact (hR.lines l (by rw [hsplit]; exact hl')).words
    have hA0 : A.flatMap (fun l => words (content src l.num)) = [] := by
      rw [List.flatMap_eq_nil_iff]
      intro l hl'
      rw [← (hR.lines l (by rw [hsplit]; simp [hl'])).words]
      have := hAb l hl'
      simp [Spec.Words.words, Proofs.Words.splitWs_all_space l.val (fun c hc => List.all_eq_true.mp this c hc)]
    have hrw : rangeWords src (first.num + A.length) last.num =
        (b0 :: B').flatMap fun l => words (content src l.num) := by
      unfold rangeWords
      rw [List.flatMap_cons, hb0n, flatMap_range_nums src B' (first.num + A.length + 1) hB'n]
      have : last.num - (first.num + A.length) = B'.length := by omega
      rw [this]
    rw [hw, List.flatMap_append, hA0, List.nil_append, hrw]
    exact subMultiset_refl _
  · intro l hl'
    rw [hsplit] at hl'
    rcases List.mem_append.mp hl' with h | h
    · have := hAn l h; omega
    · rcases List.mem_cons.mp h with rfl | h
      · omega
      · have hm : l.num ∈ B'.map (·.num) := List.mem_map.mpr ⟨l, h, rfl⟩
        rw [hB'n, List.mem_range'_1] at hm
        omega

/-! ### multiset inclusion -/

theorem subMultiset_iff (a : List Str) : ∀ b, subMultiset a b = true ↔ ∃ c, (a ++ c).Perm b := by
  induction a with
  | nil =>
    intro b
    simp only [subMultiset, removeAll, Option.isSome_some, List.nil_append, true_iff]
    exact ⟨b, List.Perm.refl _⟩
  | cons x xs ih =>
    intro b
    simp only [subMultiset, removeAll]
    by_cases hx : x ∈ b
    · simp only [List.contains_iff_mem, hx, if_true]
      have := ih (b.erase x)
      simp only [subMultiset] at this
      rw [this]
      constructor
      · rintro ⟨c, hc⟩
        exact ⟨c, (List.Perm.cons x hc).trans (List.perm_cons_erase hx).symm⟩
      · rintro ⟨c, hc⟩
        exact ⟨c, List.Perm.cons_inv (hc.trans (List.perm_cons_erase hx))⟩
    · simp only [List.contains_iff_mem, hx, if_false, Option.isSome_none, Bool.false_eq_true, false_iff]
      rintro ⟨c, hc⟩
      exact hx (hc.subset (by simp))

theorem subMultiset_of_sublist (a b : List Str) (h : a.Sublist b) : subMultiset a b = true := by
  rw [subMultiset_iff]
  induction h with
  | slnil => exact ⟨[], List.Perm.refl _⟩
  | @cons a b y _ ih =>
    obtain ⟨c, hc⟩ := ih
    exact ⟨y :: c, (List.perm_middle).trans (List.Perm.cons y hc)⟩
  | @cons_cons a b y _ ih =>
    obtain ⟨c, hc⟩ := ih
    exact ⟨c, List.Perm.cons y hc⟩

theorem subMultiset_append (a a' b b' : List Str) (h : subMultiset a b = true) (h' : subMultiset a' b' = true) :
    subMultiset (a ++ a') (b ++ b') = true := by
  rw [subMultiset_iff] at *
  obtain ⟨c, hc⟩ := h
  obtain ⟨c', hc'⟩ := h'
  refine ⟨c ++ c', ?_⟩
  have : ((a ++ a') ++ (c ++ c')).Perm ((a ++ c) ++ (a' ++ c')) := by
    simp only [List.append_assoc]
    apply List.Perm.append_left
    rw [← List.append_assoc, ← List.append_assoc]
    exact List.Perm.append_right _ List.perm_append_comm
  exact this.trans (List.Perm.append hc hc')

theorem subMultiset_trans_sublist (a b b' : List Str) (h : subMultiset a b = true) (hs : b.Sublist b') :
    subMultiset a b' = true := by
  rw [subMultiset_iff] at *
  obtain ⟨c, hc⟩ := h
  have := (subMultiset_iff b b').mp (subMultiset_of_sublist b b' hs)
  obtain ⟨d, hd⟩ := this
  exact ⟨c ++ d, by rw [← List.append_assoc]; exact (List.Perm.append_right d hc).trans hd⟩

/-- the words of the lines `s..e` -/
def W (src : List Str) (s e : Nat) : List Str := (List.range' s (e + 1 - s)).flatMap fun m => words (content src m)

theorem rangeWords_eq (src : List Str) (s e : Nat) (h : s ≤ e) : rangeWords src s e = W src s e := by
  unfold rangeWords W
  have : e + 1 - s = (e - s) + 1 := by omega
  rw [this, List.range'_succ, List.flatMap_cons]
  congr 1
  rw [List.range'_eq_map_range, List.flatMap_map]

theorem sublist_flatMap {α β} (f : α → List β) (l l' : List α) (h : l.Sublist l') : (l.flatMap f).Sublist (l'.flatMap f) := by
  induction h with
  | slnil => exact List.Sublist.slnil
  | @cons a b y _ ih =>
    rw [List.flatMap_cons]
    exact List.sublist_append_of_sublist_right ih
  | @cons_cons a b y _ ih =>
    rw [List.flatMap_cons, List.flatMap_cons]
    exact List.Sublist.append (List.Sublist.refl _) ih

theorem W_sublist (src : List Str) (s e s' e' : Nat) (h1 : s ≤ e) (h2 : e < s') (h3 : s' ≤ e') :
    (W src s e ++ W src s' e').Sublist (W src s e') := by
  unfold W
  rw [← List.flatMap_append]
  apply sublist_flatMap
  -- range' s .. e ++ range' s' .. e' is a sublist of range' s .. e'
  have e1 : List.range' s (e' + 1 - s) =
      List.range' s (e + 1 - s) ++ (List.range' (e + 1) (s' - (e + 1)) ++ List.range' s' (e' + 1 - s')) := by
    have a1 : s + (e + 1 - s) = e + 1 := by omega
    have a2 : e + 1 + (s' - (e + 1)) = s' := by omega
    have h12 : List.range' (e + 1) (s' - (e + 1)) ++ List.range' s' (e' + 1 - s') =
        List.range' (e + 1) ((s' - (e + 1)) + (e' + 1 - s')) := by
      have := List.range'_append_1 (s := e + 1) (m := s' - (e + 1)) (n := e' + 1 - s')
      rw [a2] at this; exact this
    rw [h12]
    have := List.range'_append_1 (s := s) (m := e + 1 - s) (n := (s' - (e + 1)) + (e' + 1 - s'))
    rw [a1] at this
    rw [this]
    congr 1
    omega
  rw [e1]
  exact List.Sublist.append (List.Sublist.refl _) (List.sublist_append_right _ _)

/-! ### the accumulator of `from_fields` -/

theorem mem_joinNl (ls : List Str) (l : Str) (hl : l ∈ ls) (c : Char) (hc : c ∈ l) : c ∈ Model.Debcon.joinNl ls := by
  induction ls with
  | nil => cases hl
  | cons x xs ih =>
    cases xs with
    | nil =>
      simp only [List.mem_singleton] at hl
      subst hl
      simpa [Model.Debcon.joinNl] using hc
    | cons y ys =>
      have e : Model.Debcon.joinNl (x :: y :: ys) = x ++ '\n' :: Model.Debcon.joinNl (y :: ys) := rfl
      rw [e]
      rcases List.mem_cons.mp hl with rfl | hl
      · simp [hc]
      · simp [ih hl]

theorem lstrip_value_ne (f : Fld) (last : NL) (hl : f.lines.getLast? = some last) (hnb : isBlank last.val = false) :
    lstrip (fieldText f) ≠ [] := by
  intro e
  obtain ⟨w, hw, hdec⟩ := lstrip_decomp (fieldText f)
  rw [e, List.append_nil] at hdec
  have : isBlank last.val = true := by
    rw [isBlank, List.all_eq_true]
    intro c hc
    apply hw
    rw [← hdec]
    exact mem_joinNl _ last.val (List.mem_map.mpr ⟨last, List.mem_of_getLast? hl, rfl⟩) c hc
  rw [hnb] at this; cases this

open Proofs.CopyrightTotal in
structure AccR (src : List Str) (kn : List Str) (a : Acc) (B0 B : Nat) : Prop where
  seen : KeysSeen a
  lseen : ∀ k ∈ a.lines.map (·.1), k ∈ a.seen
  knd : (a.known.map (·.1)).Nodup
  xnd : (a.extra.map (·.1)).Nodup
  lnd : (a.lines.map (·.1)).Nodup
  kin : ∀ k ∈ a.known.map (·.1), k ∈ kn
  xout : ∀ k ∈ a.extra.map (·.1), k ∉ kn
  kval : ∀ kv ∈ a.known, kv.2 ≠ [] ∧ headP isSpace kv.2 = false ∧ ∃ r, (kv.1, r) ∈ a.lines ∧ RangeR src r.1 r.2 kv.2
  xval : ∀ kv ∈ a.extra, ∃ v, kv.2 = XV.s v ∧ v ≠ [] ∧ ∃ r, (kv.1, r) ∈ a.lines ∧ RangeR src r.1 r.2 v
  lval : ∀ kr ∈ a.lines, ∃ v, RangeR src kr.2.1 kr.2.2 v
  lpart : ∀ kr ∈ a.lines, kr.1 ∈ a.known.map (·.1) ∨ kr.1 ∈ a.extra.map (·.1)
  xents : kn = [] → ∃ ents : List (Str × Str × (Nat × Nat)),
    a.extra = ents.map (fun e => (e.1, XV.s e.2.1)) ∧ a.lines = ents.map (fun e => (e.1, e.2.2)) ∧
    ∀ e ∈ ents, e.2.1 ≠ [] ∧ RangeR src e.2.2.1 e.2.2.2 e.2.1
  ord : (a.lines.map (·.2)).Pairwise (fun r r' => r.2 < r'.1)
  bnd : ∀ kr ∈ a.lines, kr.2.2 < B
  lob : ∀ kr ∈ a.lines, B0 ≤ kr.2.1
  b0 : B0 ≤ B

theorem lstrip_head (x : Str) : headP isSpace (lstrip x) = false := by
  induction x with
  | nil => rfl
  | cons c cs ih =>
    unfold lstrip
    by_cases h : isSpace c = true
    · simp only [h, if_true]; exact ih
    · simp only [h, Bool.false_eq_true, if_false, headP]

open Proofs.CopyrightTotal in
theorem addField_R (src : List Str) (kn : List Str) (a : Acc) (f : Fld) (B0 B B' : Nat) (hinv : AccR src kn a B0 B)
    (hR : FldR src f) (hlo : ∀ l ∈ f.lines, B ≤ l.num) (hhi : ∀ l ∈ f.lines, l.num < B') (hBB : B ≤ B') :
    ∃ a', addField kn a f = .ok a' ∧ AccR src kn a' B0 B' := by
  rcases addField_spec kn a f hinv.seen hinv.lseen with ⟨_, he⟩ | ⟨hv, name, suffix, first, last, hnotin, hf, hl, hcase⟩
  · exact ⟨a, he, { hinv with bnd := fun kr h => by have := hinv.bnd kr h; omega, b0 := by have := hinv.b0; omega }⟩
  · obtain ⟨hrange, _, hall⟩ := field_range src f hR hv first last hf hl
    have hlastnb := rstrip_fixed_last f.lines hR.clean last hl
    have hvne := lstrip_value_ne f last hl hlastnb
    have hfm : first ∈ f.lines := by
      cases hll : f.lines with
      | nil => rw [hll] at hf; cases hf
      | cons x xs => rw [hll] at hf; simp at hf; subst hf; simp
    have hlm : last ∈ f.lines := List.mem_of_getLast? hl
    have hkm : name ∉ a.known.map (·.1) := fun h => hnotin (hinv.seen.1 name h)
    have hem : name ∉ a.extra.map (·.1) := fun h => hnotin (hinv.seen.2 name h)
    have hlnm : name ∉ a.lines.map (·.1) := fun h => hnotin (hinv.lseen name h)
    -- facts common to both branches
    have hlseen' : ∀ k ∈ (a.lines ++ [(name, (first.num + (f.lines.takeWhile fun l => isBlank l.val).length, last.num))]).map (·.1),
        k ∈ a.seen ++ [name] := by
      intro k hk
      simp only [List.map_append, List.map_cons, List.map_nil, List.mem_append, List.mem_singleton] at hk ⊢
      rcases hk with h | h
      · exact Or.inl (hinv.lseen k h)
      · exact Or.inr h
    have hlnd' : ((a.lines ++ [(name, (first.num + (f.lines.takeWhile fun l => isBlank l.val).length, last.num))]).map (·.1)).Nodup := by
      simp only [List.map_append, List.map_cons, List.map_nil]
      rw [List.nodup_append]
      refine ⟨hinv.lnd, by simp, ?_⟩
      intro x hx y hy
      simp only [List.mem_singleton] at hy
      subst hy
      intro e; subst e; exact hlnm hx
    have hlval' : ∀ kr ∈ a.lines ++ [(name, (first.num + (f.lines.takeWhile fun l => isBlank l.val).length, last.num))],
        ∃ v, RangeR src kr.2.1 kr.2.2 v := by
      intro kr hkr
      rcases List.mem_append.mp hkr with h | h
      · exact hinv.lval kr h
      · simp only [List.mem_singleton] at h; subst h; exact ⟨_, hrange⟩
    have hord' : ((a.lines ++ [(name, (first.num + (f.lines.takeWhile fun l => isBlank l.val).length, last.num))]).map (·.2)).Pairwise
        (fun r r' => r.2 < r'.1) := by
      simp only [List.map_append, List.map_cons, List.map_nil]
      rw [List.pairwise_append]
      refine ⟨hinv.ord, by simp, ?_⟩
      intro r hr r' hr'
      simp only [List.mem_singleton] at hr'
      subst hr'
      obtain ⟨kr, hkr, rfl⟩ := List.mem_map.mp hr
      have := hinv.bnd kr hkr
      have := hlo first hfm
      simp only
      omega
    have hbnd' : ∀ kr ∈ a.lines ++ [(name, (first.num + (f.lines.takeWhile fun l => isBlank l.val).length, last.num))], kr.2.2 < B' := by
      intro kr hkr
      rcases List.mem_append.mp hkr with h | h
      · have := hinv.bnd kr h; omega
      · simp only [List.mem_singleton] at h; subst h; exact hhi last hlm
    have hlob' : ∀ kr ∈ a.lines ++ [(name, (first.num + (f.lines.takeWhile fun l => isBlank l.val).length, last.num))], B0 ≤ kr.2.1 := by
      intro kr hkr
      rcases List.mem_append.mp hkr with h | h
      · exact hinv.lob kr h
      · simp only [List.mem_singleton] at h; subst h
        have := hlo first hfm
        have := hinv.b0
        simp only
        omega
    have hb0' : B0 ≤ B' := by have := hinv.b0; omega
    rcases hcase with ⟨hkn, hres⟩ | ⟨hkn, hres⟩
    · refine ⟨_, hres, ?_⟩
      constructor
      · constructor
        · intro k hk
          simp only [List.map_append, List.map_cons, List.map_nil, List.mem_append, List.mem_singleton] at hk ⊢
          rcases hk with h | h
          · exact Or.inl (hinv.seen.1 k h)
          · exact Or.inr h
        · intro k hk
          simp only [List.mem_append, List.mem_singleton]
          exact Or.inl (hinv.seen.2 k hk)
      · exact hlseen'
      · simp only [List.map_append, List.map_cons, List.map_nil]
        rw [List.nodup_append]
        refine ⟨hinv.knd, by simp, ?_⟩
        intro x hx y hy
        simp only [List.mem_singleton] at hy
        subst hy
        intro e; subst e; exact hkm hx
      · exact hinv.xnd
      · exact hlnd'
      · intro k hk
        simp only [List.map_append, List.map_cons, List.map_nil, List.mem_append, List.mem_singleton] at hk
        rcases hk with h | h
        · exact hinv.kin k h
        · rw [h]; exact List.contains_iff_mem.mp hkn
      · exact hinv.xout
      · intro kv hkv
        rcases List.mem_append.mp hkv with h | h
        · obtain ⟨h1, h2, r, hr, hrr⟩ := hinv.kval kv h
          exact ⟨h1, h2, r, List.mem_append.mpr (Or.inl hr), hrr⟩
        · simp only [List.mem_singleton] at h
          subst h
          exact ⟨hvne, lstrip_head _, (first.num + (f.lines.takeWhile fun l => isBlank l.val).length, last.num),
            List.mem_append.mpr (Or.inr (by simp)), hrange⟩
      · intro kv hkv
        obtain ⟨v, h1, h2, r, hr, hrr⟩ := hinv.xval kv hkv
        exact ⟨v, h1, h2, r, List.mem_append.mpr (Or.inl hr), hrr⟩
      · exact hlval'
      · intro kr hkr
        rcases List.mem_append.mp hkr with h | h
        · rcases hinv.lpart kr h with h' | h'
          · left; simp only [List.map_append, List.mem_append]; exact Or.inl h'
          · right; exact h'
        · simp only [List.mem_singleton] at h; subst h
          left; simp
      · intro hk0
        rw [hk0] at hkn; simp at hkn
      · exact hord'
      · exact hbnd'
      · exact hlob'
      · exact hb0'
    · refine ⟨_, hres, ?_⟩
      constructor
      · constructor
        · intro k hk
          simp only [List.mem_append, List.mem_singleton]
          exact Or.inl (hinv.seen.1 k hk)
        · intro k hk
          simp only [List.map_append, List.map_cons, List.map_nil, List.mem_append, List.mem_singleton] at hk ⊢
          rcases hk with h | h
          · exact Or.inl (hinv.seen.2 k h)
          · exact Or.inr h
      · exact hlseen'
      · exact hinv.knd
      · simp only [List.map_append, List.map_cons, List.map_nil]
        rw [List.nodup_append]
        refine ⟨hinv.xnd, by simp, ?_⟩
        intro x hx y hy
        simp only [List.mem_singleton] at hy
        subst hy
        intro e; subst e; exact hem hx
      · exact hlnd'
      · exact hinv.kin
      · intro k hk
        simp only [List.map_append, List.map_cons, List.map_nil, List.mem_append, List.mem_singleton] at hk
        rcases hk with h | h
        · exact hinv.xout k h
        · rw [h]; intro hm; have := List.contains_iff_mem.mpr hm; rw [hkn] at this; cases this
      · intro kv hkv
        obtain ⟨h1, h2, r, hr, hrr⟩ := hinv.kval kv hkv
        exact ⟨h1, h2, r, List.mem_append.mpr (Or.inl hr), hrr⟩
      · intro kv hkv
        rcases List.mem_append.mp hkv with h | h
        · obtain ⟨v, h1, h2, r, hr, hrr⟩ := hinv.xval kv h
          exact ⟨v, h1, h2, r, List.mem_append.mpr (Or.inl hr), hrr⟩
        · simp only [List.mem_singleton] at h
          subst h
          exact ⟨_, rfl, hvne, (first.num + (f.lines.takeWhile fun l => isBlank l.val).length, last.num),
            List.mem_append.mpr (Or.inr (by simp)), hrange⟩
      · exact hlval'
      · intro kr hkr
        rcases List.mem_append.mp hkr with h | h
        · rcases hinv.lpart kr h with h' | h'
          · left; exact h'
          · right; simp only [List.map_append, List.mem_append]; exact Or.inl h'
        · simp only [List.mem_singleton] at h; subst h
          right; simp
      · intro hk0
        obtain ⟨ents, he1, he2, he3⟩ := hinv.xents hk0
        refine ⟨ents ++ [(name, lstrip (fieldText f), (first.num + (f.lines.takeWhile fun l => isBlank l.val).length, last.num))], ?_, ?_, ?_⟩
        · simp only [List.map_append, List.map_cons, List.map_nil, he1]
        · simp only [List.map_append, List.map_cons, List.map_nil, he2]
        · intro e he
          rcases List.mem_append.mp he with h | h
          · exact he3 e h
          · simp only [List.mem_singleton] at h; subst h
            exact ⟨hvne, hrange⟩
      · exact hord'
      · exact hbnd'
      · exact hlob'
      · exact hb0'

def fnums (f : Fld) : List Nat := f.lines.map (·.num)

theorem pairwise_le_last (l : List Nat) (h : l.Pairwise (· < ·)) (m : Nat) (hm : l.getLast? = some m) : ∀ n ∈ l, n ≤ m := by
  obtain ⟨init, rfl⟩ := List.getLast?_eq_some_iff.mp hm
  rw [List.pairwise_append] at h
  intro n hn
  rcases List.mem_append.mp hn with h1 | h1
  · exact Nat.le_of_lt (h.2.2 n h1 m (by simp))
  · simp at h1; omega

theorem addFields_R (src : List Str) (kn : List Str) (fs : List Fld) (a : Acc) (B0 B Bend : Nat) (hinv : AccR src kn a B0 B)
    (hR : ∀ f ∈ fs, FldR src f) (hpw : (fs.flatMap fnums).Pairwise (· < ·))
    (hlo : ∀ n ∈ fs.flatMap fnums, B ≤ n) (hhi : ∀ n ∈ fs.flatMap fnums, n < Bend) (hB : B ≤ Bend) :
    ∃ a', addFields kn a fs = .ok a' ∧ AccR src kn a' B0 Bend := by
  induction fs generalizing a B with
  | nil => exact ⟨a, rfl, { hinv with bnd := fun kr h => by have := hinv.bnd kr h; omega, b0 := by have := hinv.b0; omega }⟩
  | cons f fs ih =>
    rw [List.flatMap_cons, List.pairwise_append] at hpw
    -- the bound after this field: one past its last line
    cases hlast : (fnums f).getLast? with
    | none =>
      have hnil : f.lines = [] := by
        have := List.getLast?_eq_none_iff.mp hlast
        simpa [fnums] using this
      obtain ⟨a1, h1, hi1⟩ := addField_R src kn a f B0 B B hinv (hR f (by simp))
        (by intro l hl; rw [hnil] at hl; cases hl) (by intro l hl; rw [hnil] at hl; cases hl) (Nat.le_refl _)
      obtain ⟨a2, h2, hi2⟩ := ih a1 B hi1 (fun g hg => hR g (by simp [hg])) hpw.2.1
        (fun n hn => hlo n (by rw [List.flatMap_cons]; exact List.mem_append.mpr (Or.inr hn)))
        (fun n hn => hhi n (by rw [List.flatMap_cons]; exact List.mem_append.mpr (Or.inr hn))) hB
      exact ⟨a2, by simp [addFields, h1, h2], hi2⟩
    | some m =>
      have hle := pairwise_le_last (fnums f) hpw.1 m hlast
      have hmm : m ∈ fnums f := List.mem_of_getLast? hlast
      have hmB : m < Bend := hhi m (by rw [List.flatMap_cons]; exact List.mem_append.mpr (Or.inl hmm))
      obtain ⟨a1, h1, hi1⟩ := addField_R src kn a f B0 B (m + 1) hinv (hR f (by simp))
        (fun l hl => hlo l.num (by rw [List.flatMap_cons]; exact List.mem_append.mpr (Or.inl (List.mem_map.mpr ⟨l, hl, rfl⟩))))
        (fun l hl => Nat.lt_succ_of_le (hle l.num (List.mem_map.mpr ⟨l, hl, rfl⟩)))
        (by have := hlo m (by rw [List.flatMap_cons]; exact List.mem_append.mpr (Or.inl hmm)); omega)
      obtain ⟨a2, h2, hi2⟩ := ih a1 (m + 1) hi1 (fun g hg => hR g (by simp [hg])) hpw.2.1
        (fun n hn => by have := hpw.2.2 m hmm n hn; omega)
        (fun n hn => hhi n (by rw [List.flatMap_cons]; exact List.mem_append.mpr (Or.inr hn))) (by omega)
      exact ⟨a2, by simp [addFields, h1, h2], hi2⟩

/-! ### the paragraph `from_fields` builds -/

open Props.C11W in
structure ParaV (src : List Str) (p : Para) : Prop where
  lnd : (p.lines.map (·.1)).Nodup
  dnd : ((toDict p).map (·.1)).Nodup
  val : ∀ k v, (k, XV.s v) ∈ toDict p → v ≠ [] → ∃ r, (k, r) ∈ p.lines ∧ RangeR src r.1 r.2 v
  lval : ∀ kr ∈ p.lines, ∃ v, RangeR src kr.2.1 kr.2.2 v
  lic : p.kind = .license → licenseParaIsEmpty p = true → licKey ∉ p.lines.map (·.1)
  lkeys : ∀ k ∈ p.lines.map (·.1), k ∈ (toDict p).map (·.1)
  shape : LicShape p

/-- a catch-all paragraph as `from_fields` builds it: its extra data and its ranges are the same entries, in order -/
def ParaC (src : List Str) (p : Para) : Prop :=
  p.kind = .catchall → p.fields = [] ∧ (p.extra.map (·.1)).Nodup ∧ ∃ ents : List (Str × Str × (Nat × Nat)),
    p.extra = ents.map (fun e => (e.1, XV.s e.2.1)) ∧ p.lines = ents.map (fun e => (e.1, e.2.2)) ∧
    ∀ e ∈ ents, e.2.1 ≠ [] ∧ RangeR src e.2.2.1 e.2.2.2 e.2.1

theorem rangeR_words (src : List Str) (s e : Nat) (v v' : Str) (h : RangeR src s e v) (hw : words v' = words v) :
    RangeR src s e v' := { h with wds := by rw [hw]; exact h.wds }

theorem splitlinesAux_head (rest cur : Str) (cr : Bool) (hcur : cur ≠ []) :
    ∃ l ls m, splitlinesAux rest cur cr = l :: ls ∧ l = cur.reverse ++ m := by
  induction rest generalizing cur cr with
  | nil => exact ⟨cur.reverse, [], [], by simp [splitlinesAux, hcur], by simp⟩
  | cons c rest ih =>
    unfold splitlinesAux
    by_cases h1 : c = '\n' ∧ cr = true
    · simp only [h1, and_self, if_true]; exact ih cur false hcur
    · simp only [h1, if_false]
      by_cases h2 : c = '\r'
      · simp only [h2, if_true]; exact ⟨_, _, [], rfl, by simp⟩
      · simp only [h2, if_false]
        by_cases h3 : isBoundary c = true
        · simp only [h3, if_true]; exact ⟨_, _, [], rfl, by simp⟩
        · simp only [h3, Bool.false_eq_true, if_false]
          obtain ⟨l, ls, m, h4, h5⟩ := ih (c :: cur) false (by simp)
          exact ⟨l, ls, c :: m, h4, by rw [h5]; simp⟩

open Props.C11W in
/-- a license value that starts with a character that is not white space has a name -/
theorem license_name_ne (v : Str) (hne : v ≠ []) (hh : headP isSpace v = false) :
    ∃ n t, fromValue "LicenseField" (some v) = FV.license n t ∧ n ≠ [] := by
  cases v with
  | nil => exact absurd rfl hne
  | cons c cs =>
    have hc : isSpace c = false := by simpa [headP] using hh
    have hb : isBoundary c = false := by
      cases h : isBoundary c with
      | false => rfl
      | true => rw [Proofs.Splitlines.isBoundary_isSpace h] at hc; cases hc
    have hn : c ≠ '\n' := by intro e; subst e; revert hc; decide
    have hr : c ≠ '\r' := by intro e; subst e; revert hc; decide
    have hsl : splitlines (c :: cs) = splitlinesAux cs [c] false := by
      simp [splitlines, splitlinesAux, hn, hr, hb]
    obtain ⟨l, ls, m, h1, h2⟩ := splitlinesAux_head cs [c] false (by simp)
    have hl : l = c :: m := by simpa using h2
    have hst : strip l ≠ [] := by
      intro e
      have : isBlank l = true := by
        have := blank_of_strip l
        cases hb' : isBlank l with
        | true => rfl
        | false =>
          -- a string with a non-space character has a non-empty strip
          have hnb : isBlank (strip l) = false := by
            obtain ⟨w1, hw1, hd1⟩ := lstrip_decomp l
            obtain ⟨w2, hw2, hd2⟩ := rstrip_decomp (lstrip l)
            cases hbs : isBlank (strip l) with
            | false => rfl
            | true =>
              exfalso
              have hall : isBlank l = true := by
                rw [isBlank, List.all_eq_true]
                intro d hd
                rw [hd1, hd2] at hd
                simp only [List.mem_append] at hd
                rcases hd with hd | hd | hd
                · exact hw1 d hd
                · exact List.all_eq_true.mp hbs d (by simpa [strip] using hd)
                · exact hw2 d hd
              rw [hall] at hb'; cases hb'
          rw [e] at hnb; simp [isBlank] at hnb
      rw [hl] at this
      simp [isBlank, hc] at this
    refine ⟨(licenseFromValue (c :: cs)).1, (licenseFromValue (c :: cs)).2, ?_, ?_⟩
    · simp only [fromValue, String.reduceEq, if_false, Option.getD_some]
    · have : (licenseFromValue (c :: cs)).1 = strip l := by
        simp only [licenseFromValue, descriptionFromValue, lineSeparated, List.isEmpty_cons, Bool.false_eq_true, if_false, hsl, h1]
      rw [this]; exact hst

theorem absent_dumps_all (K : Kind) : ∀ nc ∈ typedFields K, dumps (fromValue nc.2 none) = [] := by
  cases K with
  | catchall => intro nc h; simp [Props.C07.typedFields_catchall] at h
  | header => exact Props.C13P.absent_dumps .header (by simp)
  | files => exact Props.C13P.absent_dumps .files (by simp)
  | license => exact Props.C13P.absent_dumps .license (by simp)

theorem lookup_mem {β} (l : List (Str × β)) (k : Str) (v : β) (h : l.lookup k = some v) : (k, v) ∈ l := by
  induction l with
  | nil => cases h
  | cons a as ih =>
    obtain ⟨a1, a2⟩ := a
    by_cases e : k = a1
    · subst e
      simp only [List.lookup, beq_self_eq_true, Option.some.injEq] at h
      subst h; simp
    · have : (k == a1) = false := by simpa using e
      simp only [List.lookup, this] at h
      simp [ih h]

open Props.C11W Props.C07 in
/-- **one paragraph**: `from_fields` on the fields of one group records, for every field with a value, a range that
locates exactly its content -/
theorem fromFields_V (src : List Str) (K : Kind) (g : List Fld) (B0 Bend : Nat)
    (hR : ∀ f ∈ g, FldR src f) (hpw : (g.flatMap fnums).Pairwise (· < ·))
    (hlo : ∀ n ∈ g.flatMap fnums, B0 ≤ n) (hhi : ∀ n ∈ g.flatMap fnums, n < Bend) (hB : B0 ≤ Bend) :
    ∃ p, fromFields K g = .ok p ∧ p.kind = K ∧ ParaV src p ∧ ParaC src p ∧ (p.lines.map (·.2)).Pairwise (fun r r' => r.2 < r'.1) ∧
      ∀ kr ∈ p.lines, B0 ≤ kr.2.1 ∧ kr.2.2 < Bend := by
  unfold fromFields
  simp only
  obtain ⟨a, ha, hinv⟩ := addFields_R src (if K = .catchall then [] else (typedFields K).map (·.1)) g ⟨[], [], [], [], 1⟩ B0 B0 Bend
    ⟨⟨by simp, by simp⟩, by simp, by simp, by simp, by simp, by simp, by simp, by simp, by simp, by simp, by simp,
      fun _ => ⟨[], rfl, rfl, by simp⟩, by simp, by simp, by simp, Nat.le_refl _⟩ hR hpw hlo hhi hB
  rw [ha]
  refine ⟨_, rfl, rfl, ?_, ?_, hinv.ord, fun kr h => ⟨hinv.lob kr h, hinv.bnd kr h⟩⟩
  rotate_left
  · intro hK
    simp only at hK
    subst hK
    exact ⟨by simp [Props.C07.typedFields_catchall], hinv.xnd, hinv.xents (by simp)⟩
  -- the dictionary form: typed fields, then the extra data
  have hd0keys : ((((typedFields K).map fun nc => (nc.1, fromValue nc.2 (a.known.lookup nc.1))).map
      (fun nf => ((nf.1, XV.s (dumps nf.2)) : Str × DV))).map (·.1)) = (typedFields K).map (·.1) := by
    simp [List.map_map, Function.comp]
  have hxout : ∀ k ∈ a.extra.map (·.1), k ∉ (typedFields K).map (·.1) := by
    intro k hk
    by_cases hK : K = .catchall
    · subst hK; simp [typedFields_catchall]
    · have := hinv.xout k hk
      simpa [hK] using this
  have hdict : toDict (⟨K, (typedFields K).map fun nc => (nc.1, fromValue nc.2 (a.known.lookup nc.1)), a.extra, a.lines⟩ : Para) =
      ((typedFields K).map fun nc => (nc.1, XV.s (dumps (fromValue nc.2 (a.known.lookup nc.1))))) ++ a.extra.map conv := by
    rw [toDict_eq]
    simp only
    rw [foldl_dstep_append a.extra _ hinv.xnd (by intro k hk; rw [hd0keys]; exact hxout k hk)]
    simp [List.map_map, Function.comp_def]
  constructor
  · exact hinv.lnd
  · rw [hdict, List.map_append, List.nodup_append]
    refine ⟨by simpa [List.map_map, Function.comp_def] using typed_nodup_all K, ?_, ?_⟩
    · have : (a.extra.map conv).map (·.1) = a.extra.map (·.1) := by
        simp [List.map_map, Function.comp_def, conv]
      rw [this]; exact hinv.xnd
    · intro x hx y hy e
      subst e
      have h1 : x ∈ (typedFields K).map (·.1) := by simpa [List.map_map, Function.comp_def] using hx
      have h2 : x ∈ a.extra.map (·.1) := by simpa [List.map_map, Function.comp_def, conv] using hy
      exact hxout x h2 h1
  · intro k v hkv hv
    rw [hdict] at hkv
    rcases List.mem_append.mp hkv with h | h
    · obtain ⟨nc, hnc, he⟩ := List.mem_map.mp h
      simp only [Prod.mk.injEq, XV.s.injEq] at he
      obtain ⟨rfl, rfl⟩ := he
      cases hlk : a.known.lookup nc.1 with
      | none => rw [hlk, absent_dumps_all K nc hnc] at hv; exact absurd rfl hv
      | some v0 =>
        obtain ⟨_, _, r, hr, hrr⟩ := hinv.kval (nc.1, v0) (lookup_mem _ _ _ hlk)
        exact ⟨r, hr, rangeR_words src r.1 r.2 v0 _ hrr (Proofs.WordsConv.words_dumps_fromValue nc.2 v0)⟩
    · obtain ⟨kv, hkvm, he⟩ := List.mem_map.mp h
      obtain ⟨v0, h1, h2, r, hr, hrr⟩ := hinv.xval kv hkvm
      have hie : v0.isEmpty = false := by cases v0 <;> simp_all
      simp only [conv, h1, hie, Bool.false_eq_true, if_false, Prod.mk.injEq, XV.s.injEq] at he
      obtain ⟨rfl, rfl⟩ := he
      exact ⟨r, hr, rangeR_words src r.1 r.2 v0 _ hrr (Proofs.WordsConv.words_asFormattedText v0)⟩
  · exact hinv.lval
  · intro hK hemp hmem
    simp only at hK
    subst hK
    -- a recorded license has a name
    obtain ⟨kr, hkr, hk⟩ := List.mem_map.mp hmem
    have hne : Kind.license ≠ Kind.catchall := by decide
    rcases hinv.lpart kr hkr with h | h
    · rw [hk] at h
      obtain ⟨kv, hkvm, hkk⟩ := List.mem_map.mp h
      obtain ⟨h1, h2, _⟩ := hinv.kval kv hkvm
      have hlk : a.known.lookup licKey = some kv.2 := by
        have := Props.C09G.lookup_mem_nodup a.known hinv.knd kv hkvm
        rw [hkk] at this; exact this
      obtain ⟨n, t', hfv, hnn⟩ := license_name_ne kv.2 h1 h2
      simp only [licenseParaIsEmpty, licenseOf, getField, license_fields, List.map_cons, List.map_nil] at hemp
      have : List.lookup "license".toList [(licKey, fromValue "LicenseField" (a.known.lookup licKey)),
          (comKey, fromValue "FormattedTextField" (a.known.lookup comKey))] = some (FV.license n t') := by
        rw [hlk, hfv]
        show List.lookup licKey _ = _
        simp [List.lookup]
      rw [this] at hemp
      simp only [Bool.and_eq_true, List.isEmpty_iff] at hemp
      exact hnn hemp.1.2
    · rw [hk] at h
      have := hinv.xout licKey h
      simp only [hne, if_false, license_fields, List.map_cons, List.map_nil] at this
      exact this (by simp)
  · intro k hk
    obtain ⟨kr, hkr, rfl⟩ := List.mem_map.mp hk
    rw [hdict, List.map_append, List.mem_append]
    rcases hinv.lpart kr hkr with h | h
    · left
      have := hinv.kin kr.1 h
      by_cases hK : K = .catchall
      · simp [hK] at this
      · simp only [hK, if_false] at this
        simpa [List.map_map, Function.comp_def] using this
    · right
      simpa [List.map_map, Function.comp_def, conv] using h
  · intro hk
    simp only at hk
    subst hk
    simp only [license_fields, List.map_cons, List.map_nil]
    exact ⟨_, _, _, rfl⟩

/-! ### C. all paragraphs, before the recovery rewrites -/

def gnums (g : List Fld) : List Nat := g.flatMap fnums
def ranges (ps : List Para) : List (Nat × Nat) := ps.flatMap fun p => p.lines.map (·.2)

def Ordered (l : List (Nat × Nat)) : Prop := l.Pairwise fun r r' => r.2 < r'.1

structure DocV (src : List Str) (ps : List Para) : Prop where
  paras : ∀ p ∈ ps, ParaV src p
  ord : Ordered (ranges ps)

theorem groups_V (src : List Str) (gs : List (List Fld)) (B0 : Nat)
    (hR : ∀ g ∈ gs, ∀ f ∈ g, FldR src f) (hpw : (gs.flatMap gnums).Pairwise (· < ·)) (hlo : ∀ n ∈ gs.flatMap gnums, B0 ≤ n) :
    ∃ ps, Model.Copyright.mapExcept (fun g => fromFields (classify g) g) gs = .ok ps ∧ DocV src ps ∧
      (∀ p ∈ ps, ParaC src p) ∧ ∀ r ∈ ranges ps, B0 ≤ r.1 := by
  induction gs generalizing B0 with
  | nil =>
    refine ⟨[], rfl, ⟨?_, ?_⟩, ?_, ?_⟩
    · intro p hp; cases hp
    · simp [Ordered, ranges]
    · intro p hp; cases hp
    · simp [ranges]
  | cons g rest ih =>
    rw [List.flatMap_cons, List.pairwise_append] at hpw
    -- one past the last line of this group
    obtain ⟨Bend, hB, hhi, hnext⟩ : ∃ Bend, B0 ≤ Bend ∧ (∀ n ∈ gnums g, n < Bend) ∧ ∀ n ∈ rest.flatMap gnums, Bend ≤ n := by
      cases hlast : (gnums g).getLast? with
      | none =>
        have hnil : gnums g = [] := List.getLast?_eq_none_iff.mp hlast
        exact ⟨B0, Nat.le_refl _, by rw [hnil]; simp,
          fun n hn => hlo n (by rw [List.flatMap_cons]; exact List.mem_append.mpr (Or.inr hn))⟩
      | some m =>
        have hle := pairwise_le_last (gnums g) hpw.1 m hlast
        have hmm : m ∈ gnums g := List.mem_of_getLast? hlast
        refine ⟨m + 1, ?_, fun n hn => Nat.lt_succ_of_le (hle n hn), fun n hn => by have := hpw.2.2 m hmm n hn; omega⟩
        have := hlo m (by rw [List.flatMap_cons]; exact List.mem_append.mpr (Or.inl hmm)); omega
    obtain ⟨p, hp, _, hpv, hpc, hpo, hpb⟩ := fromFields_V src (classify g) g B0 Bend (hR g (by simp)) hpw.1
      (fun n hn => hlo n (by rw [List.flatMap_cons]; exact List.mem_append.mpr (Or.inl hn))) hhi hB
    obtain ⟨ps, hps, hdv, hpcs, hlob⟩ := ih Bend (fun g' hg' => hR g' (by simp [hg'])) hpw.2.1 hnext
    refine ⟨p :: ps, by simp [Model.Copyright.mapExcept, hp, hps], ⟨?_, ?_⟩, ?_, ?_⟩
    · intro q hq
      rcases List.mem_cons.mp hq with rfl | hq
      · exact hpv
      · exact hdv.paras q hq
    · simp only [Ordered, ranges, List.flatMap_cons]
      rw [List.pairwise_append]
      refine ⟨hpo, hdv.ord, ?_⟩
      intro r hr r' hr'
      obtain ⟨kr, hkr, rfl⟩ := List.mem_map.mp hr
      have := (hpb kr hkr).2
      have := hlob r' hr'
      omega
    · intro q hq
      rcases List.mem_cons.mp hq with rfl | hq
      · exact hpc
      · exact hpcs q hq
    · intro r hr
      simp only [ranges, List.flatMap_cons, List.mem_append] at hr
      rcases hr with hr | hr
      · obtain ⟨kr, hkr, rfl⟩ := List.mem_map.mp hr
        exact (hpb kr hkr).1
      · have := hlob r hr; omega

/-! ### D. merging a run of free-text paragraphs -/

theorem ordered_head_le_last (l : List (Nat × Nat)) (n : Nat × Nat) (ho : Ordered (n :: l)) (hle : ∀ r ∈ n :: l, r.1 ≤ r.2) :
    n.1 ≤ ((n :: l).getLast (by simp)).2 ∧ ∀ r ∈ n :: l, n.1 ≤ r.1 ∧ r.2 ≤ ((n :: l).getLast (by simp)).2 := by
  induction l generalizing n with
  | nil =>
    simp only [List.getLast_singleton, List.mem_singleton]
    exact ⟨hle n (by simp), fun r hr => by subst hr; exact ⟨Nat.le_refl _, Nat.le_refl _⟩⟩
  | cons x xs ih =>
    unfold Ordered at ho
    rw [List.pairwise_cons] at ho
    obtain ⟨h1, h2⟩ := ih x ho.2 (fun r hr => hle r (by simp [hr]))
    have hnx := ho.1 x (by simp)
    have hn := hle n (by simp)
    rw [List.getLast_cons (by simp)]
    refine ⟨by omega, ?_⟩
    intro r hr
    rcases List.mem_cons.mp hr with rfl | hr
    · exact ⟨Nat.le_refl _, by omega⟩
    · have := h2 r hr; omega

theorem foldl_min_head (ns : List (Nat × Nat)) (m : Nat) (h : ∀ r ∈ ns, m ≤ r.1) : ns.foldl (fun m x => min m x.1) m = m := by
  induction ns generalizing m with
  | nil => rfl
  | cons x xs ih =>
    have hx := h x (by simp)
    simp only [List.foldl_cons, Nat.min_eq_left hx]
    exact ih m (fun r hr => h r (by simp [hr]))

theorem foldl_max_last (ns : List (Nat × Nat)) (m M : Nat) (hm : m ≤ M) (h : ∀ r ∈ ns, r.2 ≤ M) (hex : ns = [] → m = M)
    (hl : ∀ r ∈ ns.getLast?, r.2 = M) : ns.foldl (fun m x => max m x.2) m = M := by
  induction ns generalizing m with
  | nil => exact hex rfl
  | cons x xs ih =>
    simp only [List.foldl_cons]
    apply ih
    · have := h x (by simp); omega
    · intro r hr; exact h r (by simp [hr])
    · intro e
      subst e
      have := hl x (by simp)
      have := h x (by simp)
      omega
    · intro r hr
      apply hl r
      cases xs with
      | nil => cases hr
      | cons y ys => rw [List.getLast?_cons_cons]; exact hr

abbrev Ent := Str × Str × (Nat × Nat)
def Ent.rng (e : Ent) : Nat × Nat := e.2.2
def Ent.val (e : Ent) : Str := e.2.1

theorem ordered_last (l : List (Nat × Nat)) (n rE : Nat × Nat) (ho : Ordered (n :: l)) (hle : ∀ r ∈ n :: l, r.1 ≤ r.2)
    (hE : (n :: l).getLast? = some rE) : n.1 ≤ rE.2 ∧ ∀ r ∈ n :: l, n.1 ≤ r.1 ∧ r.2 ≤ rE.2 := by
  have := ordered_head_le_last l n ho hle
  have e : (n :: l).getLast (by simp) = rE := by
    have h2 := List.getLast?_eq_some_getLast (l := n :: l) (by simp)
    rw [hE] at h2
    exact (Option.some.inj h2).symm
  rw [e] at this
  exact this

/-- the words of an ordered chain of entries lie in the lines from the first start to the last end -/
theorem chain_words (src : List Str) (e : Ent) (es : List Ent) (rE : Nat × Nat)
    (hR : ∀ x ∈ e :: es, RangeR src x.rng.1 x.rng.2 x.val) (ho : Ordered ((e :: es).map Ent.rng))
    (hE : ((e :: es).map Ent.rng).getLast? = some rE) :
    subMultiset ((e :: es).flatMap fun x => words x.val) (W src e.rng.1 rE.2) = true := by
  induction es generalizing e with
  | nil =>
    simp only [List.map_cons, List.map_nil, List.getLast?_singleton, Option.some.injEq] at hE
    subst hE
    simp only [List.flatMap_cons, List.flatMap_nil, List.append_nil]
    have := hR e (by simp)
    rw [← rangeWords_eq src _ _ this.le]; exact this.wds
  | cons x xs ih =>
    have hox := ho
    unfold Ordered at hox
    simp only [List.map_cons] at hox
    rw [List.pairwise_cons] at hox
    have hE' : ((x :: xs).map Ent.rng).getLast? = some rE := by
      simp only [List.map_cons] at hE ⊢
      rw [List.getLast?_cons_cons] at hE
      exact hE
    have hox2 : Ordered ((x :: xs).map Ent.rng) := by simpa [Ordered] using hox.2
    have ihx := ih x (fun y hy => hR y (by simp only [List.mem_cons] at hy ⊢; exact Or.inr hy)) hox2 hE'
    have he := hR e (by simp)
    have hlt : e.rng.2 < x.rng.1 := hox.1 x.rng (by simp)
    have hlast := (ordered_last (xs.map Ent.rng) x.rng rE (by simpa using hox2)
      (by
        intro r hr
        have : r ∈ (x :: xs).map Ent.rng := by simpa using hr
        obtain ⟨y, hy, rfl⟩ := List.mem_map.mp this
        exact (hR y (by simp only [List.mem_cons] at hy ⊢; exact Or.inr hy)).le) (by simpa using hE')).1
    rw [List.flatMap_cons]
    have hew : subMultiset (words e.val) (W src e.rng.1 e.rng.2) = true := by
      rw [← rangeWords_eq src _ _ he.le]; exact he.wds
    apply subMultiset_trans_sublist _ _ _ (subMultiset_append _ _ _ _ hew ihx)
    exact W_sublist src _ _ _ _ he.le hlt hlast

open Props.C11W in
theorem para_ents (src : List Str) (p : Para) (hk : p.kind = .catchall) (hc : ParaC src p) :
    ∃ ents : List Ent, (toDict p).map (·.2) = ents.map (fun e => XV.s (asFormattedText e.val)) ∧
      p.lines.map (·.2) = ents.map Ent.rng ∧ ∀ e ∈ ents, e.val ≠ [] ∧ RangeR src e.rng.1 e.rng.2 e.val := by
  obtain ⟨hf, hnd, ents, he1, he2, he3⟩ := hc hk
  refine ⟨ents, ?_, ?_, he3⟩
  · have hp : p = { kind := .catchall, fields := [], extra := p.extra, lines := p.lines } := by
      cases p; simp only at hk hf; subst hk hf; rfl
    rw [hp, toDict_simple p.extra p.lines hnd, he1, List.map_map, List.map_map]
    apply List.map_congr_left
    intro e he
    have hne := (he3 e he).1
    have hie : e.2.1.isEmpty = false := by
      cases hv : e.2.1 with
      | nil => exact absurd hv hne
      | cons _ _ => rfl
    simp only [Function.comp, conv, hie, Bool.false_eq_true, if_false, Ent.val]
  · rw [he2, List.map_map]; rfl

theorem run_ents (src : List Str) (g : List Para) (hg : ∀ p ∈ g, p.kind = .catchall ∧ ParaC src p) :
    ∃ Ents : List Ent, (g.flatMap fun p => (toDict p).map (·.2)) = Ents.map (fun e => XV.s (asFormattedText e.val)) ∧
      ranges g = Ents.map Ent.rng ∧ ∀ e ∈ Ents, e.val ≠ [] ∧ RangeR src e.rng.1 e.rng.2 e.val := by
  induction g with
  | nil => exact ⟨[], rfl, rfl, by simp⟩
  | cons p ps ih =>
    obtain ⟨ents, h1, h2, h3⟩ := para_ents src p (hg p (by simp)).1 (hg p (by simp)).2
    obtain ⟨Ents, H1, H2, H3⟩ := ih (fun q hq => hg q (by simp [hq]))
    refine ⟨ents ++ Ents, ?_, ?_, ?_⟩
    · rw [List.flatMap_cons, h1, H1, List.map_append]
    · simp only [ranges, List.flatMap_cons] at H2 ⊢
      rw [h2, H2, List.map_append]
    · intro e he
      rcases List.mem_append.mp he with h | h
      · exact h3 e h
      · exact H3 e h

theorem filterMap_dvStr (es : List Ent) :
    es.filterMap (dvStr ∘ fun e => XV.s (asFormattedText e.val)) = es.map fun e => asFormattedText e.val := by
  induction es with
  | nil => rfl
  | cons e es ih => simp only [List.filterMap_cons, Function.comp, dvStr, ih, List.map_cons]

theorem rangeR_nil (src : List Str) (s e : Nat) (v : Str) (h : RangeR src s e v) : RangeR src s e [] :=
  { h with wds := by simp [subMultiset, removeAll, Spec.Words.words, Py.splitWs, Py.splitWsAux] }

open Props.C11W in
/-- **merging a run**: the merged paragraph has one range, from the first start to the last end, and it locates the
merged text -/
theorem mergeRun_V (src : List Str) (g : List Para) (m : Para) (hg : ∀ p ∈ g, p.kind = .catchall ∧ ParaC src p)
    (hord : Ordered (ranges g)) (h : mergeRun g = .ok m) :
    ParaV src m ∧ m.kind = .catchall ∧ ((ranges g = [] ∧ m.lines = []) ∨
      ∃ n rE, (ranges g).head? = some n ∧ (ranges g).getLast? = some rE ∧ m.lines = [(unknownName, (n.1, rE.2))]) := by
  obtain ⟨Ents, H1, H2, H3⟩ := run_ents src g hg
  unfold mergeRun at h
  simp only at h
  have hany : ((g.flatMap fun p => (toDict p).map (·.2)).any fun v => v = XV.emptyList) = false := by
    rw [H1, List.any_eq_false]
    intro v hv
    obtain ⟨e, _, rfl⟩ := List.mem_map.mp hv
    simp
  rw [hany] at h
  simp only [Bool.false_eq_true, if_false, Except.ok.injEq] at h
  have hvalues : (g.flatMap fun p => (toDict p).map (·.2)).filterMap dvStr = Ents.map fun e => asFormattedText e.val := by
    rw [H1, List.filterMap_map]; exact filterMap_dvStr Ents
  have hnums : (g.flatMap fun p => p.lines.map (·.2)) = Ents.map Ent.rng := H2
  rw [hvalues, hnums] at h
  cases hE : Ents with
  | nil =>
    rw [hE] at h
    simp only [List.map_nil, List.isEmpty_nil, if_true] at h
    subst h
    refine ⟨⟨by simp, ?_, ?_, by simp, (by intro hk; cases hk), (by simp), (by intro hk; cases hk)⟩, rfl, Or.inl ⟨by rw [H2, hE]; rfl, rfl⟩⟩
    · rw [toDict_simple _ _ (by simp)]; simp
    · intro k v hkv _
      rw [toDict_simple _ _ (by simp)] at hkv
      simp [conv] at hkv
  | cons e es =>
    rw [hE] at h H2 H3
    have hordE : Ordered ((e :: es).map Ent.rng) := by rw [← H2]; exact hord
    have hle : ∀ r ∈ (e :: es).map Ent.rng, r.1 ≤ r.2 := by
      intro r hr
      obtain ⟨x, hx, rfl⟩ := List.mem_map.mp hr
      exact (H3 x hx).2.le
    obtain ⟨rE, hrE⟩ : ∃ rE, ((e :: es).map Ent.rng).getLast? = some rE :=
      ⟨_, List.getLast?_eq_some_getLast (by simp)⟩
    obtain ⟨eL, heL, heLr⟩ : ∃ eL ∈ e :: es, eL.rng = rE := by
      have := List.mem_of_getLast? hrE
      obtain ⟨x, hx, hxr⟩ := List.mem_map.mp this
      exact ⟨x, hx, hxr⟩
    have hol := ordered_last (es.map Ent.rng) e.rng rE (by simpa using hordE) (by simpa using hle) (by simpa using hrE)
    -- the hull computed by the two folds
    have hmin : (es.map Ent.rng).foldl (fun m x => min m x.1) e.rng.1 = e.rng.1 :=
      foldl_min_head _ _ (fun r hr => (hol.2 r (by simp [hr])).1)
    have hmax : (es.map Ent.rng).foldl (fun m x => max m x.2) e.rng.2 = rE.2 := by
      apply foldl_max_last _ _ _ (hol.2 e.rng (by simp)).2 (fun r hr => (hol.2 r (by simp [hr])).2)
      · intro hnil
        simp only [List.map_cons, hnil, List.getLast?_singleton, Option.some.injEq] at hrE
        rw [← hrE]
      · intro r hr
        simp only [List.map_cons] at hrE
        cases hes : es.map Ent.rng with
        | nil => rw [hes] at hr; cases hr
        | cons y ys =>
          rw [hes] at hr hrE
          rw [List.getLast?_cons_cons] at hrE
          rw [hrE] at hr
          simp only [Option.mem_def, Option.some.injEq] at hr
          rw [hr]
    simp only [List.map_cons, List.isEmpty_cons, Bool.false_eq_true, if_false, hmin, hmax] at h
    subst h
    -- the range of the merged text
    have hS := (H3 e (by simp)).2
    have hL := (H3 eL heL).2
    have hrange : ∀ v, words v = (e :: es).flatMap (fun x => words x.val) → RangeR src e.rng.1 rE.2 v := by
      intro v hv
      refine ⟨hS.lo, hol.1, ?_, hS.first, ?_, ?_⟩
      · rw [← heLr]; exact hL.hi
      · rw [← heLr]; exact hL.last
      · rw [rangeWords_eq src _ _ hol.1, hv]
        exact chain_words src e es rE (fun x hx => (H3 x hx).2) hordE hrE
    refine ⟨⟨by simp, ?_, ?_, ?_, (by intro hk; cases hk), ?_, (by intro hk; cases hk)⟩, rfl,
      Or.inr ⟨e.rng, rE, by rw [H2]; rfl, by rw [H2]; exact hrE, rfl⟩⟩
    rotate_right
    · intro k hk
      rw [toDict_simple _ _ (by simp)]
      simpa [conv] using hk
    · rw [toDict_simple _ _ (by simp)]; simp
    · intro k v hkv hv
      rw [toDict_simple _ _ (by simp)] at hkv
      simp only [List.map_cons, List.map_nil, List.mem_singleton, conv, Prod.mk.injEq, XV.s.injEq] at hkv
      obtain ⟨rfl, rfl⟩ := hkv
      refine ⟨(e.rng.1, rE.2), by simp, ?_⟩
      apply hrange
      have hw : words (fromFormattedLines (asFormattedText e.val :: es.map fun e => asFormattedText e.val)) =
          (e :: es).flatMap (fun x => words x.val) := by
        rw [Proofs.WordsConv.words_fromFormattedLines]
        simp only [List.flatMap_cons, List.flatMap_map, Proofs.WordsConv.words_asFormattedText]
      split
      · exact hw
      · rw [Proofs.WordsConv.words_asFormattedText]; exact hw
    · intro kr hkr
      simp only [List.mem_singleton] at hkr
      subst hkr
      refine ⟨[], ⟨hS.lo, hol.1, ?_, hS.first, ?_, ?_⟩⟩
      · rw [← heLr]; exact hL.hi
      · rw [← heLr]; exact hL.last
      · simp [subMultiset, removeAll, Spec.Words.words, Py.splitWs, Py.splitWsAux]

theorem ordered_hull (A M C : List (Nat × Nat)) (n rE : Nat × Nat) (ho : Ordered (A ++ M ++ C))
    (hn : n ∈ M) (hr : rE ∈ M) : Ordered (A ++ [(n.1, rE.2)] ++ C) := by
  unfold Ordered at *
  rw [List.pairwise_append, List.pairwise_append] at ho
  obtain ⟨⟨hA, _, hAM⟩, hC, hAMC⟩ := ho
  rw [List.pairwise_append, List.pairwise_append]
  refine ⟨⟨hA, by simp, ?_⟩, hC, ?_⟩
  · intro a ha b hb
    simp only [List.mem_singleton] at hb
    subst hb
    exact hAM a ha n hn
  · intro a ha c hc
    rcases List.mem_append.mp ha with h | h
    · exact hAMC a (List.mem_append.mpr (Or.inl h)) c hc
    · simp only [List.mem_singleton] at h
      subst h
      exact hAMC rE (List.mem_append.mpr (Or.inr hr)) c hc

theorem ordered_drop (A M C : List (Nat × Nat)) (ho : Ordered (A ++ M ++ C)) : Ordered (A ++ C) := by
  unfold Ordered at *
  rw [List.pairwise_append, List.pairwise_append] at ho
  obtain ⟨⟨hA, _, _⟩, hC, hAMC⟩ := ho
  rw [List.pairwise_append]
  exact ⟨hA, hC, fun a ha c hc => hAMC a (List.mem_append.mpr (Or.inl ha)) c hc⟩

theorem ranges_append (a b : List Para) : ranges (a ++ b) = ranges a ++ ranges b := by simp [ranges]

open Props.C07 Props.C11W in
theorem foldl_mstep_V (src : List Str) (gs : List (List Para)) (out out' : List Para)
    (hkind : ∀ g ∈ gs, ∀ q ∈ g, ∀ q' ∈ g, q.kind = q'.kind)
    (hc : ∀ g ∈ gs, ∀ q ∈ g, ParaC src q) (hd : DocV src (out ++ gs.flatten))
    (h : gs.foldl mstep (.ok out) = .ok out') : DocV src out' := by
  induction gs generalizing out with
  | nil => simp at h hd; subst h; exact hd
  | cons g rest ih =>
    simp only [List.foldl_cons] at h
    have hrestk := fun g' hg' => hkind g' (List.mem_cons_of_mem _ hg')
    have hrestc := fun g' hg' => hc g' (List.mem_cons_of_mem _ hg')
    cases g with
    | nil =>
      simp only [mstep] at h
      exact ih out hrestk hrestc (by simpa using hd) h
    | cons p ps =>
      simp only [mstep] at h
      by_cases hcond : (p.kind ≠ .catchall || (p :: ps).length = 1 || !(p :: ps).all isAllUnknown) = true
      · rw [if_pos hcond] at h
        exact ih (out ++ (p :: ps)) hrestk hrestc (by simpa [List.append_assoc] using hd) h
      · rw [if_neg hcond] at h
        cases hm : mergeRun (p :: ps) with
        | error e =>
          rw [hm] at h
          simp only at h
          rw [foldl_mstep_error] at h; cases h
        | ok m =>
          rw [hm] at h
          simp only at h
          have hpk : p.kind = .catchall := by
            simp only [Bool.or_eq_true, decide_eq_true_eq, not_or] at hcond
            have := hcond.1.1
            simpa using this
          have hgall : ∀ q ∈ p :: ps, q.kind = .catchall ∧ ParaC src q := by
            intro q hq
            exact ⟨(hkind (p :: ps) (by simp) q hq p (by simp)).trans hpk, hc (p :: ps) (by simp) q hq⟩
          -- the ranges of the run, inside the whole list
          have hord := hd.ord
          simp only [List.flatten_cons] at hord
          rw [← List.append_assoc, ranges_append, ranges_append] at hord
          have hrunord : Ordered (ranges (p :: ps)) := by
            have h2 := hord
            unfold Ordered at h2 ⊢
            rw [List.pairwise_append, List.pairwise_append] at h2
            exact h2.1.2.1
          obtain ⟨hmv, hmk, hml⟩ := mergeRun_V src (p :: ps) m hgall hrunord hm
          apply ih (out ++ [m]) hrestk hrestc _ h
          constructor
          · intro q hq
            rcases List.mem_append.mp hq with hq | hq
            · rcases List.mem_append.mp hq with hq | hq
              · exact hd.paras q (List.mem_append.mpr (Or.inl hq))
              · simp only [List.mem_singleton] at hq; subst hq; exact hmv
            · exact hd.paras q (List.mem_append.mpr (Or.inr (by simp only [List.flatten_cons]; exact List.mem_append.mpr (Or.inr hq))))
          · rw [ranges_append, ranges_append]
            rcases hml with ⟨hnil, hl⟩ | ⟨n, rE, hn, hr, hl⟩
            · have : ranges [m] = [] := by simp [ranges, hl]
              rw [this, List.append_nil]
              exact ordered_drop _ _ _ hord
            · have : ranges [m] = [(n.1, rE.2)] := by simp [ranges, hl]
              rw [this]
              exact ordered_hull _ _ _ n rE hord (List.mem_of_mem_head? hn) (List.mem_of_getLast? hr)

open Props.C07 in
theorem mergeUnknown_V (src : List Str) (ps ps' : List Para) (hd : DocV src ps) (hc : ∀ p ∈ ps, ParaC src p)
    (h : mergeUnknown ps = .ok ps') : DocV src ps' := by
  rw [mergeUnknown_eq] at h
  have hprops := groupByKind_props ps
  have hflat := (Props.C09G.groupByKind_flatten ps).1
  exact foldl_mstep_V src (groupByKind ps) [] ps' (fun g hg => (hprops g hg).2)
    (fun g hg q hq => hc q ((hprops g hg).1 q hq)) (by simpa [hflat] using hd) h

/-! ### E. folding free text into an empty license -/

theorem single_key_lines (src : List Str) (p : Para) (hv : ParaV src p) (text : Str) (hne : text ≠ [])
    (hd : toDict p = [(unknownName, XV.s text)]) :
    ∃ rng, p.lines = [(unknownName, rng)] ∧ RangeR src rng.1 rng.2 text := by
  obtain ⟨r, hr, hrr⟩ := hv.val unknownName text (by rw [hd]; simp) hne
  refine ⟨r, ?_, hrr⟩
  -- every key of `lines` is the one key of the dictionary, and keys are distinct
  have hk : ∀ kr ∈ p.lines, kr.1 = unknownName := by
    intro kr hkr
    have := hv.lkeys kr.1 (List.mem_map.mpr ⟨kr, hkr, rfl⟩)
    rw [hd] at this
    simpa using this
  have hnd := hv.lnd
  cases hl : p.lines with
  | nil => rw [hl] at hr; cases hr
  | cons a as =>
    rw [hl] at hr hk hnd
    have ha := hk a (by simp)
    cases as with
    | nil =>
      simp only [List.mem_singleton] at hr
      rw [hr]
    | cons b bs =>
      have hb := hk b (by simp)
      simp only [List.map_cons, List.nodup_cons, List.mem_cons, not_or] at hnd
      exact absurd (ha.trans hb.symm) hnd.1.1

open Props.C07 Props.C11W in
theorem fold_V (src : List Str) (p1 p2 : Para) (h1 : ParaV src p1) (h2 : ParaV src p2) (hc : foldCond p1 p2 = true)
    (text : Str) (rng : Nat × Nat) (hd : toDict p2 = [(unknownName, XV.s text)]) (hl : p2.lines.lookup unknownName = some rng) :
    ParaV src { setLicense p1 [] (some text) with lines := lset p1.lines "license".toList rng } ∧
    lset p1.lines "license".toList rng = p1.lines ++ [(licKey, rng)] ∧ p2.lines = [(unknownName, rng)] := by
  have hc0 := hc
  unfold foldCond at hc
  simp only [Bool.and_eq_true, decide_eq_true_eq] at hc
  obtain ⟨⟨⟨⟨hk, hempty⟩, _⟩, _⟩, htruthy⟩ := hc
  have htne : text ≠ [] := by
    rw [hd] at htruthy
    simp only [dvTruthy, Bool.not_eq_true', List.isEmpty_eq_false_iff] at htruthy
    exact htruthy
  obtain ⟨r, hlines2, hrr⟩ := single_key_lines src p2 h2 text htne hd
  have hrr' : r = rng := by
    rw [hlines2] at hl
    simp only [List.lookup, beq_self_eq_true, Option.some.injEq] at hl
    exact hl
  subst hrr'
  obtain ⟨n, t, c, hf⟩ := h1.shape hk
  have hnot := h1.lic hk hempty
  have hlset : lset p1.lines "license".toList r = p1.lines ++ [(licKey, r)] := Props.C13P.lset_absent _ _ _ hnot
  have hempty' := hempty
  unfold licenseParaIsEmpty at hempty'
  simp only [Bool.and_eq_true, Bool.not_eq_true'] at hempty'
  obtain ⟨⟨⟨hex, hcom⟩, _⟩, _⟩ := hempty'
  have hex' : p1.extra = [] := List.isEmpty_iff.mp hex
  obtain ⟨_, hct⟩ := licenseOf_shape p1 n t c hf
  rw [hct] at hcom
  have hf' := setLicense_shape p1 n t c text hf
  -- the two dictionary forms
  have hd1 : toDict p1 = [(licKey, XV.s (dumps (FV.license n t))), (comKey, XV.s (dumps (FV.formatted c)))] := by
    rw [toDict_eq, hex', hf]; rfl
  have hd1' : toDict ({ setLicense p1 [] (some text) with lines := lset p1.lines "license".toList r } : Para) =
      [(licKey, XV.s (dumps (FV.license [] (some text)))), (comKey, XV.s (dumps (FV.formatted c)))] := by
    rw [toDict_eq]
    have hex'' : ({ setLicense p1 [] (some text) with lines := lset p1.lines "license".toList r } : Para).extra = [] := by
      simp only [setLicense]; exact hex'
    rw [hex'']
    simp only [List.foldl_nil]
    show ((setLicense p1 [] (some text)).fields.map fun nf => ((nf.1, XV.s (dumps nf.2)) : Str × DV)) = _
    rw [hf']; rfl
  have hcomd : dumps (FV.formatted c) = [] := by
    rcases optTruthy_false c hcom with rfl | rfl <;> rfl
  refine ⟨⟨?_, ?_, ?_, ?_, ?_, ?_, ?_⟩, hlset, hlines2⟩
  · show ((lset p1.lines "license".toList r).map (·.1)).Nodup
    rw [hlset, List.map_append, List.nodup_append]
    refine ⟨h1.lnd, by simp, ?_⟩
    intro x hx y hy
    simp only [List.map_cons, List.map_nil, List.mem_singleton] at hy
    subst hy
    intro e; subst e; exact hnot hx
  · rw [hd1']
    simp only [List.map_cons, List.map_nil]
    have := com_ne_lic'
    simp [List.nodup_cons, Ne.symm this]
  · intro k v hkv hv
    rw [hd1'] at hkv
    simp only [List.mem_cons, Prod.mk.injEq, XV.s.injEq, List.not_mem_nil, or_false] at hkv
    rcases hkv with ⟨rfl, rfl⟩ | ⟨rfl, rfl⟩
    · refine ⟨r, ?_, rangeR_words src r.1 r.2 text _ hrr (words_license_text text)⟩
      show (licKey, r) ∈ lset p1.lines "license".toList r
      rw [hlset]; simp
    · exact absurd hcomd hv
  · intro kr hkr
    have hkr' : kr ∈ lset p1.lines "license".toList r := hkr
    rw [hlset] at hkr'
    rcases List.mem_append.mp hkr' with h | h
    · exact h1.lval kr h
    · simp only [List.mem_singleton] at h; subst h; exact ⟨text, hrr⟩
  · intro _ hemp2
    -- the folded license has a text: it is not empty any more
    exfalso
    unfold licenseParaIsEmpty at hemp2
    simp only [Bool.and_eq_true, Bool.not_eq_true'] at hemp2
    have hlo := (licenseOf_shape ({ setLicense p1 [] (some text) with lines := lset p1.lines "license".toList r } : Para)
      [] (some text) c (by exact hf')).1
    rw [hlo] at hemp2
    have := hemp2.2
    simp only [optTruthy, Bool.not_eq_false', List.isEmpty_iff] at this
    exact htne this
  · intro k hk'
    have hk2 : k ∈ (lset p1.lines "license".toList r).map (·.1) := hk'
    rw [hlset, List.map_append, List.mem_append] at hk2
    rw [hd1']
    rcases hk2 with h | h
    · have := h1.lkeys k h
      rw [hd1] at this
      simpa using this
    · simp only [List.map_cons, List.map_nil, List.mem_singleton] at h
      subst h; simp
  · intro _
    exact ⟨_, _, _, hf'⟩

def lastRanges (ps : List Para) (fp : Bool) : List (Nat × Nat) :=
  if fp then [] else match ps.getLast? with | some l => ranges [l] | none => []

def inRanges (ps : List Para) (b : Bool) : List (Nat × Nat) := if b then ranges ps.tail else ranges ps

open Props.C07 Props.C11W in
/-- the fold keeps the list of ranges: a folded license takes over the one range of the paragraph folded into it -/
theorem foldLoop_V (src : List Str) (ps : List Para) (hne : ps ≠ []) (hv : ∀ p ∈ ps, ParaV src p) (b : Bool)
    (out : List Para) (fp : Bool) (h : foldLoop ps b = .ok (out, fp)) :
    (∀ q ∈ out, ParaV src q) ∧ ranges out ++ lastRanges ps fp = inRanges ps b := by
  induction ps generalizing b out fp with
  | nil => exact absurd rfl hne
  | cons p1 rest ih =>
    cases rest with
    | nil =>
      simp only [foldLoop, Except.ok.injEq, Prod.mk.injEq] at h
      obtain ⟨rfl, rfl⟩ := h
      refine ⟨by simp, ?_⟩
      cases b <;> simp [lastRanges, inRanges, ranges]
    | cons p2 rest' =>
      have hlast : ∀ fp', lastRanges (p1 :: p2 :: rest') fp' = lastRanges (p2 :: rest') fp' := by
        intro fp'; simp [lastRanges, List.getLast?_cons_cons]
      have hv2 : ∀ p ∈ p2 :: rest', ParaV src p := fun p hp => hv p (by simp [hp])
      rw [foldLoop_unfold] at h
      by_cases hb : b = true
      · subst hb
        simp only [if_true] at h
        obtain ⟨h1, h2⟩ := ih (by simp) hv2 false out fp h
        refine ⟨h1, ?_⟩
        rw [hlast, h2]; simp [inRanges]
      · have hb' : b = false := by simpa using hb
        subst hb'
        simp only [Bool.false_eq_true, if_false] at h
        by_cases hc : foldCond p1 p2 = true
        · simp only [hc, if_true] at h
          -- the shape of the second paragraph
          cases hd : toDict p2 with
          | nil => rw [hd] at h; simp at h
          | cons kv kvs =>
            cases kvs with
            | cons _ _ => rw [hd] at h; simp at h
            | nil =>
              obtain ⟨k, dv⟩ := kv
              cases dv with
              | emptyList => rw [hd] at h; simp at h
              | s text =>
                cases hl : p2.lines.lookup unknownName with
                | none => rw [hd, hl] at h; simp at h
                | some rng =>
                  rw [hd, hl] at h
                  simp only at h
                  cases hrec : foldLoop (p2 :: rest') true with
                  | error e => rw [hrec] at h; simp at h
                  | ok res =>
                    obtain ⟨out2, fp2⟩ := res
                    rw [hrec] at h
                    simp only [Except.ok.injEq, Prod.mk.injEq] at h
                    obtain ⟨rfl, rfl⟩ := h
                    have hk : k = unknownName := by
                      have hc' := hc
                      unfold foldCond at hc'
                      simp only [Bool.and_eq_true, decide_eq_true_eq] at hc'
                      have := hc'.1.2
                      rw [hd] at this
                      simpa using this
                    subst hk
                    obtain ⟨hp1', hls, hl2⟩ := fold_V src p1 p2 (hv p1 (by simp)) (hv p2 (by simp)) hc text rng hd hl
                    obtain ⟨h1, h2⟩ := ih (by simp) hv2 true out2 fp2 hrec
                    refine ⟨?_, ?_⟩
                    · intro q hq
                      rcases List.mem_cons.mp hq with rfl | hq
                      · exact hp1'
                      · exact h1 q hq
                    · rw [hlast]
                      have e1 : ranges (({ setLicense p1 [] (some text) with lines := lset p1.lines "license".toList rng } : Para) :: out2) =
                          (p1.lines.map (·.2) ++ [rng]) ++ ranges out2 := by
                        simp only [ranges, List.flatMap_cons, hls, List.map_append, List.map_cons, List.map_nil]
                      rw [e1, List.append_assoc, h2]
                      simp [inRanges, ranges, hl2]
        · have hc' : foldCond p1 p2 = false := by simpa using hc
          simp only [hc', Bool.false_eq_true, if_false] at h
          cases hrec : foldLoop (p2 :: rest') false with
          | error e => rw [hrec] at h; simp at h
          | ok res =>
            obtain ⟨out2, fp2⟩ := res
            rw [hrec] at h
            simp only [Except.ok.injEq, Prod.mk.injEq] at h
            obtain ⟨rfl, rfl⟩ := h
            obtain ⟨h1, h2⟩ := ih (by simp) hv2 false out2 fp2 hrec
            refine ⟨?_, ?_⟩
            · intro q hq
              rcases List.mem_cons.mp hq with rfl | hq
              · exact hv q (by simp)
              · exact h1 q hq
            · rw [hlast]
              have : ranges (p1 :: out2) = ranges [p1] ++ ranges out2 := by simp [ranges]
              rw [this, List.append_assoc, h2]
              simp [inRanges, ranges]

theorem foldLicense_V (src : List Str) (ps ps' : List Para) (hd : DocV src ps) (h : foldLicense ps = .ok ps') : DocV src ps' := by
  unfold foldLicense at h
  by_cases hlen : ps.length ≤ 2
  · simp only [hlen, if_true, Except.ok.injEq] at h
    subst h; exact hd
  · simp only [hlen, if_false] at h
    have hne : ps ≠ [] := by intro e; rw [e] at hlen; simp at hlen
    cases hrec : foldLoop ps false with
    | error e => rw [hrec] at h; simp at h
    | ok res =>
      obtain ⟨out, fp⟩ := res
      rw [hrec] at h
      simp only at h
      obtain ⟨h1, h2⟩ := foldLoop_V src ps hne hd.paras false out fp hrec
      simp only [inRanges, Bool.false_eq_true, if_false] at h2
      cases fp with
      | true =>
        simp only [if_true, Except.ok.injEq] at h
        subst h
        refine ⟨h1, ?_⟩
        have : ranges out = ranges ps := by simpa [lastRanges] using h2
        rw [this]; exact hd.ord
      | false =>
        simp only [Bool.false_eq_true, if_false] at h
        cases hl : ps.getLast? with
        | none => exact absurd (List.getLast?_eq_none_iff.mp hl) hne
        | some last =>
          rw [hl] at h
          simp only [Except.ok.injEq] at h
          subst h
          refine ⟨?_, ?_⟩
          · intro q hq
            rcases List.mem_append.mp hq with hq | hq
            · exact h1 q hq
            · simp only [List.mem_singleton] at hq
              subst hq
              exact hd.paras q (List.mem_of_getLast? hl)
          · rw [ranges_append]
            have : lastRanges ps false = ranges [last] := by simp [lastRanges, hl]
            rw [this] at h2
            rw [h2]; exact hd.ord

/-! ### F. the property -/

open Props.C07 in
/-- **every copyright object built from a text** satisfies the range invariant -/
theorem fromText_V (t : Str) (ps : List Para) (h : fromText t = .ok ps) : DocV (srcLines t) ps := by
  have hinc := Props.C05.numbers_increasing t
  rw [Props.C05.allNums_model] at hinc
  have hnums : (parse t).flatMap gnums = Proofs.Deb822.nums (parse t) := rfl
  obtain ⟨ps0, hps0, hd0, hc0, _⟩ := groups_V (srcLines t) (parse t) 1 (parse_fldR t)
    (by rw [hnums]; exact hinc.1)
    (by
      intro n hn
      rw [hnums] at hn
      exact (hinc.2 n hn).1)
  unfold fromText fromFieldsGroups at h
  rw [hps0] at h
  simp only at h
  cases hm : mergeUnknown ps0 with
  | error e => rw [hm] at h; simp at h
  | ok ps1 =>
    rw [hm] at h
    simp only at h
    exact foldLicense_V _ ps1 ps (mergeUnknown_V _ ps0 ps1 hd0 hc0 hm) h

def Apart (a b : Nat × Nat) : Prop := a.2 < b.1 ∨ b.2 < a.1

theorem insertRange_perm (r : Nat × Nat) (l : List (Nat × Nat)) : (insertRange r l).Perm (r :: l) := by
  induction l with
  | nil => exact List.Perm.refl _
  | cons x xs ih =>
    unfold insertRange
    by_cases h : r.1 < x.1
    · simp only [h, if_true]; exact List.Perm.refl _
    · simp only [h, if_false]
      exact (List.Perm.cons x ih).trans (List.Perm.swap r x xs)

theorem sortRanges_perm (l : List (Nat × Nat)) : (sortRanges l).Perm l := by
  unfold sortRanges
  have : ∀ (acc : List (Nat × Nat)), (l.foldl (fun acc r => insertRange r acc) acc).Perm (l ++ acc) := by
    induction l with
    | nil => intro acc; exact List.Perm.refl _
    | cons x xs ih =>
      intro acc
      simp only [List.foldl_cons]
      refine (ih (insertRange x acc)).trans ?_
      refine (List.Perm.append_left xs (insertRange_perm x acc)).trans ?_
      simp only [List.cons_append]
      exact List.perm_middle
  simpa using this []

theorem insertRange_sorted (r : Nat × Nat) (l : List (Nat × Nat)) (h : l.Pairwise fun a b => a.1 ≤ b.1) :
    (insertRange r l).Pairwise fun a b => a.1 ≤ b.1 := by
  induction l with
  | nil => simp [insertRange]
  | cons x xs ih =>
    rw [List.pairwise_cons] at h
    unfold insertRange
    by_cases hr : r.1 < x.1
    · simp only [hr, if_true]
      rw [List.pairwise_cons]
      refine ⟨?_, List.pairwise_cons.mpr h⟩
      intro y hy
      rcases List.mem_cons.mp hy with rfl | hy
      · omega
      · have := h.1 y hy; omega
    · simp only [hr, if_false]
      rw [List.pairwise_cons]
      refine ⟨?_, ih h.2⟩
      intro y hy
      have := (insertRange_perm r xs).mem_iff.mp hy
      rcases List.mem_cons.mp this with rfl | hy'
      · omega
      · exact h.1 y hy'

theorem sortRanges_sorted (l : List (Nat × Nat)) : (sortRanges l).Pairwise fun a b => a.1 ≤ b.1 := by
  unfold sortRanges
  have : ∀ (acc : List (Nat × Nat)), acc.Pairwise (fun a b => a.1 ≤ b.1) →
      (l.foldl (fun acc r => insertRange r acc) acc).Pairwise fun a b => a.1 ≤ b.1 := by
    induction l with
    | nil => intro acc h; exact h
    | cons x xs ih => intro acc h; exact ih _ (insertRange_sorted x acc h)
  exact this [] List.Pairwise.nil

theorem disjointIncreasing_of_pairwise (l : List (Nat × Nat)) (h : l.Pairwise fun a b => a.2 < b.1) :
    disjointIncreasing l = true := by
  induction l with
  | nil => rfl
  | cons a as ih =>
    rw [List.pairwise_cons] at h
    cases as with
    | nil => rfl
    | cons b bs =>
      simp only [disjointIncreasing, Bool.and_eq_true, decide_eq_true_eq]
      exact ⟨h.1 b (by simp), ih h.2⟩

/-- two entries of `lines` under different keys have ranges that lie apart -/
theorem lines_apart (L : List (Str × (Nat × Nat))) (ho : (L.map (·.2)).Pairwise fun r r' => r.2 < r'.1)
    (x y : Str × (Nat × Nat)) (hx : x ∈ L) (hy : y ∈ L) (hne : x.1 ≠ y.1) : Apart x.2 y.2 := by
  induction L with
  | nil => cases hx
  | cons a as ih =>
    rw [List.map_cons, List.pairwise_cons] at ho
    rcases List.mem_cons.mp hx with rfl | hx' <;> rcases List.mem_cons.mp hy with rfl | hy'
    · exact absurd rfl hne
    · exact Or.inl (ho.1 y.2 (List.mem_map.mpr ⟨y, hy', rfl⟩))
    · exact Or.inr (ho.1 x.2 (List.mem_map.mpr ⟨x, hx', rfl⟩))
    · exact ih ho.2 hx' hy'

/-- the ranges of the fields with a value, sorted: inside the paragraph's list of ranges, one after the other -/
theorem valued_sorted (src : List Str) (p : Para) (hv : ParaV src p)
    (ho : (p.lines.map (·.2)).Pairwise fun r r' => r.2 < r'.1) :
    (sortRanges (valuedRanges (Props.CopyrightObs.ofPara p))).Pairwise (fun a b => a.2 < b.1) ∧
    ∀ r ∈ sortRanges (valuedRanges (Props.CopyrightObs.ofPara p)), r ∈ p.lines.map (·.2) := by
  -- the valued ranges: members of `lines`, pairwise apart
  have hmem : ∀ r ∈ valuedRanges (Props.CopyrightObs.ofPara p), ∃ k, (k, r) ∈ p.lines ∧ r.1 ≤ r.2 := by
    intro r hr
    unfold valuedRanges at hr
    obtain ⟨kv, hkv, hf⟩ := List.mem_filterMap.mp hr
    obtain ⟨k, dv⟩ := kv
    cases dv with
    | emptyList => simp at hf
    | s v =>
      simp only [Props.CopyrightObs.ofPara] at hf
      by_cases hve : v.isEmpty = true
      · simp [hve] at hf
      · simp only [hve, Bool.false_eq_true, if_false] at hf
        have hm := lookup_mem _ _ _ hf
        obtain ⟨v', hv'⟩ := hv.lval (k, r) hm
        exact ⟨k, hm, hv'.le⟩
  have hap : (valuedRanges (Props.CopyrightObs.ofPara p)).Pairwise Apart := by
    unfold valuedRanges
    rw [List.pairwise_filterMap]
    have hd := hv.dnd
    simp only [Props.CopyrightObs.ofPara]
    -- distinct keys of the dictionary form
    have : (toDict p).Pairwise fun a b => a.1 ≠ b.1 := by
      have := hd
      unfold List.Nodup at this
      rw [List.pairwise_map] at this
      exact this
    refine this.imp ?_
    intro a b hab r hr r' hr'
    obtain ⟨ka, da⟩ := a
    obtain ⟨kb, db⟩ := b
    cases da with
    | emptyList => simp at hr
    | s va =>
      cases db with
      | emptyList => simp at hr'
      | s vb =>
        by_cases h1 : va.isEmpty = true
        · simp [h1] at hr
        · by_cases h2 : vb.isEmpty = true
          · simp [h2] at hr'
          · simp only [h1, h2, Bool.false_eq_true, if_false] at hr hr'
            exact lines_apart p.lines ho (ka, r) (kb, r') (lookup_mem _ _ _ hr) (lookup_mem _ _ _ hr') hab
  have hperm := sortRanges_perm (valuedRanges (Props.CopyrightObs.ofPara p))
  have hsorted := sortRanges_sorted (valuedRanges (Props.CopyrightObs.ofPara p))
  have hap' : (sortRanges (valuedRanges (Props.CopyrightObs.ofPara p))).Pairwise Apart :=
    (hperm.pairwise_iff (fun {a b} h => by rcases h with h | h; exact Or.inr h; exact Or.inl h)).mpr hap
  refine ⟨?_, ?_⟩
  · have hboth := hsorted.and hap'
    refine hboth.imp_of_mem ?_
    intro a b ha hb hab
    obtain ⟨h1, h2⟩ := hab
    obtain ⟨_, _, hale⟩ := hmem a (hperm.mem_iff.mp ha)
    obtain ⟨_, _, hble⟩ := hmem b (hperm.mem_iff.mp hb)
    rcases h2 with h | h
    · exact h
    · omega
  · intro r hr
    obtain ⟨k, hk, _⟩ := hmem r (hperm.mem_iff.mp hr)
    exact List.mem_map.mpr ⟨(k, r), hk, rfl⟩

theorem all_valued_pairwise (src : List Str) (ps : List Para) (hv : ∀ p ∈ ps, ParaV src p) (ho : Ordered (ranges ps)) :
    ((ps.map Props.CopyrightObs.ofPara).flatMap fun p => sortRanges (valuedRanges p)).Pairwise (fun a b => a.2 < b.1) ∧
    ∀ r ∈ (ps.map Props.CopyrightObs.ofPara).flatMap (fun p => sortRanges (valuedRanges p)), r ∈ ranges ps := by
  induction ps with
  | nil => exact ⟨by simp, by simp⟩
  | cons p rest ih =>
    have ho' := ho
    unfold Ordered at ho'
    simp only [ranges, List.flatMap_cons] at ho'
    rw [List.pairwise_append] at ho'
    obtain ⟨h1, h2⟩ := ih (fun q hq => hv q (by simp [hq])) ho'.2.1
    obtain ⟨hs1, hs2⟩ := valued_sorted src p (hv p (by simp)) ho'.1
    refine ⟨?_, ?_⟩
    · simp only [List.map_cons, List.flatMap_cons]
      rw [List.pairwise_append]
      refine ⟨hs1, h1, ?_⟩
      intro a ha b hb
      exact ho'.2.2 a (hs2 a ha) b (h2 b hb)
    · intro r hr
      simp only [List.map_cons, List.flatMap_cons, List.mem_append] at hr
      simp only [ranges, List.flatMap_cons, List.mem_append]
      rcases hr with hr | hr
      · exact Or.inl (hs2 r hr)
      · exact Or.inr (h2 r hr)

theorem paraOk_of_V (src : List Str) (p : Para) (hv : ParaV src p) : paraOk src (Props.CopyrightObs.ofPara p) = true := by
  unfold paraOk
  rw [List.all_eq_true]
  intro kv hkv
  obtain ⟨k, dv⟩ := kv
  cases dv with
  | emptyList => rfl
  | s v =>
    simp only [Bool.or_eq_true]
    by_cases hve : v.isEmpty = true
    · exact Or.inl hve
    · right
      have hne : v ≠ [] := by intro e; rw [e] at hve; simp at hve
      obtain ⟨r, hr, hrr⟩ := hv.val k v hkv hne
      have hlk : p.lines.lookup k = some r := Props.C09G.lookup_mem_nodup p.lines hv.lnd (k, r) hr
      unfold fieldOk
      simp only [Props.CopyrightObs.ofPara, hlk, Bool.and_eq_true, decide_eq_true_eq, Bool.not_eq_true']
      exact ⟨⟨⟨⟨⟨hrr.lo, hrr.le⟩, hrr.hi⟩, hrr.first⟩, hrr.last⟩, hrr.wds⟩

/-- **C10 for every text**: every field with a value of every paragraph of the copyright object carries a range inside
the file whose first and last lines hold content and whose lines contain every word of the value; the ranges are
disjoint and increasing in source order, within and across paragraphs — through the merge of free-text paragraphs and
the fold into an empty license; and blank lines on top shift every range by their number and change nothing else -/
theorem sound (i : Input) : holdsOn i (model i) = true := by
  unfold holdsOn model
  simp only
  rw [Props.C10S.shift_sound]
  unfold parasOf
  cases hft : fromText i.text with
  | error e => rfl
  | ok ps =>
    simp only [Except.map]
    have hd := fromText_V i.text ps hft
    simp only [Bool.and_eq_true, decide_eq_true_eq, List.all_eq_true]
    refine ⟨⟨?_, ?_⟩, trivial⟩
    · intro po hpo
      obtain ⟨p, hp, rfl⟩ := List.mem_map.mp hpo
      exact paraOk_of_V _ p (hd.paras p hp)
    · unfold rangesOk
      exact disjointIncreasing_of_pairwise _ (all_valued_pairwise _ ps hd.paras hd.ord).1

end Props.C10R

namespace Props.C10R
open Props.C10

/-- non-vacuity: an absorbed blank line after a value-less declaration, a merged run of free text with a declaration
line inside, a fold into an empty license, renamed duplicates: the object has paragraphs with ranges -/
example : (match parasOf "License: a\nLicense: b\n\njunk x\n\nUnknown-a:y\n\nLicense:\n\nfree text\nmore\n\nFiles: *\nCopyright: 2001 X\n  2002 Y\nLicense: MIT\n".toList with
    | .ok ps => ps.map (fun p => p.lines.map (·.2))
    | .error _ => []) = [[(1, 1), (2, 2)], [(4, 6)], [(10, 11)], [(13, 13), (14, 15), (16, 16)]] := by decide +kernel

end Props.C10R
