/-
C19 — the maintainer clause: for every name of single-spaced words of atom characters and dots and every address that is
a dot-atom with one `@`, the model of `MaintainerField.from_value("name <address>")` — through the model of the standard
library's address parser — returns exactly that name and that address, and prints back unchanged.
-/
import DebInspector.Props.C19
import DebInspector.Proofs.SplitJoin
import DebInspector.Proofs.StrLemmas

namespace Props.C19M
open Py Model.Addr Props.C19

/-! ### character classes -/

theorem atomChar_table : ∀ n ∈ List.range 128, atomChar (Char.ofNat n) = true →
    atomends.contains (Char.ofNat n) = false ∧ phraseends.contains (Char.ofNat n) = false ∧
    lws.contains (Char.ofNat n) = false ∧ fws.contains (Char.ofNat n) = false ∧ isSpace (Char.ofNat n) = false := by
  decide +kernel

structure AC (c : Char) : Prop where
  ae : atomends.contains c = false
  pe : phraseends.contains c = false
  lw : lws.contains c = false
  fw : fws.contains c = false
  sp : isSpace c = false

theorem atomChar_facts {c : Char} (h : atomChar c = true) : AC c := by
  have hlt : c.toNat < 128 := by
    simp only [atomChar, Bool.and_eq_true, decide_eq_true_eq] at h
    exact h.1
  have := atomChar_table c.toNat (by simpa using hlt) (by rw [Char.ofNat_toNat]; exact h)
  rw [Char.ofNat_toNat] at this
  exact ⟨this.1, this.2.1, this.2.2.1, this.2.2.2.1, this.2.2.2.2⟩

theorem dot_facts : phraseends.contains '.' = false ∧ atomends.contains '.' = true ∧ lws.contains '.' = false ∧
    fws.contains '.' = false := by decide

/-! ### atoms -/

theorem getAtom_run (ends : Str) (w r : Str) (hw : ∀ c ∈ w, ends.contains c = false)
    (hr : ∀ c ∈ r.head?, ends.contains c = true) : getAtom ends (w ++ r) = (w, r) := by
  induction w with
  | nil =>
    cases r with
    | nil => rfl
    | cons c cs =>
      have := hr c (by simp)
      simp only [List.nil_append, getAtom, this, if_true]
  | cons x xs ih =>
    simp only [List.cons_append, getAtom, hw x (by simp), Bool.false_eq_true, if_false]
    rw [ih (fun c hc => hw c (by simp [hc]))]

/-! ### words of a name, atoms of an address -/

/-- a word of a name: atom characters and dots -/
def WordOk (w : Str) : Prop := w ≠ [] ∧ ∀ c ∈ w, atomChar c = true ∨ c = '.'

/-- an atom of an address -/
def AtomOk (a : Str) : Prop := a ≠ [] ∧ ∀ c ∈ a, atomChar c = true

theorem word_pe {w : Str} (h : WordOk w) : ∀ c ∈ w, phraseends.contains c = false := by
  intro c hc
  rcases h.2 c hc with h1 | rfl
  · exact (atomChar_facts h1).pe
  · exact dot_facts.1

theorem not_pe_facts {c : Char} (h : phraseends.contains c = false) :
    fws.contains c = false ∧ c ≠ '"' ∧ c ≠ '(' := by
  have h1 : ∀ d ∈ fws, phraseends.contains d = true := by decide
  have h2 : phraseends.contains '"' = true := by decide
  have h3 : phraseends.contains '(' = true := by decide
  refine ⟨?_, ?_, ?_⟩
  · cases hf : fws.contains c with
    | false => rfl
    | true => rw [h1 c (List.contains_iff_mem.mp hf)] at h; cases h
  · intro e; subst e; rw [h2] at h; cases h
  · intro e; subst e; rw [h3] at h; cases h

theorem gotoNext_stop (fuel : Nat) (c : Char) (rest : Str) (cl : List Str) (h1 : lws.contains c = false)
    (h2 : c ≠ '\n') (h3 : c ≠ '\r') (h4 : c ≠ '(') : gotoNext (fuel + 1) (c :: rest) cl = ([], c :: rest, cl) := by
  simp only [gotoNext, h1, h2, h3, h4, decide_false, Bool.or_self, Bool.false_eq_true, if_false]

theorem gotoNext_nil (fuel : Nat) (cl : List Str) : gotoNext fuel [] cl = ([], [], cl) := by
  cases fuel <;> rfl

/-- the phrase list of single-spaced words followed by ` <…` -/
theorem phrase_words (ws : List Str) (hne : ws ≠ []) (hW : ∀ w ∈ ws, WordOk w) (R : Str) (cl : List Str) :
    ∀ fuel, (joinSp ws).length + 2 < fuel → getPhraseList fuel (joinSp ws ++ ' ' :: '<' :: R) cl = (ws, '<' :: R, cl) := by
  induction ws with
  | nil => exact absurd rfl hne
  | cons w rest ih =>
    intro fuel hf
    have hw := hW w (by simp)
    obtain ⟨c, cs, hc⟩ : ∃ c cs, w = c :: cs := by
      cases hw' : w with
      | nil => exact absurd hw' hw.1
      | cons c cs => exact ⟨c, cs, rfl⟩
    have hpe := word_pe hw
    obtain ⟨hcf, hcq, hcp⟩ := not_pe_facts (hpe c (by rw [hc]; simp))
    have hsp : phraseends.contains ' ' = true := by decide
    have hspf : fws.contains ' ' = true := by decide
    have hlt : phraseends.contains '<' = true := by decide
    have hltf : fws.contains '<' = false := by decide
    cases rest with
    | nil =>
      -- the last word
      have e : joinSp [w] ++ ' ' :: '<' :: R = w ++ (' ' :: '<' :: R) := rfl
      rw [e]
      obtain ⟨f1, rfl⟩ : ∃ f1, fuel = f1 + 1 := ⟨fuel - 1, by omega⟩
      rw [hc]
      simp only [List.cons_append, getPhraseList, hcf, Bool.false_eq_true, if_false, hcq, hcp, hpe c (by rw [hc]; simp)]
      rw [← List.cons_append, ← hc, getAtom_run phraseends w _ hpe (by intro d hd; simp at hd; subst hd; exact hsp)]
      simp only
      obtain ⟨f2, rfl⟩ : ∃ f2, f1 = f2 + 1 := ⟨f1 - 1, by simp [joinSp] at hf; omega⟩
      simp only [getPhraseList, hspf, if_true]
      obtain ⟨f3, rfl⟩ : ∃ f3, f2 = f3 + 1 := ⟨f2 - 1, by simp [joinSp] at hf; omega⟩
      have hq : ('<' : Char) ≠ '"' := by decide
      have hp : ('<' : Char) ≠ '(' := by decide
      simp only [getPhraseList, hltf, hlt, Bool.false_eq_true, if_false, if_true, hq, hp]
    | cons w2 rest2 =>
      have e : joinSp (w :: w2 :: rest2) ++ ' ' :: '<' :: R = w ++ (' ' :: (joinSp (w2 :: rest2) ++ ' ' :: '<' :: R)) := by
        simp [joinSp, List.append_assoc]
      rw [e]
      have hlen : (joinSp (w :: w2 :: rest2)).length = w.length + 1 + (joinSp (w2 :: rest2)).length := by
        simp [joinSp]; omega
      obtain ⟨f1, rfl⟩ : ∃ f1, fuel = f1 + 1 := ⟨fuel - 1, by omega⟩
      rw [hc]
      simp only [List.cons_append, getPhraseList, hcf, Bool.false_eq_true, if_false, hcq, hcp, hpe c (by rw [hc]; simp)]
      rw [← List.cons_append, ← hc, getAtom_run phraseends w _ hpe (by intro d hd; simp at hd; subst hd; exact hsp)]
      simp only
      obtain ⟨f2, rfl⟩ : ∃ f2, f1 = f2 + 1 := ⟨f1 - 1, by omega⟩
      simp only [getPhraseList, hspf, if_true]
      have hwl : w.length ≥ 1 := by rw [hc]; simp
      rw [ih (by simp) (fun x hx => hW x (by simp [hx])) f2 (by omega)]

/-! ### dot-atoms -/

def joinDot : List Str → Str
  | [] => []
  | [a] => a
  | a :: as => a ++ '.' :: joinDot as

def pieces : List Str → List Str
  | [] => []
  | [a] => [a]
  | a :: as => a :: ['.'] :: pieces as

theorem pieces_flatten (as : List Str) : (pieces as).flatten = joinDot as := by
  induction as with
  | nil => rfl
  | cons a rest ih =>
    cases rest with
    | nil => simp [pieces, joinDot]
    | cons b bs => simp only [pieces, joinDot, List.flatten_cons, ih]; simp

theorem atom_head {a : Str} (h : AtomOk a) : ∃ c cs, a = c :: cs ∧ atomChar c = true := by
  cases ha : a with
  | nil => exact absurd ha h.1
  | cons c cs => exact ⟨c, cs, rfl, h.2 c (by rw [ha]; simp)⟩

theorem atom_ae {a : Str} (h : AtomOk a) : ∀ c ∈ a, atomends.contains c = false :=
  fun c hc => (atomChar_facts (h.2 c hc)).ae

theorem not_ae_facts {c : Char} (h : atomends.contains c = false) :
    lws.contains c = false ∧ c ≠ '.' ∧ c ≠ '"' ∧ c ≠ '(' ∧ c ≠ '[' ∧ c ≠ '@' ∧ c ≠ '\n' ∧ c ≠ '\r' ∧ c ≠ '>' ∧ c ≠ ':' := by
  have hall : ∀ d ∈ atomends, atomends.contains d = true := by decide
  have hmem : ∀ d, d ∈ atomends → d ≠ c := by
    intro d hd e
    subst e
    rw [hall d hd] at h; cases h
  refine ⟨?_, ?_, ?_, ?_, ?_, ?_, ?_, ?_, ?_, ?_⟩
  · cases hf : lws.contains c with
    | false => rfl
    | true =>
      have : c ∈ atomends := by
        have := List.contains_iff_mem.mp hf
        simp only [atomends, List.mem_append]
        exact Or.inl (Or.inr this)
      exact absurd rfl (hmem c this)
  all_goals (intro e; subst e; revert h; decide)

theorem atom_nonblank {a : Str} (h : AtomOk a) : isBlankPy a = false := by
  obtain ⟨c, cs, rfl, hc⟩ := atom_head h
  simp [isBlankPy, (atomChar_facts hc).sp]

/-- a character that ends the local part: `@` or `>` -/
structure Term (t : Char) : Prop where
  ae : atomends.contains t = true
  lw : lws.contains t = false
  nl : t ≠ '\n'
  cr : t ≠ '\r'
  par : t ≠ '('
  dot : t ≠ '.'
  quo : t ≠ '"'

theorem term_at : Term '@' := ⟨by decide, by decide, by decide, by decide, by decide, by decide, by decide⟩
theorem term_gt : Term '>' := ⟨by decide, by decide, by decide, by decide, by decide, by decide, by decide⟩

/-- the local part: atoms and dots up to the `@` (or the `>` of an address without a domain) -/
theorem local_loop (t : Char) (ht : Term t) (as : List Str) (hne : as ≠ []) (hA : ∀ a ∈ as, AtomOk a) (R : Str) (cl : List Str) :
    ∀ fuel (acc : List Str), (joinDot as).length + 1 < fuel → (∀ x ∈ acc.getLast?, isBlankPy x = false) →
      addrSpecLoop fuel (joinDot as ++ t :: R) cl acc = (acc ++ pieces as, t :: R, cl) := by
  induction as with
  | nil => exact absurd rfl hne
  | cons a rest ih =>
    intro fuel acc hf hacc
    have ha := hA a (by simp)
    obtain ⟨c, cs, hc, hcc⟩ := atom_head ha
    have hae := atom_ae ha
    obtain ⟨hl, hdot, hq, _, _, _, _, _, _, _⟩ := not_ae_facts (hae c (by rw [hc]; simp))
    have hat : atomends.contains t = true := ht.ae
    have hdt : atomends.contains '.' = true := by decide
    have hpop : ∀ (l : List Str), (∀ x ∈ l.getLast?, isBlankPy x = false) → popWs l = l := by
      intro l hlst
      unfold popWs
      cases hg : l.getLast? with
      | none => rfl
      | some x => simp [hlst x hg]
    obtain ⟨f1, rfl⟩ : ∃ f1, fuel = f1 + 1 := ⟨fuel - 1, by omega⟩
    cases rest with
    | nil =>
      have e : joinDot [a] ++ t :: R = a ++ (t :: R) := rfl
      rw [e, hc]
      simp only [List.cons_append, addrSpecLoop, hdot, hq, hae c (by rw [hc]; simp), Bool.false_eq_true, if_false]
      rw [← List.cons_append, ← hc, getAtom_run atomends a _ hae (by intro d hd; simp at hd; subst hd; exact hat)]
      simp only
      rw [gotoNext_stop _ t R cl ht.lw ht.nl ht.cr ht.par]
      simp only [List.isEmpty_nil, if_true]
      obtain ⟨f2, rfl⟩ : ∃ f2, f1 = f2 + 1 := ⟨f1 - 1, by simp [joinDot] at hf; rw [hc] at hf; simp at hf; omega⟩
      have hat2 : t ≠ '.' := ht.dot
      have hat3 : t ≠ '"' := ht.quo
      simp only [addrSpecLoop, hat2, hat3, hat, if_false, if_true]
      rw [hpop (acc ++ [a]) (by intro x hx; simp at hx; subst hx; exact atom_nonblank ha)]
      simp [pieces]
    | cons b bs =>
      have e : joinDot (a :: b :: bs) ++ t :: R = a ++ ('.' :: (joinDot (b :: bs) ++ t :: R)) := by
        simp [joinDot, List.append_assoc]
      have hlen : (joinDot (a :: b :: bs)).length = a.length + 1 + (joinDot (b :: bs)).length := by simp [joinDot]; omega
      rw [e, hc]
      simp only [List.cons_append, addrSpecLoop, hdot, hq, hae c (by rw [hc]; simp), Bool.false_eq_true, if_false]
      rw [← List.cons_append, ← hc, getAtom_run atomends a _ hae (by intro d hd; simp at hd; subst hd; exact hdt)]
      simp only
      rw [gotoNext_stop _ '.' _ cl (by decide) (by decide) (by decide) (by decide)]
      simp only [List.isEmpty_nil, if_true]
      have hal : a.length ≥ 1 := by rw [hc]; simp
      obtain ⟨f2, rfl⟩ : ∃ f2, f1 = f2 + 1 := ⟨f1 - 1, by omega⟩
      simp only [addrSpecLoop, if_true]
      rw [hpop (acc ++ [a]) (by intro x hx; simp at hx; subst hx; exact atom_nonblank ha)]
      -- after the dot, the next atom starts at once
      obtain ⟨d, ds, hd, hdc⟩ := atom_head (hA b (by simp))
      have hnext : joinDot (b :: bs) ++ t :: R = d :: (ds ++ (match bs with | [] => [] | _ => '.' :: joinDot bs) ++ t :: R) := by
        cases bs with
        | nil => simp [joinDot, hd]
        | cons x xs => simp [joinDot, hd, List.append_assoc]
      obtain ⟨hl2, _, _, hp2, _, _, hn2, hr2, _, _⟩ := not_ae_facts ((atomChar_facts hdc).ae)
      rw [hnext, gotoNext_stop _ d _ cl hl2 hn2 hr2 hp2, ← hnext]
      rw [ih (by simp) (fun x hx => hA x (by simp [hx])) f2 (acc ++ [a] ++ [['.']]) (by omega)
        (by intro x hx; simp at hx; subst hx; decide)]
      simp [pieces, List.append_assoc]

/-- the domain: atoms and dots up to the `>` -/
theorem domain_run (ds : List Str) (hne : ds ≠ []) (hD : ∀ a ∈ ds, AtomOk a) (R : Str) (cl : List Str) :
    ∀ fuel, (joinDot ds).length < fuel →
      getDomain fuel (joinDot ds ++ '>' :: R) cl = (joinDot ds, '>' :: R, cl) ∧
      domainHitsAt fuel (joinDot ds ++ '>' :: R) = false := by
  induction ds with
  | nil => exact absurd rfl hne
  | cons a rest ih =>
    intro fuel hf
    have ha := hD a (by simp)
    obtain ⟨c, cs, hc, hcc⟩ := atom_head ha
    have hae := atom_ae ha
    obtain ⟨hl, hdot, hq, hp, hb, hat, _, _, _, _⟩ := not_ae_facts (hae c (by rw [hc]; simp))
    have hgt : atomends.contains '>' = true := by decide
    have hdt : atomends.contains '.' = true := by decide
    have hal : a.length ≥ 1 := by rw [hc]; simp
    obtain ⟨f1, rfl⟩ : ∃ f1, fuel = f1 + 1 := ⟨fuel - 1, by omega⟩
    cases rest with
    | nil =>
      have e : joinDot [a] ++ '>' :: R = a ++ ('>' :: R) := rfl
      have hlen : (joinDot [a]).length = a.length := rfl
      rw [e, hc]
      simp only [List.cons_append, getDomain, domainHitsAt, hl, hp, hb, hdot, hat, hae c (by rw [hc]; simp), Bool.false_eq_true, if_false]
      rw [← List.cons_append, ← hc, getAtom_run atomends a _ hae (by intro d hd; simp at hd; subst hd; exact hgt)]
      simp only
      obtain ⟨f2, rfl⟩ : ∃ f2, f1 = f2 + 1 := ⟨f1 - 1, by omega⟩
      have g1 : lws.contains '>' = false := by decide
      have g2 : ('>' : Char) ≠ '(' := by decide
      have g3 : ('>' : Char) ≠ '[' := by decide
      have g4 : ('>' : Char) ≠ '.' := by decide
      have g5 : ('>' : Char) ≠ '@' := by decide
      simp only [getDomain, domainHitsAt, g1, g2, g3, g4, g5, hgt, Bool.false_eq_true, if_false, if_true, List.append_nil]
      exact ⟨rfl, trivial⟩
    | cons b bs =>
      have e : joinDot (a :: b :: bs) ++ '>' :: R = a ++ ('.' :: (joinDot (b :: bs) ++ '>' :: R)) := by
        simp [joinDot, List.append_assoc]
      have hlen : (joinDot (a :: b :: bs)).length = a.length + 1 + (joinDot (b :: bs)).length := by simp [joinDot]; omega
      rw [e, hc]
      simp only [List.cons_append, getDomain, domainHitsAt, hl, hp, hb, hdot, hat, hae c (by rw [hc]; simp), Bool.false_eq_true, if_false]
      rw [← List.cons_append, ← hc, getAtom_run atomends a _ hae (by intro d hd; simp at hd; subst hd; exact hdt)]
      simp only
      obtain ⟨f2, rfl⟩ : ∃ f2, f1 = f2 + 1 := ⟨f1 - 1, by omega⟩
      have d1 : lws.contains '.' = false := by decide
      have d2 : ('.' : Char) ≠ '(' := by decide
      have d3 : ('.' : Char) ≠ '[' := by decide
      simp only [getDomain, domainHitsAt, d1, d2, d3, Bool.false_eq_true, if_false, if_true]
      obtain ⟨i1, i2⟩ := ih (by simp) (fun x hx => hD x (by simp [hx])) f2 (by omega)
      rw [i1, i2]
      simp [joinDot, List.append_assoc]

theorem joinSp_join (ws : List Str) : joinSp ws = join [' '] ws := by
  induction ws with
  | nil => rfl
  | cons w rest ih =>
    cases rest with
    | nil => rfl
    | cons v vs => simp only [joinSp, join, ih]; simp

theorem joinDot_join (as : List Str) : joinDot as = join ['.'] as := by
  induction as with
  | nil => rfl
  | cons w rest ih =>
    cases rest with
    | nil => rfl
    | cons v vs => simp only [joinDot, join, ih]; simp

/-! ### the maintainer clause -/

theorem first_char_stop (c : Char) (rest : Str) (cl : List Str) (fuel : Nat) (h : phraseends.contains c = false) :
    gotoNext (fuel + 1) (c :: rest) cl = ([], c :: rest, cl) := by
  obtain ⟨hf, _, hp⟩ := not_pe_facts h
  have hl : lws.contains c = false := by
    cases hh : lws.contains c with
    | false => rfl
    | true =>
      have : fws.contains c = true := by
        apply List.contains_iff_mem.mpr
        simp only [fws, List.mem_append]
        exact Or.inl (List.contains_iff_mem.mp hh)
      rw [hf] at this; cases this
  have hn : c ≠ '\n' := by intro e; subst e; revert hf; decide
  have hr : c ≠ '\r' := by intro e; subst e; revert hf; decide
  exact gotoNext_stop fuel c rest cl hl hn hr hp

theorem strip_id_of (v : Str) (c d : Char) (m : Str) (hv : v = c :: (m ++ [d])) (hc : isSpace c = false) (hd : isSpace d = false) :
    strip v = v := by
  subst hv
  have h1 : lstrip (c :: (m ++ [d])) = c :: (m ++ [d]) := by simp [lstrip, hc]
  have h2 : rstrip (c :: (m ++ [d])) = c :: (m ++ [d]) := by
    have : c :: (m ++ [d]) = (c :: m) ++ [d] := rfl
    rw [this]
    apply Py.rstrip_of_last
    rw [lastP_append_cons]
    simp [lastP, hd]
  simp [strip, h1, h2]

theorem wf_parts (i : InputM) (h : wfM i = true) :
    ∃ ws ls, ws ≠ [] ∧ (∀ w ∈ ws, WordOk w) ∧ i.name = joinSp ws ∧ ls ≠ [] ∧ (∀ a ∈ ls, AtomOk a) ∧
      (i.address = joinDot ls ∨
       ∃ ds, ds ≠ [] ∧ (∀ a ∈ ds, AtomOk a) ∧ i.address = joinDot ls ++ '@' :: joinDot ds) := by
  simp only [wfM, Bool.and_eq_true, Bool.not_eq_true', List.all_eq_true, Bool.or_eq_true, beq_iff_eq] at h
  obtain ⟨⟨_, hwords⟩, hlen, hparts⟩ := h
  have hatoms : ∀ p, (∀ a ∈ splitChar '.' p, a.isEmpty = false ∧ ∀ c ∈ a, atomChar c = true) →
      splitChar '.' p ≠ [] ∧ (∀ a ∈ splitChar '.' p, AtomOk a) ∧ p = joinDot (splitChar '.' p) := by
    intro p hp
    refine ⟨splitChar_ne_nil '.' p, ?_, ?_⟩
    · intro a ha
      obtain ⟨h1, h2⟩ := hp a ha
      exact ⟨by intro e; rw [e] at h1; simp at h1, h2⟩
    · rw [joinDot_join, join_splitChar]
  have hname : (∀ w ∈ splitChar ' ' i.name, WordOk w) := by
    intro w hw
    obtain ⟨h1, h2⟩ := hwords w hw
    refine ⟨by intro e; rw [e] at h1; simp at h1, ?_⟩
    intro c hc
    rcases h2 c hc with h3 | h3
    · exact Or.inl h3
    · exact Or.inr h3
  have hjoin := join_splitChar '@' i.address
  cases hp : splitChar '@' i.address with
  | nil => rw [hp] at hlen; simp at hlen
  | cons loc rest =>
    cases rest with
    | nil =>
      rw [hp] at hparts hjoin
      obtain ⟨l1, l2, l3⟩ := hatoms loc (hparts loc (by simp)).2
      refine ⟨splitChar ' ' i.name, splitChar '.' loc, splitChar_ne_nil ' ' i.name, hname, ?_, l1, l2, Or.inl ?_⟩
      · rw [joinSp_join, join_splitChar]
      · rw [← l3, ← hjoin]
        simp [join]
    | cons dom rest2 =>
      cases rest2 with
      | cons _ _ => rw [hp] at hlen; simp at hlen
      | nil =>
        rw [hp] at hparts hjoin
        obtain ⟨l1, l2, l3⟩ := hatoms loc (hparts loc (by simp)).2
        obtain ⟨d1, d2, d3⟩ := hatoms dom (hparts dom (by simp)).2
        refine ⟨splitChar ' ' i.name, splitChar '.' loc, splitChar_ne_nil ' ' i.name, hname, ?_, l1, l2,
          Or.inr ⟨splitChar '.' dom, d1, d2, ?_⟩⟩
        · rw [joinSp_join, join_splitChar]
        · rw [← l3, ← d3, ← hjoin]
          simp [join]

theorem joinSp_head (w : Str) (rest : List Str) : ∃ T, joinSp (w :: rest) = w ++ T := by
  cases rest with
  | nil => exact ⟨[], by simp [joinSp]⟩
  | cons v vs => exact ⟨' ' :: joinSp (v :: vs), rfl⟩

theorem joinDot_head (w : Str) (rest : List Str) : ∃ T, joinDot (w :: rest) = w ++ T := by
  cases rest with
  | nil => exact ⟨[], by simp [joinDot]⟩
  | cons v vs => exact ⟨'.' :: joinDot (v :: vs), rfl⟩

/-- the addr-spec `local@domain` followed by `>` -/
theorem addrspec_full (ls ds : List Str) (hls : ls ≠ []) (hds : ds ≠ [])
    (hL : ∀ a ∈ ls, AtomOk a) (hD : ∀ a ∈ ds, AtomOk a) :
    getAddrSpec (joinDot ls ++ '@' :: joinDot ds ++ ['>']) [] = (joinDot ls ++ '@' :: joinDot ds, ['>'], []) := by
  obtain ⟨l0, lrest, hl0⟩ : ∃ l0 lrest, ls = l0 :: lrest := by
    cases ls with
    | nil => exact absurd rfl hls
    | cons a as => exact ⟨a, as, rfl⟩
  obtain ⟨a0, as0, ha0, hac0⟩ := atom_head (hL l0 (by rw [hl0]; simp))
  obtain ⟨A', hA'⟩ : ∃ A', joinDot ls ++ '@' :: joinDot ds ++ ['>'] = a0 :: A' := by
    obtain ⟨T, hT⟩ := joinDot_head l0 lrest
    rw [hl0, hT, ha0, List.append_assoc, List.append_assoc]
    exact ⟨_, rfl⟩
  obtain ⟨d0, drest, hd0⟩ : ∃ d0 drest, ds = d0 :: drest := by
    cases ds with
    | nil => exact absurd rfl hds
    | cons a as => exact ⟨a, as, rfl⟩
  obtain ⟨b0, bs0, hb0, hbc0⟩ := atom_head (hD d0 (by rw [hd0]; simp))
  obtain ⟨D', hD'⟩ : ∃ D', joinDot ds ++ ['>'] = b0 :: D' := by
    obtain ⟨T, hT⟩ := joinDot_head d0 drest
    rw [hd0, hT, hb0, List.append_assoc]
    exact ⟨_, rfl⟩
  obtain ⟨al, _, _, ap, _, _, an, ar, _, _⟩ := not_ae_facts (atomChar_facts hac0).ae
  obtain ⟨bl, _, _, bp, _, _, bn, br, _, _⟩ := not_ae_facts (atomChar_facts hbc0).ae
  unfold getAddrSpec
  simp only
  rw [hA', List.length_cons, gotoNext_stop _ a0 A' [] al an ar ap]
  simp only
  rw [← hA']
  have e1 : joinDot ls ++ '@' :: joinDot ds ++ ['>'] = joinDot ls ++ '@' :: (joinDot ds ++ ['>']) := by simp
  rw [e1, local_loop '@' term_at ls hls hL _ [] _ [] (by simp <;> omega) (by simp)]
  simp only [List.nil_append]
  rw [hD', List.length_cons, gotoNext_stop _ b0 D' [] bl bn br bp]
  simp only
  rw [← hD']
  obtain ⟨i1, i2⟩ := domain_run ds hds hD [] [] ((joinDot ds ++ ['>']).length + 1) (by simp; omega)
  rw [i1, i2]
  have hdne : (joinDot ds).isEmpty = false := by
    rw [hd0, hb0]
    cases drest <;> simp [joinDot]
  simp only [hdne, Bool.or_self, Bool.false_eq_true, if_false, pieces_flatten]

/-- the addr-spec `local` (no domain) followed by `>` -/
theorem addrspec_local (ls : List Str) (hls : ls ≠ []) (hL : ∀ a ∈ ls, AtomOk a) :
    getAddrSpec (joinDot ls ++ ['>']) [] = (joinDot ls, ['>'], []) := by
  obtain ⟨l0, lrest, hl0⟩ : ∃ l0 lrest, ls = l0 :: lrest := by
    cases ls with
    | nil => exact absurd rfl hls
    | cons a as => exact ⟨a, as, rfl⟩
  obtain ⟨a0, as0, ha0, hac0⟩ := atom_head (hL l0 (by rw [hl0]; simp))
  obtain ⟨A', hA'⟩ : ∃ A', joinDot ls ++ ['>'] = a0 :: A' := by
    obtain ⟨T, hT⟩ := joinDot_head l0 lrest
    rw [hl0, hT, ha0, List.append_assoc]
    exact ⟨_, rfl⟩
  obtain ⟨al, _, _, ap, _, _, an, ar, _, _⟩ := not_ae_facts (atomChar_facts hac0).ae
  unfold getAddrSpec
  simp only
  rw [hA', List.length_cons, gotoNext_stop _ a0 A' [] al an ar ap]
  simp only
  rw [← hA', local_loop '>' term_gt ls hls hL [] [] _ [] (by simp) (by simp)]
  simp [pieces_flatten]

/-- the first address of `name <addrspec>`, for any addr-spec text `A` that starts with an atom character and is read
whole by `getAddrSpec` up to the `>` -/
theorem first_addr_of (ws : List Str) (hws : ws ≠ []) (hW : ∀ w ∈ ws, WordOk w) (A : Str) (a0 : Char) (A' : Str)
    (hA' : A ++ ['>'] = a0 :: A') (hac0 : atomChar a0 = true) (has : getAddrSpec (A ++ ['>']) [] = (A, ['>'], [])) :
    firstAddress (joinSp ws ++ ' ' :: '<' :: (A ++ ['>'])) = .ok (some (joinSp ws, A)) := by
  obtain ⟨w0, wrest, hw0⟩ : ∃ w0 wrest, ws = w0 :: wrest := by
    cases ws with
    | nil => exact absurd rfl hws
    | cons w0 wrest => exact ⟨w0, wrest, rfl⟩
  have hW0 := hW w0 (by rw [hw0]; simp)
  obtain ⟨c0, cs0, hc0⟩ : ∃ c0 cs0, w0 = c0 :: cs0 := by
    cases hh : w0 with
    | nil => exact absurd hh hW0.1
    | cons c cs => exact ⟨c, cs, rfl⟩
  have hpe0 := word_pe hW0 c0 (by rw [hc0]; simp)
  obtain ⟨V', hV'⟩ : ∃ V', joinSp ws ++ ' ' :: '<' :: (A ++ ['>']) = c0 :: V' := by
    obtain ⟨T, hT⟩ := joinSp_head w0 wrest
    rw [hw0, hT, hc0, List.append_assoc]
    exact ⟨_, rfl⟩
  have hA0 := (atomChar_facts hac0)
  obtain ⟨al, adot, _, ap, _, aat, an, ar, agt, acol⟩ := not_ae_facts hA0.ae
  unfold firstAddress
  simp only
  -- skip nothing, read the phrase
  rw [hV', List.length_cons, first_char_stop c0 V' [] _ hpe0]
  simp only
  rw [← hV', phrase_words ws hws hW _ [] _ (by simp; omega)]
  simp only
  rw [gotoNext_stop _ '<' _ [] (by decide) (by decide) (by decide) (by decide)]
  have h1 : ¬ (('<' : Char) = '.' ∨ ('<' : Char) = '@') := by decide
  have h2 : ('<' : Char) ≠ ':' := by decide
  simp only [Bool.or_eq_true, decide_eq_true_eq, h1, h2, if_false, if_true]
  -- the route address
  rw [hA', List.length_cons, gotoNext_stop _ a0 A' [] al an ar ap]
  simp only
  have hrl : routeLoop ((a0 :: A').length + 1) (a0 :: A') [] false = (A, [], []) := by
    simp only [routeLoop, Bool.false_eq_true, if_false, agt, aat, acol]
    rw [← hA', has]
    simp
  rw [hrl]
  simp

/-- the first address of `name <local@domain>` -/
theorem first_addr (ws ls ds : List Str) (hws : ws ≠ []) (hW : ∀ w ∈ ws, WordOk w) (hls : ls ≠ []) (hds : ds ≠ [])
    (hL : ∀ a ∈ ls, AtomOk a) (hD : ∀ a ∈ ds, AtomOk a) :
    firstAddress (joinSp ws ++ ' ' :: '<' :: (joinDot ls ++ '@' :: joinDot ds ++ ['>'])) =
      .ok (some (joinSp ws, joinDot ls ++ '@' :: joinDot ds)) := by
  obtain ⟨l0, lrest, hl0⟩ : ∃ l0 lrest, ls = l0 :: lrest := by
    cases ls with
    | nil => exact absurd rfl hls
    | cons a as => exact ⟨a, as, rfl⟩
  obtain ⟨a0, as0, ha0, hac0⟩ := atom_head (hL l0 (by rw [hl0]; simp))
  obtain ⟨A', hA'⟩ : ∃ A', (joinDot ls ++ '@' :: joinDot ds) ++ ['>'] = a0 :: A' := by
    obtain ⟨T, hT⟩ := joinDot_head l0 lrest
    rw [hl0, hT, ha0, List.append_assoc, List.append_assoc]
    exact ⟨_, rfl⟩
  exact first_addr_of ws hws hW _ a0 A' hA' hac0 (addrspec_full ls ds hls hds hL hD)

/-- the first address of `name <local>` -/
theorem first_addr_local (ws ls : List Str) (hws : ws ≠ []) (hW : ∀ w ∈ ws, WordOk w) (hls : ls ≠ [])
    (hL : ∀ a ∈ ls, AtomOk a) :
    firstAddress (joinSp ws ++ ' ' :: '<' :: (joinDot ls ++ ['>'])) = .ok (some (joinSp ws, joinDot ls)) := by
  obtain ⟨l0, lrest, hl0⟩ : ∃ l0 lrest, ls = l0 :: lrest := by
    cases ls with
    | nil => exact absurd rfl hls
    | cons a as => exact ⟨a, as, rfl⟩
  obtain ⟨a0, as0, ha0, hac0⟩ := atom_head (hL l0 (by rw [hl0]; simp))
  obtain ⟨A', hA'⟩ : ∃ A', joinDot ls ++ ['>'] = a0 :: A' := by
    obtain ⟨T, hT⟩ := joinDot_head l0 lrest
    rw [hl0, hT, ha0, List.append_assoc]
    exact ⟨_, rfl⟩
  exact first_addr_of ws hws hW _ a0 A' hA' hac0 (addrspec_local ls hls hL)

/-- the maintainer of `name <A>` when the address parser returns `(name, A)` -/
theorem maintainer_of (ws : List Str) (hws : ws ≠ []) (hW : ∀ w ∈ ws, WordOk w) (A : Str) (hAne : A.isEmpty = false)
    (hfirst : firstAddress (joinSp ws ++ ' ' :: '<' :: (A ++ ['>'])) = .ok (some (joinSp ws, A))) :
    Model.Addr.maintainer (joinSp ws ++ " <".toList ++ A ++ ['>']) =
      .ok (joinSp ws, some A, joinSp ws ++ " <".toList ++ A ++ ['>']) := by
  have hval : joinSp ws ++ " <".toList ++ A ++ ['>'] = joinSp ws ++ ' ' :: '<' :: (A ++ ['>']) := by
    show joinSp ws ++ [' ', '<'] ++ _ ++ _ = _
    simp [List.append_assoc]
  obtain ⟨w0, wrest, hw0⟩ : ∃ w0 wrest, ws = w0 :: wrest := by
    cases ws with
    | nil => exact absurd rfl hws
    | cons w0 wrest => exact ⟨w0, wrest, rfl⟩
  have hW0 := hW w0 (by rw [hw0]; simp)
  obtain ⟨c0, cs0, hc0⟩ : ∃ c0 cs0, w0 = c0 :: cs0 := by
    cases hh : w0 with
    | nil => exact absurd hh hW0.1
    | cons c cs => exact ⟨c, cs, rfl⟩
  have hsp0 : isSpace c0 = false := by
    rcases hW0.2 c0 (by rw [hc0]; simp) with h | h
    · exact (atomChar_facts h).sp
    · subst h; decide
  obtain ⟨T, hT⟩ := joinSp_head w0 wrest
  have hstrip : strip (joinSp ws ++ " <".toList ++ A ++ ['>']) = joinSp ws ++ " <".toList ++ A ++ ['>'] := by
    apply strip_id_of _ c0 '>' (cs0 ++ T ++ " <".toList ++ A) _ hsp0 (by decide)
    rw [hw0, hT, hc0]
    simp [List.append_assoc]
  have hne : (joinSp ws).isEmpty = false := by
    rw [hw0, hT, hc0]; rfl
  unfold Model.Addr.maintainer
  simp only [hstrip]
  unfold parseaddr
  rw [hval, hfirst]
  simp only [hne, hAne, Bool.false_eq_true, if_false]
  rw [← hval, hstrip]

/-- **the maintainer clause for every name and address of the grammar** -/
theorem soundM (i : InputM) : holdsOnM i (modelM i) = true := by
  unfold holdsOnM
  cases hw : wfM i with
  | false => rfl
  | true =>
    obtain ⟨ws, ls, hws, hW, hn, hls, hL, haddr⟩ := wf_parts i hw
    have hlne : (joinDot ls).isEmpty = false := by
      obtain ⟨l0, lrest, hl0⟩ : ∃ l0 lrest, ls = l0 :: lrest := by
        cases ls with
        | nil => exact absurd rfl hls
        | cons a as => exact ⟨a, as, rfl⟩
      obtain ⟨a0, as0, ha0, _⟩ := atom_head (hL l0 (by rw [hl0]; simp))
      obtain ⟨T, hT⟩ := joinDot_head l0 lrest
      rw [hl0, hT, ha0]; rfl
    unfold modelM
    rcases haddr with ha | ⟨ds, hds, hD, ha⟩
    · rw [hn, ha, maintainer_of ws hws hW _ hlne (first_addr_local ws ls hws hW hls hL)]
      simp
    · have hae : (joinDot ls ++ '@' :: joinDot ds).isEmpty = false := by
        cases joinDot ls <;> rfl
      rw [hn, ha, maintainer_of ws hws hW _ hae (first_addr ws ls ds hws hW hls hds hL hD)]
      simp

/-- the grammar is inhabited by ordinary maintainers -/
example : wfM ⟨"Jane Q. O'Doe".toList, "jane.doe+deb@lists.example.org".toList⟩ = true := by decide +kernel
example : wfM ⟨"Build Daemon".toList, "buildd".toList⟩ = true := by decide +kernel

end Props.C19M
