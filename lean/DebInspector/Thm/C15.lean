/-
C15 — Relationship matching: property theorems.
-/
import DebInspector.Props.C15
import DebInspector.Thm.C01
import DebInspector.Thm.C02

namespace Props.C15
open Py Spec Spec.VerOrder Model.Version Model.Deps Proofs.VersionParse Proofs.VersionOrder

def knownOps : List String := ["<<", "<=", "<", "=", ">=", ">", ">>"]

theorem evalOp_known : ∀ op ∈ knownOps, ∀ r ∈ [(-1 : Int), 0, 1],
    evalOp op r = (match opHolds op r with | some b => .ok b | none => .error .valueError) := by
  decide +kernel

/-- the operator table extracted from `eval_constraint` is policy's table: the seven operators mean
what the property says, every other operator string raises `ValueError` -/
theorem evalOp_eq_opHolds (op : String) (r : Int) (hr : r = -1 ∨ r = 0 ∨ r = 1) :
    evalOp op r = (match opHolds op r with | some b => .ok b | none => .error .valueError) := by
  by_cases hk : op ∈ knownOps
  · exact evalOp_known op hk r (by rcases hr with rfl | rfl | rfl <;> simp)
  · simp only [knownOps, List.mem_cons, List.not_mem_nil, or_false, not_or] at hk
    obtain ⟨h1, h2, h3, h4, h5, h6, h7⟩ := hk
    have e1 : (op == "<<") = false := by simpa using h1
    have e2 : (op == "<=") = false := by simpa using h2
    have e3 : (op == "<") = false := by simpa using h3
    have e4 : (op == "=") = false := by simpa using h4
    have e5 : (op == ">=") = false := by simpa using h5
    have e6 : (op == ">") = false := by simpa using h6
    have e7 : (op == ">>") = false := by simpa using h7
    have hl : Generated.ops.lookup op = none := by
      simp [Generated.ops, List.lookup, e1, e2, e3, e4, e5, e6, e7]
    simp [evalOp, hl, opHolds, h1, h2, h3, h4, h5, h6, h7]

theorem acceptance_true {s : Str} (h : acceptance s = some true) : ∃ v, fromString s = .ok v := by
  unfold acceptance at h
  simp only at h
  split at h
  · rename_i hm; exact mustAccept_fromString s hm
  · split at h <;> simp at h

theorem acceptance_false {s : Str} (h : acceptance s = some false) : fromString s = .error .valueError := by
  unfold acceptance at h
  simp only at h
  split at h
  · simp at h
  · split at h
    · rename_i hv
      cases hf : fromString s with
      | error x => rw [fromString_error s x hf]
      | ok v =>
        have := (fromString_ok s v hf).1
        rw [this] at hv; simp at hv
    · simp at h

theorem acceptance_cases {s : Str} (h : (acceptance s).isSome = true) :
    acceptance s = some true ∨ acceptance s = some false := by
  cases ha : acceptance s with
  | none => rw [ha] at h; cases h
  | some b => cases b <;> simp

/-- **the comparison inside a versioned relationship**: candidate on the left, required version on
the right, under dpkg order -/
theorem evalConstraint_spec (cand v : Str) (op : String)
    (hc : (acceptance cand).isSome = true) (hv : (acceptance v).isSome = true) :
    evalConstraint cand op v =
      (if acceptance cand = some true && acceptance v = some true then
        match opHolds op (dpkgCmpVersions (strip cand) (strip v)) with
        | some b => .ok b
        | none => .error .valueError
      else .error .valueError) := by
  unfold evalConstraint
  rcases acceptance_cases hc with ac | ac <;> rcases acceptance_cases hv with av | av
  · obtain ⟨vc, hvc⟩ := acceptance_true ac
    obtain ⟨vv, hvv⟩ := acceptance_true av
    have hcmp := Props.C01.compareVersions_eq_dpkg cand v vc vv hvc hvv
    rw [hcmp]
    simp only [ac, av, beq_self_eq_true, Bool.and_self, if_true]
    have hr := Props.C02.cmp_values cand v _ hcmp
    exact evalOp_eq_opHolds op _ hr
  · obtain ⟨vc, hvc⟩ := acceptance_true ac
    have hvv := acceptance_false av
    simp [compareVersions, hvc, hvv, ac, av]
  · have hvc := acceptance_false ac
    simp [compareVersions, hvc, ac, av]
  · have hvc := acceptance_false ac
    simp [compareVersions, hvc, ac, av]

theorem filter_isEmpty (results : List Tri) :
    (results.filter (· ≠ .n)).isEmpty = results.all (· = .n) := by
  induction results with
  | nil => rfl
  | cons x xs ih =>
    cases x
    · simp [List.filter]
    · simp [List.filter]
    · simpa [List.filter] using ih

variable (name : Str) (version : Option Str) (hcand : candOk version = true)
include hcand

mutual
theorem relMatches_eq_spec : ∀ r : Rel, determined r = true → relMatches name version r = spec name version r
  | .simple n archs, _ => by simp [relMatches, spec]
  | .versioned n op v archs, hd => by
    unfold relMatches spec
    split
    · cases version with
      | none => rfl
      | some cand =>
        simp only
        split
        · rfl
        · have hv : (acceptance v).isSome = true := by simpa [determined] using hd
          have hc : (acceptance cand).isSome = true := by simpa [candOk] using hcand
          rw [evalConstraint_spec cand v (String.ofList op) hc hv]
          by_cases hacc : (acceptance cand = some true && acceptance v = some true) = true
          · simp only [hacc, if_true]
            cases opHolds (String.ofList op) (dpkgCmpVersions (strip cand) (strip v)) <;> rfl
          · simp only [hacc, if_false]
            rfl
    · rfl
  | .or rs, hd => by
    unfold relMatches spec
    exact matchesOr_eq_spec rs .n (by simpa [determined] using hd)
  | .and rs, hd => by
    unfold relMatches spec
    rw [matchesAll_eq_spec rs (by simpa [determined] using hd)]
    cases specAll name version rs with
    | error e => rfl
    | ok results =>
      simp only
      rw [filter_isEmpty]

theorem matchesOr_eq_spec : ∀ (rs : List Rel) (acc : Tri), determinedList rs = true →
    matchesOr name version rs acc = specOr name version rs acc
  | [], _, _ => by simp [matchesOr, specOr]
  | r :: rs, acc, hd => by
    simp only [determinedList, Bool.and_eq_true] at hd
    unfold matchesOr specOr
    rw [relMatches_eq_spec r hd.1]
    cases spec name version r with
    | error e => rfl
    | ok x =>
      cases x
      · rfl
      · exact matchesOr_eq_spec rs .f hd.2
      · exact matchesOr_eq_spec rs acc hd.2

theorem matchesAll_eq_spec : ∀ (rs : List Rel), determinedList rs = true →
    matchesAll name version rs = specAll name version rs
  | [], _ => by simp [matchesAll, specAll]
  | r :: rs, hd => by
    simp only [determinedList, Bool.and_eq_true] at hd
    unfold matchesAll specAll
    rw [relMatches_eq_spec r hd.1, matchesAll_eq_spec rs hd.2]
    cases spec name version r with
    | error e => rfl
    | ok x => cases specAll name version rs <;> rfl
end

omit hcand in
/-- **C15** for relationship trees of any depth and width -/
theorem sound (i : Input) : holdsOn i (model i) = true := by
  unfold holdsOn model
  simp only [Bool.or_eq_true, Bool.not_eq_true', Bool.and_eq_false_iff, decide_eq_true_eq]
  by_cases hd : determined i.tree = true
  · by_cases hc : candOk i.version = true
    · right; exact relMatches_eq_spec i.name i.version hc i.tree hd
    · left; right; simpa using hc
  · left; left; simpa using hd

theorem matchRelationships_eq_spec : ∀ (rs : List Rel) (acc : Tri), acc ≠ .f → determinedList rs = true →
    matchRelationships name version rs acc = specM name version rs acc
  | [], acc, _, _ => by simp [matchRelationships, specM]
  | r :: rs, acc, hacc, hd => by
    simp only [determinedList, Bool.and_eq_true] at hd
    unfold matchRelationships specM
    rw [relMatches_eq_spec name version hcand r hd.1]
    cases spec name version r with
    | error e => rfl
    | ok x =>
      cases x
      · simp only [hacc, if_false]
        exact matchRelationships_eq_spec rs .t (by simp) hd.2
      · rfl
      · exact matchRelationships_eq_spec rs acc hacc hd.2

omit hcand in
/-- `match_relationships`: the sets are asked in order up to the first False -/
theorem soundM (i : InputM) : holdsOnM i (modelM i) = true := by
  unfold holdsOnM modelM
  simp only [Bool.or_eq_true, Bool.not_eq_true', Bool.and_eq_false_iff, decide_eq_true_eq]
  by_cases hd : determinedList i.sets = true
  · by_cases hc : candOk i.version = true
    · right; exact matchRelationships_eq_spec i.name i.version hc i.sets .n (by simp) hd
    · left; right; simpa using hc
  · left; left; simpa using hd

/-- corollaries in the words of the property -/
theorem unknown_operator_raises (op : String) (h : op ∉ knownOps) (r : Int) :
    evalOp op r = .error .valueError := by
  simp only [knownOps, List.mem_cons, List.not_mem_nil, or_false, not_or] at h
  obtain ⟨h1, h2, h3, h4, h5, h6, h7⟩ := h
  have e1 : (op == "<<") = false := by simpa using h1
  have e2 : (op == "<=") = false := by simpa using h2
  have e3 : (op == "<") = false := by simpa using h3
  have e4 : (op == "=") = false := by simpa using h4
  have e5 : (op == ">=") = false := by simpa using h5
  have e6 : (op == ">") = false := by simpa using h6
  have e7 : (op == ">>") = false := by simpa using h7
  simp [evalOp, Generated.ops, List.lookup, e1, e2, e3, e4, e5, e6, e7]

/-- non-vacuity: a boundary candidate, order-equal but textually different, on the legacy operator -/
example : model ⟨.versioned "a".toList "<".toList "1.0".toList [], "a".toList, some "1.00".toList⟩ = .ok .t := by
  decide +kernel
example : model ⟨.versioned "a".toList "<<".toList "1.0".toList [], "a".toList, some "1.00".toList⟩ = .ok .f := by
  decide +kernel
example : model ⟨.and [.or [.simple "x".toList [], .versioned "a".toList ">=".toList "2".toList []], .simple "b".toList []],
    "a".toList, some "2~1".toList⟩ = .ok .f := by decide +kernel
example : model ⟨.versioned "a".toList "~".toList "1".toList [], "a".toList, some "1".toList⟩ = .error .valueError := by
  decide +kernel

end Props.C15
