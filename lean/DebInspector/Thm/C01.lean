/-
C01 — Version ordering is exactly dpkg's ordering: property theorems.
-/
import DebInspector.Props.C01
import DebInspector.Proofs.VersionOrder
import DebInspector.Thm.C03
import DebInspector.Proofs.Verrevcmp

namespace Props.C01
open Py Spec Spec.VerOrder Model.Version Proofs.VersionParse Proofs.VersionOrder

/-- for every pair of accepted strings — any length, any digit-run size, any number of leading
zeros — the three-way result is dpkg's order of their decompositions -/
theorem compareVersions_eq_dpkg (a b : Str) (va vb : Ver)
    (ha : fromString a = .ok va) (hb : fromString b = .ok vb) :
    compareVersions a b = .ok (dpkgCmpVersions (strip a) (strip b)) :=
  compareVersions_eq a b va vb ha hb

/-- `compare_strings` on component strings is dpkg's order on components -/
theorem compareStrings_eq_dpkg (x y : Str) (hx : x.all Policy.upChar = true) (hy : y.all Policy.upChar = true) :
    compareStrings x y = .ok (dpkgCmpStr x y) :=
  compareStrings_dpkg x y hx hy

/-- **C01** for every pair of Unicode strings -/
theorem sound (i : Input) : holdsOn i (model i) = true := by
  obtain ⟨a, b⟩ := i
  unfold holdsOn model
  simp only [Bool.and_eq_true, Bool.or_eq_true, Bool.not_eq_true']
  cases ha : fromString a with
  | error x =>
    have hm : compareVersions a b = .error x := by unfold compareVersions; rw [ha]
    rw [hm]
    refine ⟨rfl, ?_⟩
    left
    cases hA : Policy.mustAccept Generated.intMaxStrDigits (strip a) with
    | false => simp
    | true =>
      obtain ⟨v, hv⟩ := mustAccept_fromString a hA
      rw [hv] at ha; cases ha
  | ok va =>
    cases hb : fromString b with
    | error x =>
      have hm : compareVersions a b = .error x := by unfold compareVersions; rw [ha, hb]
      rw [hm]
      refine ⟨rfl, ?_⟩
      left
      cases hB : Policy.mustAccept Generated.intMaxStrDigits (strip b) with
      | false => simp
      | true =>
        obtain ⟨v, hv⟩ := mustAccept_fromString b hB
        rw [hv] at hb; cases hb
    | ok vb =>
      rw [compareVersions_eq_dpkg a b va vb ha hb]
      refine ⟨?_, Or.inr rfl⟩
      simp

/-- **C01 on components**: `compare_strings` on any two strings over the component alphabet -/
theorem soundS (i : Input) : holdsOnS i (modelS i) = true := by
  obtain ⟨x, y⟩ := i
  unfold holdsOnS modelS componentOk
  simp only [Bool.or_eq_true, Bool.not_eq_true', Bool.and_eq_false_iff]
  by_cases hx : x.all Policy.upChar = true
  · by_cases hy : y.all Policy.upChar = true
    · right; rw [compareStrings_eq_dpkg x y hx hy]; simp
    · left; right; simpa using hy
  · left; left; simpa using hx

/-- **against dpkg's C code**: for every pair of accepted strings the model of `compare_versions`
returns the sign of the transliterated `dpkg_version_compare` on the `parseversion` decompositions -/
theorem compareVersions_eq_dpkgC (a b : Str) (va vb : Ver)
    (ha : fromString a = .ok va) (hb : fromString b = .ok vb) :
    compareVersions a b = .ok (Dpkg.compareStr (strip a) (strip b)) := by
  rw [compareVersions_eq_dpkg a b va vb ha hb, Proofs.Verrevcmp.compareStr_eq_declarative]

/-- the transliterated C `verrevcmp` and the declarative order agree on every pair of strings -/
theorem verrevcmp_eq_declarative (x y : Str) : Dpkg.sign (Dpkg.verrevcmp x y) = dpkgCmpStr x y :=
  Proofs.Verrevcmp.verrevcmp_eq x y

/-- **C01 against the C transliteration**, for every pair of Unicode strings -/
theorem soundC (i : Input) : holdsOnC i (model i) = true := by
  obtain ⟨a, b⟩ := i
  unfold holdsOnC model
  simp only
  cases ha : fromString a with
  | error x =>
    have hm : compareVersions a b = .error x := by unfold compareVersions; rw [ha]
    rw [hm]
  | ok va =>
    cases hb : fromString b with
    | error x =>
      have hm : compareVersions a b = .error x := by unfold compareVersions; rw [ha, hb]
      rw [hm]
    | ok vb =>
      rw [compareVersions_eq_dpkgC a b va vb ha hb]
      simp

/-- "a missing revision counts as revision 0", "a missing epoch counts as 0": the empty component
and "0" are order-equal, against anything -/
theorem empty_eq_zero : cmpStr dpkgRk [] ['0'] = .eq := by
  have h : tokens ['0'] = [([], 0)] := by
    rw [tokens_cons _ (by simp)]
    have : afterTok ['0'] = [] := by decide
    rw [this, tokens_nil]
    have : firstTok ['0'] = ([], 0) := by decide
    rw [this]
  rw [cmpStr, tokens_nil, h]
  simp [PadLex.cmpPad, (cmpTok_pre dpkgRk).refl, Ordering.then]

/-- non-vacuity and the named orderings of the property -/
example : model ("1.0~rc1".toList, "1.0".toList) = .ok (-1) := by decide +kernel
example : model ("1.0".toList, "1.0a".toList) = .ok (-1) := by decide +kernel
example : model ("1.0a1".toList, "1.0+1".toList) = .ok (-1) := by decide +kernel
example : model ("1.010".toList, "1.9".toList) = .ok 1 := by decide +kernel
example : model ("0:1.0-0".toList, "1.00".toList) = .ok 0 := by decide +kernel
example : model ("1:0".toList, "9".toList) = .ok 1 := by decide +kernel

end Props.C01
