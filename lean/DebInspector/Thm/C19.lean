/-
C19 — property theorems.
-/
import DebInspector.Props.C19
import DebInspector.Proofs.SplitJoin

namespace Props.C19
open Py Model.Control

theorem step_eq_specStep (lower : Str → Str) (d : PyDict) (op : Op) : step lower d op = specStep lower d op := by
  cases op <;> rfl

theorem runOps_eq_specRun (lower : Str → Str) (d : PyDict) (ops : List Op) :
    runOps lower d ops = specRun lower d ops := by
  induction ops generalizing d with
  | nil => rfl
  | cons op ops ih => simp only [runOps, specRun, step_eq_specStep, ih]

theorem construct_eq (lower : Str → Str) (r : Route) : construct lower r = specInit lower r := by
  cases r with
  | mapping items =>
    simp only [construct, specInit, specItems]
    split <;> rfl
  | pairs items => rfl
  | strings ls => rfl
  | empty => rfl
  | text t => rfl
  | file t => rfl

/-- **refinement**: however the paragraph was built (mapping, pairs, "Name: value" strings, nothing, a text, a file object)
and for every finite history of set / get / delete / membership / length / iteration / to_dict with
arbitrarily-cased keys, and for *every* lower-casing function, the paragraph answers exactly as a
plain insertion-ordered dictionary driven by the same history with lower-cased keys -/
theorem refines_dict (lower : Str → Str) (i : Input) :
    runOps lower (construct lower i.route) i.ops = spec lower i := by
  unfold spec
  rw [construct_eq, runOps_eq_specRun]

theorem sound (i : Input) : holdsOn i (model i) = true := by
  unfold holdsOn model
  simp [refines_dict]

/-- `DEPS_FIELDS` (regenerated from the source) is exactly policy's list of relationship fields -/
theorem depsFields_eq_policy :
    (∀ f ∈ Generated.depsFields, f ∈ relationshipFields) ∧ (∀ f ∈ relationshipFields, f ∈ Generated.depsFields) := by
  decide

/-- the special-case table of `normalize_control_field_name` (regenerated from the source) -/
theorem specialCases_eq :
    Generated.specialCases = [("md5sum", "MD5sum"), ("sha1", "SHA1"), ("sha256", "SHA256")] := by decide

theorem specialTable_eq :
    specialTable = [("md5sum".toList, "MD5sum".toList), ("sha1".toList, "SHA1".toList), ("sha256".toList, "SHA256".toList)] := by
  decide

/-- the model of `normalize_control_field_name` is the conventional capitalisation, for every name -/
theorem normalize_eq_conventional (name : Str) : normalizeName name = conventional name := by
  unfold normalizeName conventional
  congr 1
  apply List.map_congr_left
  intro w _
  rw [specialTable_eq]
  generalize lowerAscii w = l
  simp only [List.lookup]
  by_cases h1 : l = "md5sum".toList
  · subst h1; rfl
  · by_cases h2 : l = "sha1".toList
    · subst h2; rfl
    · by_cases h3 : l = "sha256".toList
      · subst h3; rfl
      · have e1 : (l == "md5sum".toList) = false := by simpa using h1
        have e2 : (l == "sha1".toList) = false := by simpa using h2
        have e3 : (l == "sha256".toList) = false := by simpa using h3
        simp only [e1, e2, e3, h1, h2, h3, if_false]

/-- on policy's field names (and the checksum names) normalisation is the identity, and it does not
depend on the case of the input -/
theorem conventional_idem_table :
    ∀ f ∈ relationshipFields ++ ["Installed-Size", "MD5sum", "SHA1", "SHA256", "Checksums-SHA256", "Package", "Maintainer"],
      conventional f.toList = f.toList ∧ conventional (lowerAscii f.toList) = f.toList ∧
      conventional (f.toList.map upperAsciiChar) = f.toList := by decide +kernel

/-- non-vacuity: set under one casing, delete under another, overwrite keeps the position -/
example : model ⟨.pairs [("A".toList, "1".toList), ("b".toList, "2".toList)],
    [.set "a".toList "3".toList, .iter, .del "B".toList, .mem "b".toList, .get "A".toList, .del "x".toList, .len]⟩ =
    [.none, .keys ["a".toList, "b".toList], .none, .bool false, .str "3".toList, .keyError, .int 1] := by decide +kernel


/-! ## typed fields: the conventional capitalisation for every name -/

theorem upper_iff (c : Char) : isAsciiUpper c = true ↔ 65 ≤ c.toNat ∧ c.toNat ≤ 90 := by
  simp [isAsciiUpper, Char.isUpper, UInt32.le_iff_toNat_le]

theorem lower_iff (c : Char) : isAsciiLower c = true ↔ 97 ≤ c.toNat ∧ c.toNat ≤ 122 := by
  simp [isAsciiLower, Char.isLower, UInt32.le_iff_toNat_le]

theorem case_table : ∀ n ∈ List.range 128,
    lowerAsciiChar (lowerAsciiChar (Char.ofNat n)) = lowerAsciiChar (Char.ofNat n) ∧
    lowerAsciiChar (upperAsciiChar (Char.ofNat n)) = lowerAsciiChar (Char.ofNat n) ∧
    upperAsciiChar (upperAsciiChar (Char.ofNat n)) = upperAsciiChar (Char.ofNat n) ∧
    upperAsciiChar (lowerAsciiChar (Char.ofNat n)) = upperAsciiChar (Char.ofNat n) ∧
    ((lowerAsciiChar (Char.ofNat n) == '-') = (Char.ofNat n == '-')) ∧
    ((upperAsciiChar (Char.ofNat n) == '-') = (Char.ofNat n == '-')) := by
  decide +kernel

theorem case_facts (c : Char) :
    lowerAsciiChar (lowerAsciiChar c) = lowerAsciiChar c ∧
    lowerAsciiChar (upperAsciiChar c) = lowerAsciiChar c ∧
    upperAsciiChar (upperAsciiChar c) = upperAsciiChar c ∧
    upperAsciiChar (lowerAsciiChar c) = upperAsciiChar c ∧
    ((lowerAsciiChar c == '-') = (c == '-')) ∧
    ((upperAsciiChar c == '-') = (c == '-')) := by
  by_cases h : c.toNat < 128
  · have := case_table c.toNat (by simpa using h)
    rwa [Char.ofNat_toNat] at this
  · have hu : isAsciiUpper c = false := by
      cases hc : isAsciiUpper c with
      | false => rfl
      | true => have := (upper_iff c).mp hc; omega
    have hl : isAsciiLower c = false := by
      cases hc : isAsciiLower c with
      | false => rfl
      | true => have := (lower_iff c).mp hc; omega
    simp [lowerAsciiChar, upperAsciiChar, hu, hl]


/-- the conventional spelling of one hyphen-separated word -/
def convWord (w : Str) : Str :=
  let l := lowerAscii w
  if l = "md5sum".toList then "MD5sum".toList
  else if l = "sha1".toList then "SHA1".toList
  else if l = "sha256".toList then "SHA256".toList
  else capitalizeAscii w

theorem conventional_eq (name : Str) : conventional name = join ['-'] ((splitChar '-' name).map convWord) := rfl

theorem lowerAscii_lower (w : Str) : lowerAscii (lowerAscii w) = lowerAscii w := by
  simp only [lowerAscii, List.map_map]
  apply List.map_congr_left
  intro c _; exact (case_facts c).1

theorem lowerAscii_upper (w : Str) : lowerAscii (w.map upperAsciiChar) = lowerAscii w := by
  simp only [lowerAscii, List.map_map]
  apply List.map_congr_left
  intro c _; exact (case_facts c).2.1

theorem lowerAscii_cap (w : Str) : lowerAscii (capitalizeAscii w) = lowerAscii w := by
  cases w with
  | nil => rfl
  | cons c cs =>
    simp only [capitalizeAscii, lowerAscii, List.map_cons, List.map_map, (case_facts c).2.1]
    congr 1
    apply List.map_congr_left
    intro d _; exact (case_facts d).1

theorem cap_cap (w : Str) : capitalizeAscii (capitalizeAscii w) = capitalizeAscii w := by
  cases w with
  | nil => rfl
  | cons c cs =>
    simp only [capitalizeAscii, List.map_map, (case_facts c).2.2.1]
    congr 1
    apply List.map_congr_left
    intro d _; exact (case_facts d).1

theorem cap_lower (w : Str) : capitalizeAscii (lowerAscii w) = capitalizeAscii w := by
  cases w with
  | nil => rfl
  | cons c cs =>
    simp only [capitalizeAscii, lowerAscii, List.map_cons, List.map_map, (case_facts c).2.2.2.1]
    congr 1
    apply List.map_congr_left
    intro d _; exact (case_facts d).1

theorem cap_upper (w : Str) : capitalizeAscii (w.map upperAsciiChar) = capitalizeAscii w := by
  cases w with
  | nil => rfl
  | cons c cs =>
    simp only [capitalizeAscii, List.map_cons, List.map_map, (case_facts c).2.2.1]
    congr 1
    apply List.map_congr_left
    intro d _; exact (case_facts d).2.1

theorem lowerAscii_convWord (w : Str) : lowerAscii (convWord w) = lowerAscii w := by
  unfold convWord
  simp only
  by_cases h1 : lowerAscii w = "md5sum".toList
  · rw [if_pos h1, h1]; decide
  · rw [if_neg h1]
    by_cases h2 : lowerAscii w = "sha1".toList
    · rw [if_pos h2, h2]; decide
    · rw [if_neg h2]
      by_cases h3 : lowerAscii w = "sha256".toList
      · rw [if_pos h3, h3]; decide
      · rw [if_neg h3]; exact lowerAscii_cap w

/-- the word's spelling depends on the word only through its lower-cased form and its capitalisation -/
theorem convWord_of (w v : Str) (hl : lowerAscii v = lowerAscii w) (hc : capitalizeAscii v = capitalizeAscii w) :
    convWord v = convWord w := by
  unfold convWord
  simp only [hl, hc]

theorem convWord_idem (w : Str) : convWord (convWord w) = convWord w := by
  have hl := lowerAscii_convWord w
  by_cases h1 : lowerAscii w = "md5sum".toList
  · have e : convWord w = "MD5sum".toList := by unfold convWord; simp only [if_pos h1]
    rw [e]; decide
  · by_cases h2 : lowerAscii w = "sha1".toList
    · have e : convWord w = "SHA1".toList := by unfold convWord; simp only [if_neg h1, if_pos h2]
      rw [e]; decide
    · by_cases h3 : lowerAscii w = "sha256".toList
      · have e : convWord w = "SHA256".toList := by unfold convWord; simp only [if_neg h1, if_neg h2, if_pos h3]
        rw [e]; decide
      · have e : convWord w = capitalizeAscii w := by unfold convWord; simp only [if_neg h1, if_neg h2, if_neg h3]
        have e2 : convWord (convWord w) = capitalizeAscii (convWord w) := by
          unfold convWord
          simp only
          have : lowerAscii (convWord w) = lowerAscii w := hl
          unfold convWord at this
          simp only at this
          rw [this, if_neg h1, if_neg h2, if_neg h3]
        rw [e2, e, cap_cap]

theorem convWord_lower (w : Str) : convWord (lowerAscii w) = convWord w :=
  convWord_of w (lowerAscii w) (lowerAscii_lower w) (cap_lower w)

theorem convWord_upper (w : Str) : convWord (w.map upperAsciiChar) = convWord w :=
  convWord_of w (w.map upperAsciiChar) (lowerAscii_upper w) (cap_upper w)

theorem capitalize_noDash (w : Str) (h : '-' ∉ w) : '-' ∉ capitalizeAscii w := by
  cases w with
  | nil => simp [capitalizeAscii]
  | cons c cs =>
    intro hm
    simp only [capitalizeAscii, List.mem_cons, List.mem_map] at hm
    rcases hm with hm | ⟨d, hd, hm⟩
    · have := (case_facts c).2.2.2.2.2
      have hc : (upperAsciiChar c == '-') = true := by simp [← hm]
      rw [this] at hc
      exact h (by simp [beq_iff_eq.mp hc])
    · have := (case_facts d).2.2.2.2.1
      have hc : (lowerAsciiChar d == '-') = true := by simp [hm]
      rw [this] at hc
      have : d = '-' := beq_iff_eq.mp hc
      exact h (by rw [← this]; simp [hd])

theorem convWord_noDash (w : Str) (h : '-' ∉ w) : '-' ∉ convWord w := by
  unfold convWord
  simp only
  split
  · decide
  · split
    · decide
    · split
      · decide
      · exact capitalize_noDash w h

theorem splitChar_map (f : Char → Char) (hf : ∀ c, (f c == '-') = (c == '-')) (s : Str) :
    splitChar '-' (s.map f) = (splitChar '-' s).map (·.map f) := by
  induction s with
  | nil => rfl
  | cons c cs ih =>
    simp only [List.map_cons, splitChar]
    have hc := hf c
    by_cases e : c = '-'
    · subst e
      have : f '-' = '-' := by simpa using hc
      simp [this, ih]
    · have hne : ¬ f c = '-' := by
        intro h'; rw [h'] at hc; simp at hc; exact e hc
      simp only [e, hne, if_false, ih]
      cases splitChar '-' cs with
      | nil => rfl
      | cons w ws => rfl

/-- **the conventional capitalisation is idempotent and does not depend on the case of the input**, for every name -/
theorem conventional_idem (name : Str) : conventional (conventional name) = conventional name := by
  rw [conventional_eq name, conventional_eq]
  rw [splitChar_join '-' _ (by simpa using Py.splitChar_ne_nil '-' name)
    (by
      intro p hp
      simp only [List.mem_map] at hp
      obtain ⟨w, hw, rfl⟩ := hp
      exact convWord_noDash w (splitChar_no_sep '-' name w hw))]
  rw [List.map_map]
  congr 1
  apply List.map_congr_left
  intro w _
  exact convWord_idem w

theorem conventional_lower (name : Str) : conventional (lowerAscii name) = conventional name := by
  rw [conventional_eq, conventional_eq]
  unfold lowerAscii
  rw [splitChar_map lowerAsciiChar (fun c => (case_facts c).2.2.2.2.1), List.map_map]
  congr 1
  apply List.map_congr_left
  intro w _
  exact convWord_lower w

theorem conventional_upper (name : Str) : conventional (name.map upperAsciiChar) = conventional name := by
  rw [conventional_eq, conventional_eq]
  rw [splitChar_map upperAsciiChar (fun c => (case_facts c).2.2.2.2.2), List.map_map]
  congr 1
  apply List.map_congr_left
  intro w _
  exact convWord_upper w


/-! ### the typed values -/

/-- what `parse_control_fields` makes of one item -/
def GoodT (kv : Str × Str) (nt : Str × Typed) : Prop :=
  nt.1 = normalizeName kv.1 ∧
  match nt.2 with
  | .deps _ => Generated.depsFields.contains (String.ofList nt.1) = true
  | .int k => Generated.depsFields.contains (String.ofList nt.1) = false ∧ nt.1 = "Installed-Size".toList ∧ pyInt kv.2 = .ok k
  | .raw s => Generated.depsFields.contains (String.ofList nt.1) = false ∧ nt.1 ≠ "Installed-Size".toList ∧ s = kv.2

inductive All2 {α β} (R : α → β → Prop) : List α → List β → Prop
  | nil : All2 R [] []
  | cons {a b as bs} : R a b → All2 R as bs → All2 R (a :: as) (b :: bs)

theorem parseControlItems_ok (i : List (Str × Str)) (ts : List (Str × Typed)) (h : parseControlItems i = .ok ts) :
    All2 GoodT i ts := by
  induction i generalizing ts with
  | nil =>
    simp only [parseControlItems] at h
    cases h; exact All2.nil
  | cons kv rest ih =>
    obtain ⟨name, v⟩ := kv
    simp only [parseControlItems] at h
    by_cases hd : Generated.depsFields.contains (String.ofList (normalizeName name)) = true
    · simp only [hd, if_true] at h
      cases hp : Model.DepsParse.parseDepends v with
      | error e => rw [hp] at h; cases h
      | ok r =>
        rw [hp] at h
        simp only at h
        cases hr : parseControlItems rest with
        | error e => rw [hr] at h; cases h
        | ok ts' =>
          rw [hr] at h
          cases h
          exact All2.cons ⟨rfl, hd⟩ (ih ts' hr)
    · have hd' : Generated.depsFields.contains (String.ofList (normalizeName name)) = false := by simpa using hd
      simp only [hd', Bool.false_eq_true, if_false] at h
      by_cases hs : normalizeName name = "Installed-Size".toList
      · simp only [hs, if_true] at h
        cases hp : pyInt v with
        | error e => rw [hp] at h; cases h
        | ok k =>
          rw [hp] at h
          simp only at h
          cases hr : parseControlItems rest with
          | error e => rw [hr] at h; cases h
          | ok ts' =>
            rw [hr] at h
            cases h
            refine All2.cons ⟨hs.symm ▸ rfl, ?_⟩ (ih ts' hr)
            exact ⟨by rw [← hs]; exact hd', rfl, hp⟩
      · simp only [hs, if_false] at h
        cases hr : parseControlItems rest with
        | error e => rw [hr] at h; cases h
        | ok ts' =>
          rw [hr] at h
          cases h
          exact All2.cons ⟨rfl, hd', hs, rfl⟩ (ih ts' hr)


theorem All2.length {α β} {R : α → β → Prop} {as : List α} {bs : List β} (h : All2 R as bs) : bs.length = as.length := by
  induction h with
  | nil => rfl
  | cons _ _ ih => simp [ih]

theorem All2.zip_all {α β γ} {R : α → β → Prop} {as : List α} {bs : List β} (h : All2 R as bs) (F : β → γ)
    (p : α × γ → Bool) (hp : ∀ a b, R a b → p (a, F b) = true) : (as.zip (bs.map F)).all p = true := by
  induction h with
  | nil => rfl
  | cons hr _ ih => simp only [List.map_cons, List.zip_cons_cons, List.all_cons, hp _ _ hr, ih, Bool.and_self]

theorem All2.keys {as : List (Str × Str)} {bs : List (Str × Typed)} (h : All2 GoodT as bs) :
    bs.map (·.1) = as.map fun kv => normalizeName kv.1 := by
  induction h with
  | nil => rfl
  | cons hr _ ih => simp only [List.map_cons, ih, hr.1]

def ddk (acc : List Str) (ns : List Str) : List Str :=
  ns.foldl (fun acc n => if acc.contains n then acc else acc ++ [n]) acc

theorem ddk_length_le (ns acc : List Str) : (ddk acc ns).length ≤ acc.length + ns.length := by
  induction ns generalizing acc with
  | nil => simp [ddk]
  | cons n ns ih =>
    simp only [ddk, List.foldl_cons, List.length_cons]
    split
    · have := ih acc; simp only [ddk] at this; omega
    · have := ih (acc ++ [n]); simp only [ddk, List.length_append, List.length_singleton] at this; omega

theorem tset_absent (d : List (Str × Typed)) (k : Str) (v : Typed) (h : k ∉ d.map (·.1)) : tset d k v = d ++ [(k, v)] := by
  induction d with
  | nil => rfl
  | cons a as ih =>
    obtain ⟨a1, a2⟩ := a
    simp only [List.map_cons, List.mem_cons, not_or] at h
    have : ¬ a1 = k := fun e => h.1 e.symm
    simp [tset, this, ih h.2]

theorem fold_tset_distinct (ts d : List (Str × Typed))
    (hlen : (ddk (d.map (·.1)) (ts.map (·.1))).length = d.length + ts.length) :
    ts.foldl (fun d kv => tset d kv.1 kv.2) d = d ++ ts := by
  induction ts generalizing d with
  | nil => simp
  | cons kv rest ih =>
    simp only [List.map_cons, ddk, List.foldl_cons, List.length_cons] at hlen
    have hnot : (d.map (·.1)).contains kv.1 = false := by
      cases hc : (d.map (·.1)).contains kv.1 with
      | false => rfl
      | true =>
        rw [hc] at hlen
        simp only [if_true] at hlen
        have := ddk_length_le (rest.map (·.1)) (d.map (·.1))
        simp only [ddk, List.length_map] at this
        omega
    have hnm : kv.1 ∉ d.map (·.1) := by simpa using hnot
    rw [hnot] at hlen
    simp only [Bool.false_eq_true, if_false] at hlen
    simp only [List.foldl_cons, tset_absent d kv.1 kv.2 hnm]
    rw [ih (d ++ [(kv.1, kv.2)]) (by
      simp only [List.map_append, List.map_cons, List.map_nil, List.length_append, List.length_singleton, ddk]
      rw [hlen]; omega)]
    simp [List.append_assoc]

theorem relFields_contains (n : Str) :
    relationshipFields.contains (String.ofList n) = Generated.depsFields.contains (String.ofList n) := by
  obtain ⟨h1, h2⟩ := depsFields_eq_policy
  cases hc : Generated.depsFields.contains (String.ofList n) with
  | true =>
    have := h1 _ (List.contains_iff_mem.mp hc)
    exact List.contains_iff_mem.mpr this
  | false =>
    cases hr : relationshipFields.contains (String.ofList n) with
    | false => rfl
    | true =>
      have := h2 _ (List.contains_iff_mem.mp hr)
      have := List.contains_iff_mem.mpr this
      rw [hc] at this; cases this

/-- **C19, typed fields**: for every control paragraph whose normalised names are distinct, whenever the model of
`parse_control_fields` returns, it returns one entry per input field, in order, under the conventional
capitalisation of its name (idempotent, independent of the case of the input), holding the parsed relationship for
policy's relationship fields, the integer for `Installed-Size`, and the raw string for every other field -/
theorem soundT (i : InputT) : holdsOnT i (modelT i) = true := by
  unfold holdsOnT
  cases hH : (i.all (fun kv => asciiName kv.1) && distinctNorm i) with
  | false => rfl
  | true =>
    simp only [Bool.not_true, Bool.false_or]
    simp only [Bool.and_eq_true] at hH
    obtain ⟨_, hdist⟩ := hH
    unfold modelT parseControlFields
    cases hp : parseControlItems i with
    | error e => rfl
    | ok ts =>
      simp only
      have hall := parseControlItems_ok i ts hp
      have hkeys : ts.map (·.1) = i.map fun kv => conventional kv.1 := by
        rw [hall.keys]
        apply List.map_congr_left
        intro kv _; exact normalize_eq_conventional kv.1
      have hfold : ts.foldl (fun d kv => tset d kv.1 kv.2) [] = ts := by
        have := fold_tset_distinct ts [] (by
          simp only [List.map_nil, List.length_nil, Nat.zero_add, hkeys, ddk]
          simp only [distinctNorm, beq_iff_eq] at hdist
          rw [← hdist, List.length_map]; exact hall.length.symm)
        simpa using this
      rw [hfold]
      simp only [Bool.and_eq_true, beq_iff_eq]
      refine ⟨by simp [hall.length], ?_⟩
      apply hall.zip_all
      intro kv nt hg
      obtain ⟨hn, hty⟩ := hg
      have hn' : nt.1 = conventional kv.1 := by rw [hn, normalize_eq_conventional]
      simp only [Bool.and_eq_true, beq_iff_eq]
      refine ⟨⟨⟨⟨hn', conventional_idem kv.1⟩, conventional_lower kv.1⟩, conventional_upper kv.1⟩, ?_⟩
      cases hnt : nt.2 with
      | deps r =>
        rw [hnt] at hty
        simp only [Bool.and_eq_true, beq_iff_eq]
        refine ⟨?_, ?_⟩
        · rw [relFields_contains, ← hn']; exact hty
        · exact Proto.Val.eqb_refl _
      | int k =>
        rw [hnt] at hty
        simp only [Bool.and_eq_true, beq_iff_eq]
        refine ⟨by rw [← hn']; exact hty.2.1, ?_⟩
        rw [hty.2.2]; simp
      | raw s =>
        rw [hnt] at hty
        simp only [Bool.and_eq_true, Bool.not_eq_true', beq_iff_eq, bne_iff_ne, ne_eq]
        refine ⟨⟨?_, ?_⟩, hty.2.2⟩
        · rw [relFields_contains, ← hn']; exact hty.1
        · rw [← hn']; exact hty.2.1


end Props.C19
