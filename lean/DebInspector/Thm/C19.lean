/-
C19 — property theorems.
-/
import DebInspector.Props.C19

namespace Props.C19
open Py Model.Control

theorem step_eq_specStep (lower : Str → Str) (d : PyDict) (op : Op) : step lower d op = specStep lower d op := by
  cases op <;> rfl

theorem runOps_eq_specRun (lower : Str → Str) (d : PyDict) (ops : List Op) :
    runOps lower d ops = specRun lower d ops := by
  induction ops generalizing d with
  | nil => rfl
  | cons op ops ih => simp only [runOps, specRun, step_eq_specStep, ih]

theorem construct_eq (lower : Str → Str) (r : Route) :
    construct lower r = (specItems r).foldl (fun d kv => dset d (lower kv.1) kv.2) [] := by
  cases r with
  | mapping items =>
    simp only [construct, specItems]
    split <;> rfl
  | pairs items => rfl
  | strings ls => rfl
  | empty => rfl

/-- **refinement**: however the paragraph was built (mapping, pairs, "Name: value" strings, nothing)
and for every finite history of set / get / delete / membership / length / iteration / to_dict with
arbitrarily-cased keys, and for *every* lower-casing function, the paragraph answers exactly as a
plain insertion-ordered dictionary driven by the same history with lower-cased keys -/
theorem refines_dict (lower : Str → Str) (i : Input) :
    runOps lower (construct lower i.route) i.ops = spec lower i := by
  unfold spec
  rw [construct_eq, runOps_eq_specRun]

theorem sound (i : Input) : holdsOn i (model i) = true := by
  unfold holdsOn model
  simp [refines_dict]

/-- `DEPS_FIELDS` (regenerated from the source) is exactly policy's list of relationship fields -/
theorem depsFields_eq_policy :
    (∀ f ∈ Generated.depsFields, f ∈ relationshipFields) ∧ (∀ f ∈ relationshipFields, f ∈ Generated.depsFields) := by
  decide

/-- the special-case table of `normalize_control_field_name` (regenerated from the source) -/
theorem specialCases_eq :
    Generated.specialCases = [("md5sum", "MD5sum"), ("sha1", "SHA1"), ("sha256", "SHA256")] := by decide

theorem specialTable_eq :
    specialTable = [("md5sum".toList, "MD5sum".toList), ("sha1".toList, "SHA1".toList), ("sha256".toList, "SHA256".toList)] := by
  decide

/-- the model of `normalize_control_field_name` is the conventional capitalisation, for every name -/
theorem normalize_eq_conventional (name : Str) : normalizeName name = conventional name := by
  unfold normalizeName conventional
  congr 1
  apply List.map_congr_left
  intro w _
  rw [specialTable_eq]
  generalize lowerAscii w = l
  simp only [List.lookup]
  by_cases h1 : l = "md5sum".toList
  · subst h1; rfl
  · by_cases h2 : l = "sha1".toList
    · subst h2; rfl
    · by_cases h3 : l = "sha256".toList
      · subst h3; rfl
      · have e1 : (l == "md5sum".toList) = false := by simpa using h1
        have e2 : (l == "sha1".toList) = false := by simpa using h2
        have e3 : (l == "sha256".toList) = false := by simpa using h3
        simp only [e1, e2, e3, h1, h2, h3, if_false]

/-- on policy's field names (and the checksum names) normalisation is the identity, and it does not
depend on the case of the input -/
theorem conventional_idem_table :
    ∀ f ∈ relationshipFields ++ ["Installed-Size", "MD5sum", "SHA1", "SHA256", "Checksums-SHA256", "Package", "Maintainer"],
      conventional f.toList = f.toList ∧ conventional (lowerAscii f.toList) = f.toList ∧
      conventional (f.toList.map upperAsciiChar) = f.toList := by decide +kernel

/-- non-vacuity: set under one casing, delete under another, overwrite keeps the position -/
example : model ⟨.pairs [("A".toList, "1".toList), ("b".toList, "2".toList)],
    [.set "a".toList "3".toList, .iter, .del "B".toList, .mem "b".toList, .get "A".toList, .del "x".toList, .len]⟩ =
    [.none, .keys ["a".toList, "b".toList], .none, .bool false, .str "3".toList, .keyError, .int 1] := by decide +kernel

end Props.C19
