/-
C12 — the copyright-object half: the two runs build paragraphs of the same classes, with the same keys and the same words
under every key.
Part 1: what the original run guarantees of every tracked field that holds a marked line.
-/
import DebInspector.Thm.C12
import DebInspector.Thm.C10R

namespace Props.C12P
open Py Model.Deb822 Model.Debcon Model.Copyright Props.C12 Proofs.Deb822 Spec.Words

/-- a tracked field of the original run: a marked line holds the marker, and some line of the field is neither marked nor blank -/
def OutF (mk : Marked) (f : Fld) : Prop :=
  (∀ l ∈ f.lines, mk l.num = true → l.val = marker) ∧ ((∃ l ∈ f.lines, mk l.num = true) → ∃ w ∈ f.lines, Witness mk w)

def MarkVals (mk : Marked) (ls : List NL) : Prop := ∀ l ∈ ls, mk l.num = true → l.val = marker

def StMV (mk : Marked) : St → Prop
  | none => True
  | some (done, cur) => ∀ f ∈ done ++ [cur], MarkVals mk f.lines

theorem safe_witness (mk : Marked) (ls : List NL) (h : Safe mk ls) (l : NL) (hl : l ∈ ls) (hm : mk l.num = true) :
    ∃ w ∈ ls, Witness mk w := by
  induction ls with
  | nil => cases hl
  | cons x xs ih =>
    rcases List.mem_cons.mp hl with rfl | hl'
    · obtain ⟨w, hw, hww⟩ := h.1 hm
      exact ⟨w, by simp [hw], hww⟩
    · obtain ⟨w, hw, hww⟩ := ih h.2 hl'
      exact ⟨w, by simp [hw], hww⟩

theorem flush_out (mk : Marked) (st : St) (h : match st with
      | none => True
      | some (done, cur) => (∀ f ∈ done, Safe mk f.lines) ∧ Safe mk cur.lines ∧ ∀ f ∈ done ++ [cur], MarkVals mk f.lines) :
    ∀ g ∈ flush st, ∀ f ∈ g, OutF mk f := by
  cases st with
  | none => intro g hg; cases hg
  | some s =>
    obtain ⟨done, cur⟩ := s
    obtain ⟨h1, h2, h3⟩ := h
    intro g hg f hf
    simp only [flush, List.mem_singleton] at hg
    subst hg
    simp only [clean, List.mem_map] at hf
    obtain ⟨f0, hf0, rfl⟩ := hf
    have hsafe : Safe mk f0.lines := by
      rcases List.mem_append.mp hf0 with h | h
      · exact h1 f0 h
      · simp only [List.mem_singleton] at h; subst h; exact h2
    have hsub := (rstripLines_sublist f0.lines).subset
    refine ⟨fun l hl hm => h3 f0 hf0 l (hsub hl) hm, ?_⟩
    rintro ⟨l, hl, hm⟩
    obtain ⟨w, hw, hww⟩ := safe_witness mk f0.lines hsafe l (hsub hl) hm
    refine ⟨w, ?_, hww⟩
    rcases rstripLines_mem_or_blank f0.lines w hw with h | h
    · exact h
    · rw [hww.2] at h; cases h

theorem sim_out (mk : Marked) (items : List Item) (k : Nat) (st : St) (hok : ItemsOK mk k items)
    (hinv : StInv mk st items)
    (hmv : StMV mk st) :
    ∀ g ∈ go st (numberFrom k (origOf items)), ∀ f ∈ g, OutF mk f := by
  induction items generalizing k st with
  | nil =>
    simp only [origOf, List.map_nil, numberFrom, go]
    apply flush_out
    cases st with
    | none => trivial
    | some s =>
      obtain ⟨done, cur⟩ := s
      obtain ⟨h1, h2, h3⟩ := hinv
      exact ⟨h1, safe_of_safeBL mk _ h2 (not_lastMarked_of mk cur [] h3 (by intro y hy; cases hy)), hmv⟩
  | cons x rest ih =>
    obtain ⟨hmk, hkind, hmark, hnext, hrest⟩ := hok
    obtain ⟨xo, xr⟩ := x
    simp only [origOf, List.map_cons, numberFrom]
    have ih' := fun st' (h : StInv mk st' rest) hm' => ih (k + 1) st' hrest h hm'
    simp only [origOf] at ih'
    -- adding a line to the open field keeps the marker values
    have hadd : ∀ (done : List Fld) (cur : Fld) (v : Str), (∀ f ∈ done ++ [cur], MarkVals mk f.lines) →
        (mk k = true → v = marker) →
        ∀ f ∈ (addLine (done, cur) ⟨k, v⟩).1 ++ [(addLine (done, cur) ⟨k, v⟩).2], MarkVals mk f.lines := by
      intro done cur v h hv f hf l hl hm
      simp only [addLine, List.mem_append, List.mem_singleton] at hf
      rcases hf with hf | rfl
      · exact h f (by simp [hf]) l hl hm
      · simp only [List.mem_append, List.mem_singleton] at hl
        rcases hl with hl | rfl
        · exact h cur (by simp) l hl hm
        · exact hv hm
    cases xr with
    | some r =>
      obtain ⟨hxo, hrb, y, rest', hre, hyc, hyn⟩ := hmark r rfl
      subst hxo
      cases st with
      | none =>
        have := hinv (marker, some r) (by simp)
        simp only at this
        rw [marker_facts.1] at this; cases this
      | some s =>
        obtain ⟨done, cur⟩ := s
        obtain ⟨h1, h2, h3⟩ := hinv
        rw [go_cont_step (done, cur) ⟨k, marker⟩ _ marker_facts.2.1 marker_facts.1]
        subst hre
        refine ih' (some (addLine (done, cur) ⟨k, rstrip marker⟩)) ?_ ?_
        · simp only [addLine, StInv]
          have hlast : ∀ l ∈ cur.lines.getLast?, mk l.num = false :=
            not_lastMarked_of mk cur _ h3 (by intro z hz; simp at hz; subst hz; exact Or.inr rfl)
          refine ⟨h1, safeBL_snoc mk _ _ (safe_of_safeBL mk _ h2 hlast), ?_⟩
          intro _
          exact ⟨y, rest', rfl, hyc, hyn⟩
        · exact hadd done cur _ hmv (fun _ => marker_facts.2.2.1)
    | none =>
      have hmk' : mk k = false := by simpa using hmk
      rcases hkind with hk | hk | hk
      · subst hk
        have hblank : isBlank ([] : Str) = true := rfl
        have hnc : ∀ y ∈ rest.head?, isCont y.1 = false := by
          intro y hy
          cases hc : isCont y.1 with
          | false => rfl
          | true => exact absurd rfl (hnext y hy hc)
        have hnextA : ∀ n ∈ (numberFrom (k + 1) (rest.map (·.1))).head?,
            isDecl n.val = true ∨ isBlank n.val = true := by
          intro n hn
          cases rest with
          | nil => simp [numberFrom] at hn
          | cons y rest' =>
            simp only [List.map_cons, numberFrom, List.head?_cons, Option.mem_def, Option.some.injEq] at hn
            subst hn
            obtain ⟨_, hykind, _, _, _⟩ := hrest
            have hc := hnc y (by simp)
            rcases hykind with h | h | h
            · rw [h]; exact Or.inr rfl
            · exact Or.inl h
            · rw [hc] at h; cases h
        cases st with
        | none =>
          rw [go_blank_none _ _ hblank]
          exact ih' none hnc trivial
        | some s =>
          obtain ⟨done, cur⟩ := s
          obtain ⟨h1, h2, h3⟩ := hinv
          rw [go_blank_break _ _ _ hblank hnextA]
          have hlast : ∀ l ∈ cur.lines.getLast?, mk l.num = false :=
            not_lastMarked_of mk cur _ h3 (by intro z hz; simp at hz; subst hz; exact Or.inl rfl)
          intro g hg
          rcases List.mem_append.mp hg with hg | hg
          · exact flush_out mk (some (done, cur)) ⟨h1, safe_of_safeBL mk _ h2 hlast, hmv⟩ g hg
          · exact ih' none hnc trivial g hg
      · have hnb : isBlank xo = false := by
          cases xo with
          | nil => simp [isDecl, headP] at hk
          | cons c cs =>
            simp only [isDecl, headP, Bool.and_eq_true] at hk
            simp [isBlank, letter_not_space hk.1]
        have hnc : isCont xo = false := by
          cases hc : isCont xo with
          | false => rfl
          | true => have := Proofs.Deb822.cont_not_decl xo hc; rw [hk] at this; cases this
        have hnewmv : MarkVals mk (fromLine ⟨k, xo⟩).lines := by
          intro l hl hm
          simp [fromLine] at hl
          subst hl
          simp only at hm
          rw [hmk'] at hm; cases hm
        have hnew : SafeBL mk (fromLine ⟨k, xo⟩).lines ∧ ¬ lastMarked mk (fromLine ⟨k, xo⟩).lines := by
          refine ⟨by simp [fromLine, SafeBL], ?_⟩
          rintro ⟨l, hl, hm⟩
          simp [fromLine] at hl
          subst hl
          simp only at hm
          rw [hmk'] at hm; cases hm
        cases st with
        | none =>
          rw [go_decl_step_none _ _ hnb hk]
          refine ih' _ ?_ ?_
          · exact ⟨(by intro f hf; cases hf), hnew.1, fun h => absurd h hnew.2⟩
          · intro f hf
            simp only [List.nil_append, List.mem_singleton] at hf
            subst hf; exact hnewmv
        | some s =>
          obtain ⟨done, cur⟩ := s
          obtain ⟨h1, h2, h3⟩ := hinv
          rw [go_decl_step_open _ _ _ hnb hnc hk]
          have hlast : ∀ l ∈ cur.lines.getLast?, mk l.num = false :=
            not_lastMarked_of mk cur _ h3 (by intro z hz; simp at hz; subst hz; exact Or.inl hnc)
          refine ih' _ ?_ ?_
          · refine ⟨?_, hnew.1, fun h => absurd h hnew.2⟩
            intro f hf
            simp only [List.mem_append, List.mem_singleton] at hf
            rcases hf with hf | rfl
            · exact h1 f hf
            · exact safe_of_safeBL mk _ h2 hlast
          · intro f hf
            simp only [List.mem_append, List.mem_singleton] at hf
            rcases hf with hf | rfl
            · exact hmv f (by simpa using hf)
            · exact hnewmv
      · have hnb : isBlank xo = false := Proofs.Deb822.cont_not_blank xo hk
        cases st with
        | none =>
          have := hinv (xo, none) (by simp)
          simp only at this
          rw [hk] at this; cases this
        | some s =>
          obtain ⟨done, cur⟩ := s
          obtain ⟨h1, h2, h3⟩ := hinv
          rw [go_cont_step _ ⟨k, xo⟩ _ hnb hk]
          have hwit : Witness mk ⟨k, rstrip xo⟩ := ⟨hmk', isBlank_rstrip hnb⟩
          refine ih' _ ?_ ?_
          · simp only [addLine, StInv]
            have hs := safe_snoc_witness mk cur.lines ⟨k, rstrip xo⟩ h2 hwit
            refine ⟨h1, safeBL_of_safe mk _ hs, ?_⟩
            rintro ⟨l, hl, hm⟩
            rw [getLast?_snoc] at hl
            simp at hl; subst hl
            simp only at hm
            rw [hmk'] at hm; cases hm
          · exact hadd done cur _ hmv (fun h => by rw [hmk'] at h; cases h)

/-! ### Part 2: one tracked field in the two runs -/

theorem words_marker : words marker = [] := by decide

theorem blankLine_words (mk : Marked) (l : NL) (h : mk l.num = true → l.val = marker) :
    words (blankLine mk l).val = words l.val := by
  unfold blankLine
  by_cases hm : mk l.num = true
  · simp only [hm, if_true]
    rw [h hm, words_marker]; rfl
  · simp [hm]

theorem mapF_words (mk : Marked) (f : Fld) (h : OutF mk f) :
    words (lstrip (fieldText (mapF mk f))) = words (lstrip (fieldText f)) := by
  rw [Proofs.Words.words_lstrip, Proofs.Words.words_lstrip, Props.C11W.words_fieldText, Props.C11W.words_fieldText]
  unfold Props.C11W.fldWords mapF
  simp only [List.flatMap_map]
  apply Props.C10R.flatMap_congr''
  intro l hl
  exact blankLine_words mk l (h.1 l hl)

theorem nonblank_line_value (ls : List NL) (w : NL) (hw : w ∈ ls) (hnb : isBlank w.val = false) :
    lstrip (Model.Debcon.joinNl (ls.map (·.val))) ≠ [] := by
  intro e
  obtain ⟨u, hu, hdec⟩ := lstrip_decomp (Model.Debcon.joinNl (ls.map (·.val)))
  rw [e, List.append_nil] at hdec
  have : isBlank w.val = true := by
    rw [isBlank, List.all_eq_true]
    intro c hc
    apply hu
    rw [← hdec]
    exact Props.C10R.mem_joinNl _ w.val (List.mem_map.mpr ⟨w, hw, rfl⟩) c hc
  rw [hnb] at this; cases this

/-- what matters of the value of a field, the same in the two runs -/
structure VR (x y : Str) : Prop where
  xne : x ≠ []
  yne : y ≠ []
  xh : headP isSpace x = false
  yh : headP isSpace y = false
  wds : words x = words y

/-- the two runs of one field: the same emptiness, and related values -/
theorem field_rel (mk : Marked) (f : Fld) (h : OutF mk f) (hc : rstripLines f.lines = f.lines) :
    (fieldText (mapF mk f)).isEmpty = (fieldText f).isEmpty ∧
    ((fieldText f).isEmpty = false → VR (lstrip (fieldText f)) (lstrip (fieldText (mapF mk f)))) := by
  by_cases hm : ∃ l ∈ f.lines, mk l.num = true
  · -- a marked line: both values hold a line that is not blank
    obtain ⟨w, hw, hww⟩ := h.2 hm
    have hwB : blankLine mk w ∈ (mapF mk f).lines := List.mem_map.mpr ⟨w, hw, rfl⟩
    have hwB' : blankLine mk w = w := blankLine_witness mk w hww
    have hA := nonblank_line_value f.lines w hw hww.2
    have hB := nonblank_line_value (mapF mk f).lines w (by rw [← hwB']; exact hwB) hww.2
    have eA : (fieldText f).isEmpty = false := by
      cases hf : fieldText f with
      | nil => unfold fieldText at hf hA; rw [hf] at hA; exact absurd rfl hA
      | cons _ _ => rfl
    have eB : (fieldText (mapF mk f)).isEmpty = false := by
      cases hf : fieldText (mapF mk f) with
      | nil => unfold fieldText at hf hB; rw [hf] at hB; exact absurd rfl hB
      | cons _ _ => rfl
    refine ⟨by rw [eA, eB], fun _ => ⟨hA, hB, Props.C10R.lstrip_head _, Props.C10R.lstrip_head _, (mapF_words mk f h).symm⟩⟩
  · -- no marked line: the same field
    have hlines : f.lines.map (blankLine mk) = f.lines := by
      have : ∀ ls : List NL, (∀ l ∈ ls, mk l.num ≠ true) → ls.map (blankLine mk) = ls := by
        intro ls
        induction ls with
        | nil => intro _; rfl
        | cons x xs ih =>
          intro hx
          have h1 : blankLine mk x = x := by
            unfold blankLine
            have := hx x (by simp)
            simp [this]
          rw [List.map_cons, h1, ih (fun l hl => hx l (by simp [hl]))]
      exact this f.lines (fun l hl hml => hm ⟨l, hl, hml⟩)
    have hsame : mapF mk f = f := by
      unfold mapF
      rw [hlines]
    rw [hsame]
    refine ⟨rfl, fun hv => ?_⟩
    -- the value is not empty: the field has a last line, which is not blank
    have hne : f.lines ≠ [] := by
      intro e
      simp [fieldText, e, Model.Debcon.joinNl] at hv
    obtain ⟨last, hl⟩ : ∃ last, f.lines.getLast? = some last := ⟨_, List.getLast?_eq_some_getLast hne⟩
    have hnb := Props.C10R.rstrip_fixed_last f.lines hc last hl
    have := Props.C10R.lstrip_value_ne f last hl hnb
    exact ⟨this, this, Props.C10R.lstrip_head _, Props.C10R.lstrip_head _, rfl⟩

/-! ### Part 3: the accumulator of `from_fields` in the two runs -/

open Props.C09G (All2)

theorem All2.snoc {α β} {R : α → β → Prop} {as : List α} {bs : List β} (h : All2 R as bs) (a : α) (b : β) (hab : R a b) :
    All2 R (as ++ [a]) (bs ++ [b]) := by
  induction h with
  | nil => exact All2.cons hab All2.nil
  | cons h1 _ ih => exact All2.cons h1 ih

theorem All2.keys {α β} {R : (Str × α) → (Str × β) → Prop} {as : List (Str × α)} {bs : List (Str × β)}
    (h : All2 R as bs) (hk : ∀ a b, R a b → a.1 = b.1) : bs.map (·.1) = as.map (·.1) := by
  induction h with
  | nil => rfl
  | cons h1 _ ih => simp only [List.map_cons, ih, hk _ _ h1]

def KR (a b : Str × Str) : Prop := a.1 = b.1 ∧ VR a.2 b.2
def XR (a b : Str × XV) : Prop := a.1 = b.1 ∧ ∃ x y, a.2 = XV.s x ∧ b.2 = XV.s y ∧ VR x y

open Proofs.CopyrightTotal in
structure AccRel (kn : List Str) (aA aB : Acc) : Prop where
  seenA : KeysSeen aA
  knd : (aA.known.map (·.1)).Nodup
  xnd : (aA.extra.map (·.1)).Nodup
  kin : ∀ k ∈ aA.known.map (·.1), k ∈ kn
  xout : ∀ k ∈ aA.extra.map (·.1), k ∉ kn
  lseenA : ∀ k ∈ aA.lines.map (·.1), k ∈ aA.seen
  seen : aB.seen = aA.seen
  suffix : aB.suffix = aA.suffix
  lkeys : aB.lines.map (·.1) = aA.lines.map (·.1)
  kvals : All2 KR aA.known aB.known
  xvals : All2 XR aA.extra aB.extra

open Proofs.CopyrightTotal in
theorem addField_rel (mk : Marked) (kn : List Str) (aA aB : Acc) (f : Fld) (hrel : AccRel kn aA aB) (hO : OutF mk f)
    (hc : rstripLines f.lines = f.lines) :
    ∃ aA' aB', addField kn aA f = .ok aA' ∧ addField kn aB (mapF mk f) = .ok aB' ∧ AccRel kn aA' aB' := by
  obtain ⟨hemp, hvr⟩ := field_rel mk f hO hc
  have hkB : aB.known.map (·.1) = aA.known.map (·.1) := All2.keys hrel.kvals (fun _ _ h => h.1)
  have hxB : aB.extra.map (·.1) = aA.extra.map (·.1) := All2.keys hrel.xvals (fun _ _ h => h.1)
  unfold addField
  simp only
  by_cases hv : (fieldText f).isEmpty = true
  · have hvB : (fieldText (mapF mk f)).isEmpty = true := by rw [hemp]; exact hv
    exact ⟨aA, aB, by simp [hv], by simp [hvB], hrel⟩
  · have hv' : (fieldText f).isEmpty = false := by simpa using hv
    have hvB : (fieldText (mapF mk f)).isEmpty = false := by rw [hemp]; exact hv'
    have hVR := hvr hv'
    simp only [hv', hvB, Bool.false_eq_true, if_false]
    have hname : (mapF mk f).name = f.name := rfl
    rw [hname, hrel.seen, hrel.suffix]
    obtain ⟨name, suffix, hfresh, hnotin⟩ :=
      freshName_some (replaceChar '-' '_' f.name) aA.seen (aA.seen.length + 1) (replaceChar '-' '_' f.name) aA.suffix
        (Nat.lt_succ_self _) (Or.inl rfl)
    rw [hfresh]
    simp only
    have hkm : name ∉ aA.known.map (·.1) := fun h => hnotin (hrel.seenA.1 name h)
    have hem : name ∉ aA.extra.map (·.1) := fun h => hnotin (hrel.seenA.2 name h)
    have hlm : name ∉ aA.lines.map (·.1) := fun h => hnotin (hrel.lseenA name h)
    have hlk : ∀ (l : List (Str × Str)), name ∉ l.map (·.1) → (l.lookup name).isSome = false := by
      intro l hl
      cases h : (l.lookup name).isSome with
      | false => rfl
      | true => exact absurd (lookup_isSome_mem _ _ h) hl
    have hlx : ∀ (l : List (Str × XV)), name ∉ l.map (·.1) → (l.lookup name).isSome = false := by
      intro l hl
      cases h : (l.lookup name).isSome with
      | false => rfl
      | true => exact absurd (lookup_isSome_mem _ _ h) hl
    simp only [hlk aA.known hkm, hlx aA.extra hem, hlk aB.known (by rw [hkB]; exact hkm), hlx aB.extra (by rw [hxB]; exact hem),
      Bool.and_false, Bool.or_self, Bool.false_eq_true, if_false]
    have hne : f.lines ≠ [] := by
      intro e
      apply hv
      simp [fieldText, e, Model.Debcon.joinNl]
    cases hll : f.lines with
    | nil => exact absurd hll hne
    | cons l ls =>
      have hlast : ∃ x, (l :: ls).getLast? = some x := ⟨(l :: ls).getLast (by simp), List.getLast?_eq_some_getLast _⟩
      obtain ⟨x, hx⟩ := hlast
      have hlB : (mapF mk f).lines = blankLine mk l :: ls.map (blankLine mk) := by simp [mapF, hll]
      have hxB' : (blankLine mk l :: ls.map (blankLine mk)).getLast? = some (blankLine mk x) := by
        have : (blankLine mk l :: ls.map (blankLine mk)) = (l :: ls).map (blankLine mk) := rfl
        rw [this, List.getLast?_map, hx]; rfl
      rw [hlB]
      simp only [List.head?_cons, hx, hxB']
      rw [← hll, ← hlB]
      rw [Props.C13P.lset_absent aA.lines name _ hlm, Props.C13P.lset_absent aB.lines name _ (by rw [hrel.lkeys]; exact hlm)]
      have hseen' : KeysSeen aA → ∀ (k : Str), True := fun _ _ => trivial
      by_cases hkn : kn.contains name = true
      · simp only [hkn, if_true]
        refine ⟨_, _, rfl, rfl, ?_⟩
        constructor
        · constructor
          · intro k hk
            simp only [List.map_append, List.map_cons, List.map_nil, List.mem_append, List.mem_singleton] at hk ⊢
            rcases hk with h | h
            · exact Or.inl (hrel.seenA.1 k h)
            · exact Or.inr h
          · intro k hk
            simp only [List.mem_append, List.mem_singleton]
            exact Or.inl (hrel.seenA.2 k hk)
        · simp only [List.map_append, List.map_cons, List.map_nil]
          rw [List.nodup_append]
          refine ⟨hrel.knd, by simp, ?_⟩
          intro x hx y hy
          simp only [List.mem_singleton] at hy
          subst hy
          intro e; subst e; exact hkm hx
        · exact hrel.xnd
        · intro k hk
          simp only [List.map_append, List.map_cons, List.map_nil, List.mem_append, List.mem_singleton] at hk
          rcases hk with h | h
          · exact hrel.kin k h
          · rw [h]; exact List.contains_iff_mem.mp hkn
        · exact hrel.xout
        · intro k hk
          simp only [List.map_append, List.map_cons, List.map_nil, List.mem_append, List.mem_singleton] at hk ⊢
          rcases hk with h | h
          · exact Or.inl (hrel.lseenA k h)
          · exact Or.inr h
        · simp only [hrel.seen]
        · rfl
        · simp only [List.map_append, hrel.lkeys, List.map_cons, List.map_nil]
        · exact All2.snoc hrel.kvals _ _ ⟨rfl, hVR⟩
        · exact hrel.xvals
      · have hkn' : kn.contains name = false := by simpa using hkn
        simp only [hkn', Bool.false_eq_true, if_false]
        refine ⟨_, _, rfl, rfl, ?_⟩
        constructor
        · constructor
          · intro k hk
            simp only [List.mem_append, List.mem_singleton]
            exact Or.inl (hrel.seenA.1 k hk)
          · intro k hk
            simp only [List.map_append, List.map_cons, List.map_nil, List.mem_append, List.mem_singleton] at hk ⊢
            rcases hk with h | h
            · exact Or.inl (hrel.seenA.2 k h)
            · exact Or.inr h
        · exact hrel.knd
        · simp only [List.map_append, List.map_cons, List.map_nil]
          rw [List.nodup_append]
          refine ⟨hrel.xnd, by simp, ?_⟩
          intro x hx y hy
          simp only [List.mem_singleton] at hy
          subst hy
          intro e; subst e; exact hem hx
        · exact hrel.kin
        · intro k hk
          simp only [List.map_append, List.map_cons, List.map_nil, List.mem_append, List.mem_singleton] at hk
          rcases hk with h | h
          · exact hrel.xout k h
          · rw [h]; intro hm; have := List.contains_iff_mem.mpr hm; rw [hkn'] at this; cases this
        · intro k hk
          simp only [List.map_append, List.map_cons, List.map_nil, List.mem_append, List.mem_singleton] at hk ⊢
          rcases hk with h | h
          · exact Or.inl (hrel.lseenA k h)
          · exact Or.inr h
        · simp only [hrel.seen]
        · rfl
        · simp only [List.map_append, hrel.lkeys, List.map_cons, List.map_nil]
        · exact hrel.kvals
        · exact All2.snoc hrel.xvals _ _ ⟨rfl, _, _, rfl, rfl, hVR⟩

theorem addFields_rel (mk : Marked) (kn : List Str) (fs : List Fld) (aA aB : Acc) (hrel : AccRel kn aA aB)
    (hO : ∀ f ∈ fs, OutF mk f ∧ rstripLines f.lines = f.lines) :
    ∃ aA' aB', addFields kn aA fs = .ok aA' ∧ addFields kn aB (fs.map (mapF mk)) = .ok aB' ∧ AccRel kn aA' aB' := by
  induction fs generalizing aA aB with
  | nil => exact ⟨aA, aB, rfl, rfl, hrel⟩
  | cons f fs ih =>
    obtain ⟨a1, b1, h1, h2, hr1⟩ := addField_rel mk kn aA aB f hrel (hO f (by simp)).1 (hO f (by simp)).2
    obtain ⟨a2, b2, h3, h4, hr2⟩ := ih a1 b1 hr1 (fun g hg => hO g (by simp [hg]))
    exact ⟨a2, b2, by simp [addFields, h1, h3], by simp [addFields, h2, h4], hr2⟩

/-! ### Part 4: one paragraph in the two runs -/

def DVR : DV → DV → Prop
  | .s x, .s y => words x = words y
  | .emptyList, .emptyList => True
  | _, _ => False

def DR (a b : Str × DV) : Prop := a.1 = b.1 ∧ DVR a.2 b.2

def SolidDV : DV → Prop
  | .s x => x ≠ [] ∧ headP isSpace x = false
  | .emptyList => True

open Props.C11W in
structure PRel (pA pB : Para) : Prop where
  kind : pA.kind = pB.kind
  dict : All2 DR (toDict pA) (toDict pB)
  lkeys : pA.lines.map (·.1) = pB.lines.map (·.1)
  licEmpty : pA.kind = .license → licenseParaIsEmpty pA = licenseParaIsEmpty pB
  shapeA : LicShape pA
  shapeB : LicShape pB
  solid : pA.kind = .catchall → (∀ kv ∈ toDict pA, SolidDV kv.2) ∧ (∀ kv ∈ toDict pB, SolidDV kv.2)

/-- the head line of a text that starts with a character that is not white space -/
theorem splitlines_head (v : Str) (hne : v ≠ []) (hh : headP isSpace v = false) :
    ∃ c m ls, splitlines v = (c :: m) :: ls ∧ isSpace c = false := by
  cases v with
  | nil => exact absurd rfl hne
  | cons c cs =>
    have hc : isSpace c = false := by simpa [headP] using hh
    have hb : isBoundary c = false := by
      cases h : isBoundary c with
      | false => rfl
      | true => rw [Proofs.Splitlines.isBoundary_isSpace h] at hc; cases hc
    have hn : c ≠ '\n' := by intro e; subst e; revert hc; decide
    have hr : c ≠ '\r' := by intro e; subst e; revert hc; decide
    have hsl : splitlines (c :: cs) = splitlinesAux cs [c] false := by
      simp [splitlines, splitlinesAux, hn, hr, hb]
    obtain ⟨l, ls, m, h1, h2⟩ := Props.C10R.splitlinesAux_head cs [c] false (by simp)
    have hl : l = c :: m := by simpa using h2
    exact ⟨c, m, ls, by rw [hsl, h1, hl], hc⟩

theorem nonblank_head (c : Char) (m : Str) (hc : isSpace c = false) : isBlank (c :: m) = false := by
  simp [isBlank, hc]

/-- re-encoding a text that starts with a non-space character gives a text that starts with it -/
theorem aft_solid (v : Str) (hne : v ≠ []) (hh : headP isSpace v = false) :
    asFormattedText v ≠ [] ∧ headP isSpace (asFormattedText v) = false := by
  obtain ⟨c, m, ls, hsl, hc⟩ := splitlines_head v hne hh
  have hie : v.isEmpty = false := by cases v <;> simp_all
  have : asFormattedText v = (c :: m) ++ (match ls with | [] => [] | _ => '\n' :: ' ' :: joinNlSp (ls.map encLine)) := by
    simp only [asFormattedText, hie, Bool.false_eq_true, if_false, asFormattedLines, hsl, List.map_cons, encLine,
      nonblank_head c m hc]
    cases ls with
    | nil => simp [joinNlSp]
    | cons x xs => simp [joinNlSp]
  rw [this]
  exact ⟨by simp, by simp [headP, hc]⟩

theorem strip_head_solid (l : Str) (c : Char) (m : Str) (hl : l = c :: m) (hc : isSpace c = false) :
    strip l ≠ [] ∧ headP isSpace (strip l) = false := by
  subst hl
  obtain ⟨w2, hw2, hd2⟩ := rstrip_decomp (c :: m)
  have hl1 : lstrip (c :: m) = c :: m := by simp [lstrip, hc]
  have hr : rstrip (c :: m) ≠ [] := by
    intro e
    have := (rstrip_eq_nil_iff (c :: m)).mp e
    rw [nonblank_head c m hc] at this; cases this
  have hst : strip (c :: m) = rstrip (c :: m) := by simp [strip, hl1]
  rw [hst]
  refine ⟨hr, ?_⟩
  cases hrr : rstrip (c :: m) with
  | nil => exact absurd hrr hr
  | cons d ds =>
    rw [hrr] at hd2
    have : d = c := by
      have := congrArg List.head? hd2
      simpa using this.symm
    simp [headP, this, hc]

/-- decoding a formatted text that starts with a non-space character gives a text that is not empty -/
theorem fft_ne (v : Str) (hne : v ≠ []) (hh : headP isSpace v = false) : fromFormattedText v ≠ [] := by
  obtain ⟨c, m, ls, hsl, hc⟩ := splitlines_head v hne hh
  have hie : v.isEmpty = false := by cases v <;> simp_all
  simp only [fromFormattedText, hie, Bool.false_eq_true, if_false, lineSeparated, hsl, fromFormattedLines]
  have := (strip_head_solid (c :: m) c m rfl hc).1
  cases hs : strip (c :: m) with
  | nil => exact absurd hs this
  | cons d ds => cases ls <;> simp [Model.Debcon.joinNl]

theorem All2.lookup_rel {as bs : List (Str × Str)} (h : All2 KR as bs) (k : Str) :
    (as.lookup k = none ∧ bs.lookup k = none) ∨ ∃ x y, as.lookup k = some x ∧ bs.lookup k = some y ∧ VR x y := by
  induction h with
  | nil => exact Or.inl ⟨rfl, rfl⟩
  | @cons a b as0 bs0 hab _ ih =>
    obtain ⟨a1, a2⟩ := a
    obtain ⟨b1, b2⟩ := b
    obtain ⟨hk, hv⟩ := hab
    simp only at hk
    subst hk
    by_cases e : k = a1
    · subst e
      right
      exact ⟨a2, b2, by simp [List.lookup], by simp [List.lookup], hv⟩
    · have : (k == a1) = false := by simpa using e
      simp only [List.lookup, this]
      exact ih

theorem All2.map_same {α β γ} {R : β → γ → Prop} (l : List α) (f : α → β) (g : α → γ) (h : ∀ a ∈ l, R (f a) (g a)) :
    All2 R (l.map f) (l.map g) := by
  induction l with
  | nil => exact All2.nil
  | cons a as ih => exact All2.cons (h a (by simp)) (ih (fun x hx => h x (by simp [hx])))

theorem All2.append {α β} {R : α → β → Prop} {a1 a2 : List α} {b1 b2 : List β} (h1 : All2 R a1 b1) (h2 : All2 R a2 b2) :
    All2 R (a1 ++ a2) (b1 ++ b2) := by
  induction h1 with
  | nil => exact h2
  | cons h _ ih => exact All2.cons h ih

theorem All2.map_both {α β γ δ} {R : α → β → Prop} {S : γ → δ → Prop} {as : List α} {bs : List β} (h : All2 R as bs)
    (f : α → γ) (g : β → δ) (hfg : ∀ a b, R a b → S (f a) (g b)) : All2 S (as.map f) (bs.map g) := by
  induction h with
  | nil => exact All2.nil
  | cons h1 _ ih => exact All2.cons (hfg _ _ h1) ih

theorem All2.len {α β} {R : α → β → Prop} {as : List α} {bs : List β} (h : All2 R as bs) : bs.length = as.length := by
  induction h with
  | nil => rfl
  | cons _ _ ih => simp [ih]

open Props.C11W Props.C07 in
theorem toDict_fromFields (K : Kind) (a : Acc) (hxnd : (a.extra.map (·.1)).Nodup)
    (hxout : ∀ k ∈ a.extra.map (·.1), k ∉ (typedFields K).map (·.1)) :
    toDict (⟨K, (typedFields K).map fun nc => (nc.1, fromValue nc.2 (a.known.lookup nc.1)), a.extra, a.lines⟩ : Para) =
      ((typedFields K).map fun nc => (nc.1, XV.s (dumps (fromValue nc.2 (a.known.lookup nc.1))))) ++ a.extra.map conv := by
  have hd0keys : ((((typedFields K).map fun nc => (nc.1, fromValue nc.2 (a.known.lookup nc.1))).map
      (fun nf => ((nf.1, XV.s (dumps nf.2)) : Str × DV))).map (·.1)) = (typedFields K).map (·.1) := by
    simp [List.map_map, Function.comp]
  rw [toDict_eq]
  simp only
  rw [foldl_dstep_append a.extra _ hxnd (by intro k hk; rw [hd0keys]; exact hxout k hk)]
  simp [List.map_map, Function.comp_def]

open Props.C11W Props.C07 in
/-- **`from_fields` in the two runs** builds related paragraphs -/
theorem fromFields_rel (mk : Marked) (K : Kind) (g : List Fld) (hO : ∀ f ∈ g, OutF mk f ∧ rstripLines f.lines = f.lines) :
    ∃ pA pB, fromFields K g = .ok pA ∧ fromFields K (g.map (mapF mk)) = .ok pB ∧ PRel pA pB := by
  unfold fromFields
  simp only
  obtain ⟨aA, aB, hA, hB, hrel⟩ := addFields_rel mk (if K = .catchall then [] else (typedFields K).map (·.1)) g
    ⟨[], [], [], [], 1⟩ ⟨[], [], [], [], 1⟩
    ⟨⟨by simp, by simp⟩, by simp, by simp, by simp, by simp, by simp, rfl, rfl, rfl, All2.nil, All2.nil⟩ hO
  rw [hA, hB]
  refine ⟨_, _, rfl, rfl, ?_⟩
  have hxB : aB.extra.map (·.1) = aA.extra.map (·.1) := All2.keys hrel.xvals (fun _ _ h => h.1)
  have hxout : ∀ k ∈ aA.extra.map (·.1), k ∉ (typedFields K).map (·.1) := by
    intro k hk
    by_cases hK : K = .catchall
    · subst hK; simp [typedFields_catchall]
    · have := hrel.xout k hk
      simpa [hK] using this
  have hdA := toDict_fromFields K aA hrel.xnd hxout
  have hdB := toDict_fromFields K aB (by rw [hxB]; exact hrel.xnd) (by rw [hxB]; exact hxout)
  -- the extra data, entry by entry
  have hextra : All2 DR (aA.extra.map conv) (aB.extra.map conv) := by
    apply All2.map_both hrel.xvals
    intro a b hab
    obtain ⟨hk, x, y, hx, hy, hvr⟩ := hab
    obtain ⟨a1, a2⟩ := a
    obtain ⟨b1, b2⟩ := b
    simp only at hk hx hy
    subst hk hx hy
    have hxe : x.isEmpty = false := by cases hx' : x with | nil => exact absurd hx' hvr.xne | cons _ _ => rfl
    have hye : y.isEmpty = false := by cases hy' : y with | nil => exact absurd hy' hvr.yne | cons _ _ => rfl
    refine ⟨rfl, ?_⟩
    simp only [conv, hxe, hye, Bool.false_eq_true, if_false, DVR, Proofs.WordsConv.words_asFormattedText]
    exact hvr.wds
  have hsolidX : ∀ (e : List (Str × XV)) (e' : List (Str × XV)), All2 XR e e' →
      (∀ kv ∈ e.map conv, SolidDV kv.2) ∧ (∀ kv ∈ e'.map conv, SolidDV kv.2) := by
    intro e e' h
    induction h with
    | nil => exact ⟨by simp, by simp⟩
    | @cons a b as0 bs0 hab _ ih =>
      obtain ⟨hk, x, y, hx, hy, hvr⟩ := hab
      obtain ⟨a1, a2⟩ := a
      obtain ⟨b1, b2⟩ := b
      simp only at hx hy
      subst hx hy
      have hxe : x.isEmpty = false := by cases hx' : x with | nil => exact absurd hx' hvr.xne | cons _ _ => rfl
      have hye : y.isEmpty = false := by cases hy' : y with | nil => exact absurd hy' hvr.yne | cons _ _ => rfl
      constructor
      · intro kv hkv
        simp only [List.map_cons, List.mem_cons] at hkv
        rcases hkv with rfl | hkv
        · simp only [conv, hxe, Bool.false_eq_true, if_false, SolidDV]
          exact aft_solid x hvr.xne hvr.xh
        · exact ih.1 kv hkv
      · intro kv hkv
        simp only [List.map_cons, List.mem_cons] at hkv
        rcases hkv with rfl | hkv
        · simp only [conv, hye, Bool.false_eq_true, if_false, SolidDV]
          exact aft_solid y hvr.yne hvr.yh
        · exact ih.2 kv hkv
  constructor
  · rfl
  · rw [hdA, hdB]
    apply All2.append _ hextra
    apply All2.map_same
    intro nc _
    refine ⟨rfl, ?_⟩
    rcases All2.lookup_rel hrel.kvals nc.1 with ⟨h1, h2⟩ | ⟨x, y, h1, h2, hvr⟩
    · rw [h1, h2]; simp [DVR]
    · rw [h1, h2]
      simp only [DVR, Proofs.WordsConv.words_dumps_fromValue]
      exact hvr.wds
  · exact hrel.lkeys.symm
  · intro hK
    simp only at hK
    subst hK
    -- emptiness of a license paragraph depends on which of its two fields are there, and on the extra data
    have hxlen : aB.extra.isEmpty = aA.extra.isEmpty := by
      have := All2.len hrel.xvals
      cases hA' : aA.extra <;> cases hB' : aB.extra <;> simp_all
    simp only [licenseParaIsEmpty, licenseOf, commentTextOf, getField, license_fields, List.map_cons, List.map_nil, hxlen]
    have hl1 : ∀ (x y : FV), List.lookup "license".toList [(licKey, x), (comKey, y)] = some x := by
      intro x y; show List.lookup licKey _ = _; simp [List.lookup]
    have hl2 : ∀ (x y : FV), List.lookup "comment".toList [(licKey, x), (comKey, y)] = some y := by
      intro x y; show List.lookup comKey _ = _; simp [List.lookup, com_ne_lic]
    simp only [hl1, hl2]
    rcases All2.lookup_rel hrel.kvals licKey with ⟨h1, h2⟩ | ⟨x, y, h1, h2, hvr⟩
    · rw [h1, h2]
      rcases All2.lookup_rel hrel.kvals comKey with ⟨h3, h4⟩ | ⟨x, y, h3, h4, hvr⟩
      · rw [h3, h4]
      · rw [h3, h4]
        have hxe : x.isEmpty = false := by cases hx' : x with | nil => exact absurd hx' hvr.xne | cons _ _ => rfl
        have hye : y.isEmpty = false := by cases hy' : y with | nil => exact absurd hy' hvr.yne | cons _ _ => rfl
        have t1 := fft_ne x hvr.xne hvr.xh
        have t2 := fft_ne y hvr.yne hvr.yh
        have e1 : (fromFormattedText x).isEmpty = false := by cases hh : fromFormattedText x with | nil => exact absurd hh t1 | cons _ _ => rfl
        have e2 : (fromFormattedText y).isEmpty = false := by cases hh : fromFormattedText y with | nil => exact absurd hh t2 | cons _ _ => rfl
        have hx0 : x ≠ [] := hvr.xne
        have hy0 : y ≠ [] := hvr.yne
        simp [fromValue, optTruthy, hxe, hye, e1, e2, hx0, hy0]
    · rw [h1, h2]
      obtain ⟨n1, t1, hf1, hn1⟩ := Props.C10R.license_name_ne x hvr.xne hvr.xh
      obtain ⟨n2, t2, hf2, hn2⟩ := Props.C10R.license_name_ne y hvr.yne hvr.yh
      rw [hf1, hf2]
      have e1 : n1.isEmpty = false := by cases hh : n1 with | nil => exact absurd hh hn1 | cons _ _ => rfl
      have e2 : n2.isEmpty = false := by cases hh : n2 with | nil => exact absurd hh hn2 | cons _ _ => rfl
      simp [e1, e2]
  · intro hk
    simp only at hk
    subst hk
    simp only [license_fields, List.map_cons, List.map_nil]
    exact ⟨_, _, _, rfl⟩
  · intro hk
    simp only at hk
    subst hk
    simp only [license_fields, List.map_cons, List.map_nil]
    exact ⟨_, _, _, rfl⟩
  · intro hK
    simp only at hK
    subst hK
    rw [hdA, hdB]
    simp only [typedFields_catchall, List.map_nil, List.nil_append]
    exact hsolidX _ _ hrel.xvals

/-! ### Part 5: all paragraphs, the merge and the fold -/

theorem classify_mapF (mk : Marked) (g : List Fld) : classify (g.map (mapF mk)) = classify g := by
  unfold classify
  simp only [List.map_map]
  rfl

theorem mapExcept_rel (mk : Marked) (gs : List (List Fld)) (hO : ∀ g ∈ gs, ∀ f ∈ g, OutF mk f ∧ rstripLines f.lines = f.lines) :
    ∃ psA psB, Model.Copyright.mapExcept (fun g => fromFields (classify g) g) gs = .ok psA ∧
      Model.Copyright.mapExcept (fun g => fromFields (classify g) g) (mapOut mk gs) = .ok psB ∧ All2 PRel psA psB := by
  induction gs with
  | nil => exact ⟨[], [], rfl, rfl, All2.nil⟩
  | cons g rest ih =>
    obtain ⟨pA, pB, h1, h2, hr⟩ := fromFields_rel mk (classify g) g (hO g (by simp))
    obtain ⟨psA, psB, h3, h4, hrs⟩ := ih (fun g' hg' => hO g' (by simp [hg']))
    refine ⟨pA :: psA, pB :: psB, by simp [Model.Copyright.mapExcept, h1, h3], ?_, All2.cons hr hrs⟩
    simp only [mapOut, List.map_cons, Model.Copyright.mapExcept, classify_mapF, h2]
    simp only [mapOut] at h4
    rw [h4]

theorem groupByKind_rel (psA psB : List Para) (h : All2 PRel psA psB) :
    All2 (All2 PRel) (groupByKind psA) (groupByKind psB) := by
  induction h with
  | nil => exact All2.nil
  | @cons a b as0 bs0 hab hrest ih =>
    rw [show groupByKind (a :: as0) = (match groupByKind as0 with
      | (q :: g) :: rest => if q.kind = a.kind then (a :: q :: g) :: rest else [a] :: (q :: g) :: rest
      | _ => [[a]]) from rfl,
      show groupByKind (b :: bs0) = (match groupByKind bs0 with
      | (q :: g) :: rest => if q.kind = b.kind then (b :: q :: g) :: rest else [b] :: (q :: g) :: rest
      | _ => [[b]]) from rfl]
    generalize groupByKind as0 = GA at ih
    generalize groupByKind bs0 = GB at ih
    cases ih with
    | nil => exact All2.cons (All2.cons hab All2.nil) All2.nil
    | @cons gA gB restA restB hg hr =>
      cases hg with
      | nil => exact All2.cons (All2.cons hab All2.nil) All2.nil
      | @cons q q' g g' hq hgg =>
        simp only
        have hk : (q.kind = a.kind) = (q'.kind = b.kind) := by rw [hq.kind, hab.kind]
        by_cases hc : q.kind = a.kind
        · have hc' : q'.kind = b.kind := by rw [← hk]; exact hc
          simp only [hc, hc', if_true]
          exact All2.cons (All2.cons hab (All2.cons hq hgg)) hr
        · have hc' : ¬ q'.kind = b.kind := by rw [← hk]; exact hc
          simp only [hc, hc', if_false]
          exact All2.cons (All2.cons hab All2.nil) (All2.cons (All2.cons hq hgg) hr)

theorem dvals_rel (gA gB : List Para) (h : All2 PRel gA gB) :
    All2 DVR (gA.flatMap fun p => (toDict p).map (·.2)) (gB.flatMap fun p => (toDict p).map (·.2)) := by
  induction h with
  | nil => exact All2.nil
  | cons hab _ ih =>
    simp only [List.flatMap_cons]
    exact All2.append (All2.map_both hab.dict _ _ (fun a b h => h.2)) ih

theorem any_empty_rel (a b : List DV) (h : All2 DVR a b) :
    (a.any fun v => v = XV.emptyList) = (b.any fun v => v = XV.emptyList) := by
  induction h with
  | nil => rfl
  | @cons x y _ _ hxy _ ih =>
    simp only [List.any_cons, ih]
    congr 1
    cases x <;> cases y <;> simp_all [DVR]

theorem values_rel (a b : List DV) (h : All2 DVR a b) :
    All2 (fun x y => words x = words y) (a.filterMap dvStr) (b.filterMap dvStr) := by
  induction h with
  | nil => exact All2.nil
  | @cons x y _ _ hxy _ ih =>
    cases x with
    | s u =>
      cases y with
      | s w => simp only [List.filterMap_cons, dvStr]; exact All2.cons hxy ih
      | emptyList => exact absurd hxy (by simp [DVR])
    | emptyList =>
      cases y with
      | s w => exact absurd hxy (by simp [DVR])
      | emptyList => simp only [List.filterMap_cons, dvStr]; exact ih

theorem flatMap_words_rel (a b : List Str) (h : All2 (fun x y => words x = words y) a b) :
    a.flatMap words = b.flatMap words := by
  induction h with
  | nil => rfl
  | cons hxy _ ih => simp only [List.flatMap_cons, hxy, ih]

theorem lines_len_rel (gA gB : List Para) (h : All2 PRel gA gB) :
    (gA.flatMap fun p => p.lines.map (·.2)).length = (gB.flatMap fun p => p.lines.map (·.2)).length := by
  induction h with
  | nil => rfl
  | cons hab _ ih =>
    simp only [List.flatMap_cons, List.length_append, List.length_map, ih]
    have := congrArg List.length hab.lkeys
    simpa using this

/-- the text of a merged run whose first value starts with a character that is not white space -/
theorem merged_text_solid (x : Str) (vs : List Str) (hne : x ≠ []) (hh : headP isSpace x = false) :
    fromFormattedLines (x :: vs) ≠ [] ∧ headP isSpace (fromFormattedLines (x :: vs)) = false := by
  cases x with
  | nil => exact absurd rfl hne
  | cons c m =>
    have hc : isSpace c = false := by simpa [headP] using hh
    obtain ⟨h1, h2⟩ := strip_head_solid (c :: m) c m rfl hc
    simp only [fromFormattedLines]
    rw [Props.C13F.headP_joinNl _ _ _ h1]
    exact ⟨Props.C09.joinNl_ne_nil' _ _ h1, h2⟩

open Props.C11W in
theorem mergeRun_rel (gA gB : List Para) (h : All2 PRel gA gB) (hcat : ∀ p ∈ gA, p.kind = .catchall) (mA : Para)
    (hm : mergeRun gA = .ok mA) : ∃ mB, mergeRun gB = .ok mB ∧ PRel mA mB := by
  have hdv := dvals_rel gA gB h
  have hany := any_empty_rel _ _ hdv
  have hvals := values_rel _ _ hdv
  have hlen := lines_len_rel gA gB h
  -- every value of a catch-all paragraph is solid, in both runs
  have hsolid : (∀ v ∈ (gA.flatMap fun p => (toDict p).map (·.2)), SolidDV v) ∧
      (∀ v ∈ (gB.flatMap fun p => (toDict p).map (·.2)), SolidDV v) := by
    clear hm hdv hany hvals hlen
    induction h with
    | nil => exact ⟨by simp, by simp⟩
    | @cons a b as0 bs0 hab _ ih =>
      obtain ⟨i1, i2⟩ := ih (fun p hp => hcat p (by simp [hp]))
      obtain ⟨s1, s2⟩ := hab.solid (hcat a (by simp))
      constructor
      · intro v hv
        simp only [List.flatMap_cons, List.mem_append, List.mem_map] at hv
        rcases hv with ⟨kv, hkv, rfl⟩ | hv
        · exact s1 kv hkv
        · exact i1 v hv
      · intro v hv
        simp only [List.flatMap_cons, List.mem_append, List.mem_map] at hv
        rcases hv with ⟨kv, hkv, rfl⟩ | hv
        · exact s2 kv hkv
        · exact i2 v hv
  unfold mergeRun at hm ⊢
  simp only at hm ⊢
  rw [← hany]
  by_cases ha : ((gA.flatMap fun p => (toDict p).map (·.2)).any fun v => v = XV.emptyList) = true
  · simp [ha] at hm
  · simp only [ha, Bool.false_eq_true, if_false, Except.ok.injEq] at hm ⊢
    refine ⟨_, rfl, ?_⟩
    subst hm
    generalize hVA : (gA.flatMap fun p => (toDict p).map (·.2)).filterMap dvStr = VA at *
    generalize hVB : (gB.flatMap fun p => (toDict p).map (·.2)).filterMap dvStr = VB at *
    generalize hNA : (gA.flatMap fun p => p.lines.map (·.2)) = NA at *
    generalize hNB : (gB.flatMap fun p => p.lines.map (·.2)) = NB at *
    have hVlen : VB.length = VA.length := All2.len hvals
    have hwords := flatMap_words_rel VA VB hvals
    -- the first value is solid
    have hfirstA : ∀ x vs, VA = x :: vs → x ≠ [] ∧ headP isSpace x = false := by
      intro x vs hx
      have hm : x ∈ (gA.flatMap fun p => (toDict p).map (·.2)).filterMap dvStr := by rw [hVA, hx]; simp
      obtain ⟨v, hv, hvx⟩ := List.mem_filterMap.mp hm
      cases v with
      | emptyList => simp [dvStr] at hvx
      | s y =>
        simp only [dvStr, Option.some.injEq] at hvx
        subst hvx
        exact hsolid.1 _ hv
    have hfirstB : ∀ x vs, VB = x :: vs → x ≠ [] ∧ headP isSpace x = false := by
      intro x vs hx
      have hm : x ∈ (gB.flatMap fun p => (toDict p).map (·.2)).filterMap dvStr := by rw [hVB, hx]; simp
      obtain ⟨v, hv, hvx⟩ := List.mem_filterMap.mp hm
      cases v with
      | emptyList => simp [dvStr] at hvx
      | s y =>
        simp only [dvStr, Option.some.injEq] at hvx
        subst hvx
        exact hsolid.2 _ hv
    constructor
    · rfl
    · rw [toDict_simple _ _ (by simp), toDict_simple _ _ (by simp)]
      simp only [List.map_cons, List.map_nil]
      refine All2.cons ⟨rfl, ?_⟩ All2.nil
      cases hA : VA with
      | nil =>
        have : VB = [] := by cases VB with | nil => rfl | cons _ _ => rw [hA] at hVlen; simp at hVlen
        simp [this, conv, DVR]
      | cons x vs =>
        cases hB : VB with
        | nil => rw [hA, hB] at hVlen; simp at hVlen
        | cons y ws =>
          obtain ⟨a1, a2⟩ := merged_text_solid x vs (hfirstA x vs hA).1 (hfirstA x vs hA).2
          obtain ⟨b1, b2⟩ := merged_text_solid y ws (hfirstB y ws hB).1 (hfirstB y ws hB).2
          have e1 : (fromFormattedLines (x :: vs)).isEmpty = false := by
            cases hh : fromFormattedLines (x :: vs) with | nil => exact absurd hh a1 | cons _ _ => rfl
          have e2 : (fromFormattedLines (y :: ws)).isEmpty = false := by
            cases hh : fromFormattedLines (y :: ws) with | nil => exact absurd hh b1 | cons _ _ => rfl
          simp only [List.isEmpty_cons, Bool.false_eq_true, if_false, conv, e1, e2, DVR,
            Proofs.WordsConv.words_asFormattedText, Proofs.WordsConv.words_fromFormattedLines]
          rw [← hA, ← hB]; exact hwords
    · cases hA : NA with
      | nil =>
        have : NB = [] := by cases NB with | nil => rfl | cons _ _ => rw [hA] at hlen; simp at hlen
        simp [this]
      | cons n ns =>
        cases hB : NB with
        | nil => rw [hA, hB] at hlen; simp at hlen
        | cons n' ns' => simp
    · intro hk; cases hk
    · intro hk; cases hk
    · intro hk; cases hk
    · intro _
      rw [toDict_simple _ _ (by simp), toDict_simple _ _ (by simp)]
      constructor
      · intro kv hkv
        simp only [List.map_cons, List.map_nil, List.mem_singleton] at hkv
        subst hkv
        cases hA : VA with
        | nil => simp [conv, SolidDV]
        | cons x vs =>
          obtain ⟨a1, a2⟩ := merged_text_solid x vs (hfirstA x vs hA).1 (hfirstA x vs hA).2
          have e1 : (fromFormattedLines (x :: vs)).isEmpty = false := by
            cases hh : fromFormattedLines (x :: vs) with | nil => exact absurd hh a1 | cons _ _ => rfl
          simp only [List.isEmpty_cons, Bool.false_eq_true, if_false, conv, e1, SolidDV]
          exact aft_solid _ a1 a2
      · intro kv hkv
        simp only [List.map_cons, List.map_nil, List.mem_singleton] at hkv
        subst hkv
        cases hB : VB with
        | nil => simp [conv, SolidDV]
        | cons y ws =>
          obtain ⟨b1, b2⟩ := merged_text_solid y ws (hfirstB y ws hB).1 (hfirstB y ws hB).2
          have e2 : (fromFormattedLines (y :: ws)).isEmpty = false := by
            cases hh : fromFormattedLines (y :: ws) with | nil => exact absurd hh b1 | cons _ _ => rfl
          simp only [List.isEmpty_cons, Bool.false_eq_true, if_false, conv, e2, SolidDV]
          exact aft_solid _ b1 b2

theorem isAllUnknown_rel (pA pB : Para) (h : PRel pA pB) : isAllUnknown pA = isAllUnknown pB := by
  unfold isAllUnknown
  have := h.dict
  generalize toDict pA = dA at this
  generalize toDict pB = dB at this
  induction this with
  | nil => rfl
  | cons hab _ ih => simp only [List.all_cons, hab.1, ih]

theorem all_unknown_rel (gA gB : List Para) (h : All2 PRel gA gB) : gA.all isAllUnknown = gB.all isAllUnknown := by
  induction h with
  | nil => rfl
  | cons hab _ ih => simp only [List.all_cons, isAllUnknown_rel _ _ hab, ih]

open Props.C07 Props.C11W in
theorem foldl_mstep_rel (gsA gsB : List (List Para)) (h : All2 (All2 PRel) gsA gsB) (outA outB : List Para)
    (hout : All2 PRel outA outB) (hkind : ∀ g ∈ gsA, ∀ q ∈ g, ∀ q' ∈ g, q.kind = q'.kind)
    (resA : List Para) (hA : gsA.foldl mstep (.ok outA) = .ok resA) :
    ∃ resB, gsB.foldl mstep (.ok outB) = .ok resB ∧ All2 PRel resA resB := by
  induction h generalizing outA outB with
  | nil => simp at hA; subst hA; exact ⟨outB, rfl, hout⟩
  | @cons gA gB restA restB hg _ ih =>
    simp only [List.foldl_cons] at hA ⊢
    have hrk := fun g' hg' => hkind g' (List.mem_cons_of_mem _ hg')
    cases hg with
    | nil =>
      simp only [mstep] at hA ⊢
      exact ih outA outB hout hrk hA
    | @cons p p' ps ps' hp hps =>
      have hall : All2 PRel (p :: ps) (p' :: ps') := All2.cons hp hps
      have hlen : (p' :: ps').length = (p :: ps).length := All2.len hall
      have hau := all_unknown_rel _ _ hall
      simp only [mstep] at hA ⊢
      have hcondeq : (p.kind ≠ .catchall || (p :: ps).length = 1 || !(p :: ps).all isAllUnknown) =
          (p'.kind ≠ .catchall || (p' :: ps').length = 1 || !(p' :: ps').all isAllUnknown) := by
        rw [hp.kind, hlen, hau]
      by_cases hcond : (p.kind ≠ .catchall || (p :: ps).length = 1 || !(p :: ps).all isAllUnknown) = true
      · rw [if_pos hcond] at hA
        rw [if_pos (by rw [← hcondeq]; exact hcond)]
        exact ih _ _ (All2.append hout hall) hrk hA
      · rw [if_neg hcond] at hA
        rw [if_neg (by rw [← hcondeq]; exact hcond)]
        cases hm : mergeRun (p :: ps) with
        | error e =>
          rw [hm] at hA
          simp only at hA
          rw [foldl_mstep_error] at hA; cases hA
        | ok mA =>
          rw [hm] at hA
          simp only at hA
          have hpk : p.kind = .catchall := by
            simp only [Bool.or_eq_true, decide_eq_true_eq, not_or] at hcond
            have := hcond.1.1
            simpa using this
          have hcat : ∀ q ∈ p :: ps, q.kind = .catchall := fun q hq =>
            (hkind (p :: ps) (by simp) q hq p (by simp)).trans hpk
          obtain ⟨mB, hmB, hrel⟩ := mergeRun_rel _ _ hall hcat mA hm
          rw [hmB]
          simp only
          exact ih _ _ (All2.append hout (All2.cons hrel All2.nil)) hrk hA

open Props.C07 in
theorem mergeUnknown_rel (psA psB : List Para) (h : All2 PRel psA psB) (resA : List Para) (hA : mergeUnknown psA = .ok resA) :
    ∃ resB, mergeUnknown psB = .ok resB ∧ All2 PRel resA resB := by
  rw [mergeUnknown_eq] at hA ⊢
  exact foldl_mstep_rel _ _ (groupByKind_rel psA psB h) [] [] All2.nil (fun g hg => (groupByKind_props psA g hg).2) resA hA

theorem dict_keys_rel (pA pB : Para) (h : PRel pA pB) : (toDict pA).map (·.1) = (toDict pB).map (·.1) := by
  have := h.dict
  generalize toDict pA = dA at this
  generalize toDict pB = dB at this
  induction this with
  | nil => rfl
  | cons hab _ ih => simp only [List.map_cons, hab.1, ih]

def singleTruthy (d : List (Str × DV)) : Bool :=
  match d with
  | [(_, v)] => dvTruthy v
  | _ => false

open Props.C07 in
theorem foldCond_eq (p1 p2 : Para) : foldCond p1 p2 =
    (decide (p1.kind = .license) && licenseParaIsEmpty p1 && decide (p2.kind = .catchall) &&
      decide ((toDict p2).map (·.1) = [unknownName]) && singleTruthy (toDict p2)) := by
  unfold foldCond singleTruthy
  cases toDict p2 with
  | nil => rfl
  | cons a as =>
    cases as with
    | nil => rfl
    | cons _ _ => rfl

open Props.C07 in
theorem foldCond_rel (p1 p1' p2 p2' : Para) (h1 : PRel p1 p1') (h2 : PRel p2 p2') : foldCond p1 p2 = foldCond p1' p2' := by
  rw [foldCond_eq, foldCond_eq]
  rw [← h1.kind, ← h2.kind, ← dict_keys_rel p2 p2' h2]
  by_cases hk1 : p1.kind = .license
  · rw [h1.licEmpty hk1]
    by_cases hk2 : p2.kind = .catchall
    · -- the single value: truthy in both runs or in neither
      have hd := h2.dict
      obtain ⟨s1, s2⟩ := h2.solid hk2
      have : singleTruthy (toDict p2) = singleTruthy (toDict p2') := by
        generalize toDict p2 = dA at hd s1
        generalize toDict p2' = dB at hd s2
        unfold singleTruthy
        cases hd with
        | nil => rfl
        | @cons a b as0 bs0 hab hrest =>
          cases hrest with
          | nil =>
            obtain ⟨a1, a2⟩ := a
            obtain ⟨b1, b2⟩ := b
            have ha := s1 (a1, a2) (by simp)
            have hb := s2 (b1, b2) (by simp)
            cases a2 with
            | s x =>
              cases b2 with
              | s y =>
                simp only [SolidDV] at ha hb
                have e1 : x.isEmpty = false := by cases hh : x with | nil => exact absurd hh ha.1 | cons _ _ => rfl
                have e2 : y.isEmpty = false := by cases hh : y with | nil => exact absurd hh hb.1 | cons _ _ => rfl
                simp [dvTruthy, e1, e2]
              | emptyList => exact absurd hab.2 (by simp [DVR])
            | emptyList =>
              cases b2 with
              | s y => exact absurd hab.2 (by simp [DVR])
              | emptyList => rfl
          | cons _ _ => rfl
      rw [this]
    · simp [hk2]
  · simp [hk1]

theorem lset_keys {α β} (l : List (Str × α)) (l' : List (Str × β)) (k : Str) (v : α) (v' : β)
    (h : l.map (·.1) = l'.map (·.1)) : (lset l k v).map (·.1) = (lset l' k v').map (·.1) := by
  induction l generalizing l' with
  | nil =>
    cases l' with
    | nil => rfl
    | cons _ _ => simp at h
  | cons a as ih =>
    cases l' with
    | nil => simp at h
    | cons b bs =>
      obtain ⟨a1, a2⟩ := a
      obtain ⟨b1, b2⟩ := b
      simp only [List.map_cons, List.cons.injEq] at h
      obtain ⟨hk, hr⟩ := h
      subst hk
      simp only [lset]
      by_cases e : a1 = k
      · simp [e, hr]
      · simp [e, ih bs hr]

open Props.C07 Props.C11W in
theorem fold_rel (p1 p1' p2 p2' : Para) (h1 : PRel p1 p1') (h2 : PRel p2 p2') (hc : foldCond p1 p2 = true)
    (text text' : Str) (rng rng' : Nat × Nat)
    (hd : toDict p2 = [(unknownName, XV.s text)]) (hd' : toDict p2' = [(unknownName, XV.s text')]) :
    PRel { setLicense p1 [] (some text) with lines := lset p1.lines "license".toList rng }
         { setLicense p1' [] (some text') with lines := lset p1'.lines "license".toList rng' } := by
  have hc' : foldCond p1' p2' = true := by rw [← foldCond_rel p1 p1' p2 p2' h1 h2]; exact hc
  -- the shape of both first paragraphs and of the folded ones
  have shape : ∀ (q q2 : Para) (tx : Str) (r : Nat × Nat), LicShape q → foldCond q q2 = true → toDict q2 = [(unknownName, XV.s tx)] →
      ∃ c, (toDict ({ setLicense q [] (some tx) with lines := lset q.lines "license".toList r } : Para) =
        [(licKey, XV.s (dumps (FV.license [] (some tx)))), (comKey, XV.s [])]) ∧ tx ≠ [] ∧
        (setLicense q [] (some tx)).fields = [(licKey, FV.license [] (some tx)), (comKey, FV.formatted c)] := by
    intro q q2 tx r hs hcq hdq
    unfold foldCond at hcq
    simp only [Bool.and_eq_true, decide_eq_true_eq] at hcq
    obtain ⟨⟨⟨⟨hk, hempty⟩, _⟩, _⟩, htruthy⟩ := hcq
    have htne : tx ≠ [] := by
      rw [hdq] at htruthy
      simp only [dvTruthy, Bool.not_eq_true', List.isEmpty_eq_false_iff] at htruthy
      exact htruthy
    obtain ⟨n, t, c, hf⟩ := hs hk
    unfold licenseParaIsEmpty at hempty
    simp only [Bool.and_eq_true, Bool.not_eq_true'] at hempty
    obtain ⟨⟨⟨hex, hcom⟩, _⟩, _⟩ := hempty
    have hex' : q.extra = [] := List.isEmpty_iff.mp hex
    obtain ⟨_, hct⟩ := licenseOf_shape q n t c hf
    rw [hct] at hcom
    have hf' := setLicense_shape q n t c tx hf
    have hcomd : dumps (FV.formatted c) = [] := by
      rcases optTruthy_false c hcom with rfl | rfl <;> rfl
    refine ⟨c, ?_, htne, hf'⟩
    rw [toDict_eq]
    have hex'' : ({ setLicense q [] (some tx) with lines := lset q.lines "license".toList r } : Para).extra = [] := by
      simp only [setLicense]; exact hex'
    rw [hex'']
    simp only [List.foldl_nil]
    show ((setLicense q [] (some tx)).fields.map fun nf => ((nf.1, XV.s (dumps nf.2)) : Str × DV)) = _
    rw [hf']
    simp only [List.map_cons, List.map_nil, hcomd]
  obtain ⟨c, hdA, htA, hfA⟩ := shape p1 p2 text rng h1.shapeA hc hd
  obtain ⟨c', hdB, htB, hfB⟩ := shape p1' p2' text' rng' h1.shapeB hc' hd'
  have hwt : words text = words text' := by
    have := h2.dict
    rw [hd, hd'] at this
    cases this with
    | cons hab _ => exact hab.2
  have hk1 : p1.kind = .license := by
    unfold foldCond at hc
    simp only [Bool.and_eq_true, decide_eq_true_eq] at hc
    exact hc.1.1.1.1
  constructor
  · show (setLicense p1 [] (some text)).kind = (setLicense p1' [] (some text')).kind
    simp only [setLicense]; exact h1.kind
  · rw [hdA, hdB]
    refine All2.cons ⟨rfl, ?_⟩ (All2.cons ⟨rfl, ?_⟩ All2.nil)
    · simp only [DVR, words_license_text]; exact hwt
    · simp [DVR]
  · exact lset_keys _ _ _ _ _ h1.lkeys
  · intro _
    -- a folded license has a text: not empty, in both runs
    have ne : ∀ (q : Para) (tx : Str) (r : Nat × Nat) (cc : Option Str), tx ≠ [] →
        (setLicense q [] (some tx)).fields = [(licKey, FV.license [] (some tx)), (comKey, FV.formatted cc)] →
        licenseParaIsEmpty ({ setLicense q [] (some tx) with lines := lset q.lines "license".toList r } : Para) = false := by
      intro q tx r cc htx hf
      have hlo := (licenseOf_shape ({ setLicense q [] (some tx) with lines := lset q.lines "license".toList r } : Para)
        [] (some tx) cc (by exact hf)).1
      unfold licenseParaIsEmpty
      rw [hlo]
      have : tx.isEmpty = false := by cases hh : tx with | nil => exact absurd hh htx | cons _ _ => rfl
      simp [optTruthy, this]
    rw [ne p1 text rng c htA hfA, ne p1' text' rng' c' htB hfB]
  · intro _; exact ⟨_, _, _, hfA⟩
  · intro _; exact ⟨_, _, _, hfB⟩
  · intro hk
    have : (setLicense p1 [] (some text)).kind = p1.kind := by simp [setLicense]
    have hk' : p1.kind = .catchall := by rw [← this]; exact hk
    rw [hk1] at hk'; cases hk'

theorem lookup_isSome_keys {α β} (l : List (Str × α)) (l' : List (Str × β)) (k : Str) (h : l.map (·.1) = l'.map (·.1)) :
    (l.lookup k).isSome = (l'.lookup k).isSome := by
  induction l generalizing l' with
  | nil =>
    cases l' with
    | nil => rfl
    | cons _ _ => simp at h
  | cons a as ih =>
    cases l' with
    | nil => simp at h
    | cons b bs =>
      obtain ⟨a1, a2⟩ := a
      obtain ⟨b1, b2⟩ := b
      simp only [List.map_cons, List.cons.injEq] at h
      obtain ⟨hk, hr⟩ := h
      subst hk
      by_cases e : k = a1
      · subst e; simp [List.lookup]
      · have : (k == a1) = false := by simpa using e
        simp only [List.lookup, this]
        exact ih bs hr

open Props.C07 Props.C11W in
theorem foldLoop_rel (psA psB : List Para) (h : All2 PRel psA psB) (b : Bool) (outA : List Para) (fp : Bool)
    (hA : foldLoop psA b = .ok (outA, fp)) : ∃ outB, foldLoop psB b = .ok (outB, fp) ∧ All2 PRel outA outB := by
  induction h generalizing b outA fp with
  | nil =>
    simp only [foldLoop, Except.ok.injEq, Prod.mk.injEq] at hA
    obtain ⟨rfl, rfl⟩ := hA
    exact ⟨[], rfl, All2.nil⟩
  | @cons p1 p1' rest rest' h1 hrest ih =>
    cases hrest with
    | nil =>
      simp only [foldLoop, Except.ok.injEq, Prod.mk.injEq] at hA
      obtain ⟨rfl, rfl⟩ := hA
      exact ⟨[], rfl, All2.nil⟩
    | @cons p2 p2' r r' h2 hr =>
      rw [foldLoop_unfold] at hA ⊢
      by_cases hb : b = true
      · subst hb
        simp only [if_true] at hA ⊢
        exact ih false outA fp hA
      · have hb' : b = false := by simpa using hb
        subst hb'
        simp only [Bool.false_eq_true, if_false] at hA ⊢
        rw [← foldCond_rel p1 p1' p2 p2' h1 h2]
        by_cases hc : foldCond p1 p2 = true
        · simp only [hc, if_true] at hA ⊢
          cases hd : toDict p2 with
          | nil => rw [hd] at hA; simp at hA
          | cons kv kvs =>
            cases kvs with
            | cons _ _ => rw [hd] at hA; simp at hA
            | nil =>
              obtain ⟨k, dv⟩ := kv
              cases dv with
              | emptyList => rw [hd] at hA; simp at hA
              | s text =>
                cases hl : p2.lines.lookup unknownName with
                | none => rw [hd, hl] at hA; simp at hA
                | some rng =>
                  rw [hd, hl] at hA
                  simp only at hA
                  cases hrec : foldLoop (p2 :: r) true with
                  | error e => rw [hrec] at hA; simp at hA
                  | ok res =>
                    obtain ⟨out2, fp2⟩ := res
                    rw [hrec] at hA
                    simp only [Except.ok.injEq, Prod.mk.injEq] at hA
                    obtain ⟨rfl, rfl⟩ := hA
                    obtain ⟨outB2, hB2, hrel2⟩ := ih true out2 fp2 hrec
                    -- the second paragraph of the other run has the same shape
                    have hk : k = unknownName := by
                      have hc' := hc
                      rw [foldCond_eq] at hc'
                      simp only [Bool.and_eq_true, decide_eq_true_eq] at hc'
                      have := hc'.1.2
                      rw [hd] at this
                      simpa using this
                    subst hk
                    have hdB : ∃ text', toDict p2' = [(unknownName, XV.s text')] := by
                      have := h2.dict
                      rw [hd] at this
                      generalize toDict p2' = dB at this
                      cases this with
                      | @cons a b as0 bs0 hab hr0 =>
                        cases hr0 with
                        | nil =>
                          obtain ⟨b1, b2⟩ := b
                          obtain ⟨hk1, hv⟩ := hab
                          simp only at hk1
                          subst hk1
                          cases b2 with
                          | s y => exact ⟨y, rfl⟩
                          | emptyList => exact absurd hv (by simp [DVR])
                    obtain ⟨text', hdB'⟩ := hdB
                    have hlB : ∃ rng', p2'.lines.lookup unknownName = some rng' := by
                      have := lookup_isSome_keys p2.lines p2'.lines unknownName h2.lkeys
                      rw [hl] at this
                      cases hh : p2'.lines.lookup unknownName with
                      | none => rw [hh] at this; cases this
                      | some r0 => exact ⟨r0, rfl⟩
                    obtain ⟨rng', hlB'⟩ := hlB
                    rw [hdB', hlB']
                    simp only [hB2]
                    exact ⟨_, rfl, All2.cons (fold_rel p1 p1' p2 p2' h1 h2 hc text text' rng rng' hd hdB') hrel2⟩
        · have hc' : foldCond p1 p2 = false := by simpa using hc
          simp only [hc', Bool.false_eq_true, if_false] at hA ⊢
          cases hrec : foldLoop (p2 :: r) false with
          | error e => rw [hrec] at hA; simp at hA
          | ok res =>
            obtain ⟨out2, fp2⟩ := res
            rw [hrec] at hA
            simp only [Except.ok.injEq, Prod.mk.injEq] at hA
            obtain ⟨rfl, rfl⟩ := hA
            obtain ⟨outB2, hB2, hrel2⟩ := ih false out2 fp2 hrec
            simp only [hB2]
            exact ⟨_, rfl, All2.cons h1 hrel2⟩

theorem All2.getLast_rel {α β} {R : α → β → Prop} {as : List α} {bs : List β} (h : All2 R as bs) :
    (as.getLast? = none ∧ bs.getLast? = none) ∨ ∃ a b, as.getLast? = some a ∧ bs.getLast? = some b ∧ R a b := by
  induction h with
  | nil => exact Or.inl ⟨rfl, rfl⟩
  | @cons a b as0 bs0 hab hr ih =>
    right
    cases hr with
    | nil => exact ⟨a, b, rfl, rfl, hab⟩
    | @cons a2 b2 as1 bs1 h2 hr2 =>
      rcases ih with ⟨h1, _⟩ | ⟨x, y, hx, hy, hxy⟩
      · simp at h1
      · exact ⟨x, y, by rw [List.getLast?_cons_cons]; exact hx, by rw [List.getLast?_cons_cons]; exact hy, hxy⟩

theorem foldLicense_rel (psA psB : List Para) (h : All2 PRel psA psB) (resA : List Para) (hA : foldLicense psA = .ok resA) :
    ∃ resB, foldLicense psB = .ok resB ∧ All2 PRel resA resB := by
  unfold foldLicense at hA ⊢
  have hlen : psB.length = psA.length := All2.len h
  rw [hlen]
  by_cases hl : psA.length ≤ 2
  · simp only [hl, if_true, Except.ok.injEq] at hA ⊢
    subst hA
    exact ⟨psB, rfl, h⟩
  · simp only [hl, if_false] at hA ⊢
    cases hrec : foldLoop psA false with
    | error e => rw [hrec] at hA; simp at hA
    | ok res =>
      obtain ⟨out, fp⟩ := res
      rw [hrec] at hA
      simp only at hA
      obtain ⟨outB, hB, hrel⟩ := foldLoop_rel psA psB h false out fp hrec
      rw [hB]
      simp only
      cases fp with
      | true =>
        simp only [if_true, Except.ok.injEq] at hA ⊢
        subst hA
        exact ⟨outB, rfl, hrel⟩
      | false =>
        simp only [Bool.false_eq_true, if_false] at hA ⊢
        rcases All2.getLast_rel h with ⟨h1, h2⟩ | ⟨x, y, hx, hy, hxy⟩
        · rw [h1] at hA; rw [h2]
          simp only [Except.ok.injEq] at hA ⊢
          subst hA
          exact ⟨outB, rfl, hrel⟩
        · rw [hx] at hA; rw [hy]
          simp only [Except.ok.injEq] at hA ⊢
          subst hA
          exact ⟨_, rfl, All2.append hrel (All2.cons hxy All2.nil)⟩

/-! ### Part 6: the property -/

theorem fromFieldsGroups_rel (mk : Marked) (gs : List (List Fld))
    (hO : ∀ g ∈ gs, ∀ f ∈ g, OutF mk f ∧ rstripLines f.lines = f.lines) (psA : List Para)
    (hA : fromFieldsGroups gs = .ok psA) : ∃ psB, fromFieldsGroups (mapOut mk gs) = .ok psB ∧ All2 PRel psA psB := by
  unfold fromFieldsGroups at hA ⊢
  obtain ⟨ps0A, ps0B, h1, h2, hr0⟩ := mapExcept_rel mk gs hO
  rw [h1] at hA
  rw [h2]
  simp only at hA ⊢
  cases hm : mergeUnknown ps0A with
  | error e => rw [hm] at hA; simp at hA
  | ok ps1A =>
    rw [hm] at hA
    simp only at hA
    obtain ⟨ps1B, hmB, hr1⟩ := mergeUnknown_rel ps0A ps0B hr0 ps1A hm
    rw [hmB]
    simp only
    exact foldLicense_rel ps1A ps1B hr1 psA hA

theorem parse_render (ls : List Str) (h : ∀ l ∈ ls, Proofs.LinesAscii.NoT l) : parse (render ls) = go none (numberFrom 1 ls) := by
  unfold parse linesFromText render
  have := Proofs.LinesAscii.splitLinesAscii_seps ls [] h
  simp only [List.append_nil] at this
  rw [this]
  simp [splitLinesAscii, splitLinesAsciiAux]

theorem sameWords_of (a b : DV) (h : DVR a b) : sameWords a b = true := by
  cases a with
  | s x =>
    cases b with
    | s y =>
      simp only [DVR] at h
      simp only [sameWords, h]
      exact Props.C11.sameMultiset_refl _
    | emptyList => exact absurd h (by simp [DVR])
  | emptyList =>
    cases b with
    | s y => exact absurd h (by simp [DVR])
    | emptyList => rfl

theorem sameParas_of (psA psB : List Para) (h : All2 PRel psA psB) :
    sameParas (psA.map Props.CopyrightObs.ofPara) (psB.map Props.CopyrightObs.ofPara) = true := by
  unfold sameParas
  simp only [Bool.and_eq_true, beq_iff_eq, List.length_map, List.all_eq_true]
  refine ⟨(All2.len h).symm, ?_⟩
  intro pq hpq
  rw [List.zip_map] at hpq
  obtain ⟨ab, hab, rfl⟩ := List.mem_map.mp hpq
  -- the pair comes from related paragraphs
  have hrel : PRel ab.1 ab.2 := by
    clear hpq
    induction h with
    | nil => cases hab
    | cons hxy _ ih =>
      simp only [List.zip_cons_cons, List.mem_cons] at hab
      rcases hab with rfl | hab
      · exact hxy
      · exact ih hab
  simp only [Props.CopyrightObs.ofPara, Prod.map, Bool.and_eq_true, beq_iff_eq, List.all_eq_true]
  refine ⟨⟨hrel.kind, dict_keys_rel _ _ hrel⟩, ?_⟩
  intro kv hkv
  have hd := hrel.dict
  generalize toDict ab.1 = dA at hd hkv
  generalize toDict ab.2 = dB at hd hkv
  induction hd with
  | nil => cases hkv
  | cons hxy _ ih =>
    simp only [List.zip_cons_cons, List.mem_cons] at hkv
    rcases hkv with rfl | hkv
    · exact sameWords_of _ _ hxy.2
    · exact ih hkv

/-- **C12, the copyright object** — in any well-formed document, replacing any admissible set of ` .` markers by empty or
white-space-only lines gives a copyright object with the same paragraphs, of the same classes, with the same keys and
the same words under every key -/
theorem paras_sound (i : Input) (h : wf i = true) :
    match (model i).orig.paras, (model i).blanked.paras with
    | .ok ps, .ok qs => sameParas ps qs = true
    | .error _, _ => True
    | _, .error _ => False := by
  have hwf := h
  simp only [wf, wfDoc, wfMarks, Bool.and_eq_true, List.all_eq_true, List.mem_range] at h
  obtain ⟨⟨hlines, _⟩, hmarks⟩ := h
  have hnoT : ∀ s : Str, noTerminator s = true → Proofs.LinesAscii.NoT s := by
    intro s hs
    simp only [noTerminator, Bool.and_eq_true, Bool.not_eq_true'] at hs
    exact ⟨by simpa using hs.1, by simpa using hs.2⟩
  have hA : ∀ l ∈ i.lines, Proofs.LinesAscii.NoT l := fun l hl => hnoT l (hlines l hl).1
  have hB : ∀ l ∈ blankedLines i, Proofs.LinesAscii.NoT l := by
    intro l hl
    simp only [blankedLines, List.mem_map, List.mem_range] at hl
    obtain ⟨j, hj, rfl⟩ := hl
    cases hlk : i.marks.lookup j with
    | none =>
      simp only
      have hm : i.lines.getD j [] ∈ i.lines := by
        have : i.lines[j]? = some (i.lines.getD j []) := by simp [List.getD, List.getElem?_eq_getElem hj]
        exact List.mem_of_getElem? this
      exact hA _ hm
    | some r =>
      simp only
      have := hmarks (j, r) (lookup_mem' _ _ _ hlk)
      simp only [Bool.and_eq_true] at this
      exact hnoT r this.1.1.1.1.2
  have hok := itemsOK_of_wf i hwf 0 i.lines rfl
  have hinv : StInv (mkOf i) none (itemsFrom i 0 i.lines) := by
    intro y hy
    cases hl : i.lines with
    | nil => rw [hl] at hy; simp [itemsFrom] at hy
    | cons l ls =>
      rw [hl] at hy
      simp only [itemsFrom, List.head?_cons, Option.mem_def, Option.some.injEq] at hy
      subst hy
      simp only
      have hw2 := hwf
      simp only [wf, wfDoc, Bool.and_eq_true, List.all_eq_true, List.mem_range] at hw2
      have := hw2.1.2 0 (by rw [hl]; simp)
      simp only [hl, List.getD_cons_zero, Bool.or_eq_true, Bool.not_eq_true', Bool.and_eq_true, decide_eq_true_eq] at this
      rcases this with h' | h'
      · exact h'
      · omega
  have hsim := sim (mkOf i) (itemsFrom i 0 i.lines) 1 none hok hinv
  have hout := sim_out (mkOf i) (itemsFrom i 0 i.lines) 1 none hok hinv trivial
  simp only [mapSt, origOf_itemsFrom] at hsim hout
  -- the fields of the original run are what `rstrip` leaves
  have hclean : ∀ g ∈ go none (numberFrom 1 i.lines), ∀ f ∈ g, rstripLines f.lines = f.lines := by
    intro g hg f hf
    have := Props.C10R.go_A i.lines i.lines [] rfl none trivial
    simp only [List.length_nil, Nat.zero_add] at this
    exact (this g hg f hf).clean
  simp only [model, side, fromText]
  rw [parse_render _ hA, parse_render _ hB, blankedLines_eq, hsim]
  cases hfa : fromFieldsGroups (go none (numberFrom 1 i.lines)) with
  | error e => trivial
  | ok psA =>
    obtain ⟨psB, hfb, hrel⟩ := fromFieldsGroups_rel (mkOf i) _ (fun g hg f hf => ⟨hout g hg f hf, hclean g hg f hf⟩) psA hfa
    rw [hfb]
    exact sameParas_of psA psB hrel

/-- **C12, whole**: both halves -/
theorem sound (i : Input) : holdsOn i (model i) = true := by
  unfold holdsOn
  cases hw : wf i with
  | false => rfl
  | true =>
    simp only [Bool.not_true, Bool.false_or, Bool.and_eq_true, decide_eq_true_eq]
    refine ⟨groups_sound i hw, ?_⟩
    have hp := paras_sound i hw
    -- building the object never raises (C07)
    cases ho : (model i).orig.paras with
    | error e =>
      exfalso
      simp only [model, side] at ho
      have := Props.C07.fromText_ok (render i.lines)
      obtain ⟨ps, hps⟩ := this
      rw [hps] at ho; cases ho
    | ok ps =>
      rw [ho] at hp
      cases hb : (model i).blanked.paras with
      | error e => rw [hb] at hp; exact absurd hp (by simp)
      | ok qs => rw [hb] at hp; exact hp

end Props.C12P
