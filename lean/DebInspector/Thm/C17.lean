/-
C17 — property theorems: latest-version selection is a maximum; file names round-trip (`roundtrip`).
-/
import DebInspector.Props.C17
import DebInspector.Proofs.VersionOrder
import DebInspector.Proofs.SplitJoin
import DebInspector.Proofs.VersionParse
import DebInspector.Proofs.VersionPrint

namespace Props.C17
open Py Spec Spec.VerOrder PadLex Model.Version Model.Package Proofs.VersionOrder

/-! ### insertion sort with a partial, possibly inconsistent comparison -/

theorem insertA_perm (x : Archive) : ∀ (l s : List Archive), insertA x l = some s → s.Perm (x :: l)
  | [], s, h => by simp [insertA] at h; subst h; exact List.Perm.refl _
  | y :: ys, s, h => by
    unfold insertA at h
    cases hc : archiveLt x y with
    | none => rw [hc] at h; cases h
    | some b =>
      rw [hc] at h
      cases b with
      | true => simp at h; subst h; exact List.Perm.refl _
      | false =>
        simp only [Option.map_eq_some_iff] at h
        obtain ⟨s', hs', rfl⟩ := h
        exact (List.Perm.cons y (insertA_perm x ys s' hs')).trans (List.Perm.swap x y ys)

theorem foldl_insertA_perm : ∀ (xs acc s : List Archive),
    xs.foldl (fun acc x => acc.bind (insertA x)) (some acc) = some s → s.Perm (xs.reverse ++ acc)
  | [], acc, s, h => by simp at h; subst h; simp
  | x :: xs, acc, s, h => by
    simp only [List.foldl_cons, Option.bind_some] at h
    cases hi : insertA x acc with
    | none =>
      rw [hi] at h
      have : ∀ ys : List Archive, ys.foldl (fun acc x => acc.bind (insertA x)) none = none := by
        intro ys; induction ys with
        | nil => rfl
        | cons y ys ih => simpa using ih
      rw [this] at h; cases h
    | some acc' =>
      rw [hi] at h
      have h1 := foldl_insertA_perm xs acc' s h
      have h2 := insertA_perm x acc acc' hi
      simp only [List.reverse_cons, List.append_assoc, List.singleton_append]
      exact h1.trans (List.Perm.append_left _ h2)

/-- the model sort returns a permutation of the archives -/
theorem sortA_perm (l s : List Archive) (h : sortA l = some s) : s.Perm l := by
  have := foldl_insertA_perm l [] s h
  simp only [List.append_nil] at this
  exact this.trans (List.reverse_perm _)

/-! ### the last element is a maximum of the version order -/

/-- `a`'s version is not later than `b`'s -/
def vle (a b : Archive) : Prop := verLt b.version a.version = false

structure GoodVer (v : Ver) : Prop where
  up : v.upstream.all Policy.upChar = true
  rev : v.revision.all Policy.upChar = true

theorem verLt_eq (a b : Ver) (ha : GoodVer a) (hb : GoodVer b) :
    verLt a b = decide (cmpVer dpkgRk (tupleOf a) (tupleOf b) = .lt) := by
  unfold verLt
  rw [compareVersionObjects_eq a b ha.up ha.rev hb.up hb.rev]
  cases cmpVer dpkgRk (tupleOf a) (tupleOf b) <;> simp [ordInt]

theorem vle_iff (a b : Archive) (ha : GoodVer a.version) (hb : GoodVer b.version) :
    vle a b ↔ cmpVer dpkgRk (tupleOf a.version) (tupleOf b.version) ≠ .gt := by
  unfold vle
  rw [verLt_eq _ _ hb ha]
  have p := cmpVer_pre dpkgRk
  rw [p.swap (tupleOf a.version) (tupleOf b.version)]
  cases cmpVer dpkgRk (tupleOf a.version) (tupleOf b.version) <;> simp [Ordering.swap]

theorem vle_trans (a b c : Archive) (ha : GoodVer a.version) (hb : GoodVer b.version) (hc : GoodVer c.version)
    (h1 : vle a b) (h2 : vle b c) : vle a c := by
  rw [vle_iff _ _ ha hc]
  rw [vle_iff _ _ ha hb] at h1
  rw [vle_iff _ _ hb hc] at h2
  exact (cmpVer_pre dpkgRk).trans_le _ _ _ h1 h2

theorem vle_refl (a b : Archive) (ha : GoodVer a.version) (he : a.version = b.version) : vle a b := by
  have hb : GoodVer b.version := he ▸ ha
  rw [vle_iff _ _ ha hb, he, (cmpVer_pre dpkgRk).refl]; simp

/-- what a tuple comparison between archives of one name tells about their versions -/
theorem archiveLt_true (x y : Archive) (hn : x.name = y.name) (hx : GoodVer x.version) (hy : GoodVer y.version)
    (h : archiveLt x y = some true) : vle x y := by
  unfold archiveLt at h
  simp only [hn, ne_eq, not_true_eq_false, if_false] at h
  by_cases hv : x.version = y.version
  · exact vle_refl x y hx hv
  · simp only [hv, not_false_eq_true, if_true, Option.some.injEq] at h
    rw [vle_iff _ _ hx hy]
    rw [verLt_eq _ _ hx hy] at h
    have : cmpVer dpkgRk (tupleOf x.version) (tupleOf y.version) = .lt := by simpa using h
    rw [this]; simp

theorem archiveLt_false (x y : Archive) (hn : x.name = y.name) (hx : GoodVer x.version) (hy : GoodVer y.version)
    (h : archiveLt x y = some false) : vle y x := by
  unfold archiveLt at h
  simp only [hn, ne_eq, not_true_eq_false, if_false] at h
  by_cases hv : x.version = y.version
  · exact vle_refl y x hy hv.symm
  · simp only [hv, not_false_eq_true, if_true, Option.some.injEq] at h
    exact h

def Good (n : Str) (l : List Archive) : Prop := ∀ a ∈ l, a.name = n ∧ GoodVer a.version

def SortedV (l : List Archive) : Prop := l.Pairwise vle

theorem insertA_sorted (n : Str) (x : Archive) (hx : x.name = n ∧ GoodVer x.version) :
    ∀ (l s : List Archive), Good n l → SortedV l → insertA x l = some s → SortedV s
  | [], s, _, _, h => by simp [insertA] at h; subst h; simp [SortedV]
  | y :: ys, s, hg, hs, h => by
    have hy := hg y (by simp)
    have hgys : Good n ys := fun a ha => hg a (by simp [ha])
    unfold SortedV at hs ⊢
    rw [List.pairwise_cons] at hs
    unfold insertA at h
    cases hc : archiveLt x y with
    | none => rw [hc] at h; cases h
    | some b =>
      rw [hc] at h
      cases b with
      | true =>
        simp at h; subst h
        have hxy := archiveLt_true x y (hx.1.trans hy.1.symm) hx.2 hy.2 hc
        rw [List.pairwise_cons]
        refine ⟨?_, List.pairwise_cons.mpr hs⟩
        intro z hz
        rcases List.mem_cons.mp hz with rfl | hz
        · exact hxy
        · exact vle_trans x y z hx.2 hy.2 (hgys z hz).2 hxy (hs.1 z hz)
      | false =>
        simp only [Option.map_eq_some_iff] at h
        obtain ⟨s', hs', rfl⟩ := h
        have hyx := archiveLt_false x y (hx.1.trans hy.1.symm) hx.2 hy.2 hc
        rw [List.pairwise_cons]
        refine ⟨?_, insertA_sorted n x hx ys s' hgys hs.2 hs'⟩
        intro z hz
        have hm := (insertA_perm x ys s' hs').mem_iff.mp hz
        rcases List.mem_cons.mp hm with rfl | hz'
        · exact hyx
        · exact hs.1 z hz'

theorem foldl_insertA_sorted (n : Str) : ∀ (xs acc s : List Archive), Good n xs → Good n acc → SortedV acc →
    xs.foldl (fun acc x => acc.bind (insertA x)) (some acc) = some s → SortedV s
  | [], acc, s, _, _, hs, h => by simp at h; subst h; exact hs
  | x :: xs, acc, s, hgx, hga, hs, h => by
    simp only [List.foldl_cons, Option.bind_some] at h
    cases hi : insertA x acc with
    | none =>
      rw [hi] at h
      have : ∀ ys : List Archive, ys.foldl (fun acc x => acc.bind (insertA x)) none = none := by
        intro ys; induction ys with
        | nil => rfl
        | cons y ys ih => simpa using ih
      rw [this] at h; cases h
    | some acc' =>
      rw [hi] at h
      have hx := hgx x (by simp)
      have hacc' : Good n acc' := by
        intro a ha
        have := (insertA_perm x acc acc' hi).mem_iff.mp ha
        rcases List.mem_cons.mp this with rfl | h'
        · exact hx
        · exact hga a h'
      exact foldl_insertA_sorted n xs acc' s (fun a ha => hgx a (by simp [ha])) hacc'
        (insertA_sorted n x hx acc acc' hga hs hi) h

/-- **selection is a maximum**: for archives of one name (with parsed versions), whatever the
architectures and file names, the last element of the sorted list is one of the inputs and no
input's version exceeds it under dpkg order -/
theorem last_is_max (n : Str) (l s : List Archive) (m : Archive) (hg : Good n l)
    (hs : sortA l = some s) (hm : s.getLast? = some m) :
    m ∈ l ∧ ∀ a ∈ l, vle a m := by
  have hperm := sortA_perm l s hs
  have hsorted := foldl_insertA_sorted n l [] s hg (by intro a ha; cases ha) (by simp [SortedV]) hs
  have hmem : m ∈ s := List.mem_of_getLast? hm
  refine ⟨hperm.mem_iff.mp hmem, ?_⟩
  intro a ha
  have has : a ∈ s := hperm.mem_iff.mpr ha
  -- s = init ++ [m]
  obtain ⟨init, rfl⟩ : ∃ init, s = init ++ [m] := by
    have := List.getLast?_eq_some_iff.mp hm
    obtain ⟨ys, h⟩ := this
    exact ⟨ys, h⟩
  unfold SortedV at hsorted
  rw [List.pairwise_append] at hsorted
  rcases List.mem_append.mp has with h1 | h1
  · exact hsorted.2.2 a h1 m (by simp)
  · have : a = m := by simpa using h1
    subst this
    exact vle_refl a a (hg a ha).2 rfl

end Props.C17

/-! ## file names -/

namespace Props.C17
open Py Spec Model.Package Model.Version Proofs.VersionParse Proofs.VersionPrint

/-! ### suffix tests on `stem ++ ending` -/

theorem startsWith_append_short (w x q : Str) (h : q.length ≤ w.length) :
    startsWith (w ++ x) q = startsWith w q := by
  induction q generalizing w with
  | nil => cases w <;> cases x <;> rfl
  | cons c cs ih =>
    cases w with
    | nil => simp at h
    | cons d ds =>
      simp only [List.cons_append, startsWith]
      rw [ih ds (by simpa using h)]

theorem endsWith_append_short (s w q : Str) (h : q.length ≤ w.length) : endsWith (s ++ w) q = endsWith w q := by
  unfold endsWith
  rw [List.reverse_append, startsWith_append_short _ _ _ (by simpa using h)]

theorem startsWith_self_append (w x : Str) : startsWith (w ++ x) w = true := by
  induction w with
  | nil => cases x <;> rfl
  | cons c cs ih => simp [startsWith, ih]

theorem endsWith_append_self (s w : Str) : endsWith (s ++ w) w = true := by
  unfold endsWith
  rw [List.reverse_append]
  exact startsWith_self_append _ _

theorem endsWithAny_short (s w : Str) (sufs : List String) (h : ∀ q ∈ sufs, q.toList.length ≤ w.length) :
    endsWithAny (s ++ w) sufs = endsWithAny w sufs := by
  unfold endsWithAny
  induction sufs with
  | nil => rfl
  | cons q qs ih =>
    simp only [List.any_cons]
    rw [endsWith_append_short s w q.toList (h q (by simp)), ih (fun x hx => h x (by simp [hx]))]

theorem endsWithAny_mem (s w : Str) (sufs : List String) (q : String) (hq : q ∈ sufs) (hw : q.toList = w) :
    endsWithAny (s ++ w) sufs = true := by
  unfold endsWithAny
  rw [List.any_eq_true]
  exact ⟨q, hq, by rw [hw]; exact endsWith_append_self s w⟩

/-! ### `rpartition` for a multi-character separator -/

theorem rpartitionStr_none (sep t : Str) (h : ∀ k, startsWith (t.drop k) sep = false) : rpartitionStr sep t = none := by
  induction t with
  | nil => rfl
  | cons c cs ih =>
    have h0 := h 0
    simp only [List.drop_zero] at h0
    have hcs : ∀ k, startsWith (cs.drop k) sep = false := fun k => by simpa using h (k + 1)
    simp [rpartitionStr, ih hcs, h0]

theorem rpartitionStr_last (sep a b : Str) (hne : sep ≠ [])
    (h : ∀ k, startsWith ((sep ++ b).drop (k + 1)) sep = false) :
    rpartitionStr sep (a ++ (sep ++ b)) = some (a, b) := by
  induction a with
  | nil =>
    cases hs : sep ++ b with
    | nil => cases sep <;> simp_all
    | cons c cs =>
      have hcs : ∀ k, startsWith (cs.drop k) sep = false := fun k => by
        have := h k; rw [hs] at this; simpa using this
      have hst : startsWith (c :: cs) sep = true := by rw [← hs]; exact startsWith_self_append sep b
      have hd : (c :: cs).drop sep.length = b := by rw [← hs]; simp
      simp [rpartitionStr, rpartitionStr_none sep cs hcs, hst, hd]
  | cons c cs ih => simp [rpartitionStr, ih]


/-! ### accepted versions -/

theorem valid_verChar (v : Str) (h : Policy.valid v = true) : ∀ c ∈ v, verChar c = true := by
  simp only [Policy.valid, Policy.splitEpoch, Bool.and_eq_true] at h
  obtain ⟨hve, hvr⟩ := h
  have hs := partitionChar_spec ':' v
  simp only at hs
  obtain ⟨_, h2, h3⟩ := hs
  have restChars : ∀ rest : Str, Policy.validRest rest = true → ∀ c ∈ rest, verChar c = true := by
    intro rest hr c hc
    simp only [Policy.validRest, Policy.splitRevision, Bool.and_eq_true] at hr
    have hsr := rpartitionChar_spec '-' rest
    simp only at hsr
    by_cases hf : (rpartitionChar '-' rest).2.1 = true
    · simp only [hf, if_true] at hr
      obtain ⟨⟨_, hu⟩, hrev⟩ := hr
      simp only [Bool.and_eq_true, List.all_eq_true] at hrev
      have e := (hsr.1 hf).1
      rw [e] at hc
      simp only [List.mem_append, List.mem_cons] at hc
      rcases hc with hc | hc | hc
      · simp [verChar, List.all_eq_true.mp hu c hc]
      · subst hc; decide
      · simp [verChar, revChar_upChar (hrev.2 c hc)]
    · have hf' : (rpartitionChar '-' rest).2.1 = false := by simpa using hf
      simp only [hf', Bool.false_eq_true, if_false] at hr
      simp [verChar, List.all_eq_true.mp hr.1.2 c hc]
  intro c hc
  by_cases hf : (partitionChar ':' v).2.1 = true
  · simp only [hf, if_true] at hve hvr
    have e := h2 hf
    rw [e] at hc
    simp only [List.mem_append, List.mem_cons] at hc
    simp only [Policy.validEpoch, Bool.and_eq_true, List.all_eq_true] at hve
    rcases hc with hc | hc | hc
    · simp [verChar, digit_upChar (hve.2 c hc)]
    · subst hc; decide
    · exact restChars _ hvr c hc
  · have hf' : (partitionChar ':' v).2.1 = false := by simpa using hf
    simp only [hf', Bool.false_eq_true, if_false] at hvr
    exact restChars _ hvr c hc

theorem verChar_ne {c : Char} (h : verChar c = true) : c ≠ '_' ∧ c ≠ '/' := by
  constructor <;> (intro e; subst e; revert h; decide)

/-- an accepted version parses to dpkg's decomposition of it -/
theorem accepted_fromString (v : Str) (h : accepted v = true) :
    ∃ w, fromString v = .ok w ∧ (w.epoch, w.upstream, w.revision) = Policy.split v := by
  have hvalid : Policy.valid v = true := by
    simp only [accepted, Policy.mustAccept, Bool.and_eq_true] at h
    exact h.1.1.1
  have hstrip : strip v = v := strip_id (fun c hc => verChar_not_space (valid_verChar v hvalid c hc))
  obtain ⟨w, hw⟩ := mustAccept_fromString v (by rw [hstrip]; exact h)
  have := (fromString_ok v w hw).2
  rw [hstrip] at this
  exact ⟨w, hw, this⟩


/-! ### the recognised endings -/

theorem splitext_dot (stem e : Str) (hus : '_' ∈ stem) (he : '.' ∉ e) :
    splitext (stem ++ '.' :: e) = (stem, '.' :: e) := by
  unfold splitext
  rw [rpartitionChar_split '.' stem e he]
  have : stem.all (· = '.') = false := by
    cases h : stem.all (· = '.') with
    | false => rfl
    | true =>
      have := List.all_eq_true.mp h '_' hus
      simp at this
  simp [this]

/-- `.deb`, `.udeb`, `.dsc`: the extension is split off at the last dot -/
theorem known_class0 (stem e : Str) (hus : '_' ∈ stem) (he : '.' ∉ e)
    (hmem : String.ofList ('.' :: e) ∈ tupleAt 0) : knownBasename (stem ++ '.' :: e) = some stem := by
  unfold knownBasename
  rw [endsWithAny_mem stem ('.' :: e) (tupleAt 0) _ hmem (by simp)]
  simp [splitext_dot stem e hus he]

/-- `_copyright`, `_changelog`: cut at the last underscore -/
theorem known_class1 (stem w : Str) (hw : '_' ∉ w)
    (h0 : endsWithAny ('_' :: w) (tupleAt 0) = false) (hl0 : ∀ q ∈ tupleAt 0, q.toList.length ≤ ('_' :: w).length)
    (hmem : String.ofList ('_' :: w) ∈ tupleAt 1) : knownBasename (stem ++ '_' :: w) = some stem := by
  unfold knownBasename
  rw [endsWithAny_short stem ('_' :: w) (tupleAt 0) hl0, h0]
  simp only [Bool.false_eq_true, if_false]
  rw [endsWithAny_mem stem ('_' :: w) (tupleAt 1) _ hmem (by simp)]
  simp [rpartitionChar_split '_' stem w hw]

/-- `.orig.tar.gz` …: cut at the last `.tar.`, then split off `.orig` / `.debian` -/
theorem known_class2 (stem m z : Str) (hus : '_' ∈ stem) (hm : '.' ∉ m)
    (h0 : endsWithAny ('.' :: m ++ ".tar.".toList ++ z) (tupleAt 0) = false)
    (hl0 : ∀ q ∈ tupleAt 0, q.toList.length ≤ ('.' :: m ++ ".tar.".toList ++ z).length)
    (h1 : endsWithAny ('.' :: m ++ ".tar.".toList ++ z) (tupleAt 1) = false)
    (hl1 : ∀ q ∈ tupleAt 1, q.toList.length ≤ ('.' :: m ++ ".tar.".toList ++ z).length)
    (h2 : endsWithAny ('.' :: m ++ ".tar.".toList ++ z) (tupleAt 2) = true)
    (hl2 : ∀ q ∈ tupleAt 2, q.toList.length ≤ ('.' :: m ++ ".tar.".toList ++ z).length)
    (hlast : ∀ k, startsWith ((".tar.".toList ++ z).drop (k + 1)) ".tar.".toList = false)
    (h3 : (tupleAt 3).any (fun t => t.toList = '.' :: m) = true) :
    knownBasename (stem ++ ('.' :: m ++ ".tar.".toList ++ z)) = some stem := by
  unfold knownBasename
  rw [endsWithAny_short stem _ (tupleAt 0) hl0, h0, endsWithAny_short stem _ (tupleAt 1) hl1, h1,
    endsWithAny_short stem _ (tupleAt 2) hl2, h2]
  simp only [Bool.false_eq_true, if_false, if_true]
  have e : stem ++ ('.' :: m ++ ".tar.".toList ++ z) = (stem ++ '.' :: m) ++ (".tar.".toList ++ z) := by
    simp [List.append_assoc]
  rw [e, rpartitionStr_last ".tar.".toList (stem ++ '.' :: m) z (by decide) hlast]
  simp only [splitext_dot stem m hus hm, h3, if_true]


theorem no_later (t sep : Str) (hne : sep ≠ [])
    (h : (List.range t.length).all (fun k => !startsWith (t.drop (k + 1)) sep) = true) :
    ∀ k, startsWith (t.drop (k + 1)) sep = false := by
  intro k
  by_cases hk : k < t.length
  · have := List.all_eq_true.mp h k (by simpa using hk)
    simpa using this
  · have : t.drop (k + 1) = [] := List.drop_eq_nil_of_le (by omega)
    rw [this]
    cases sep with
    | nil => exact absurd rfl hne
    | cons c cs => rfl

theorem ofList_eq {l : Str} {s : String} (h : String.ofList l = s) : l = s.toList := by
  have := congrArg String.toList h
  simpa using this

/-- every ending of the property is recognised and peeled off exactly -/
theorem known_ending (ending stem : Str) (hus : '_' ∈ stem)
    (hE : String.ofList ending ∈ binaryEndings ++ sourceEndings) :
    knownBasename (stem ++ ending) = some stem ∧ '/' ∉ ending := by
  simp only [binaryEndings, sourceEndings, List.cons_append, List.nil_append, List.mem_cons, List.not_mem_nil,
    or_false] at hE
  rcases hE with h | h | h | h | h | h | h | h | h | h | h | h | h <;> (have e := ofList_eq h; subst e)
  · exact ⟨known_class0 stem "deb".toList hus (by decide) (by decide), by decide⟩
  · exact ⟨known_class0 stem "udeb".toList hus (by decide) (by decide), by decide⟩
  · exact ⟨known_class0 stem "dsc".toList hus (by decide) (by decide), by decide⟩
  · exact ⟨known_class2 stem "orig".toList "gz".toList hus (by decide) (by decide) (by decide) (by decide) (by decide)
      (by decide) (by decide) (no_later _ _ (by decide) (by decide)) (by decide), by decide⟩
  · exact ⟨known_class2 stem "orig".toList "xz".toList hus (by decide) (by decide) (by decide) (by decide) (by decide)
      (by decide) (by decide) (no_later _ _ (by decide) (by decide)) (by decide), by decide⟩
  · exact ⟨known_class2 stem "orig".toList "bz2".toList hus (by decide) (by decide) (by decide) (by decide) (by decide)
      (by decide) (by decide) (no_later _ _ (by decide) (by decide)) (by decide), by decide⟩
  · exact ⟨known_class2 stem "orig".toList "lzma".toList hus (by decide) (by decide) (by decide) (by decide) (by decide)
      (by decide) (by decide) (no_later _ _ (by decide) (by decide)) (by decide), by decide⟩
  · exact ⟨known_class2 stem "debian".toList "gz".toList hus (by decide) (by decide) (by decide) (by decide) (by decide)
      (by decide) (by decide) (no_later _ _ (by decide) (by decide)) (by decide), by decide⟩
  · exact ⟨known_class2 stem "debian".toList "xz".toList hus (by decide) (by decide) (by decide) (by decide) (by decide)
      (by decide) (by decide) (no_later _ _ (by decide) (by decide)) (by decide), by decide⟩
  · exact ⟨known_class2 stem "debian".toList "bz2".toList hus (by decide) (by decide) (by decide) (by decide) (by decide)
      (by decide) (by decide) (no_later _ _ (by decide) (by decide)) (by decide), by decide⟩
  · exact ⟨known_class2 stem "debian".toList "lzma".toList hus (by decide) (by decide) (by decide) (by decide) (by decide)
      (by decide) (by decide) (no_later _ _ (by decide) (by decide)) (by decide), by decide⟩
  · exact ⟨known_class1 stem "copyright".toList (by decide) (by decide) (by decide) (by decide), by decide⟩
  · exact ⟨known_class1 stem "changelog".toList (by decide) (by decide) (by decide) (by decide), by decide⟩


/-! ### the round trip -/

def archPart (a : Option Str) : Str := match a with | some a => '_' :: a | none => []

def stemOf (i : InputA) : Str := i.name ++ '_' :: i.version ++ archPart i.arch

theorem render_eq (i : InputA) : render i = i.dir ++ (stemOf i ++ i.ending) := by
  simp [render, stemOf, archPart, List.append_assoc]
  cases i.arch <;> simp

theorem basename_dir (dir base : Str) (hd : dir.isEmpty = true ∨ lastP (· = '/') dir = true) (hb : '/' ∉ base) :
    basename (dir ++ base) = base := by
  unfold basename
  rcases hd with hd | hd
  · have : dir = [] := by simpa using hd
    subst this
    simp [rpartitionChar_not_mem '/' base hb]
  · obtain ⟨a, c, hac, hc⟩ := lastP_mem hd
    have : c = '/' := by simpa using hc
    subst this
    rw [hac, List.append_assoc]
    simp [rpartitionChar_split '/' a base hb]

/-- **C17, file names** — a file name built from a package name, an accepted version, (for binary
packages) an architecture, any of the thirteen endings and any directory prefix parses to exactly
that name, dpkg's decomposition of that version, that architecture, and keeps the original path -/
theorem roundtrip (i : InputA) : holdsOnA i (modelA i.filename) = true := by
  unfold holdsOnA
  cases hw : wfA i with
  | false => rfl
  | true =>
    simp only [wfA, Bool.and_eq_true, Bool.or_eq_true, Bool.not_eq_true', beq_iff_eq] at hw
    obtain ⟨⟨⟨⟨⟨⟨hdir, hnne⟩, hnus⟩, hnsl⟩, hacc⟩, harch⟩, hfn⟩ := hw
    obtain ⟨w, hw1, hw2⟩ := accepted_fromString i.version hacc
    have hvalid : Policy.valid i.version = true := by
      simp only [accepted, Policy.mustAccept, Bool.and_eq_true] at hacc
      exact hacc.1.1.1
    have hvch := valid_verChar i.version hvalid
    have hvus : '_' ∉ i.version := fun hm => (verChar_ne (hvch _ hm)).1 rfl
    have hvsl : '/' ∉ i.version := fun hm => (verChar_ne (hvch _ hm)).2 rfl
    have hnus' : '_' ∉ i.name := by simpa using hnus
    have hnsl' : '/' ∉ i.name := by simpa using hnsl
    have hstem_us : '_' ∈ stemOf i := by simp [stemOf]
    -- the ending and the architecture
    have hEA : String.ofList i.ending ∈ binaryEndings ++ sourceEndings ∧
        (∀ a, i.arch = some a → '_' ∉ a ∧ '/' ∉ a) := by
      cases ha : i.arch with
      | none =>
        rw [ha] at harch
        exact ⟨List.mem_append_right _ (by simpa using harch), by intro a h; cases h⟩
      | some a =>
        rw [ha] at harch
        simp only [Bool.and_eq_true, Bool.not_eq_true'] at harch
        refine ⟨List.mem_append_left _ (by simpa using harch.2), ?_⟩
        intro a' h'
        cases h'
        exact ⟨by simpa using harch.1.1.1.2, by simpa using harch.1.2⟩
    obtain ⟨hknown, hesl⟩ := known_ending i.ending (stemOf i) hstem_us hEA.1
    have hbase_sl : '/' ∉ stemOf i ++ i.ending := by
      intro hm
      simp only [stemOf, archPart, List.mem_append, List.mem_cons] at hm
      rcases hm with ((hm | hm | hm) | hm) | hm
      · exact hnsl' hm
      · revert hm; decide
      · exact hvsl hm
      · cases ha : i.arch with
        | none => rw [ha] at hm; cases hm
        | some a =>
          rw [ha] at hm
          simp only [List.mem_cons] at hm
          rcases hm with hm | hm
          · revert hm; decide
          · exact (hEA.2 a ha).2 hm
      · exact hesl hm
    have hbn : basename i.filename = stemOf i ++ i.ending := by
      rw [hfn, render_eq]
      exact basename_dir _ _ (by rcases hdir with h | h; exact Or.inl h; exact Or.inr h) hbase_sl
    have hmain : modelA i.filename = .ok (i.name, Policy.split i.version, i.arch, i.filename) := by
      unfold modelA debFromFilename getNva
      rw [hbn, hknown]
      simp only
      cases ha : i.arch with
      | none =>
        have hsplit : splitChar '_' (stemOf i) = [i.name, i.version] := by
          have := splitChar_join '_' [i.name, i.version] (by simp) (by
            intro p hp
            simp only [List.mem_cons, List.not_mem_nil, or_false] at hp
            rcases hp with rfl | rfl
            · exact hnus'
            · exact hvus)
          simpa [stemOf, archPart, ha, join] using this
        rw [hsplit]
        simp only [hw1, Except.map, aTup]
        simp [← hw2]
      | some a =>
        have hsplit : splitChar '_' (stemOf i) = [i.name, i.version, a] := by
          have := splitChar_join '_' [i.name, i.version, a] (by simp) (by
            intro p hp
            simp only [List.mem_cons, List.not_mem_nil, or_false] at hp
            rcases hp with rfl | rfl | rfl
            · exact hnus'
            · exact hvus
            · exact (hEA.2 _ ha).1)
          simpa [stemOf, archPart, ha, join] using this
        rw [hsplit]
        simp only [hw1, Except.map, aTup]
        simp [← hw2]
    rw [hmain]
    simp



/-! ## the rejection clause -/

def allEndings : List String := binaryEndings ++ sourceEndings

/-- no recognised ending is a suffix of another one -/
theorem endings_apart : ∀ e1 ∈ allEndings, ∀ e2 ∈ allEndings, e1 ≠ e2 → endsWith e1.toList e2.toList = false := by
  decide +kernel

theorem endsWith_iff (s q : Str) : endsWith s q = true ↔ ∃ a, s = a ++ q := by
  constructor
  · intro h; exact ⟨_, endsWith_decomp s q h⟩
  · rintro ⟨a, rfl⟩; exact endsWith_append_self a q

/-- two suffixes of the same string: the shorter is a suffix of the longer -/
theorem suffix_of_suffix (s q1 q2 : Str) (h1 : endsWith s q1 = true) (h2 : endsWith s q2 = true)
    (hl : q2.length ≤ q1.length) : endsWith q1 q2 = true := by
  obtain ⟨a1, e1⟩ := (endsWith_iff s q1).mp h1
  obtain ⟨a2, e2⟩ := (endsWith_iff s q2).mp h2
  rw [endsWith_iff]
  -- q2 is the last |q2| characters of s, which lie inside q1
  refine ⟨q1.take (q1.length - q2.length), ?_⟩
  have hd1 : s.drop (s.length - q2.length) = q2 := by
    rw [e2, List.drop_append_of_le_length (by simp)]
    simp
  have hd2 : s.drop (s.length - q2.length) = q1.drop (q1.length - q2.length) := by
    rw [e1, List.length_append]
    have : a1.length + q1.length - q2.length = a1.length + (q1.length - q2.length) := by omega
    rw [this, List.drop_append]
    simp
  have hq2 : q1.drop (q1.length - q2.length) = q2 := by rw [← hd2, hd1]
  generalize q1.length - q2.length = k at hq2 ⊢
  rw [← hq2, List.take_append_drop]


theorem findSome_unique {α β} (l : List α) (f : α → Option β) (v : β) (x : α) (hx : x ∈ l) (hfx : f x = some v)
    (hall : ∀ y ∈ l, f y = none ∨ f y = some v) : l.findSome? f = some v := by
  induction l with
  | nil => cases hx
  | cons a as ih =>
    simp only [List.findSome?_cons]
    rcases hall a (by simp) with h | h
    · rw [h]
      rcases List.mem_cons.mp hx with rfl | hx'
      · rw [hfx] at h; cases h
      · exact ih hx' (fun y hy => hall y (by simp [hy]))
    · rw [h]

/-- the stem of a base name, as the specification reads it -/
def stemB (b : Str) : Option Str :=
  allEndings.findSome? fun e => if endsWith b e.toList then some (b.take (b.length - e.length)) else none

theorem stem_eq (fn : Str) : stem fn = stemB (rpartitionChar '/' fn).2.2 := rfl

theorem stem_of (b s : Str) (e : String) (he : e ∈ allEndings) (hb : b = s ++ e.toList) : stemB b = some s := by
  unfold stemB
  have hlen : e.length = e.toList.length := String.length_toList.symm
  apply findSome_unique _ _ s e he
  · have : endsWith b e.toList = true := by rw [hb]; exact endsWith_append_self s _
    rw [if_pos this, hb, hlen]
    simp
  · intro y hy
    by_cases hyb : endsWith b y.toList = true
    · right
      -- y is the same ending
      have hbe : endsWith b e.toList = true := by rw [hb]; exact endsWith_append_self s _
      have hye : y = e := by
        by_cases hne : y = e
        · exact hne
        · exfalso
          by_cases hl : y.toList.length ≤ e.toList.length
          · have := suffix_of_suffix b e.toList y.toList hbe hyb hl
            rw [endings_apart e he y hy (fun h => hne h.symm)] at this; cases this
          · have := suffix_of_suffix b y.toList e.toList hyb hbe (by omega)
            rw [endings_apart y hy e he hne] at this; cases this
      subst hye
      rw [if_pos hyb, hb, hlen]
      simp
    · left
      simp [hyb]


theorem tuples_eq : tupleAt 0 = [".deb", ".udeb", ".dsc"] ∧ tupleAt 1 = ["_changelog", "_copyright"] ∧
    tupleAt 2 = [".tar.gz", ".tar.xz", ".tar.bz2", ".tar.lzma"] ∧ tupleAt 3 = [".orig", ".debian"] := by decide

theorem splitext_decomp (p : Str) : p = (splitext p).1 ++ (splitext p).2 := by
  unfold splitext
  have hs := rpartitionChar_spec '.' p
  simp only at hs
  by_cases hc : ((rpartitionChar '.' p).2.1 && !(rpartitionChar '.' p).1.all (· = '.')) = true
  · simp only [hc, if_true]
    simp only [Bool.and_eq_true] at hc
    exact (hs.1 hc.1).1
  · simp only [hc, if_false]
    simp

theorem mem_any (b : Str) (L : List String) (h : endsWithAny b L = true) : ∃ q ∈ L, ∃ y, b = y ++ q.toList := by
  simp only [endsWithAny, List.any_eq_true] at h
  obtain ⟨q, hq, he⟩ := h
  exact ⟨q, hq, (endsWith_iff b q.toList).mp he⟩

/-- the recognised base name, when it has an underscore, is the name minus one of the endings of the property -/
theorem known_decomp (b x : Str) (h : knownBasename b = some x) (hus : '_' ∈ x) :
    ∃ e ∈ allEndings, b = x ++ e.toList := by
  obtain ⟨t0, t1, t2, t3⟩ := tuples_eq
  unfold knownBasename at h
  by_cases h0 : endsWithAny b (tupleAt 0) = true
  · -- .deb .udeb .dsc
    simp only [h0, if_true, Option.some.injEq] at h
    obtain ⟨q, hq, y, hb⟩ := mem_any b _ h0
    rw [t0] at hq
    have key : ∀ w : Str, '.' ∉ w → '_' ∉ w → b = y ++ '.' :: w → x = y := by
      intro w hw hwu hbw
      have hr := rpartitionChar_split '.' y w hw
      rw [← hbw] at hr
      unfold splitext at h
      rw [hr] at h
      simp only [Bool.true_and] at h
      by_cases hd : y.all (· = '.') = true
      · -- only dots before the extension: no underscore anywhere
        exfalso
        simp only [hd, Bool.not_true, Bool.false_eq_true, if_false] at h
        rw [← h, hbw] at hus
        simp only [List.mem_append, List.mem_cons] at hus
        rcases hus with hm | hm | hm
        · have := List.all_eq_true.mp hd _ hm; simp at this
        · cases hm
        · exact hwu hm
      · have hd' : y.all (· = '.') = false := by simpa using hd
        simp only [hd', Bool.not_false, if_true] at h
        exact h.symm
    simp only [List.mem_cons, List.not_mem_nil, or_false] at hq
    rcases hq with rfl | rfl | rfl
    · have := key "deb".toList (by decide) (by decide) hb
      exact ⟨".deb", by decide, by rw [this]; exact hb⟩
    · have := key "udeb".toList (by decide) (by decide) hb
      exact ⟨".udeb", by decide, by rw [this]; exact hb⟩
    · have := key "dsc".toList (by decide) (by decide) hb
      exact ⟨".dsc", by decide, by rw [this]; exact hb⟩
  · have h0' : endsWithAny b (tupleAt 0) = false := by simpa using h0
    simp only [h0', Bool.false_eq_true, if_false] at h
    by_cases h1 : endsWithAny b (tupleAt 1) = true
    · -- _changelog _copyright
      simp only [h1, if_true, Option.some.injEq] at h
      obtain ⟨q, hq, y, hb⟩ := mem_any b _ h1
      rw [t1] at hq
      have key : ∀ w : Str, '_' ∉ w → b = y ++ '_' :: w → x = y := by
        intro w hw hbw
        have hr := rpartitionChar_split '_' y w hw
        rw [← hbw] at hr
        rw [hr] at h
        exact h.symm
      simp only [List.mem_cons, List.not_mem_nil, or_false] at hq
      rcases hq with rfl | rfl
      · have := key "changelog".toList (by decide) hb
        exact ⟨"_changelog", by decide, by rw [this]; exact hb⟩
      · have := key "copyright".toList (by decide) hb
        exact ⟨"_copyright", by decide, by rw [this]; exact hb⟩
    · have h1' : endsWithAny b (tupleAt 1) = false := by simpa using h1
      simp only [h1', Bool.false_eq_true, if_false] at h
      by_cases h2 : endsWithAny b (tupleAt 2) = true
      · simp only [h2, if_true] at h
        obtain ⟨q, hq, y, hb⟩ := mem_any b _ h2
        rw [t2] at hq
        -- the last `.tar.` is the one of the ending
        have key : ∀ z : Str, (∀ k, startsWith ((".tar.".toList ++ z).drop (k + 1)) ".tar.".toList = false) →
            b = y ++ (".tar.".toList ++ z) →
            ∃ m ∈ [".orig", ".debian"], y = x ++ m.toList := by
          intro z hz hbz
          have hr := rpartitionStr_last ".tar.".toList y z (by decide) hz
          rw [← hbz] at hr
          rw [hr] at h
          simp only at h
          by_cases h3 : (tupleAt 3).any (fun t => t.toList = (splitext y).2) = true
          · simp only [h3, if_true, Option.some.injEq] at h
            rw [t3] at h3
            simp only [List.any_eq_true, decide_eq_true_eq] at h3
            obtain ⟨m, hm, hme⟩ := h3
            refine ⟨m, hm, ?_⟩
            have := splitext_decomp y
            rw [h, ← hme] at this
            exact this
          · simp only [h3, if_false] at h
            cases h
        simp only [List.mem_cons, List.not_mem_nil, or_false] at hq
        rcases hq with rfl | rfl | rfl | rfl
        · obtain ⟨m, hm, hy⟩ := key "gz".toList (no_later _ _ (by decide) (by decide)) hb
          simp only [List.mem_cons, List.not_mem_nil, or_false] at hm
          rcases hm with rfl | rfl
          · exact ⟨".orig.tar.gz", by decide, by rw [hb, hy]; simp [List.append_assoc]⟩
          · exact ⟨".debian.tar.gz", by decide, by rw [hb, hy]; simp [List.append_assoc]⟩
        · obtain ⟨m, hm, hy⟩ := key "xz".toList (no_later _ _ (by decide) (by decide)) hb
          simp only [List.mem_cons, List.not_mem_nil, or_false] at hm
          rcases hm with rfl | rfl
          · exact ⟨".orig.tar.xz", by decide, by rw [hb, hy]; simp [List.append_assoc]⟩
          · exact ⟨".debian.tar.xz", by decide, by rw [hb, hy]; simp [List.append_assoc]⟩
        · obtain ⟨m, hm, hy⟩ := key "bz2".toList (no_later _ _ (by decide) (by decide)) hb
          simp only [List.mem_cons, List.not_mem_nil, or_false] at hm
          rcases hm with rfl | rfl
          · exact ⟨".orig.tar.bz2", by decide, by rw [hb, hy]; simp [List.append_assoc]⟩
          · exact ⟨".debian.tar.bz2", by decide, by rw [hb, hy]; simp [List.append_assoc]⟩
        · obtain ⟨m, hm, hy⟩ := key "lzma".toList (no_later _ _ (by decide) (by decide)) hb
          simp only [List.mem_cons, List.not_mem_nil, or_false] at hm
          rcases hm with rfl | rfl
          · exact ⟨".orig.tar.lzma", by decide, by rw [hb, hy]; simp [List.append_assoc]⟩
          · exact ⟨".debian.tar.lzma", by decide, by rw [hb, hy]; simp [List.append_assoc]⟩
      · have h2' : endsWithAny b (tupleAt 2) = false := by simpa using h2
        simp only [h2', Bool.false_eq_true, if_false] at h
        cases h


theorem sep_mem_of_two (sep : Char) (s : Str) (a b : Str) (rest : List Str) (h : splitChar sep s = a :: b :: rest) : sep ∈ s := by
  cases hm : s.contains sep with
  | true => exact List.contains_iff_mem.mp hm
  | false =>
    have : sep ∉ s := fun hmem => by
      have := List.contains_iff_mem.mpr hmem; rw [hm] at this; cases this
    rw [splitChar_not_mem sep s this] at h
    cases h

theorem getNva_error (b : Str) (e : PyExc) (h : getNva b = .error e) : e = .valueError := by
  unfold getNva at h
  cases hk : knownBasename b with
  | none => rw [hk] at h; cases h; rfl
  | some x =>
    rw [hk] at h
    simp only at h
    cases hs : splitChar '_' x with
    | nil => rw [hs] at h; cases h; rfl
    | cons n r1 =>
      cases r1 with
      | nil => rw [hs] at h; cases h; rfl
      | cons evr r2 =>
        cases r2 with
        | nil =>
          rw [hs] at h
          simp only at h
          cases hf : fromString evr with
          | error ex => rw [hf] at h; injection h with h'; rw [← h']; exact fromString_error evr ex hf
          | ok v => rw [hf] at h; cases h
        | cons arch r3 =>
          cases r3 with
          | nil =>
            rw [hs] at h
            simp only at h
            cases hf : fromString evr with
            | error ex => rw [hf] at h; injection h with h'; rw [← h']; exact fromString_error evr ex hf
            | ok v => rw [hf] at h; cases h
          | cons _ _ => rw [hs] at h; cases h; rfl

/-- an accepted file name is not one the property says must be rejected -/
theorem getNva_ok_not_rejected (fn : Str) (n : Str) (v : Ver) (a : Option Str)
    (h : getNva (basename fn) = .ok (n, v, a)) : mustReject fn = false := by
  have hb : basename fn = (rpartitionChar '/' fn).2.2 := rfl
  unfold getNva at h
  cases hk : knownBasename (basename fn) with
  | none => rw [hk] at h; cases h
  | some x =>
    rw [hk] at h
    simp only at h
    -- two or three underscore-separated parts, the second a version
    have key : ∀ (evr : Str) (hparts : ∃ n0 rest, splitChar '_' x = n0 :: evr :: rest ∧ rest.length ≤ 1)
        (hv : ∃ w, fromString evr = .ok w), mustReject fn = false := by
      intro evr hparts hv
      obtain ⟨n0, rest, hsp, hlen⟩ := hparts
      obtain ⟨w, hw⟩ := hv
      have hus : '_' ∈ x := sep_mem_of_two '_' x n0 evr rest hsp
      obtain ⟨e, he, hbe⟩ := known_decomp (basename fn) x hk hus
      have hstem : stem fn = some x := by rw [stem_eq, ← hb]; exact stem_of _ x e he hbe
      have hvalid := (fromString_ok evr w hw).1
      unfold mustReject
      rw [hstem]
      simp only [hsp]
      cases rest with
      | nil => simp [hvalid]
      | cons a1 r =>
        cases r with
        | nil => simp [hvalid]
        | cons _ _ => simp at hlen
    cases hs : splitChar '_' x with
    | nil => rw [hs] at h; cases h
    | cons n0 r1 =>
      cases r1 with
      | nil => rw [hs] at h; cases h
      | cons evr r2 =>
        cases r2 with
        | nil =>
          rw [hs] at h
          simp only at h
          cases hf : fromString evr with
          | error x => rw [hf] at h; cases h
          | ok w => exact key evr ⟨n0, [], hs, by simp⟩ ⟨w, hf⟩
        | cons arch r3 =>
          cases r3 with
          | nil =>
            rw [hs] at h
            simp only at h
            cases hf : fromString evr with
            | error x => rw [hf] at h; cases h
            | ok w => exact key evr ⟨n0, [arch], hs, by simp⟩ ⟨w, hf⟩
          | cons _ _ => rw [hs] at h; cases h

/-- **C17, the rejection clause**: a file name with no recognised extension or suffix, with a stem that is not two or
three underscore-separated parts, or with a version part that is not a valid version, is rejected with ValueError -/
theorem soundB (fn : Str) : holdsOnB fn (modelA fn) = true := by
  unfold holdsOnB
  cases hm : mustReject fn with
  | false => rfl
  | true =>
    simp only [Bool.not_true, Bool.false_or, decide_eq_true_eq]
    unfold modelA debFromFilename
    cases hg : getNva (basename fn) with
    | error e => rw [getNva_error _ e hg]; rfl
    | ok r =>
      obtain ⟨n, v, a⟩ := r
      have := getNva_ok_not_rejected fn n v a hg
      rw [hm] at this; cases this


end Props.C17
