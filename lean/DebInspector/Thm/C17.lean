/-
C17 — latest-version selection: property theorems.
-/
import DebInspector.Props.C17
import DebInspector.Proofs.VersionOrder

namespace Props.C17
open Py Spec Spec.VerOrder PadLex Model.Version Model.Package Proofs.VersionOrder

/-! ### insertion sort with a partial, possibly inconsistent comparison -/

theorem insertA_perm (x : Archive) : ∀ (l s : List Archive), insertA x l = some s → s.Perm (x :: l)
  | [], s, h => by simp [insertA] at h; subst h; exact List.Perm.refl _
  | y :: ys, s, h => by
    unfold insertA at h
    cases hc : archiveLt x y with
    | none => rw [hc] at h; cases h
    | some b =>
      rw [hc] at h
      cases b with
      | true => simp at h; subst h; exact List.Perm.refl _
      | false =>
        simp only [Option.map_eq_some_iff] at h
        obtain ⟨s', hs', rfl⟩ := h
        exact (List.Perm.cons y (insertA_perm x ys s' hs')).trans (List.Perm.swap x y ys)

theorem foldl_insertA_perm : ∀ (xs acc s : List Archive),
    xs.foldl (fun acc x => acc.bind (insertA x)) (some acc) = some s → s.Perm (xs.reverse ++ acc)
  | [], acc, s, h => by simp at h; subst h; simp
  | x :: xs, acc, s, h => by
    simp only [List.foldl_cons, Option.bind_some] at h
    cases hi : insertA x acc with
    | none =>
      rw [hi] at h
      have : ∀ ys : List Archive, ys.foldl (fun acc x => acc.bind (insertA x)) none = none := by
        intro ys; induction ys with
        | nil => rfl
        | cons y ys ih => simpa using ih
      rw [this] at h; cases h
    | some acc' =>
      rw [hi] at h
      have h1 := foldl_insertA_perm xs acc' s h
      have h2 := insertA_perm x acc acc' hi
      simp only [List.reverse_cons, List.append_assoc, List.singleton_append]
      exact h1.trans (List.Perm.append_left _ h2)

/-- the model sort returns a permutation of the archives -/
theorem sortA_perm (l s : List Archive) (h : sortA l = some s) : s.Perm l := by
  have := foldl_insertA_perm l [] s h
  simp only [List.append_nil] at this
  exact this.trans (List.reverse_perm _)

/-! ### the last element is a maximum of the version order -/

/-- `a`'s version is not later than `b`'s -/
def vle (a b : Archive) : Prop := verLt b.version a.version = false

structure GoodVer (v : Ver) : Prop where
  up : v.upstream.all Policy.upChar = true
  rev : v.revision.all Policy.upChar = true

theorem verLt_eq (a b : Ver) (ha : GoodVer a) (hb : GoodVer b) :
    verLt a b = decide (cmpVer dpkgRk (tupleOf a) (tupleOf b) = .lt) := by
  unfold verLt
  rw [compareVersionObjects_eq a b ha.up ha.rev hb.up hb.rev]
  cases cmpVer dpkgRk (tupleOf a) (tupleOf b) <;> simp [ordInt]

theorem vle_iff (a b : Archive) (ha : GoodVer a.version) (hb : GoodVer b.version) :
    vle a b ↔ cmpVer dpkgRk (tupleOf a.version) (tupleOf b.version) ≠ .gt := by
  unfold vle
  rw [verLt_eq _ _ hb ha]
  have p := cmpVer_pre dpkgRk
  rw [p.swap (tupleOf a.version) (tupleOf b.version)]
  cases cmpVer dpkgRk (tupleOf a.version) (tupleOf b.version) <;> simp [Ordering.swap]

theorem vle_trans (a b c : Archive) (ha : GoodVer a.version) (hb : GoodVer b.version) (hc : GoodVer c.version)
    (h1 : vle a b) (h2 : vle b c) : vle a c := by
  rw [vle_iff _ _ ha hc]
  rw [vle_iff _ _ ha hb] at h1
  rw [vle_iff _ _ hb hc] at h2
  exact (cmpVer_pre dpkgRk).trans_le _ _ _ h1 h2

theorem vle_refl (a b : Archive) (ha : GoodVer a.version) (he : a.version = b.version) : vle a b := by
  have hb : GoodVer b.version := he ▸ ha
  rw [vle_iff _ _ ha hb, he, (cmpVer_pre dpkgRk).refl]; simp

/-- what a tuple comparison between archives of one name tells about their versions -/
theorem archiveLt_true (x y : Archive) (hn : x.name = y.name) (hx : GoodVer x.version) (hy : GoodVer y.version)
    (h : archiveLt x y = some true) : vle x y := by
  unfold archiveLt at h
  simp only [hn, ne_eq, not_true_eq_false, if_false] at h
  by_cases hv : x.version = y.version
  · exact vle_refl x y hx hv
  · simp only [hv, not_false_eq_true, if_true, Option.some.injEq] at h
    rw [vle_iff _ _ hx hy]
    rw [verLt_eq _ _ hx hy] at h
    have : cmpVer dpkgRk (tupleOf x.version) (tupleOf y.version) = .lt := by simpa using h
    rw [this]; simp

theorem archiveLt_false (x y : Archive) (hn : x.name = y.name) (hx : GoodVer x.version) (hy : GoodVer y.version)
    (h : archiveLt x y = some false) : vle y x := by
  unfold archiveLt at h
  simp only [hn, ne_eq, not_true_eq_false, if_false] at h
  by_cases hv : x.version = y.version
  · exact vle_refl y x hy hv.symm
  · simp only [hv, not_false_eq_true, if_true, Option.some.injEq] at h
    exact h

def Good (n : Str) (l : List Archive) : Prop := ∀ a ∈ l, a.name = n ∧ GoodVer a.version

def SortedV (l : List Archive) : Prop := l.Pairwise vle

theorem insertA_sorted (n : Str) (x : Archive) (hx : x.name = n ∧ GoodVer x.version) :
    ∀ (l s : List Archive), Good n l → SortedV l → insertA x l = some s → SortedV s
  | [], s, _, _, h => by simp [insertA] at h; subst h; simp [SortedV]
  | y :: ys, s, hg, hs, h => by
    have hy := hg y (by simp)
    have hgys : Good n ys := fun a ha => hg a (by simp [ha])
    unfold SortedV at hs ⊢
    rw [List.pairwise_cons] at hs
    unfold insertA at h
    cases hc : archiveLt x y with
    | none => rw [hc] at h; cases h
    | some b =>
      rw [hc] at h
      cases b with
      | true =>
        simp at h; subst h
        have hxy := archiveLt_true x y (hx.1.trans hy.1.symm) hx.2 hy.2 hc
        rw [List.pairwise_cons]
        refine ⟨?_, List.pairwise_cons.mpr hs⟩
        intro z hz
        rcases List.mem_cons.mp hz with rfl | hz
        · exact hxy
        · exact vle_trans x y z hx.2 hy.2 (hgys z hz).2 hxy (hs.1 z hz)
      | false =>
        simp only [Option.map_eq_some_iff] at h
        obtain ⟨s', hs', rfl⟩ := h
        have hyx := archiveLt_false x y (hx.1.trans hy.1.symm) hx.2 hy.2 hc
        rw [List.pairwise_cons]
        refine ⟨?_, insertA_sorted n x hx ys s' hgys hs.2 hs'⟩
        intro z hz
        have hm := (insertA_perm x ys s' hs').mem_iff.mp hz
        rcases List.mem_cons.mp hm with rfl | hz'
        · exact hyx
        · exact hs.1 z hz'

theorem foldl_insertA_sorted (n : Str) : ∀ (xs acc s : List Archive), Good n xs → Good n acc → SortedV acc →
    xs.foldl (fun acc x => acc.bind (insertA x)) (some acc) = some s → SortedV s
  | [], acc, s, _, _, hs, h => by simp at h; subst h; exact hs
  | x :: xs, acc, s, hgx, hga, hs, h => by
    simp only [List.foldl_cons, Option.bind_some] at h
    cases hi : insertA x acc with
    | none =>
      rw [hi] at h
      have : ∀ ys : List Archive, ys.foldl (fun acc x => acc.bind (insertA x)) none = none := by
        intro ys; induction ys with
        | nil => rfl
        | cons y ys ih => simpa using ih
      rw [this] at h; cases h
    | some acc' =>
      rw [hi] at h
      have hx := hgx x (by simp)
      have hacc' : Good n acc' := by
        intro a ha
        have := (insertA_perm x acc acc' hi).mem_iff.mp ha
        rcases List.mem_cons.mp this with rfl | h'
        · exact hx
        · exact hga a h'
      exact foldl_insertA_sorted n xs acc' s (fun a ha => hgx a (by simp [ha])) hacc'
        (insertA_sorted n x hx acc acc' hga hs hi) h

/-- **selection is a maximum**: for archives of one name (with parsed versions), whatever the
architectures and file names, the last element of the sorted list is one of the inputs and no
input's version exceeds it under dpkg order -/
theorem last_is_max (n : Str) (l s : List Archive) (m : Archive) (hg : Good n l)
    (hs : sortA l = some s) (hm : s.getLast? = some m) :
    m ∈ l ∧ ∀ a ∈ l, vle a m := by
  have hperm := sortA_perm l s hs
  have hsorted := foldl_insertA_sorted n l [] s hg (by intro a ha; cases ha) (by simp [SortedV]) hs
  have hmem : m ∈ s := List.mem_of_getLast? hm
  refine ⟨hperm.mem_iff.mp hmem, ?_⟩
  intro a ha
  have has : a ∈ s := hperm.mem_iff.mpr ha
  -- s = init ++ [m]
  obtain ⟨init, rfl⟩ : ∃ init, s = init ++ [m] := by
    have := List.getLast?_eq_some_iff.mp hm
    obtain ⟨ys, h⟩ := this
    exact ⟨ys, h⟩
  unfold SortedV at hsorted
  rw [List.pairwise_append] at hsorted
  rcases List.mem_append.mp has with h1 | h1
  · exact hsorted.2.2 a h1 m (by simp)
  · have : a = m := by simpa using h1
    subst this
    exact vle_refl a a (hg a ha).2 rfl

end Props.C17
