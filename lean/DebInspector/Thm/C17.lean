/-
C17 — property theorems: latest-version selection is a maximum; file names round-trip (`roundtrip`).
-/
import DebInspector.Props.C17
import DebInspector.Proofs.VersionOrder
import DebInspector.Proofs.SplitJoin
import DebInspector.Proofs.VersionParse
import DebInspector.Proofs.VersionPrint

namespace Props.C17
open Py Spec Spec.VerOrder PadLex Model.Version Model.Package Proofs.VersionOrder

/-! ### insertion sort with a partial, possibly inconsistent comparison -/

theorem insertA_perm (x : Archive) : ∀ (l s : List Archive), insertA x l = some s → s.Perm (x :: l)
  | [], s, h => by simp [insertA] at h; subst h; exact List.Perm.refl _
  | y :: ys, s, h => by
    unfold insertA at h
    cases hc : archiveLt x y with
    | none => rw [hc] at h; cases h
    | some b =>
      rw [hc] at h
      cases b with
      | true => simp at h; subst h; exact List.Perm.refl _
      | false =>
        simp only [Option.map_eq_some_iff] at h
        obtain ⟨s', hs', rfl⟩ := h
        exact (List.Perm.cons y (insertA_perm x ys s' hs')).trans (List.Perm.swap x y ys)

theorem foldl_insertA_perm : ∀ (xs acc s : List Archive),
    xs.foldl (fun acc x => acc.bind (insertA x)) (some acc) = some s → s.Perm (xs.reverse ++ acc)
  | [], acc, s, h => by simp at h; subst h; simp
  | x :: xs, acc, s, h => by
    simp only [List.foldl_cons, Option.bind_some] at h
    cases hi : insertA x acc with
    | none =>
      rw [hi] at h
      have : ∀ ys : List Archive, ys.foldl (fun acc x => acc.bind (insertA x)) none = none := by
        intro ys; induction ys with
        | nil => rfl
        | cons y ys ih => simpa using ih
      rw [this] at h; cases h
    | some acc' =>
      rw [hi] at h
      have h1 := foldl_insertA_perm xs acc' s h
      have h2 := insertA_perm x acc acc' hi
      simp only [List.reverse_cons, List.append_assoc, List.singleton_append]
      exact h1.trans (List.Perm.append_left _ h2)

/-- the model sort returns a permutation of the archives -/
theorem sortA_perm (l s : List Archive) (h : sortA l = some s) : s.Perm l := by
  have := foldl_insertA_perm l [] s h
  simp only [List.append_nil] at this
  exact this.trans (List.reverse_perm _)

/-! ### the last element is a maximum of the version order -/

/-- `a`'s version is not later than `b`'s -/
def vle (a b : Archive) : Prop := verLt b.version a.version = false

structure GoodVer (v : Ver) : Prop where
  up : v.upstream.all Policy.upChar = true
  rev : v.revision.all Policy.upChar = true

theorem verLt_eq (a b : Ver) (ha : GoodVer a) (hb : GoodVer b) :
    verLt a b = decide (cmpVer dpkgRk (tupleOf a) (tupleOf b) = .lt) := by
  unfold verLt
  rw [compareVersionObjects_eq a b ha.up ha.rev hb.up hb.rev]
  cases cmpVer dpkgRk (tupleOf a) (tupleOf b) <;> simp [ordInt]

theorem vle_iff (a b : Archive) (ha : GoodVer a.version) (hb : GoodVer b.version) :
    vle a b ↔ cmpVer dpkgRk (tupleOf a.version) (tupleOf b.version) ≠ .gt := by
  unfold vle
  rw [verLt_eq _ _ hb ha]
  have p := cmpVer_pre dpkgRk
  rw [p.swap (tupleOf a.version) (tupleOf b.version)]
  cases cmpVer dpkgRk (tupleOf a.version) (tupleOf b.version) <;> simp [Ordering.swap]

theorem vle_trans (a b c : Archive) (ha : GoodVer a.version) (hb : GoodVer b.version) (hc : GoodVer c.version)
    (h1 : vle a b) (h2 : vle b c) : vle a c := by
  rw [vle_iff _ _ ha hc]
  rw [vle_iff _ _ ha hb] at h1
  rw [vle_iff _ _ hb hc] at h2
  exact (cmpVer_pre dpkgRk).trans_le _ _ _ h1 h2

theorem vle_refl (a b : Archive) (ha : GoodVer a.version) (he : a.version = b.version) : vle a b := by
  have hb : GoodVer b.version := he ▸ ha
  rw [vle_iff _ _ ha hb, he, (cmpVer_pre dpkgRk).refl]; simp

/-- what a tuple comparison between archives of one name tells about their versions -/
theorem archiveLt_true (x y : Archive) (hn : x.name = y.name) (hx : GoodVer x.version) (hy : GoodVer y.version)
    (h : archiveLt x y = some true) : vle x y := by
  unfold archiveLt at h
  simp only [hn, ne_eq, not_true_eq_false, if_false] at h
  by_cases hv : x.version = y.version
  · exact vle_refl x y hx hv
  · simp only [hv, not_false_eq_true, if_true, Option.some.injEq] at h
    rw [vle_iff _ _ hx hy]
    rw [verLt_eq _ _ hx hy] at h
    have : cmpVer dpkgRk (tupleOf x.version) (tupleOf y.version) = .lt := by simpa using h
    rw [this]; simp

theorem archiveLt_false (x y : Archive) (hn : x.name = y.name) (hx : GoodVer x.version) (hy : GoodVer y.version)
    (h : archiveLt x y = some false) : vle y x := by
  unfold archiveLt at h
  simp only [hn, ne_eq, not_true_eq_false, if_false] at h
  by_cases hv : x.version = y.version
  · exact vle_refl y x hy hv.symm
  · simp only [hv, not_false_eq_true, if_true, Option.some.injEq] at h
    exact h

def Good (n : Str) (l : List Archive) : Prop := ∀ a ∈ l, a.name = n ∧ GoodVer a.version

def SortedV (l : List Archive) : Prop := l.Pairwise vle

theorem insertA_sorted (n : Str) (x : Archive) (hx : x.name = n ∧ GoodVer x.version) :
    ∀ (l s : List Archive), Good n l → SortedV l → insertA x l = some s → SortedV s
  | [], s, _, _, h => by simp [insertA] at h; subst h; simp [SortedV]
  | y :: ys, s, hg, hs, h => by
    have hy := hg y (by simp)
    have hgys : Good n ys := fun a ha => hg a (by simp [ha])
    unfold SortedV at hs ⊢
    rw [List.pairwise_cons] at hs
    unfold insertA at h
    cases hc : archiveLt x y with
    | none => rw [hc] at h; cases h
    | some b =>
      rw [hc] at h
      cases b with
      | true =>
        simp at h; subst h
        have hxy := archiveLt_true x y (hx.1.trans hy.1.symm) hx.2 hy.2 hc
        rw [List.pairwise_cons]
        refine ⟨?_, List.pairwise_cons.mpr hs⟩
        intro z hz
        rcases List.mem_cons.mp hz with rfl | hz
        · exact hxy
        · exact vle_trans x y z hx.2 hy.2 (hgys z hz).2 hxy (hs.1 z hz)
      | false =>
        simp only [Option.map_eq_some_iff] at h
        obtain ⟨s', hs', rfl⟩ := h
        have hyx := archiveLt_false x y (hx.1.trans hy.1.symm) hx.2 hy.2 hc
        rw [List.pairwise_cons]
        refine ⟨?_, insertA_sorted n x hx ys s' hgys hs.2 hs'⟩
        intro z hz
        have hm := (insertA_perm x ys s' hs').mem_iff.mp hz
        rcases List.mem_cons.mp hm with rfl | hz'
        · exact hyx
        · exact hs.1 z hz'

theorem foldl_insertA_sorted (n : Str) : ∀ (xs acc s : List Archive), Good n xs → Good n acc → SortedV acc →
    xs.foldl (fun acc x => acc.bind (insertA x)) (some acc) = some s → SortedV s
  | [], acc, s, _, _, hs, h => by simp at h; subst h; exact hs
  | x :: xs, acc, s, hgx, hga, hs, h => by
    simp only [List.foldl_cons, Option.bind_some] at h
    cases hi : insertA x acc with
    | none =>
      rw [hi] at h
      have : ∀ ys : List Archive, ys.foldl (fun acc x => acc.bind (insertA x)) none = none := by
        intro ys; induction ys with
        | nil => rfl
        | cons y ys ih => simpa using ih
      rw [this] at h; cases h
    | some acc' =>
      rw [hi] at h
      have hx := hgx x (by simp)
      have hacc' : Good n acc' := by
        intro a ha
        have := (insertA_perm x acc acc' hi).mem_iff.mp ha
        rcases List.mem_cons.mp this with rfl | h'
        · exact hx
        · exact hga a h'
      exact foldl_insertA_sorted n xs acc' s (fun a ha => hgx a (by simp [ha])) hacc'
        (insertA_sorted n x hx acc acc' hga hs hi) h

/-- **selection is a maximum**: for archives of one name (with parsed versions), whatever the
architectures and file names, the last element of the sorted list is one of the inputs and no
input's version exceeds it under dpkg order -/
theorem last_is_max (n : Str) (l s : List Archive) (m : Archive) (hg : Good n l)
    (hs : sortA l = some s) (hm : s.getLast? = some m) :
    m ∈ l ∧ ∀ a ∈ l, vle a m := by
  have hperm := sortA_perm l s hs
  have hsorted := foldl_insertA_sorted n l [] s hg (by intro a ha; cases ha) (by simp [SortedV]) hs
  have hmem : m ∈ s := List.mem_of_getLast? hm
  refine ⟨hperm.mem_iff.mp hmem, ?_⟩
  intro a ha
  have has : a ∈ s := hperm.mem_iff.mpr ha
  -- s = init ++ [m]
  obtain ⟨init, rfl⟩ : ∃ init, s = init ++ [m] := by
    have := List.getLast?_eq_some_iff.mp hm
    obtain ⟨ys, h⟩ := this
    exact ⟨ys, h⟩
  unfold SortedV at hsorted
  rw [List.pairwise_append] at hsorted
  rcases List.mem_append.mp has with h1 | h1
  · exact hsorted.2.2 a h1 m (by simp)
  · have : a = m := by simpa using h1
    subst this
    exact vle_refl a a (hg a ha).2 rfl

end Props.C17

/-! ## file names -/

namespace Props.C17
open Py Spec Model.Package Model.Version Proofs.VersionParse Proofs.VersionPrint

/-! ### suffix tests on `stem ++ ending` -/

theorem startsWith_append_short (w x q : Str) (h : q.length ≤ w.length) :
    startsWith (w ++ x) q = startsWith w q := by
  induction q generalizing w with
  | nil => cases w <;> cases x <;> rfl
  | cons c cs ih =>
    cases w with
    | nil => simp at h
    | cons d ds =>
      simp only [List.cons_append, startsWith]
      rw [ih ds (by simpa using h)]

theorem endsWith_append_short (s w q : Str) (h : q.length ≤ w.length) : endsWith (s ++ w) q = endsWith w q := by
  unfold endsWith
  rw [List.reverse_append, startsWith_append_short _ _ _ (by simpa using h)]

theorem startsWith_self_append (w x : Str) : startsWith (w ++ x) w = true := by
  induction w with
  | nil => cases x <;> rfl
  | cons c cs ih => simp [startsWith, ih]

theorem endsWith_append_self (s w : Str) : endsWith (s ++ w) w = true := by
  unfold endsWith
  rw [List.reverse_append]
  exact startsWith_self_append _ _

theorem endsWithAny_short (s w : Str) (sufs : List String) (h : ∀ q ∈ sufs, q.toList.length ≤ w.length) :
    endsWithAny (s ++ w) sufs = endsWithAny w sufs := by
  unfold endsWithAny
  induction sufs with
  | nil => rfl
  | cons q qs ih =>
    simp only [List.any_cons]
    rw [endsWith_append_short s w q.toList (h q (by simp)), ih (fun x hx => h x (by simp [hx]))]

theorem endsWithAny_mem (s w : Str) (sufs : List String) (q : String) (hq : q ∈ sufs) (hw : q.toList = w) :
    endsWithAny (s ++ w) sufs = true := by
  unfold endsWithAny
  rw [List.any_eq_true]
  exact ⟨q, hq, by rw [hw]; exact endsWith_append_self s w⟩

/-! ### `rpartition` for a multi-character separator -/

theorem rpartitionStr_none (sep t : Str) (h : ∀ k, startsWith (t.drop k) sep = false) : rpartitionStr sep t = none := by
  induction t with
  | nil => rfl
  | cons c cs ih =>
    have h0 := h 0
    simp only [List.drop_zero] at h0
    have hcs : ∀ k, startsWith (cs.drop k) sep = false := fun k => by simpa using h (k + 1)
    simp [rpartitionStr, ih hcs, h0]

theorem rpartitionStr_last (sep a b : Str) (hne : sep ≠ [])
    (h : ∀ k, startsWith ((sep ++ b).drop (k + 1)) sep = false) :
    rpartitionStr sep (a ++ (sep ++ b)) = some (a, b) := by
  induction a with
  | nil =>
    cases hs : sep ++ b with
    | nil => cases sep <;> simp_all
    | cons c cs =>
      have hcs : ∀ k, startsWith (cs.drop k) sep = false := fun k => by
        have := h k; rw [hs] at this; simpa using this
      have hst : startsWith (c :: cs) sep = true := by rw [← hs]; exact startsWith_self_append sep b
      have hd : (c :: cs).drop sep.length = b := by rw [← hs]; simp
      simp [rpartitionStr, rpartitionStr_none sep cs hcs, hst, hd]
  | cons c cs ih => simp [rpartitionStr, ih]


/-! ### accepted versions -/

theorem valid_verChar (v : Str) (h : Policy.valid v = true) : ∀ c ∈ v, verChar c = true := by
  simp only [Policy.valid, Policy.splitEpoch, Bool.and_eq_true] at h
  obtain ⟨hve, hvr⟩ := h
  have hs := partitionChar_spec ':' v
  simp only at hs
  obtain ⟨_, h2, h3⟩ := hs
  have restChars : ∀ rest : Str, Policy.validRest rest = true → ∀ c ∈ rest, verChar c = true := by
    intro rest hr c hc
    simp only [Policy.validRest, Policy.splitRevision, Bool.and_eq_true] at hr
    have hsr := rpartitionChar_spec '-' rest
    simp only at hsr
    by_cases hf : (rpartitionChar '-' rest).2.1 = true
    · simp only [hf, if_true] at hr
      obtain ⟨⟨_, hu⟩, hrev⟩ := hr
      simp only [Bool.and_eq_true, List.all_eq_true] at hrev
      have e := (hsr.1 hf).1
      rw [e] at hc
      simp only [List.mem_append, List.mem_cons] at hc
      rcases hc with hc | hc | hc
      · simp [verChar, List.all_eq_true.mp hu c hc]
      · subst hc; decide
      · simp [verChar, revChar_upChar (hrev.2 c hc)]
    · have hf' : (rpartitionChar '-' rest).2.1 = false := by simpa using hf
      simp only [hf', Bool.false_eq_true, if_false] at hr
      simp [verChar, List.all_eq_true.mp hr.1.2 c hc]
  intro c hc
  by_cases hf : (partitionChar ':' v).2.1 = true
  · simp only [hf, if_true] at hve hvr
    have e := h2 hf
    rw [e] at hc
    simp only [List.mem_append, List.mem_cons] at hc
    simp only [Policy.validEpoch, Bool.and_eq_true, List.all_eq_true] at hve
    rcases hc with hc | hc | hc
    · simp [verChar, digit_upChar (hve.2 c hc)]
    · subst hc; decide
    · exact restChars _ hvr c hc
  · have hf' : (partitionChar ':' v).2.1 = false := by simpa using hf
    simp only [hf', Bool.false_eq_true, if_false] at hvr
    exact restChars _ hvr c hc

theorem verChar_ne {c : Char} (h : verChar c = true) : c ≠ '_' ∧ c ≠ '/' := by
  constructor <;> (intro e; subst e; revert h; decide)

/-- an accepted version parses to dpkg's decomposition of it -/
theorem accepted_fromString (v : Str) (h : accepted v = true) :
    ∃ w, fromString v = .ok w ∧ (w.epoch, w.upstream, w.revision) = Policy.split v := by
  have hvalid : Policy.valid v = true := by
    simp only [accepted, Policy.mustAccept, Bool.and_eq_true] at h
    exact h.1.1.1
  have hstrip : strip v = v := strip_id (fun c hc => verChar_not_space (valid_verChar v hvalid c hc))
  obtain ⟨w, hw⟩ := mustAccept_fromString v (by rw [hstrip]; exact h)
  have := (fromString_ok v w hw).2
  rw [hstrip] at this
  exact ⟨w, hw, this⟩


/-! ### the recognised endings -/

theorem splitext_dot (stem e : Str) (hus : '_' ∈ stem) (he : '.' ∉ e) :
    splitext (stem ++ '.' :: e) = (stem, '.' :: e) := by
  unfold splitext
  rw [rpartitionChar_split '.' stem e he]
  have : stem.all (· = '.') = false := by
    cases h : stem.all (· = '.') with
    | false => rfl
    | true =>
      have := List.all_eq_true.mp h '_' hus
      simp at this
  simp [this]

/-- `.deb`, `.udeb`, `.dsc`: the extension is split off at the last dot -/
theorem known_class0 (stem e : Str) (hus : '_' ∈ stem) (he : '.' ∉ e)
    (hmem : String.ofList ('.' :: e) ∈ tupleAt 0) : knownBasename (stem ++ '.' :: e) = some stem := by
  unfold knownBasename
  rw [endsWithAny_mem stem ('.' :: e) (tupleAt 0) _ hmem (by simp)]
  simp [splitext_dot stem e hus he]

/-- `_copyright`, `_changelog`: cut at the last underscore -/
theorem known_class1 (stem w : Str) (hw : '_' ∉ w)
    (h0 : endsWithAny ('_' :: w) (tupleAt 0) = false) (hl0 : ∀ q ∈ tupleAt 0, q.toList.length ≤ ('_' :: w).length)
    (hmem : String.ofList ('_' :: w) ∈ tupleAt 1) : knownBasename (stem ++ '_' :: w) = some stem := by
  unfold knownBasename
  rw [endsWithAny_short stem ('_' :: w) (tupleAt 0) hl0, h0]
  simp only [Bool.false_eq_true, if_false]
  rw [endsWithAny_mem stem ('_' :: w) (tupleAt 1) _ hmem (by simp)]
  simp [rpartitionChar_split '_' stem w hw]

/-- `.orig.tar.gz` …: cut at the last `.tar.`, then split off `.orig` / `.debian` -/
theorem known_class2 (stem m z : Str) (hus : '_' ∈ stem) (hm : '.' ∉ m)
    (h0 : endsWithAny ('.' :: m ++ ".tar.".toList ++ z) (tupleAt 0) = false)
    (hl0 : ∀ q ∈ tupleAt 0, q.toList.length ≤ ('.' :: m ++ ".tar.".toList ++ z).length)
    (h1 : endsWithAny ('.' :: m ++ ".tar.".toList ++ z) (tupleAt 1) = false)
    (hl1 : ∀ q ∈ tupleAt 1, q.toList.length ≤ ('.' :: m ++ ".tar.".toList ++ z).length)
    (h2 : endsWithAny ('.' :: m ++ ".tar.".toList ++ z) (tupleAt 2) = true)
    (hl2 : ∀ q ∈ tupleAt 2, q.toList.length ≤ ('.' :: m ++ ".tar.".toList ++ z).length)
    (hlast : ∀ k, startsWith ((".tar.".toList ++ z).drop (k + 1)) ".tar.".toList = false)
    (h3 : (tupleAt 3).any (fun t => t.toList = '.' :: m) = true) :
    knownBasename (stem ++ ('.' :: m ++ ".tar.".toList ++ z)) = some stem := by
  unfold knownBasename
  rw [endsWithAny_short stem _ (tupleAt 0) hl0, h0, endsWithAny_short stem _ (tupleAt 1) hl1, h1,
    endsWithAny_short stem _ (tupleAt 2) hl2, h2]
  simp only [Bool.false_eq_true, if_false, if_true]
  have e : stem ++ ('.' :: m ++ ".tar.".toList ++ z) = (stem ++ '.' :: m) ++ (".tar.".toList ++ z) := by
    simp [List.append_assoc]
  rw [e, rpartitionStr_last ".tar.".toList (stem ++ '.' :: m) z (by decide) hlast]
  simp only [splitext_dot stem m hus hm, h3, if_true]


theorem no_later (t sep : Str) (hne : sep ≠ [])
    (h : (List.range t.length).all (fun k => !startsWith (t.drop (k + 1)) sep) = true) :
    ∀ k, startsWith (t.drop (k + 1)) sep = false := by
  intro k
  by_cases hk : k < t.length
  · have := List.all_eq_true.mp h k (by simpa using hk)
    simpa using this
  · have : t.drop (k + 1) = [] := List.drop_eq_nil_of_le (by omega)
    rw [this]
    cases sep with
    | nil => exact absurd rfl hne
    | cons c cs => rfl

theorem ofList_eq {l : Str} {s : String} (h : String.ofList l = s) : l = s.toList := by
  have := congrArg String.toList h
  simpa using this

/-- every ending of the property is recognised and peeled off exactly -/
theorem known_ending (ending stem : Str) (hus : '_' ∈ stem)
    (hE : String.ofList ending ∈ binaryEndings ++ sourceEndings) :
    knownBasename (stem ++ ending) = some stem ∧ '/' ∉ ending := by
  simp only [binaryEndings, sourceEndings, List.cons_append, List.nil_append, List.mem_cons, List.not_mem_nil,
    or_false] at hE
  rcases hE with h | h | h | h | h | h | h | h | h | h | h | h | h <;> (have e := ofList_eq h; subst e)
  · exact ⟨known_class0 stem "deb".toList hus (by decide) (by decide), by decide⟩
  · exact ⟨known_class0 stem "udeb".toList hus (by decide) (by decide), by decide⟩
  · exact ⟨known_class0 stem "dsc".toList hus (by decide) (by decide), by decide⟩
  · exact ⟨known_class2 stem "orig".toList "gz".toList hus (by decide) (by decide) (by decide) (by decide) (by decide)
      (by decide) (by decide) (no_later _ _ (by decide) (by decide)) (by decide), by decide⟩
  · exact ⟨known_class2 stem "orig".toList "xz".toList hus (by decide) (by decide) (by decide) (by decide) (by decide)
      (by decide) (by decide) (no_later _ _ (by decide) (by decide)) (by decide), by decide⟩
  · exact ⟨known_class2 stem "orig".toList "bz2".toList hus (by decide) (by decide) (by decide) (by decide) (by decide)
      (by decide) (by decide) (no_later _ _ (by decide) (by decide)) (by decide), by decide⟩
  · exact ⟨known_class2 stem "orig".toList "lzma".toList hus (by decide) (by decide) (by decide) (by decide) (by decide)
      (by decide) (by decide) (no_later _ _ (by decide) (by decide)) (by decide), by decide⟩
  · exact ⟨known_class2 stem "debian".toList "gz".toList hus (by decide) (by decide) (by decide) (by decide) (by decide)
      (by decide) (by decide) (no_later _ _ (by decide) (by decide)) (by decide), by decide⟩
  · exact ⟨known_class2 stem "debian".toList "xz".toList hus (by decide) (by decide) (by decide) (by decide) (by decide)
      (by decide) (by decide) (no_later _ _ (by decide) (by decide)) (by decide), by decide⟩
  · exact ⟨known_class2 stem "debian".toList "bz2".toList hus (by decide) (by decide) (by decide) (by decide) (by decide)
      (by decide) (by decide) (no_later _ _ (by decide) (by decide)) (by decide), by decide⟩
  · exact ⟨known_class2 stem "debian".toList "lzma".toList hus (by decide) (by decide) (by decide) (by decide) (by decide)
      (by decide) (by decide) (no_later _ _ (by decide) (by decide)) (by decide), by decide⟩
  · exact ⟨known_class1 stem "copyright".toList (by decide) (by decide) (by decide) (by decide), by decide⟩
  · exact ⟨known_class1 stem "changelog".toList (by decide) (by decide) (by decide) (by decide), by decide⟩


/-! ### the round trip -/

def archPart (a : Option Str) : Str := match a with | some a => '_' :: a | none => []

def stemOf (i : InputA) : Str := i.name ++ '_' :: i.version ++ archPart i.arch

theorem render_eq (i : InputA) : render i = i.dir ++ (stemOf i ++ i.ending) := by
  simp [render, stemOf, archPart, List.append_assoc]
  cases i.arch <;> simp

theorem basename_dir (dir base : Str) (hd : dir.isEmpty = true ∨ lastP (· = '/') dir = true) (hb : '/' ∉ base) :
    basename (dir ++ base) = base := by
  unfold basename
  rcases hd with hd | hd
  · have : dir = [] := by simpa using hd
    subst this
    simp [rpartitionChar_not_mem '/' base hb]
  · obtain ⟨a, c, hac, hc⟩ := lastP_mem hd
    have : c = '/' := by simpa using hc
    subst this
    rw [hac, List.append_assoc]
    simp [rpartitionChar_split '/' a base hb]

/-- **C17, file names** — a file name built from a package name, an accepted version, (for binary
packages) an architecture, any of the thirteen endings and any directory prefix parses to exactly
that name, dpkg's decomposition of that version, that architecture, and keeps the original path -/
theorem roundtrip (i : InputA) : holdsOnA i (modelA i.filename) = true := by
  unfold holdsOnA
  cases hw : wfA i with
  | false => rfl
  | true =>
    simp only [wfA, Bool.and_eq_true, Bool.or_eq_true, Bool.not_eq_true', beq_iff_eq] at hw
    obtain ⟨⟨⟨⟨⟨⟨hdir, hnne⟩, hnus⟩, hnsl⟩, hacc⟩, harch⟩, hfn⟩ := hw
    obtain ⟨w, hw1, hw2⟩ := accepted_fromString i.version hacc
    have hvalid : Policy.valid i.version = true := by
      simp only [accepted, Policy.mustAccept, Bool.and_eq_true] at hacc
      exact hacc.1.1.1
    have hvch := valid_verChar i.version hvalid
    have hvus : '_' ∉ i.version := fun hm => (verChar_ne (hvch _ hm)).1 rfl
    have hvsl : '/' ∉ i.version := fun hm => (verChar_ne (hvch _ hm)).2 rfl
    have hnus' : '_' ∉ i.name := by simpa using hnus
    have hnsl' : '/' ∉ i.name := by simpa using hnsl
    have hstem_us : '_' ∈ stemOf i := by simp [stemOf]
    -- the ending and the architecture
    have hEA : String.ofList i.ending ∈ binaryEndings ++ sourceEndings ∧
        (∀ a, i.arch = some a → '_' ∉ a ∧ '/' ∉ a) := by
      cases ha : i.arch with
      | none =>
        rw [ha] at harch
        exact ⟨List.mem_append_right _ (by simpa using harch), by intro a h; cases h⟩
      | some a =>
        rw [ha] at harch
        simp only [Bool.and_eq_true, Bool.not_eq_true'] at harch
        refine ⟨List.mem_append_left _ (by simpa using harch.2), ?_⟩
        intro a' h'
        cases h'
        exact ⟨by simpa using harch.1.1.1.2, by simpa using harch.1.2⟩
    obtain ⟨hknown, hesl⟩ := known_ending i.ending (stemOf i) hstem_us hEA.1
    have hbase_sl : '/' ∉ stemOf i ++ i.ending := by
      intro hm
      simp only [stemOf, archPart, List.mem_append, List.mem_cons] at hm
      rcases hm with ((hm | hm | hm) | hm) | hm
      · exact hnsl' hm
      · revert hm; decide
      · exact hvsl hm
      · cases ha : i.arch with
        | none => rw [ha] at hm; cases hm
        | some a =>
          rw [ha] at hm
          simp only [List.mem_cons] at hm
          rcases hm with hm | hm
          · revert hm; decide
          · exact (hEA.2 a ha).2 hm
      · exact hesl hm
    have hbn : basename i.filename = stemOf i ++ i.ending := by
      rw [hfn, render_eq]
      exact basename_dir _ _ (by rcases hdir with h | h; exact Or.inl h; exact Or.inr h) hbase_sl
    have hmain : modelA i.filename = .ok (i.name, Policy.split i.version, i.arch, i.filename) := by
      unfold modelA debFromFilename getNva
      rw [hbn, hknown]
      simp only
      cases ha : i.arch with
      | none =>
        have hsplit : splitChar '_' (stemOf i) = [i.name, i.version] := by
          have := splitChar_join '_' [i.name, i.version] (by simp) (by
            intro p hp
            simp only [List.mem_cons, List.not_mem_nil, or_false] at hp
            rcases hp with rfl | rfl
            · exact hnus'
            · exact hvus)
          simpa [stemOf, archPart, ha, join] using this
        rw [hsplit]
        simp only [hw1, Except.map, aTup]
        simp [← hw2]
      | some a =>
        have hsplit : splitChar '_' (stemOf i) = [i.name, i.version, a] := by
          have := splitChar_join '_' [i.name, i.version, a] (by simp) (by
            intro p hp
            simp only [List.mem_cons, List.not_mem_nil, or_false] at hp
            rcases hp with rfl | rfl | rfl
            · exact hnus'
            · exact hvus
            · exact (hEA.2 _ ha).1)
          simpa [stemOf, archPart, ha, join] using this
        rw [hsplit]
        simp only [hw1, Except.map, aTup]
        simp [← hw2]
    rw [hmain]
    simp


end Props.C17
